package quic_test

// C01, part fc-blocked: transfers that are limited by FLOW CONTROL (stream window, connection
// window, stream-count limit) rather than by the congestion window. The writer uses up the
// credit the reader's endpoint advertised and then depends on the credit-carrying control
// frames (MAX_STREAM_DATA, MAX_DATA, MAX_STREAMS) of the opposite direction: when the network
// loses, duplicates, reorders or damages the datagram that carries one, the credit has to
// arrive all the same, otherwise the transfer stalls although the path is alive.
//
// Alphabet = (which limit, window size relative to a packet, transfer size relative to the
// window, reader behaviour, stream direction, client kind) x (fate of one datagram of the
// fault-free run, either direction, handshake included). Oracle: the byte-array oracle of
// c01_test.go on every Read plus the statement's liveness clause (one fault or an outage of
// 100 ms [thorough: 1 s] is far from "dead for longer than the idle timeout": every transfer
// completes, no side reports an error).

import (
	"fmt"
	"slices"
	"testing"
	"time"

	quic "github.com/refraction-networking/uquic"
	"github.com/refraction-networking/uquic/internal/verifmc/explore"
	"github.com/refraction-networking/uquic/internal/verifmc/sim"
	tls "github.com/refraction-networking/utls"
)

// c01Reader is how the receiving application takes the data.
type c01Reader struct {
	Name  string
	Buf   func(window int) int
	Pause time.Duration
}

var c01Readers = []c01Reader{
	// lets the window fill up (10 RTT), then takes everything that is buffered with ONE Read:
	// one window update per window, nothing later that could make up for a lost one
	{"drain", func(int) int { return 1 << 16 }, 100 * time.Millisecond},
	// a few medium Reads with pauses: every Read crosses the 25 % update threshold
	{"half", func(w int) int { return w/2 + 1 }, 30 * time.Millisecond},
	// continuous small Reads
	{"small", func(w int) int { return max(w/16, 64) }, 0},
}

var c01FCScenarios = c01MakeFCScenarios()

func c01MakeFCScenarios() []c01Scenario {
	var out []c01Scenario
	one := func(name string, kind string, window, size int, r c01Reader) c01Scenario {
		return c01Scenario{Name: name, FC: true, StreamWindow: window, Streams: []c01Stream{
			{Kind: kind, Size: size, Chunks: []int{size}, ReadBuf: r.Buf(window), ReadPause: r.Pause},
		}}
	}
	// stream window: smaller than one packet | a few packets; transfer = 3 windows + a bit
	for _, kind := range []string{"uni-c2s", "uni-s2c", "bidi-echo"} {
		for _, w := range []int{1000, 5000} {
			for _, r := range c01Readers {
				out = append(out, one(fmt.Sprintf("fc-%s-w%d-%s", kind, w, r.Name), kind, w, 3*w+77, r))
			}
		}
	}
	// transfer size at the edge of the window: exactly the window (no further credit needed, the
	// FIN needs none), one byte more (one update needed for one byte)
	for _, kind := range []string{"uni-c2s", "uni-s2c"} {
		for _, extra := range []int{0, 1} {
			out = append(out, one(fmt.Sprintf("fc-%s-w5000-size+%d-drain", kind, extra), kind, 5000, 5000+extra, c01Readers[0]))
		}
	}
	// connection window (stream windows at their default, far larger): streams share the credit
	dr, ha, sm := c01Readers[0], c01Readers[1], c01Readers[2]
	const cw = 6000
	out = append(out,
		c01Scenario{Name: "fc-conn-upload", FC: true, ConnWindow: cw, Streams: []c01Stream{
			{Kind: "uni-c2s", Size: 9000, Chunks: []int{9000}, ReadBuf: dr.Buf(cw), ReadPause: dr.Pause},
			{Kind: "uni-c2s", Size: 4000, Chunks: []int{1500}, ReadBuf: sm.Buf(cw), ReadPause: sm.Pause},
		}},
		c01Scenario{Name: "fc-conn-download-echo", FC: true, ConnWindow: cw, Streams: []c01Stream{
			{Kind: "uni-s2c", Size: 9000, Chunks: []int{9000}, ReadBuf: dr.Buf(cw), ReadPause: dr.Pause},
			{Kind: "bidi-echo", Size: 7000, Chunks: []int{7000}, ReadBuf: ha.Buf(cw), ReadPause: ha.Pause},
		}},
		// both limits at once
		c01Scenario{Name: "fc-conn+stream-upload", FC: true, ConnWindow: cw, StreamWindow: 4000, Streams: []c01Stream{
			{Kind: "uni-c2s", Size: 9000, Chunks: []int{9000}, ReadBuf: dr.Buf(cw), ReadPause: dr.Pause},
			{Kind: "uni-c2s", Size: 9000, Chunks: []int{9000}, ReadBuf: dr.Buf(cw), ReadPause: 70 * time.Millisecond},
		}},
	)
	// stream-count limit: more streams than the peer allows at a time; the opener waits in
	// Open(Uni)StreamSync for MAX_STREAMS
	small := func(kind string, size int) c01Stream {
		return c01Stream{Kind: kind, Size: size, ReadBuf: 4096}
	}
	out = append(out,
		c01Scenario{Name: "fc-streams-c2s", FC: true, MaxStreams: 2, Streams: []c01Stream{
			small("uni-c2s", 300), small("uni-c2s", 1), small("uni-c2s", 1300), small("uni-c2s", 0), small("uni-c2s", 200),
			small("bidi-echo", 200), small("bidi-echo", 0), small("bidi-echo", 1300), small("bidi-echo", 10),
		}},
		c01Scenario{Name: "fc-streams-s2c", FC: true, MaxStreams: 1, Streams: []c01Stream{
			small("uni-s2c", 300), small("uni-s2c", 1300), small("uni-s2c", 0), small("uni-s2c", 20),
		}},
	)
	return out
}

// c01KindFor: client kind "chrome115-fc" is the Chrome_115 spec whose QUIC transport
// parameters advertise the scenario's receive windows / stream limits (a QUICSpec is the
// only place a spec-driven client's advertised limits come from); the other kinds are
// independent of the scenario.
func c01KindFor(name string, sc c01Scenario) sim.ClientKind {
	if name != "chrome115-fc" {
		return c01Kind(name)
	}
	return sim.ClientKind{Name: name, U: true, Spec: func() *quic.QUICSpec {
		s, err := quic.QUICID2Spec(quic.QUICChrome_115)
		if err != nil {
			panic(err)
		}
		found := false
		for _, e := range s.ClientHelloSpec.Extensions {
			q, ok := e.(*tls.QUICTransportParametersExtension)
			if !ok {
				continue
			}
			found = true
			l := slices.Clone(q.TransportParameters)
			for i, tp := range l {
				switch tp.(type) {
				case tls.InitialMaxStreamDataBidiLocal:
					if sc.StreamWindow > 0 {
						l[i] = tls.InitialMaxStreamDataBidiLocal(sc.StreamWindow)
					}
				case tls.InitialMaxStreamDataBidiRemote:
					if sc.StreamWindow > 0 {
						l[i] = tls.InitialMaxStreamDataBidiRemote(sc.StreamWindow)
					}
				case tls.InitialMaxStreamDataUni:
					if sc.StreamWindow > 0 {
						l[i] = tls.InitialMaxStreamDataUni(sc.StreamWindow)
					}
				case tls.InitialMaxData:
					if sc.ConnWindow > 0 {
						l[i] = tls.InitialMaxData(sc.ConnWindow)
					}
				case tls.InitialMaxStreamsBidi:
					if sc.MaxStreams > 0 {
						l[i] = tls.InitialMaxStreamsBidi(sc.MaxStreams)
					}
				case tls.InitialMaxStreamsUni:
					if sc.MaxStreams > 0 {
						l[i] = tls.InitialMaxStreamsUni(sc.MaxStreams)
					}
				}
			}
			q.TransportParameters = l
		}
		if !found {
			panic("Chrome_115 spec without a QUICTransportParametersExtension")
		}
		return &s
	}}
}

var c01FCFates = []sim.Fate{sim.Drop, sim.Dup, sim.Delay, sim.DelayLong, sim.FlipMid, sim.Outage100ms}

func c01FCPart(t *testing.T) explore.Part {
	return c01Part(t, "fc-blocked", func(e explore.Env) ([]c01Config, string) {
		fates := c01FCFates
		versions := []int{1}
		if e.Thorough() {
			fates = append(append([]sim.Fate{}, c01Fates...), sim.Outage100ms, sim.Outage1s)
			versions = []int{1, 2}
		}
		kinds := []string{"plain", "chrome115", "chrome115-fc"}
		var cfgs []c01Config
		for i := range c01FCScenarios {
			si := len(c01Scenarios) + i
			for _, k := range kinds {
				for _, v := range versions {
					base := c01Config{Scenario: si, Kind: k, Version: v, Seed: uint64(e.Seed) + 1}
					n := c01Baseline(t, base)
					cfgs = append(cfgs, base)
					for _, m := range sim.AllSingleFaults(n, fates) {
						c := base
						c.Faults = m
						cfgs = append(cfgs, c)
					}
				}
			}
		}
		return cfgs, fmt.Sprintf("%d flow-control-limited scenarios (stream window 1000 | 5000 bytes on uni-c2s / uni-s2c / bidi-echo transfers of 3 windows + 77 bytes [and of exactly the window, the window + 1] x readers {pause then one Read of everything buffered, pauses and half-window Reads, continuous small Reads}; connection window 6000 shared by 2 streams [with and without a 4000-byte stream window]; stream-count limit 2 resp. 1 with 9 resp. 4 streams) x %v (chrome115-fc: the spec advertises the scenario's limits) x v%v x every fault map with exactly 1 fate of %v on any datagram of the fault-free run, both directions, handshake included",
			len(c01FCScenarios), kinds, versions, fates)
	})
}
