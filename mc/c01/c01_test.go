package quic_test

// C01: stream data arrives intact, in order, exactly once under any network faults.
// E2 (fault enumeration): whole client+server connections in a synctest bubble; the fate
// of datagram #i of either direction is an explorer choice (static fault map); every map
// with at most k non-default fates among the first N datagrams is executed.

import (
	"bytes"
	"context"
	"encoding/json"
	"errors"
	"fmt"
	"io"
	"sort"
	"strings"
	"sync"
	"sync/atomic"
	"testing"
	"time"

	quic "github.com/refraction-networking/uquic"
	"github.com/refraction-networking/uquic/internal/verifmc/explore"
	"github.com/refraction-networking/uquic/internal/verifmc/sim"
	"github.com/refraction-networking/uquic/internal/verifmc/wiremon"
)

// ---- scripted scenarios -------------------------------------------------------------

type c01Stream struct {
	Kind    string // "bidi-echo" (client opens, server echoes), "uni-c2s", "uni-s2c"
	Size    int
	Chunks  []int // write chunking (cycled); 0 entries = one write
	ReadBuf int
	// ReadPause: the reader sleeps this long (virtual time) before every Read: an application
	// that lets the data pile up and then takes it with few large Reads (ReadBuf >= window)
	ReadPause time.Duration
}

type c01Scenario struct {
	Name      string
	Streams   []c01Stream
	Datagrams int  // per direction
	Bulk      bool // larger than the initial congestion window: only used by the outage part
	// Flow-control-limited scenarios (part fc-blocked, see c01_fc_test.go): receive windows of
	// BOTH endpoints (initial = maximum, so the window is not auto-tuned away) and the limit on
	// incoming streams; 0 = the Config default. Client kind "chrome115-fc" advertises the same
	// values through the QUICSpec's transport parameters.
	StreamWindow, ConnWindow int
	MaxStreams               int
	FC                       bool
}

// c01ScenarioAt resolves a scenario index: the scripted scenarios first, then the generated
// flow-control-limited ones (so that stored replays of the former keep their meaning).
func c01ScenarioAt(i int) c01Scenario {
	if i < len(c01Scenarios) {
		return c01Scenarios[i]
	}
	return c01FCScenarios[i-len(c01Scenarios)]
}

// limitName names the flow-control limit(s) a scenario makes the writer depend on.
func (sc c01Scenario) limitName() string {
	var l []string
	if sc.ConnWindow > 0 {
		l = append(l, "conn-window")
	}
	if sc.StreamWindow > 0 {
		l = append(l, "stream-window")
	}
	if sc.MaxStreams > 0 {
		l = append(l, "stream-count")
	}
	return strings.Join(l, "+")
}

// applyLimits writes the scenario's windows and stream limits into a Config.
func (sc c01Scenario) applyLimits(c *quic.Config) {
	if sc.StreamWindow > 0 {
		c.InitialStreamReceiveWindow, c.MaxStreamReceiveWindow = uint64(sc.StreamWindow), uint64(sc.StreamWindow)
	}
	if sc.ConnWindow > 0 {
		c.InitialConnectionReceiveWindow, c.MaxConnectionReceiveWindow = uint64(sc.ConnWindow), uint64(sc.ConnWindow)
	}
	if sc.MaxStreams > 0 {
		c.MaxIncomingStreams, c.MaxIncomingUniStreams = int64(sc.MaxStreams), int64(sc.MaxStreams)
	}
}

var c01Scenarios = []c01Scenario{
	{Name: "echo3k", Streams: []c01Stream{{Kind: "bidi-echo", Size: 3000, ReadBuf: 4096}}},
	{Name: "three-streams", Streams: []c01Stream{
		{Kind: "uni-c2s", Size: 5000, Chunks: []int{1, 700, 4299}, ReadBuf: 7},
		{Kind: "uni-s2c", Size: 1199, Chunks: []int{600, 599}, ReadBuf: 4096},
		{Kind: "bidi-echo", Size: 1, ReadBuf: 1},
	}},
	{Name: "empty-and-datagrams", Streams: []c01Stream{
		{Kind: "uni-c2s", Size: 0, ReadBuf: 16},
		{Kind: "bidi-echo", Size: 0, ReadBuf: 16},
		{Kind: "uni-s2c", Size: 0, ReadBuf: 16},
	}, Datagrams: 3},
	{Name: "bytewise", Streams: []c01Stream{
		{Kind: "bidi-echo", Size: 1500, Chunks: []int{1, 1, 1, 1, 1, 1495}, ReadBuf: 1},
		{Kind: "uni-s2c", Size: 5000, Chunks: []int{2500, 2500}, ReadBuf: 97},
	}},
	// transfers of several congestion windows: the sender is blocked by its window most of the time
	{Name: "bulk-upload", Bulk: true, Streams: []c01Stream{{Kind: "uni-c2s", Size: 150000, Chunks: []int{150000}, ReadBuf: 8192}}},
	{Name: "bulk-download", Bulk: true, Streams: []c01Stream{{Kind: "uni-s2c", Size: 150000, Chunks: []int{150000}, ReadBuf: 8192}}},
}

func c01Pattern(stream, i int) byte { return byte((i*7 + stream*53 + 11) % 251) }

func c01Data(stream, n int) []byte {
	b := make([]byte, n)
	for i := range b {
		b[i] = c01Pattern(stream, i)
	}
	return b
}

type c01Result struct {
	mu    sync.Mutex
	fails []*explore.Fail
	notes []string
	// number of Reads that returned a whole flow-control window at once
	fullWindowReads atomic.Int64
}

func (r *c01Result) fail(key, format string, a ...any) {
	r.mu.Lock()
	r.fails = append(r.fails, explore.Failf(key, format, a...))
	r.mu.Unlock()
}

// c01SendDatagram sends from a scratch buffer and overwrites it as soon as the call returns.
func c01SendDatagram(c *quic.Conn, payload []byte) error {
	scratch := append([]byte(nil), payload...)
	err := c.SendDatagram(scratch)
	for i := range scratch {
		scratch[i] = 0xEE
	}
	return err
}

// writeAll writes the pattern of `plan` in its chunking and closes the stream.
func c01Write(w io.WriteCloser, plan, size int, chunks []int) error {
	data := c01Data(plan, size)
	ci := 0
	for len(data) > 0 {
		n := len(data)
		if len(chunks) > 0 {
			n = min(chunks[ci%len(chunks)], len(data))
			ci++
			if n == 0 {
				n = len(data)
			}
		}
		// the application writes from a scratch buffer that it reuses straight away (io.Writer:
		// "Write must not retain p"; the same holds for SendDatagram)
		scratch := append([]byte(nil), data[:n]...)
		_, err := w.Write(scratch)
		for i := range scratch {
			scratch[i] = 0xEE
		}
		if err != nil {
			return err
		}
		data = data[n:]
	}
	return w.Close()
}

// c01Read reads to EOF checking the prefix property on every Read.
func (r *c01Result) read(who string, rd io.Reader, plan int, p c01Stream, fullWindow int) (int, error) {
	size := p.Size
	buf := make([]byte, p.ReadBuf)
	total := 0
	for {
		if p.ReadPause > 0 {
			time.Sleep(p.ReadPause) // virtual time
		}
		n, err := rd.Read(buf)
		if fullWindow > 0 && n == fullWindow {
			// (vacuity accounting only) one Read took exactly a whole receive window: the writer had
			// used up all its credit and was waiting for this reader
			r.fullWindowReads.Add(1)
		}
		for i := 0; i < n; i++ {
			if total+i >= size {
				r.fail("stream-extra-bytes", "%s plan %d: Read delivered byte %d beyond the %d bytes written", who, plan, total+i, size)
				return total, errors.New("oracle")
			}
			if buf[i] != c01Pattern(plan, total+i) {
				r.fail("stream-bytes-differ", "%s plan %d: byte %d is %#x, written %#x (not a prefix of what the peer wrote)", who, plan, total+i, buf[i], c01Pattern(plan, total+i))
				return total, errors.New("oracle")
			}
		}
		total += n
		if err == io.EOF {
			if total != size {
				r.fail("stream-early-eof", "%s plan %d: io.EOF after %d of %d bytes", who, plan, total, size)
			}
			return total, nil
		}
		if err != nil {
			return total, err
		}
		if n == 0 {
			r.fail("stream-read-zero", "%s plan %d: Read returned (0, nil)", who, plan)
			return total, errors.New("oracle")
		}
	}
}

// c01Config is one execution.
type c01Config struct {
	Scenario int           `json:"scenario"`
	Kind     string        `json:"kind"`
	Version  int           `json:"version"` // 1 | 2
	Seed     uint64        `json:"seed"`
	Faults   sim.FaultMap  `json:"faults"`
	Deadline time.Duration `json:"-"`
}

func (c c01Config) String() string {
	return fmt.Sprintf("%s/%s/v%d/seed%d %v", c01ScenarioAt(c.Scenario).Name, c.Kind, c.Version, c.Seed, c.Faults)
}

func c01Kind(name string) sim.ClientKind {
	switch name {
	case "plain":
		return sim.Plain
	case "chrome115":
		return sim.Parrot("chrome115", quic.QUICChrome_115)
	case "unil":
		return sim.UNilSpec
	}
	panic("unknown kind " + name)
}

type c01Outcome struct {
	fails      []*explore.Fail
	class      string
	datagrams  [2]int
	transcript []string
	opened     int // packets the wire monitor opened / could not open
	notOpened  int
	log        []sim.Event
	keylog     []string
}

// c01Run executes one configuration inside a fresh bubble.
func c01Run(t *testing.T, cfg c01Config) c01Outcome {
	var out c01Outcome
	res := &c01Result{}
	sc := c01ScenarioAt(cfg.Scenario)
	// a Read of this many bytes took a whole receive window (stream or connection) at once
	fullWin := 0
	if sc.FC {
		fullWin = sc.StreamWindow
		if sc.ConnWindow > 0 && (fullWin == 0 || sc.ConnWindow < fullWin) {
			fullWin = sc.ConnWindow
		}
	}
	ok := sim.Run(t, "run", cfg.Seed, func(t *testing.T) {
		w := sim.NewWorld(cfg.Faults)
		vers := []quic.Version{quic.Version1}
		if cfg.Version == 2 {
			vers = []quic.Version{quic.Version2}
		}
		sconf := &quic.Config{EnableDatagrams: sc.Datagrams > 0}
		cconf := &quic.Config{Versions: vers, EnableDatagrams: sc.Datagrams > 0}
		sc.applyLimits(sconf)
		sc.applyLimits(cconf)
		ln, err := w.Listen(w.ServerTLS(false), sconf)
		if err != nil {
			t.Fatal(err)
		}
		ctx, cancel := context.WithTimeout(context.Background(), 20*time.Second)
		defer cancel()
		var dgWG sync.WaitGroup // datagram receivers
		var cerrMu sync.Mutex
		var appErrs []string
		appErr := func(who string, err error) {
			cerrMu.Lock()
			appErrs = append(appErrs, who+": "+err.Error())
			cerrMu.Unlock()
		}
		var sconn *quic.Conn
		dctx, dgramStop := context.WithCancel(ctx)
		recvDgrams := func(who string, conn *quic.Conn, fromPlan int) {
			defer dgWG.Done()
			seen := map[string]int{}
			for {
				d, err := conn.ReceiveDatagram(dctx)
				if err != nil {
					return
				}
				seen[string(d)]++
				okPayload := false
				for i := 0; i < sc.Datagrams; i++ {
					if bytes.Equal(d, c01Data(100+fromPlan*10+i, 40+i)) {
						okPayload = true
					}
				}
				if !okPayload {
					res.fail("datagram-modified", "%s received a datagram of %d bytes that was never sent", who, len(d))
				}
				if seen[string(d)] > 1 {
					res.fail("datagram-duplicated", "%s received the same application datagram %d times", who, seen[string(d)])
				}
			}
		}
		var bidiPlans, uniPlans, s2cPlans []int
		for i, p := range sc.Streams {
			switch p.Kind {
			case "bidi-echo":
				bidiPlans = append(bidiPlans, i)
			case "uni-c2s":
				uniPlans = append(uniPlans, i)
			case "uni-s2c":
				s2cPlans = append(s2cPlans, i)
			}
		}
		// ---- server application
		srvDone := make(chan struct{})
		go func() {
			defer close(srvDone)
			c, err := ln.Accept(ctx)
			if err != nil {
				appErr("server accept", err)
				return
			}
			sconn = c
			if sc.Datagrams > 0 {
				dgWG.Add(1)
				go recvDgrams("server", c, 0)
				for i := 0; i < sc.Datagrams; i++ {
					if err := c01SendDatagram(c, c01Data(100+1*10+i, 40+i)); err != nil {
						appErr("server send datagram", err)
					}
				}
			}
			var swg sync.WaitGroup
			for _, i := range s2cPlans {
				i, p := i, sc.Streams[i]
				swg.Add(1)
				go func() {
					defer swg.Done()
					s, err := c.OpenUniStreamSync(ctx)
					if err != nil {
						appErr("server open uni", err)
						return
					}
					if err := c01Write(s, i, p.Size, p.Chunks); err != nil {
						appErr("server write", err)
					}
				}()
				// open in plan order: ids must follow plan order
				time.Sleep(time.Microsecond)
			}
			// client-initiated streams: plans are identified by stream id order
			for range bidiPlans {
				swg.Add(1)
				go func() {
					defer swg.Done()
					s, err := c.AcceptStream(ctx)
					if err != nil {
						appErr("server accept stream", err)
						return
					}
					plan := bidiPlans[int(s.StreamID())/4]
					p := sc.Streams[plan]
					if _, err := res.read("server", s, plan, p, fullWin); err != nil {
						appErr("server read", err)
						return
					}
					if err := c01Write(s, plan, p.Size, p.Chunks); err != nil {
						appErr("server echo", err)
					}
				}()
			}
			for range uniPlans {
				swg.Add(1)
				go func() {
					defer swg.Done()
					s, err := c.AcceptUniStream(ctx)
					if err != nil {
						appErr("server accept uni", err)
						return
					}
					plan := uniPlans[int(s.StreamID())/4]
					p := sc.Streams[plan]
					if _, err := res.read("server", s, plan, p, fullWin); err != nil {
						appErr("server read uni", err)
					}
				}()
			}
			swg.Wait()
		}()
		// ---- client application
		d, _, _ := w.NewDialer(c01KindFor(cfg.Kind, sc))
		conn, err := d.Dial(ctx, w.ServerAddr, w.ClientTLS(), cconf)
		cliDone := make(chan struct{})
		if err != nil {
			appErr("dial", err)
			close(cliDone)
		} else {
			if sc.Datagrams > 0 {
				dgWG.Add(1)
				go recvDgrams("client", conn, 1)
				for i := 0; i < sc.Datagrams; i++ {
					if err := c01SendDatagram(conn, c01Data(100+0*10+i, 40+i)); err != nil {
						appErr("client send datagram", err)
					}
				}
			}
			go func() {
				defer close(cliDone)
				var cwg sync.WaitGroup
				// open client-initiated streams sequentially so that ids follow plan order
				for i, p := range sc.Streams {
					i, p := i, p
					switch p.Kind {
					case "bidi-echo":
						s, err := conn.OpenStreamSync(ctx)
						if err != nil {
							appErr("client open", err)
							continue
						}
						cwg.Add(1)
						go func() {
							defer cwg.Done()
							if err := c01Write(s, i, p.Size, p.Chunks); err != nil {
								appErr("client write", err)
								return
							}
							if _, err := res.read("client", s, i, p, fullWin); err != nil {
								appErr("client read echo", err)
							}
						}()
					case "uni-c2s":
						s, err := conn.OpenUniStreamSync(ctx)
						if err != nil {
							appErr("client open uni", err)
							continue
						}
						cwg.Add(1)
						go func() {
							defer cwg.Done()
							if err := c01Write(s, i, p.Size, p.Chunks); err != nil {
								appErr("client write uni", err)
							}
						}()
					}
				}
				for range s2cPlans {
					cwg.Add(1)
					go func() {
						defer cwg.Done()
						s, err := conn.AcceptUniStream(ctx)
						if err != nil {
							appErr("client accept uni", err)
							return
						}
						plan := s2cPlans[int(s.StreamID())/4]
						p := sc.Streams[plan]
						if _, err := res.read("client", s, plan, p, fullWin); err != nil {
							appErr("client read uni", err)
						}
					}()
				}
				cwg.Wait()
			}()
		}
		// ---- wait for completion (bounded liveness in virtual time)
		complete := false
		select {
		case <-cliDone:
			select {
			case <-srvDone:
				complete = true
			case <-ctx.Done():
			}
		case <-ctx.Done():
		}
		if complete {
			time.Sleep(100 * time.Millisecond) // datagrams still in flight
		}
		dgramStop()
		cerr, serr := "", ""
		if conn != nil && conn.Context().Err() != nil {
			cerr = context.Cause(conn.Context()).Error()
		}
		if sconn != nil && sconn.Context().Err() != nil {
			serr = context.Cause(sconn.Context()).Error()
		}
		if !complete || len(appErrs) > 0 || cerr != "" || serr != "" {
			cerrMu.Lock()
			sort.Strings(appErrs)
			first := ""
			if len(appErrs) > 0 {
				first = appErrs[0]
				if i := strings.Index(first, ":"); i > 0 {
					first = first[:i]
				}
			}
			key := "transfer-incomplete:" + first
			if sc.FC {
				// which limit the writer depended on identifies the history class
				if first == "" {
					first = "stalled"
				}
				key = "fc-blocked:" + sc.limitName() + ":transfer-incomplete:" + first
			}
			res.fail(key, "with %d faults the transfers did not complete within 20 s of virtual time: complete=%v client-conn-error=%q server-conn-error=%q app errors=%v", len(cfg.Faults), complete, cerr, serr, appErrs)
			cerrMu.Unlock()
		}
		// ---- teardown
		if conn != nil {
			conn.CloseWithError(0, "")
		}
		if sconn != nil {
			sconn.CloseWithError(0, "")
		}
		cancel()
		d.Close()
		ln.Close()
		w.ServerTr.Close()
		w.CloseEndpoints()
		<-cliDone
		<-srvDone
		dgWG.Wait()
		// ---- passive wire monitor: every datagram either side sent, opened with independent crypto
		mon := wiremon.Analyze(w.Router.FullLog(), w.KeyLog.Lines(), wiremon.Params{})
		for _, f := range mon.Findings {
			res.fail(f.Key, "%s", f.What)
		}
		out.opened, out.notOpened = mon.Opened, mon.NotOpened
		out.log, out.keylog = w.Router.FullLog(), w.KeyLog.Lines()
		out.datagrams = [2]int{w.Router.Count(sim.C2S), w.Router.Count(sim.S2C)}
		out.transcript = w.Router.Transcript()
		out.class = fmt.Sprintf("complete=%v c2s~%d s2c~%d", complete, out.datagrams[0]/4*4, out.datagrams[1]/4*4)
		if sc.FC {
			out.class = fmt.Sprintf("%s complete=%v full-window-reads=%d", sc.Name, complete, res.fullWindowReads.Load())
		}
	})
	out.fails = res.fails
	if !ok && len(out.fails) == 0 {
		out.fails = append(out.fails, explore.Failf("bubble-failed", "the bubble did not terminate cleanly (goroutines left blocked) for %v", cfg))
	}
	return out
}

// ---- enumeration --------------------------------------------------------------------

var c01Fates = []sim.Fate{sim.Drop, sim.Dup, sim.Delay, sim.DelayLong, sim.Flip0, sim.Flip7, sim.FlipMid, sim.FlipLast, sim.Trunc1, sim.Trunc20, sim.TruncLast, sim.FlipSCID}
var c01FatesSmall = []sim.Fate{sim.Drop, sim.Dup, sim.Delay, sim.FlipMid, sim.Trunc20}

func c01Part(t *testing.T, name string, mk func(e explore.Env) (cfgs []c01Config, rule string)) explore.Part {
	return explore.Part{
		Name: name,
		Run: func(e explore.Env) *explore.Report {
			cfgs, rule := mk(e)
			var opened, notOpened atomic.Int64
			rep := explore.RunCases(e, len(cfgs), 1, false, func(i int) explore.CaseResult {
				explore.MarkCurrent(e, name, cfgs[i])
				o := c01Run(t, cfgs[i])
				opened.Add(int64(o.opened))
				notOpened.Add(int64(o.notOpened))
				cr := explore.CaseResult{Outcome: cfgs[i].Kind + " " + o.class, Execs: 1, Trans: int64(o.datagrams[0] + o.datagrams[1]), Replay: cfgs[i]}
				if len(o.fails) > 0 {
					cr.Fail = o.fails[0]
					cr.Human = append([]string{cfgs[i].String()}, o.transcript...)
				}
				return cr
			})
			rep.Level = "fault_enumeration"
			rep.Rule = rule
			if len(cfgs) > 0 {
				rep.Samples = []any{cfgs[0].String(), cfgs[len(cfgs)/2].String(), cfgs[len(cfgs)-1].String()}
			}
			rep.Bound = rule
			// packets of the real executions that the independent wire monitor opened and judged
			rep.Traces = opened.Load()
			rep.Samples = append(rep.Samples, fmt.Sprintf("wire monitor: %d packets opened with independent crypto and checked, %d not opened (stateless resets, packets of phantom connections)", opened.Load(), notOpened.Load()))
			return rep
		},
		Replay: func(e explore.Env, raw json.RawMessage) *explore.Violation {
			var cfg c01Config
			if err := json.Unmarshal(raw, &cfg); err != nil {
				t.Fatal(err)
			}
			o := c01Run(t, cfg)
			if len(o.fails) == 0 {
				return nil
			}
			return &explore.Violation{Key: o.fails[0].Key, What: o.fails[0].What, Human: append([]string{cfg.String()}, o.transcript...)}
		},
	}
}

// c01Baseline runs a configuration without faults to learn how many datagrams it uses.
func c01Baseline(t *testing.T, cfg c01Config) [2]int {
	cfg.Faults = nil
	o := c01Run(t, cfg)
	// (a failing fault-free run is not a harness error: the fault-free configuration is part of
	// the enumeration and is reported there as a violation)
	return o.datagrams
}

// c01MonitorSelfTest shows that the passive wire monitor is not vacuous: the datagram log of a
// real fault-free run is tampered with in ways that need no re-encryption, and the monitor
// must report each tampering.
func c01MonitorSelfTest(t *testing.T) explore.Part {
	return explore.Part{Name: "wire-monitor-selftest", Run: func(e explore.Env) *explore.Report {
		rep := &explore.Report{Level: "fault_enumeration", Exhaustive: true}
		if e.Shard != 0 {
			return rep
		}
		for _, kind := range []string{"plain", "chrome115"} {
			o := c01Run(t, c01Config{Scenario: 0, Kind: kind, Version: 1, Seed: uint64(e.Seed) + 1})
			has := func(r *wiremon.Report, prefix string) bool {
				for _, f := range r.Findings {
					if strings.HasPrefix(f.Key, prefix) {
						return true
					}
				}
				return false
			}
			clean := wiremon.Analyze(o.log, o.keylog, wiremon.Params{})
			explore.Must(len(clean.Findings) == 0 && clean.Opened > 10, "%s: untampered log: findings %v, %d packets opened", kind, clean.Findings, clean.Opened)
			// (1) the last short-header datagram of the client is sent a second time: packet number reuse
			// (2) a server datagram that the client acknowledged is marked as dropped: ACK of a packet not received
			// (3) no key log: handshake and 1-RTT packets no longer open, Initial packets still do
			last, firstS2C := -1, -1
			for i, ev := range o.log {
				if ev.Dir == sim.C2S && len(ev.Data) > 0 && ev.Data[0]&0x80 == 0 && i < len(o.log)-4 {
					last = i
				}
				if ev.Dir == sim.S2C && firstS2C < 0 {
					firstS2C = i
				}
			}
			explore.Must(last >= 0 && firstS2C >= 0, "%s: no short-header client datagram in the log", kind)
			t1 := append(append([]sim.Event{}, o.log...), o.log[last])
			t1[len(t1)-1].T = o.log[len(o.log)-1].T + time.Millisecond
			r1 := wiremon.Analyze(t1, o.keylog, wiremon.Params{})
			explore.Must(has(r1, "wire:packet-number-not-increasing:client"), "%s: a re-sent client packet was not reported: %v", kind, r1.Findings)
			t2 := append([]sim.Event{}, o.log...)
			t2[firstS2C].Fate = sim.Drop
			r2 := wiremon.Analyze(t2, o.keylog, wiremon.Params{})
			explore.Must(has(r2, "wire:ack-of-packet-not-received:client"), "%s: an ACK for a dropped server datagram was not reported: %v", kind, r2.Findings)
			r3 := wiremon.Analyze(o.log, nil, wiremon.Params{})
			explore.Must(r3.Opened > 0 && r3.Opened < clean.Opened, "%s: without the key log %d packets open (with: %d)", kind, r3.Opened, clean.Opened)
			rep.Evaluations += 4
			rep.Outcomes = append(rep.Outcomes, kind+": resent packet reported", kind+": ACK of dropped datagram reported", kind+": without key log only Initial packets open")
			rep.Traces += int64(clean.Opened)
		}
		rep.OutcomesN = int64(len(rep.Outcomes))
		rep.Rule = "self-test of the passive wire monitor: the log of a real fault-free run (plain and Chrome_115 client) is tampered with (a client packet sent twice, an acknowledged server datagram marked as dropped, key log withheld); every tampering must be reported, the untampered log must be clean"
		rep.Bound = "3 tamperings x 2 client kinds"
		return rep
	}}
}

func TestVerifC01(t *testing.T) {
	sim.InitCerts(t)
	kinds := []string{"plain", "chrome115"}
	parts := []explore.Part{
		c01MonitorSelfTest(t),
		c01Part(t, "k1-all-datagrams", func(e explore.Env) ([]c01Config, string) {
			var cfgs []c01Config
			for si := range c01Scenarios {
				if c01Scenarios[si].Bulk {
					continue
				}
				for _, k := range kinds {
					for v := 1; v <= 2; v++ {
						base := c01Config{Scenario: si, Kind: k, Version: v, Seed: uint64(e.Seed) + 1}
						n := c01Baseline(t, base)
						cfgs = append(cfgs, base)
						for _, m := range sim.AllSingleFaults(n, c01Fates) {
							c := base
							c.Faults = m
							cfgs = append(cfgs, c)
						}
					}
				}
			}
			nsc := 0
			for _, s := range c01Scenarios {
				if !s.Bulk {
					nsc++
				}
			}
			return cfgs, fmt.Sprintf("every fault map with exactly 1 non-default fate (%d fates) on any datagram of the fault-free run, both directions, handshake included; %d scenarios x %v x {v1,v2}", len(c01Fates), nsc, kinds)
		}),
		c01Part(t, "k2-first-datagrams", func(e explore.Env) ([]c01Config, string) {
			N := 8
			scen := []int{0}
			if e.Thorough() {
				N = 24
				scen = []int{0, 1, 2, 3}
			}
			var cfgs []c01Config
			for _, si := range scen {
				for _, k := range kinds {
					base := c01Config{Scenario: si, Kind: k, Version: 1, Seed: uint64(e.Seed) + 1}
					for _, m := range sim.AllFaultMaps([2]int{N, N}, c01FatesSmall, 2) {
						if len(m) != 2 {
							continue
						}
						c := base
						c.Faults = m
						cfgs = append(cfgs, c)
					}
				}
			}
			return cfgs, fmt.Sprintf("every fault map with exactly 2 non-default fates (%d fates) among the first %d datagrams of each direction; scenarios %v x %v x v1", len(c01FatesSmall), N, scen, kinds)
		}),
	}
	parts = append(parts, c01Part(t, "outages", func(e explore.Env) ([]c01Config, string) {
		// a period in which every datagram of one direction is lost, starting at any datagram of
		// a transfer of several congestion windows: everything the sender has in flight is lost
		// while it is blocked by its window, and the path is alive again long before the idle
		// timeout - the transfer must complete
		step := 3
		ks := []string{"plain"}
		if e.Thorough() {
			step, ks = 1, kinds
		}
		var cfgs []c01Config
		n := 0
		for si := range c01Scenarios {
			if !c01Scenarios[si].Bulk {
				continue
			}
			n++
			for _, k := range ks {
				base := c01Config{Scenario: si, Kind: k, Version: 1, Seed: uint64(e.Seed) + 1}
				cnt := c01Baseline(t, base)
				cfgs = append(cfgs, base)
				for d := sim.C2S; d <= sim.S2C; d++ {
					for idx := 0; idx < cnt[d]; idx += step {
						for _, f := range []sim.Fate{sim.Outage100ms, sim.Outage1s} {
							c := base
							c.Faults = sim.FaultMap{{Slot: sim.Slot{Dir: d, Idx: idx}, Fate: f}}
							cfgs = append(cfgs, c)
						}
					}
				}
			}
		}
		return cfgs, fmt.Sprintf("%d transfers of 150 kB (upload, download) x %v x an outage of 100 ms or 1 s (every datagram of one direction lost) starting at every %d. datagram of either direction of the fault-free run", n, ks, step)
	}))
	parts = append(parts, c01FCPart(t))
	if explore.GetEnv().Thorough() {
		parts = append(parts, c01Part(t, "k3-first-datagrams", func(e explore.Env) ([]c01Config, string) {
			var cfgs []c01Config
			fates := []sim.Fate{sim.Drop, sim.Delay}
			for _, k := range kinds {
				base := c01Config{Scenario: 0, Kind: k, Version: 1, Seed: uint64(e.Seed) + 1}
				for _, m := range sim.AllFaultMaps([2]int{7, 7}, fates, 3) {
					if len(m) != 3 {
						continue
					}
					c := base
					c.Faults = m
					cfgs = append(cfgs, c)
				}
			}
			return cfgs, "every fault map with exactly 3 faults from {drop, delay} among the first 7 datagrams of each direction; echo3k x kinds x v1"
		}))
	}
	explore.Main("C01", parts, func(msg string) { t.Fatal(msg) })
}
