package quic

// C01, component level, bidirectional streams: "transfers on all streams complete" also means
// that a stream the application gives up on is wound down: the peer learns that reading was
// cancelled (STOP_SENDING) and that writing was reset (RESET_STREAM), otherwise it keeps the
// stream open for ever and keeps sending into it. Both halves of a bidirectional Stream share
// one entry in the framer's control-frame table (Stream.getControlFrame multiplexes the send
// half's and the receive half's frames); the C04 world drives SendStream and ReceiveStream
// objects directly and never goes through that wrapper.
//
// World: two real bidirectional Streams (newStream) on real flow controllers behind the real
// framer, wired as connection.go wires them. BFS over application calls (Write, Close,
// CancelWrite, CancelRead, Read), peer frames (STREAM with / without FIN, RESET_STREAM,
// STOP_SENDING) and framer.Append with a packet budget that fits everything or only one
// small control frame. Every popped frame is acknowledged at once (loss is C06's and C04's).
// Oracle (closing operation settle: the run loop packs until the framer has nothing left):
// every STOP_SENDING / RESET_STREAM the application's or the peer's action made due was handed
// to the packer exactly once, and no stream frame or control frame is left behind in a framer
// that reports it has no data.

import (
	"context"
	"fmt"
	"io"
	"strings"

	"github.com/refraction-networking/uquic/internal/flowcontrol"
	"github.com/refraction-networking/uquic/internal/monotime"
	"github.com/refraction-networking/uquic/internal/protocol"
	"github.com/refraction-networking/uquic/internal/utils"
	"github.com/refraction-networking/uquic/internal/verifmc/explore"
	"github.com/refraction-networking/uquic/internal/wire"
)

const c01bCell = 50

type c01bSender struct {
	fr        *framer
	completed map[protocol.StreamID]int
}

func (s *c01bSender) onHasConnectionData() {}
func (s *c01bSender) onHasStreamData(id protocol.StreamID, str *SendStream) {
	s.fr.AddActiveStream(id, str)
}
func (s *c01bSender) onHasStreamControlFrame(id protocol.StreamID, str streamControlFrameGetter) {
	s.fr.AddStreamWithControlFrames(id, str)
}
func (s *c01bSender) onStreamCompleted(id protocol.StreamID) {
	s.completed[id]++
	s.fr.RemoveActiveStream(id)
}

type c01bWorld struct {
	fr  *framer
	snd *c01bSender
	str [2]*Stream
	now monotime.Time

	// model
	rcvd     [2]int  // bytes delivered by the peer
	read     [2]int  // bytes the application has read
	fin      [2]bool // FIN delivered
	eof      [2]bool // the application has seen io.EOF
	rst      [2]bool // RESET_STREAM delivered
	cancelR  [2]bool
	cancelW  [2]bool
	closedW  [2]bool
	stopRcvd [2]bool
	written  [2]int
	dueStop  [2]bool // a STOP_SENDING is due (CancelRead before the end of the stream was known to be reached)
	dueReset [2]bool // a RESET_STREAM is due (CancelWrite or STOP_SENDING before the stream was finished)
	gotStop  [2]int
	gotReset [2]int
	sentB    [2]int
	sentFin  [2]bool
	dead     bool
	outcome  string
}

var c01bIDs = [2]protocol.StreamID{4, 8} // (the ids of the C04 world: c04Idx maps them to 0 and 1)

func newC01bWorld() *c01bWorld {
	rtt := utils.NewRTTStats()
	cfc := flowcontrol.NewConnectionFlowController(1<<16, 1<<16, func(protocol.ByteCount) bool { return true }, rtt, utils.DefaultLogger)
	cfc.UpdateSendWindow(1 << 16)
	w := &c01bWorld{now: monotime.Now()}
	w.fr = newFramer(cfc)
	w.snd = &c01bSender{fr: w.fr, completed: map[protocol.StreamID]int{}}
	for i, id := range c01bIDs {
		sfc := flowcontrol.NewStreamFlowController(id, cfc, 1<<14, 1<<14, 1<<14, rtt, utils.DefaultLogger)
		w.str[i] = newStream(context.Background(), id, w.snd, sfc, false)
	}
	return w
}

func (w *c01bWorld) Outcome() string { return w.outcome }

func (w *c01bWorld) recvOpen(s int) bool { return !w.fin[s] && !w.rst[s] }

func (w *c01bWorld) Ops() []explore.Op {
	if w.dead {
		return nil
	}
	var ops []explore.Op
	for s := 0; s < 2; s++ {
		if w.recvOpen(s) && w.rcvd[s] < 2*c01bCell {
			ops = append(ops, explore.Op{N: "data", A: s}, explore.Op{N: "datafin", A: s})
		}
		if w.recvOpen(s) {
			ops = append(ops, explore.Op{N: "fin", A: s}, explore.Op{N: "rst", A: s})
		}
		if !w.cancelR[s] && !w.rst[s] && !w.eof[s] && (w.read[s] < w.rcvd[s] || w.fin[s]) {
			ops = append(ops, explore.Op{N: "read", A: s})
		}
		if !w.cancelR[s] {
			ops = append(ops, explore.Op{N: "cancelr", A: s})
		}
		if !w.closedW[s] && !w.cancelW[s] && !w.stopRcvd[s] && w.written[s] < 2*c01bCell {
			ops = append(ops, explore.Op{N: "write", A: s})
		}
		if !w.closedW[s] && !w.cancelW[s] && !w.stopRcvd[s] {
			ops = append(ops, explore.Op{N: "closew", A: s})
		}
		if !w.cancelW[s] {
			ops = append(ops, explore.Op{N: "cancelw", A: s})
		}
		if !w.stopRcvd[s] {
			ops = append(ops, explore.Op{N: "stop", A: s})
		}
	}
	ops = append(ops, explore.Op{N: "packet", A: 1200})
	// the framer walks its table of streams with control frames in Go map order: with a budget
	// for a single frame and two streams waiting, which one is served is not a choice the
	// explorer owns, so the tiny budget is only offered while at most one stream is waiting
	w.fr.controlFrameMutex.Lock()
	waiting := len(w.fr.streamsWithControlFrames)
	w.fr.controlFrameMutex.Unlock()
	if waiting <= 1 {
		ops = append(ops, explore.Op{N: "packet", A: 30})
	}
	ops = append(ops, explore.Op{N: "settle"})
	return ops
}

func (w *c01bWorld) sendDone(s int) bool {
	// nothing more will be sent on the stream: FIN sent and (as every frame is acknowledged at once) acknowledged
	return w.sentFin[s]
}

func (w *c01bWorld) pack(budget int) (*explore.Fail, int) {
	frames, sfs, _ := w.fr.Append(nil, nil, protocol.ByteCount(budget), w.now, protocol.Version1)
	for _, f := range frames {
		switch fr := f.Frame.(type) {
		case *wire.StopSendingFrame:
			s := c04Idx(fr.StreamID)
			w.gotStop[s]++
			// (a STOP_SENDING that is not due - the final size was already known - is allowed: RFC 9000 3.5)
			if !w.cancelR[s] || w.gotStop[s] > 1 {
				return explore.Failf("bidi:unexpected-stop-sending", "STOP_SENDING for stream %d packed %d times (CancelRead called: %v)", fr.StreamID, w.gotStop[s], w.cancelR[s]), 0
			}
		case *wire.ResetStreamFrame:
			s := c04Idx(fr.StreamID)
			w.gotReset[s]++
			// (a RESET_STREAM that is not due - everything was sent and acknowledged - is tolerated)
			if !(w.cancelW[s] || w.stopRcvd[s]) || w.gotReset[s] > 1 {
				return explore.Failf("bidi:unexpected-reset-stream", "RESET_STREAM for stream %d packed %d times (CancelWrite %v, STOP_SENDING %v)", fr.StreamID, w.gotReset[s], w.cancelW[s], w.stopRcvd[s]), 0
			}
		case *wire.MaxStreamDataFrame, *wire.MaxDataFrame, *wire.StreamDataBlockedFrame, *wire.DataBlockedFrame:
		default:
			explore.Must(false, "unexpected control frame %T", fr)
		}
		if f.Handler != nil {
			f.Handler.OnAcked(f.Frame)
		}
	}
	for _, sf := range sfs {
		s := c04Idx(sf.Frame.StreamID)
		w.sentB[s] = max(w.sentB[s], int(sf.Frame.Offset)+len(sf.Frame.Data))
		if sf.Frame.Fin {
			w.sentFin[s] = true
		}
		sf.Handler.OnAcked(sf.Frame)
	}
	return nil, len(frames) + len(sfs)
}

func (w *c01bWorld) Apply(op explore.Op) *explore.Fail {
	s := op.A
	w.outcome = op.N
	switch op.N {
	case "data", "datafin", "fin":
		n := c01bCell
		if op.N == "fin" {
			n = 0
		}
		fin := op.N != "data"
		err := w.str[s].handleStreamFrame(&wire.StreamFrame{StreamID: c01bIDs[s], Offset: protocol.ByteCount(w.rcvd[s]), Data: make([]byte, n), Fin: fin}, w.now)
		if err != nil {
			return explore.Failf("bidi:frame-rejected", "%s on stream %d rejected: %v", op.N, c01bIDs[s], err)
		}
		w.rcvd[s] += n
		w.fin[s] = w.fin[s] || fin
	case "rst":
		if err := w.str[s].handleResetStreamFrame(&wire.ResetStreamFrame{StreamID: c01bIDs[s], ErrorCode: 5, FinalSize: protocol.ByteCount(w.rcvd[s])}, w.now); err != nil {
			return explore.Failf("bidi:frame-rejected", "RESET_STREAM on stream %d rejected: %v", c01bIDs[s], err)
		}
		w.rst[s] = true
		// RFC 9000 3.5: no STOP_SENDING is needed any more once the stream was reset by the peer;
		// one that was due and is still unsent may or may not go out
	case "read":
		n, err := w.str[s].Read(make([]byte, 1000))
		w.read[s] += n
		if err == io.EOF {
			w.eof[s] = true
		} else if err != nil {
			return explore.Failf("bidi:read-error", "Read on stream %d: %v", c01bIDs[s], err)
		}
		w.outcome = fmt.Sprintf("read %d eof=%v", n, w.eof[s])
	case "cancelr":
		w.str[s].CancelRead(7)
		w.cancelR[s] = true
		// due unless the end of the stream is already known (FIN or RESET_STREAM received)
		if !w.fin[s] && !w.rst[s] {
			w.dueStop[s] = true
		}
	case "write":
		if _, err := w.str[s].Write(make([]byte, c01bCell)); err != nil {
			return explore.Failf("bidi:write-error", "Write on stream %d: %v", c01bIDs[s], err)
		}
		w.written[s] += c01bCell
	case "closew":
		w.str[s].Close()
		w.closedW[s] = true
	case "cancelw":
		w.str[s].CancelWrite(9)
		w.cancelW[s] = true
		if !w.sendDone(s) {
			w.dueReset[s] = true
		}
	case "stop":
		w.str[s].handleStopSendingFrame(&wire.StopSendingFrame{StreamID: c01bIDs[s], ErrorCode: 3})
		w.stopRcvd[s] = true
		if !w.sendDone(s) {
			w.dueReset[s] = true
		}
	case "packet":
		f, n := w.pack(op.A)
		w.outcome = fmt.Sprintf("packet %d frames", n)
		return f
	case "settle":
		w.dead = true
		for i := 0; i < 12; i++ {
			f, n := w.pack(1200)
			if f != nil {
				return f
			}
			if n == 0 {
				break
			}
		}
		for s := 0; s < 2; s++ {
			if w.dueStop[s] && w.gotStop[s] == 0 && !w.rst[s] {
				return explore.Failf("bidi:stop-sending-never-sent", "stream %d: reading was cancelled before the end of the stream was known, the run loop packed until the framer was empty, and no STOP_SENDING was ever handed to the packer (send half: written %d, cancelled %v, closed %v, RESET_STREAM packed %d)", c01bIDs[s], w.written[s], w.cancelW[s], w.closedW[s], w.gotReset[s])
			}
			if w.dueReset[s] && w.gotReset[s] == 0 {
				return explore.Failf("bidi:reset-stream-never-sent", "stream %d: writing was reset (CancelWrite %v, STOP_SENDING %v) before the stream was finished, the run loop packed until the framer was empty, and no RESET_STREAM was ever handed to the packer", c01bIDs[s], w.cancelW[s], w.stopRcvd[s])
			}
			if !w.dueReset[s] && w.closedW[s] && !w.cancelW[s] && !w.stopRcvd[s] && (!w.sentFin[s] || w.sentB[s] != w.written[s]) {
				return explore.Failf("bidi:closed-stream-not-sent", "stream %d: %d bytes written and closed, the framer is empty, but only %d bytes (FIN %v) were handed to the packer", c01bIDs[s], w.written[s], w.sentB[s], w.sentFin[s])
			}
		}
		w.outcome = "settled"
	}
	return nil
}

func (w *c01bWorld) Key() string {
	var sb strings.Builder
	for s := 0; s < 2; s++ {
		fmt.Fprintf(&sb, "%d %d %v %v %v %v %v %v %v %d %v %v %d %d %d %v %d|", w.rcvd[s], w.read[s], w.fin[s], w.eof[s], w.rst[s], w.cancelR[s], w.cancelW[s], w.closedW[s], w.stopRcvd[s], w.written[s], w.dueStop[s], w.dueReset[s], w.gotStop[s], w.gotReset[s], w.sentB[s], w.sentFin[s], w.snd.completed[c01bIDs[s]])
	}
	// what the framer still holds is a function of the history summarised above except for the
	// order of pending control frames; add its own view
	w.fr.controlFrameMutex.Lock()
	fmt.Fprintf(&sb, "ctl=%d sc=%d ", len(w.fr.controlFrames), len(w.fr.streamsWithControlFrames))
	for _, id := range c01bIDs {
		_, ok := w.fr.streamsWithControlFrames[id]
		fmt.Fprintf(&sb, "%v", ok)
	}
	w.fr.controlFrameMutex.Unlock()
	w.fr.mutex.Lock()
	fmt.Fprintf(&sb, " act=%d q=%d dead=%v", len(w.fr.activeStreams), w.fr.streamQueue.Len(), w.dead)
	w.fr.mutex.Unlock()
	return sb.String()
}

func c01bPart() explore.Part {
	return explore.BFSPart("e1-bidi-control-frames", func(e explore.Env) explore.BFSSpec {
		depth := 6
		if e.Thorough() {
			depth = 8
		}
		return explore.BFSSpec{
			New:              func() explore.Instance { return newC01bWorld() },
			MaxDepth:         depth,
			PanicIsViolation: true,
			Rule:             fmt.Sprintf("BFS depth %d over two real bidirectional Streams (newStream) on real flow controllers behind the real framer, wired as connection.go wires them; alphabet per stream: peer STREAM frame (1 cell, with / without FIN, empty FIN), RESET_STREAM, STOP_SENDING, application Read, CancelRead, Write(1 cell), Close, CancelWrite; framer.Append with a budget of 1200 or 30 bytes (every popped frame acknowledged at once); closing op settle (pack until the framer is empty); oracle: every STOP_SENDING / RESET_STREAM that became due is handed to the packer exactly once, written and closed data is handed over completely", depth),
		}
	})
}
