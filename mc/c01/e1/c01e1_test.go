package quic

// C01, component level: "if the writer closed the stream and neither side reports an error
// the reader obtains every byte" depends on the send stream not declaring itself completed
// (the connection then forgets it) while bytes are still unacknowledged. The C04 world (real
// SendStream / ReceiveStream pairs on real flow controllers, explored breadth-first over
// write / pop / ack / lose / deliver / close) carries that oracle (checkCompletion); its
// sender parts are run here under C01 so that a violation is reported by C01's own check. The
// whole-connection fault enumeration of C01 does not reach the interleaving "loss declared,
// FIN acknowledged, retransmission not yet sent" (it needs ACKs bunched on the reverse path).

import (
	"testing"

	"github.com/refraction-networking/uquic/internal/verifmc/explore"
)

func TestVerifC01E1(t *testing.T) {
	wrap := func(name, inner string) explore.Part {
		p := c04Part(inner)
		return explore.Part{Name: name, Run: p.Run, Replay: p.Replay}
	}
	explore.Main("C01", []explore.Part{
		wrap("e1-completion-send", "send"),
		wrap("e1-completion-loop", "loop"),
		c01bPart(),
	}, func(msg string) { t.Fatal(msg) })
}
