package quic

// C01 under lock-point exploration: "if the writer closed the stream and neither side reports
// an error the reader obtains every byte" and "transfers on all streams complete" depend on
// every Write / Close reaching the packer. The send-side thread mixes of mc/c04/e3 (a real
// SendStream behind the real framer, application Write / Close racing with the run loop's
// Append / popStreamFrame, every Lock and Unlock of send_stream.go and framer.go a scheduler
// point) carry that oracle (written bytes or a FIN that are never handed out although the run
// loop keeps asking: key e3:written-bytes-never-sent); they are run here so that a violation
// is reported by C01's own check. The whole-connection enumeration of C01 leaves goroutine
// interleavings to the Go runtime and cannot force a Write into the gap of a split critical
// section.

import (
	"testing"

	"github.com/refraction-networking/uquic/internal/verifmc/explore"
)

func TestVerifC01E3(t *testing.T) {
	explore.Main("C01", []explore.Part{c04e3SendPart(t)}, func(msg string) { t.Fatal(msg) })
}
