# ./check configuration for C01 (merged by mc/props.py)
PROP = dict(
    libs=["explore", "canon", "sim", "wiremon"],
    targets=[
        dict(name="e2", pkg=".", test="TestVerifC01", files=["mc/c01/*.go"], parts=["k1-all-datagrams", "k2-first-datagrams", "k3-first-datagrams", "outages", "wire-monitor-selftest"]),
        dict(name="e1", pkg=".", test="TestVerifC01E1", files=["mc/c04/*.go", "mc/c01/e1/*.go"], parts=["e1-completion-send", "e1-completion-loop"],
             libs=["explore", "canon"], shards=1, gomaxprocs=0, env={}),
        dict(name="e3", pkg=".", test="TestVerifC01E3", files=["mc/c04/*.go", "mc/c04/e3/*.go", "mc/c01/e3/*.go"], parts=["e3-send-lockpoints"],
             libs=["explore", "canon", "sched", "vsync"], shards=1, gomaxprocs=0, env={},
             rewrite={f: [('"sync"', 'sync "github.com/refraction-networking/uquic/internal/verifmc/vsync"')]
                      for f in ("receive_stream.go", "send_stream.go", "framer.go", "internal/flowcontrol/base_flow_controller.go")}),
        dict(name="race", pkg=".", test="TestVerifC01Race", files=["mc/c01/*.go", "mc/c01/race/*.go"], parts=["race-pass"],
             race=True, shards=4, gomaxprocs=4, env={"GORACE": "halt_on_error=1", "GODEBUG": "randseednop=0"}),
    ],
    engine="E2 simx", level="fault_enumeration", shards="ncpu", gomaxprocs=1,
    env={"GODEBUG": "randseednop=0,asyncpreemptoff=1"},
    deterministic=False, crash_is_violation=True,
    deadline=dict(quick=100, thorough=1100),
    rule="whole client+server connections of the real implementation in a synctest bubble over a fault-injecting router; one execution per static fault map (slot -> fate)",
    assumptions=["goroutine interleavings inside the connection are chosen by the Go runtime (GOMAXPROCS=1), not enumerated; oracles are schedule-independent",
                 "crypto/rand pinned per run with cryptotest.SetGlobalRandom; math/rand seeded",
                 "bounded liveness: with <= 3 faults every transfer must finish within 20 s of virtual time"],
    level_text="Exhaustive fault enumeration on the real client and server: every schedule of <= k faults (drop, duplicate, two delays, five bit flips (one in the source connection ID), three truncations) among the datagrams of scripted scenarios, both directions, handshake included, plain and Chrome_115 spec-driven clients, QUIC v1 and v2, with a byte-array oracle on every Read; plus (part outages) transfers of several congestion windows with an outage of 100 ms or 1 s (every datagram of one direction lost) starting at any datagram, after which the transfer must complete. This is the level the property's own quantifier names (every schedule of up to k faults among the first N datagrams). Every execution is also read by the passive wire monitor (mc/lib/wiremon): each datagram either endpoint SENT is opened with independent packet protection (mc/lib/ref5, secrets from the TLS key log), its frames are parsed by an independent parser, and sender-side invariants are checked (packet numbers increase and stay decodable for what the sender knows to be acknowledged; ACK frames name only packets whose intact copy had arrived; retransmissions never change stream or CRYPTO bytes; data, stream counts and final sizes stay within the limits that had reached the sender, read from the ClientHello / EncryptedExtensions; frames fit their encryption level; 1-RTT packets use connection IDs the peer issued and the sender has not retired; nothing but CONNECTION_CLOSE after CONNECTION_CLOSE). What an endpoint can have received is over-approximated from fates and virtual times, so the monitor can miss but not invent a violation; exchanges with injected datagrams are not judged by it. Component level (target e1): the C04 world (real SendStream / ReceiveStream pairs, BFS over write / pop / ack / lose / deliver / close) is run under C01 with the oracle that a send stream may report itself completed only when every byte written before Close has been acknowledged. Lock-point level (target e3): the send-side thread mixes of mc/c04/e3 (one real SendStream behind the real framer, application Write / Close / CancelWrite racing with the run loop's Append / popStreamFrame / OnAcked / OnLost, every mutex Lock and Unlock of send_stream.go and framer.go a scheduler point, preemption bound 2 [3]) run under C01 with the oracle that bytes or a FIN accepted from the application are handed to the packer once the run loop asks again (a lost stream activation leaves them unsent for ever).",
    level_note="Trusted: testutils/simnet + testing/synctest virtual time; the byte-pattern oracle; scenarios and sizes <= 5 kB; the runtime's goroutine schedule is not enumerated.",
    technique="exhaustive fault-schedule enumeration (<= k faults among the first N datagrams) on real endpoints in virtual time",
)
