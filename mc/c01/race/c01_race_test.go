package quic_test

// C01 free-running race pass (see mc/c17/race): a slice of the single-fault configurations of
// every scenario, client kind and version under `go test -race` with several Ps. Sampled
// supporting pass; a race report kills the worker and is a violation.

import (
	"encoding/json"
	"fmt"
	"testing"

	"github.com/refraction-networking/uquic/internal/verifmc/explore"
	"github.com/refraction-networking/uquic/internal/verifmc/sim"
)

func TestVerifC01Race(t *testing.T) {
	sim.InitCerts(t)
	part := explore.Part{Name: "race-pass"}
	part.Run = func(e explore.Env) *explore.Report {
		var cfgs []c01Config
		for si := range c01Scenarios {
			for _, k := range []string{"plain", "chrome115"} {
				for v := 1; v <= 2; v++ {
					base := c01Config{Scenario: si, Kind: k, Version: v, Seed: uint64(e.Seed) + 1}
					cfgs = append(cfgs, base)
					for _, m := range sim.AllSingleFaults([2]int{10, 10}, c01FatesSmall) {
						c := base
						c.Faults = m
						cfgs = append(cfgs, c)
					}
				}
			}
		}
		step := 11
		if e.Thorough() {
			step = 3
		}
		rep := &explore.Report{Level: "exploration", Supporting: true}
		oc := map[string]bool{}
		for i := e.Shard; i < len(cfgs); i += step * max(e.Shards, 1) {
			if e.Expired() {
				break
			}
			explore.MarkCurrent(e, "race-pass", cfgs[i])
			o := c01Run(t, cfgs[i])
			rep.Evaluations++
			oc[cfgs[i].Kind+" "+o.class] = true
			if len(o.fails) > 0 {
				rep.Violations = append(rep.Violations, explore.Violation{Key: "race-pass:" + o.fails[0].Key, What: o.fails[0].What, Replay: explore.JSON(cfgs[i]), Human: []string{cfgs[i].String()}})
				break
			}
		}
		explore.ClearCurrent(e)
		for o := range oc {
			rep.Outcomes = append(rep.Outcomes, o)
		}
		rep.OutcomesN = int64(len(rep.Outcomes))
		rep.Rule = fmt.Sprintf("every %d-th of %d fault-free / single-fault configurations under the race detector with 4 Ps (sampled supporting pass)", step, len(cfgs))
		rep.Caps = []string{"sampled: validates the no-data-race assumption of the GOMAXPROCS=1 E2 parts"}
		return rep
	}
	part.Replay = func(e explore.Env, raw json.RawMessage) *explore.Violation {
		var cfg c01Config
		if err := json.Unmarshal(raw, &cfg); err != nil {
			t.Fatal(err)
		}
		o := c01Run(t, cfg)
		if len(o.fails) == 0 {
			return nil
		}
		return &explore.Violation{Key: "race-pass:" + o.fails[0].Key, What: o.fails[0].What, Human: []string{cfg.String()}}
	}
	explore.Main("C01", []explore.Part{part}, func(msg string) { t.Fatal(msg) })
}
