package quic_test

// C02: every parrot or derived spec yields a working connection, dial after dial.
// E2: spec-driven clients against the in-tree server in a synctest bubble; the spec
// (base fingerprint + knob deviations), the server configuration, the dial history on one
// reused spec value and the fate of each of the first datagrams are explorer choices. The
// server alphabet covers every way a conformant server makes the client send a second
// flight: Retry and Version Negotiation (start over at CRYPTO offset 0) and HelloRetryRequest
// (second ClientHello appended to the SAME Initial CRYPTO stream).

import (
	"context"
	"encoding/json"
	"fmt"
	"net"
	"strings"
	"testing"
	"time"

	quic "github.com/refraction-networking/uquic"
	"github.com/refraction-networking/uquic/internal/verifmc/explore"
	"github.com/refraction-networking/uquic/internal/verifmc/sim"
	"github.com/refraction-networking/uquic/internal/verifmc/wiremon"
	tls "github.com/refraction-networking/utls"
)

var c02Bases = []struct {
	Name string
	ID   *quic.QUICID // nil: not spec driven
	U    bool
}{
	{"plain", nil, false},
	{"unil", nil, true},
	{"chrome115", &quic.QUICChrome_115_IPv4, true},
	{"chrome115v6", &quic.QUICChrome_115_IPv6, true},
	{"chrome146", &quic.QUICChrome_146_IPv4, true},
	{"chrome146v6", &quic.QUICChrome_146_IPv6, true},
	{"firefox116a", &quic.QUICFirefox_116A, true},
	{"firefox116b", &quic.QUICFirefox_116B, true},
	{"firefox116c", &quic.QUICFirefox_116C, true},
}

// c02Knob derives a spec from a base without removing parameters the peer requires.
type c02Knob struct {
	Name  string
	Apply func(s *quic.QUICSpec, b string)
}

// c02CHLen is the measured ClientHello size of each base fingerprint (bytes).
var c02CHLen = map[string]int{"chrome115": 284, "chrome115v6": 298, "chrome146": 1738, "chrome146v6": 1700, "firefox116a": 512, "firefox116b": 512, "firefox116c": 512}

// c02PadTo grows the ClientHello of base b to roughly target bytes (never shrinks it).
func c02PadTo(s *quic.QUICSpec, b string, target int) {
	if n := target - c02CHLen[b] - 4; n > 0 {
		c02PadCH(s, n)
	}
}

func c02PadCH(s *quic.QUICSpec, n int) {
	// grow the ClientHello with a padding-like GREASE extension body so that it spans more
	// Initial datagrams
	s.ClientHelloSpec.Extensions = append(s.ClientHelloSpec.Extensions, &tls.GenericExtension{Id: 0xfe0d + 0x100, Data: make([]byte, n)})
}

// c02LayoutKnob: the knob fixes the Initial flight layout or the ClientHello size (frame
// builders, flight builders, packet plans, ClientHello padding).
func c02LayoutKnob(name string) bool {
	return strings.HasPrefix(name, "fb-") || strings.HasPrefix(name, "plan-") || strings.HasPrefix(name, "ch-")
}

var c02Knobs = []c02Knob{
	{"base", func(s *quic.QUICSpec, b string) {}},
	{"scid0", func(s *quic.QUICSpec, b string) { s.InitialPacketSpec.SrcConnIDLength = 0 }},
	// (1-byte source connection IDs collide with probability 1/256 per issued ID by
	// construction; that length is exercised on the wire by C10 only)
	{"scid4", func(s *quic.QUICSpec, b string) { s.InitialPacketSpec.SrcConnIDLength = 4 }},
	{"scid8", func(s *quic.QUICSpec, b string) { s.InitialPacketSpec.SrcConnIDLength = 8 }},
	{"scid20", func(s *quic.QUICSpec, b string) { s.InitialPacketSpec.SrcConnIDLength = 20 }},
	{"dcid0", func(s *quic.QUICSpec, b string) { s.InitialPacketSpec.DestConnIDLength = 0 }},
	{"dcid8", func(s *quic.QUICSpec, b string) { s.InitialPacketSpec.DestConnIDLength = 8 }},
	{"dcid20", func(s *quic.QUICSpec, b string) { s.InitialPacketSpec.DestConnIDLength = 20 }},
	{"pn0", func(s *quic.QUICSpec, b string) { s.InitialPacketSpec.InitPacketNumber = 0 }},
	{"pn1", func(s *quic.QUICSpec, b string) { s.InitialPacketSpec.InitPacketNumber = 1 }},
	{"pn2", func(s *quic.QUICSpec, b string) { s.InitialPacketSpec.InitPacketNumber = 2 }},
	{"pn200", func(s *quic.QUICSpec, b string) { s.InitialPacketSpec.InitPacketNumber = 200 }},
	{"pn1000", func(s *quic.QUICSpec, b string) { s.InitialPacketSpec.InitPacketNumber = 1000 }},
	{"pn70000", func(s *quic.QUICSpec, b string) { s.InitialPacketSpec.InitPacketNumber = 70000 }},
	{"pnlen-nil", func(s *quic.QUICSpec, b string) {
		s.InitialPacketSpec.InitPacketNumberLengths = nil
		s.InitialPacketSpec.InitPacketNumberLength = 0
	}},
	{"pnlen-1", func(s *quic.QUICSpec, b string) { s.InitialPacketSpec.InitPacketNumberLengths = []quic.PacketNumberLen{1} }},
	{"pnlen-1-2", func(s *quic.QUICSpec, b string) { s.InitialPacketSpec.InitPacketNumberLengths = []quic.PacketNumberLen{1, 2} }},
	{"pnlen-2-4", func(s *quic.QUICSpec, b string) { s.InitialPacketSpec.InitPacketNumberLengths = []quic.PacketNumberLen{2, 4} }},
	{"token70", func(s *quic.QUICSpec, b string) {
		s.InitialPacketSpec.ClientTokenLength = 70
		s.InitialPacketSpec.ClientTokenPrefix = []byte{0}
	}},
	{"token-prefix-only", func(s *quic.QUICSpec, b string) { s.InitialPacketSpec.ClientTokenPrefix = []byte{0, 1, 2, 3} }},
	{"fb-nil", func(s *quic.QUICSpec, b string) { s.InitialPacketSpec.FrameBuilder = nil }},
	{"fb-empty-frames", func(s *quic.QUICSpec, b string) { s.InitialPacketSpec.FrameBuilder = quic.QUICFrames{} }},
	{"fb-tiled", func(s *quic.QUICSpec, b string) {
		s.InitialPacketSpec.FrameBuilder = quic.QUICFrames{
			quic.QUICFramePing{}, quic.QUICFrameCrypto{Offset: 100, Length: 0}, quic.QUICFramePadding{Length: 3},
			quic.QUICFrameCrypto{Offset: 0, Length: 40}, quic.QUICFrameCrypto{Offset: 40, Length: 60}}
	}},
	{"fb-random-a", func(s *quic.QUICSpec, b string) {
		s.InitialPacketSpec.FrameBuilder = &quic.QUICRandomFrames{MinPING: 0, MaxPING: 3, MinCRYPTO: 1, MaxCRYPTO: 4, MinPADDING: 1, MaxPADDING: 3, Length: 1200}
	}},
	{"fb-random-b", func(s *quic.QUICSpec, b string) {
		s.InitialPacketSpec.FrameBuilder = &quic.QUICRandomFrames{MinPING: 2, MaxPING: 2, MinCRYPTO: 5, MaxCRYPTO: 5, MinPADDING: 0, MaxPADDING: 0, Length: 0}
	}},
	{"fb-random-c", func(s *quic.QUICSpec, b string) {
		s.InitialPacketSpec.FrameBuilder = &quic.QUICRandomFrames{MinCRYPTO: 1, MaxCRYPTO: 2, MinPADDING: 1, MaxPADDING: 2, Length: 600}
	}},
	{"fb-multidatagram", func(s *quic.QUICSpec, b string) {
		s.InitialPacketSpec.FrameBuilder = &quic.QUICMultiDatagramFrames{PerDatagram: []quic.QUICRandomFrames{
			{MinCRYPTO: 2, MaxCRYPTO: 4, MinPING: 0, MaxPING: 2, MinPADDING: 1, MaxPADDING: 3, Length: 1100},
			{MinCRYPTO: 1, MaxCRYPTO: 2}}}
	}},
	{"fb-flight-tailfirst", func(s *quic.QUICSpec, b string) {
		c02PadTo(s, b, 2000) // ClientHello of 1700..2000 bytes: three datagrams, tail first
		s.InitialPacketSpec.FrameBuilder = &quic.QUICFlightFrames{Datagrams: []quic.QUICFrames{
			{quic.QUICFrameCrypto{Offset: -365}, quic.QUICFrameCrypto{Offset: 0, Length: 62}},
			{quic.QUICFrameCrypto{Offset: 62, Length: 1100}},
			{quic.QUICFrameCrypto{Offset: 1162, Length: -365}}}}
	}},
	{"fb-randomflight", func(s *quic.QUICSpec, b string) {
		c02PadTo(s, b, 1500)
		s.InitialPacketSpec.FrameBuilder = &quic.QUICRandomFlightFrames{PerDatagram: []quic.QUICRandomFlightDatagram{
			{CryptoRanges: []quic.QUICCryptoRange{{Offset: -300}, {Offset: 0, Length: 50}}, Frames: quic.QUICRandomFrames{MinCRYPTO: 1, MaxCRYPTO: 3, MinPING: 0, MaxPING: 2}},
			{CryptoRanges: []quic.QUICCryptoRange{{Offset: 50, Length: 700}}, Frames: quic.QUICRandomFrames{MinCRYPTO: 1, MaxCRYPTO: 2}},
			{CryptoRanges: []quic.QUICCryptoRange{{Offset: 750, Length: -300}}, Frames: quic.QUICRandomFrames{MinCRYPTO: 2, MaxCRYPTO: 4, MinPING: 1, MaxPING: 2}}}}
	}},
	{"plan-999-1200", func(s *quic.QUICSpec, b string) {
		c02PadCH(s, 900)
		s.InitialPacketSpec.InitialPackets = []quic.InitialPacketPlan{{CryptoLength: 999, PacketSize: 1200}, {PacketSize: 1200}}
	}},
	{"plan-1250", func(s *quic.QUICSpec, b string) { s.InitialPacketSpec.InitialPackets = []quic.InitialPacketPlan{{PacketSize: 1250}} }},
	{"udpmin0", func(s *quic.QUICSpec, b string) { s.UDPDatagramMinSize = 0 }},
	{"udpmin1200", func(s *quic.QUICSpec, b string) { s.UDPDatagramMinSize = 1200 }},
	{"udpmin1357", func(s *quic.QUICSpec, b string) { s.UDPDatagramMinSize = 1357 }},
	{"randomize-tp", func(s *quic.QUICSpec, b string) { s.RandomizeTransportParameters = true }},
	{"suppress-grease", func(s *quic.QUICSpec, b string) { s.SuppressTransportParameters = []uint64{quic.QTPGrease} }},
	{"suppress-optional", func(s *quic.QUICSpec, b string) { s.SuppressTransportParameters = []uint64{0x4752, 0x3128, 0x20} }},
	{"ch-2datagrams", func(s *quic.QUICSpec, b string) { c02PadCH(s, 1300) }},
	{"ch-3datagrams", func(s *quic.QUICSpec, b string) { c02PadCH(s, 2500) }},
	{"ch-4datagrams", func(s *quic.QUICSpec, b string) { c02PadCH(s, 3600) }},
}

var c02Servers = []struct {
	Name  string
	Conf  func() *quic.Config
	Retry bool
	// Groups, when set, are the only TLS key exchange groups the server accepts
	// (tls.Config.CurvePreferences). Every built-in fingerprint (and the standard library
	// client) lists P-256 and P-384 in supported_groups but sends no key share for them, so
	// such a server answers the first ClientHello with a HelloRetryRequest and the client has
	// to CONTINUE its Initial CRYPTO stream with a second ClientHello behind the first one
	// (RFC 8446 4.1.4, RFC 9001 4.1.3: same connection, same packet number space, no reset of
	// the CRYPTO offset) - unlike Retry and Version Negotiation, which start over at offset 0.
	Groups []tls.CurveID
}{
	{"default", func() *quic.Config { return &quic.Config{} }, false, nil},
	{"retry", func() *quic.Config { return &quic.Config{} }, true, nil},
	{"v2-preferred", func() *quic.Config { return &quic.Config{Versions: []quic.Version{quic.Version2, quic.Version1}} }, false, nil},
	{"few-streams", func() *quic.Config { return &quic.Config{MaxIncomingStreams: 2, MaxIncomingUniStreams: 1} }, false, nil},
	// the server speaks QUIC v2 only: the client's first Initial (v1) is answered with Version
	// Negotiation and the connection is re-created inside the same Dial
	{"v2-only", func() *quic.Config { return &quic.Config{Versions: []quic.Version{quic.Version2}} }, false, nil},
	{"v2-only-retry", func() *quic.Config { return &quic.Config{Versions: []quic.Version{quic.Version2}} }, true, nil},
	// servers that require a second ClientHello (HelloRetryRequest), alone and behind Retry /
	// Version Negotiation
	{"hrr-p256", func() *quic.Config { return &quic.Config{} }, false, []tls.CurveID{tls.CurveP256}},
	{"hrr-p384", func() *quic.Config { return &quic.Config{} }, false, []tls.CurveID{tls.CurveP384}},
	{"hrr-p256-retry", func() *quic.Config { return &quic.Config{} }, true, []tls.CurveID{tls.CurveP256}},
	{"hrr-p256-v2-only", func() *quic.Config { return &quic.Config{Versions: []quic.Version{quic.Version2}} }, false, []tls.CurveID{tls.CurveP256}},
}

func c02ServerNames() []string {
	var n []string
	for _, s := range c02Servers {
		n = append(n, s.Name)
	}
	return n
}

// c02Server returns the index of the named server configuration.
func c02Server(name string) int {
	for i, s := range c02Servers {
		if s.Name == name {
			return i
		}
	}
	panic("no server " + name)
}

// c02MustNeedHRR: the spec offers every group the server insists on (otherwise it would lack
// a parameter the peer requires, which the statement excludes) and sends a key share for
// none of them, so that a completed handshake implies HelloRetryRequest + second ClientHello.
func c02MustNeedHRR(s *quic.QUICSpec, groups []tls.CurveID) {
	for _, g := range groups {
		offered := false
		for _, ext := range s.ClientHelloSpec.Extensions {
			switch x := ext.(type) {
			case *tls.SupportedCurvesExtension:
				for _, c := range x.Curves {
					offered = offered || c == g
				}
			case *tls.KeyShareExtension:
				for _, ks := range x.KeyShares {
					explore.Must(ks.Group != g, "spec already sends a key share for group %v: no HelloRetryRequest", g)
				}
			}
		}
		explore.Must(offered, "spec does not offer group %v", g)
	}
}

type c02Config struct {
	Base    int          `json:"base"`
	Knobs   []int        `json:"knobs"`
	Server  int          `json:"server"`
	History string       `json:"history"` // "seq3" | "overlap" | "newtransport"
	Seed    uint64       `json:"seed"`
	Faults  sim.FaultMap `json:"faults"`
}

func (c c02Config) knobNames() string {
	var n []string
	for _, k := range c.Knobs {
		n = append(n, c02Knobs[k].Name)
	}
	if len(n) == 0 {
		return "base"
	}
	return strings.Join(n, "+")
}

func (c c02Config) String() string {
	return fmt.Sprintf("%s[%s] server=%s history=%s seed=%d faults=%v", c02Bases[c.Base].Name, c.knobNames(), c02Servers[c.Server].Name, c.History, c.Seed, c.Faults)
}

type c02Outcome struct {
	suffix     string // ":dialN:stage:errclass" of the failure
	fail       *explore.Fail
	class      string
	transcript []string
	ndgram     int
}

func c02Run(t *testing.T, cfg c02Config) c02Outcome {
	var out c02Outcome
	base := c02Bases[cfg.Base]
	id := fmt.Sprintf("%s[%s]", base.Name, cfg.knobNames())
	ok := sim.Run(t, "run", cfg.Seed, func(t *testing.T) {
		w := sim.NewWorld(cfg.Faults)
		srv := c02Servers[cfg.Server]
		ctx, cancel := context.WithTimeout(context.Background(), 30*time.Second)
		defer cancel()
		stls := w.ServerTLS(false)
		if srv.Groups != nil {
			stls.CurvePreferences = srv.Groups
		}
		ln, err := w.ListenWith(stls, srv.Conf(), func(tr *quic.Transport) {
			if srv.Retry {
				tr.VerifySourceAddress = func(net.Addr) bool { return true }
			}
		})
		if err != nil {
			t.Fatal(err)
		}
		serverConns, srvDone := sim.EchoServer(ctx, ln, 2048, func(string) {})
		var spec *quic.QUICSpec
		mkKind := func() sim.ClientKind {
			if base.ID == nil {
				return sim.ClientKind{Name: base.Name, U: base.U}
			}
			return sim.ClientKind{Name: base.Name, U: true, Spec: func() *quic.QUICSpec {
				if spec == nil { // ONE spec value, reused by every dial of this history (built inside the seeded bubble)
					s, err := quic.QUICID2Spec(*base.ID)
					if err != nil {
						panic(err)
					}
					for _, k := range cfg.Knobs {
						c02Knobs[k].Apply(&s, base.Name)
					}
					if srv.Groups != nil {
						c02MustNeedHRR(&s, srv.Groups)
					}
					spec = &s
				}
				return spec
			}}
		}
		d, _, _ := w.NewDialer(mkKind())
		dialers := []sim.Dialer{d}
		var conns []*quic.Conn
		fail := func(stage string, dial int, err error) {
			if out.fail != nil {
				return
			}
			out.suffix = fmt.Sprintf(":dial%d:%s:%s", dial, stage, sim.ErrClass(err))
			out.fail = explore.Failf(id+out.suffix,
				"%s server=%s history=%s: dial #%d %s failed: %v", id, srv.Name, cfg.History, dial, stage, err)
		}
		one := func(dial int, dl sim.Dialer, keepOpen bool) {
			cconf := &quic.Config{}
			if strings.Contains(srv.Name, "v2-only") {
				cconf.Versions = []quic.Version{quic.Version1, quic.Version2}
			}
			conn, err := dl.Dial(ctx, w.ServerAddr, w.ClientTLS(), cconf)
			if err != nil {
				fail("Dial", dial, err)
				return
			}
			conns = append(conns, conn)
			if err := sim.EchoOnce(ctx, conn, dial, 2048, 2048); err != nil {
				if ce := context.Cause(conn.Context()); conn.Context().Err() != nil && ce != nil {
					err = fmt.Errorf("%v (connection: %w)", err, ce)
				}
				fail("echo", dial, err)
				return
			}
			if conn.Context().Err() != nil {
				fail("connection-error-before-close", dial, context.Cause(conn.Context()))
				return
			}
			if !keepOpen {
				conn.CloseWithError(0, "")
			}
		}
		switch cfg.History {
		case "seq3":
			for i := 1; i <= 3 && out.fail == nil; i++ {
				one(i, d, false)
			}
		case "overlap":
			// two connections open at the same time, each from its own UTransport (its own
			// socket: with zero-length source connection IDs one socket can only carry one
			// connection to a peer), both using the SAME spec value
			one(1, d, true)
			if out.fail == nil {
				d2, _, _ := w.NewDialer(mkKind())
				dialers = append(dialers, d2)
				one(2, d2, true)
			}
			if out.fail == nil {
				if err := sim.EchoOnce(ctx, conns[0], 11, 2048, -1); err != nil {
					fail("first-connection-broken-by-second-dial", 1, err)
				}
			}
		case "newtransport":
			one(1, d, false)
			if out.fail == nil {
				// a second UTransport on a new socket sharing the SAME spec value
				d2, _, _ := w.NewDialer(mkKind())
				dialers = append(dialers, d2)
				one(2, d2, false)
			}
		}
		// server side must have seen every successful connection without error of its own
		time.Sleep(50 * time.Millisecond)
		scs := serverConns()
		if out.fail == nil && len(scs) < len(conns) {
			out.fail = explore.Failf(id+":server-accept-missing", "%s: %d client connections but the server accepted %d", id, len(conns), len(scs))
		}
		for _, c := range conns {
			c.CloseWithError(0, "")
		}
		for _, c := range scs {
			c.CloseWithError(0, "")
		}
		cancel()
		for _, dl := range dialers {
			dl.Close()
		}
		ln.Close()
		w.ServerTr.Close()
		w.CloseEndpoints()
		<-srvDone
		if mon := wiremon.Analyze(w.Router.FullLog(), w.KeyLog.Lines(), wiremon.Params{}); len(mon.Findings) > 0 && out.fail == nil {
			out.suffix = ":" + mon.Findings[0].Key
			out.fail = explore.Failf(id+out.suffix, "%s server=%s history=%s: %s", id, srv.Name, cfg.History, mon.Findings[0].What)
		}
		out.ndgram = w.Router.Count(sim.C2S) + w.Router.Count(sim.S2C)
		out.transcript = w.Router.Transcript()
	})
	if !ok && out.fail == nil {
		out.fail = explore.Failf(id+":bubble-failed", "bubble did not terminate cleanly for %v", cfg)
	}
	out.class = fmt.Sprintf("%s %s ok=%v", base.Name, c02Servers[cfg.Server].Name, out.fail == nil)
	return out
}

// c02Attribute re-keys a failure of a derived configuration (knobs, non-default server,
// faults) to the underlying base configuration when the plain base configuration fails in
// the very same way: one defect, one key.
func c02Attribute(t *testing.T, cache map[string]string, cfg c02Config, o *c02Outcome) {
	if o.fail == nil || o.suffix == "" {
		return
	}
	for _, ref := range []c02Config{
		{Base: cfg.Base, Server: 0, History: cfg.History, Seed: cfg.Seed},
		{Base: cfg.Base, Server: 0, History: "seq3", Seed: cfg.Seed},
	} {
		k := fmt.Sprintf("%d/%s", ref.Base, ref.History)
		suf, ok := cache[k]
		if !ok {
			suf = c02Run(t, ref).suffix
			cache[k] = suf
		}
		if suf == o.suffix {
			o.fail.Key = fmt.Sprintf("%s[base]%s", c02Bases[cfg.Base].Name, suf)
			return
		}
	}
}

func c02Part(t *testing.T, name string, mk func(e explore.Env) ([]c02Config, string)) explore.Part {
	cache := map[string]string{}
	return explore.Part{
		Name: name,
		Run: func(e explore.Env) *explore.Report {
			cfgs, rule := mk(e)
			rep := explore.RunCases(e, len(cfgs), 1, false, func(i int) explore.CaseResult {
				explore.MarkCurrent(e, name, cfgs[i])
				o := c02Run(t, cfgs[i])
				c02Attribute(t, cache, cfgs[i], &o)
				cr := explore.CaseResult{Outcome: o.class + fmt.Sprintf(" dg~%d", o.ndgram/8*8), Execs: 1, Trans: int64(o.ndgram), Replay: cfgs[i]}
				if o.fail != nil {
					cr.Fail = o.fail
					cr.Human = append([]string{cfgs[i].String()}, o.transcript...)
				}
				return cr
			})
			rep.Level = "fault_enumeration"
			rep.Rule = rule
			rep.Bound = rule
			if len(cfgs) > 0 {
				rep.Samples = []any{cfgs[0].String(), cfgs[len(cfgs)/2].String(), cfgs[len(cfgs)-1].String()}
			}
			return rep
		},
		Replay: func(e explore.Env, raw json.RawMessage) *explore.Violation {
			var cfg c02Config
			if err := json.Unmarshal(raw, &cfg); err != nil {
				t.Fatal(err)
			}
			o := c02Run(t, cfg)
			if o.fail == nil {
				return nil
			}
			c02Attribute(t, cache, cfg, &o)
			return &explore.Violation{Key: o.fail.Key, What: o.fail.What, Human: append([]string{cfg.String()}, o.transcript...)}
		},
	}
}

var c02Fates = []sim.Fate{sim.Drop, sim.Dup, sim.Delay, sim.DelayLong, sim.Flip0, sim.Flip7, sim.FlipMid, sim.FlipLast, sim.Trunc1, sim.Trunc20, sim.TruncLast, sim.FlipSCID}

func c02SpecBases() []int {
	var l []int
	for i, b := range c02Bases {
		if b.ID != nil {
			l = append(l, i)
		}
	}
	return l
}

func TestVerifC02(t *testing.T) {
	sim.InitCerts(t)
	seed := func(e explore.Env) uint64 { return uint64(e.Seed) + 7 }
	parts := []explore.Part{
		c02Part(t, "knobs-x-bases", func(e explore.Env) ([]c02Config, string) {
			var cfgs []c02Config
			for _, b := range c02SpecBases() {
				for k := range c02Knobs {
					for _, h := range []string{"seq3", "overlap", "newtransport"} {
						if k != 0 && h != "seq3" && !e.Thorough() {
							continue
						}
						cfgs = append(cfgs, c02Config{Base: b, Knobs: []int{k}, Server: 0, History: h, Seed: seed(e)})
					}
				}
			}
			if e.Thorough() { // pairs of knobs
				for _, b := range c02SpecBases() {
					for k1 := 1; k1 < len(c02Knobs); k1++ {
						for k2 := k1 + 1; k2 < len(c02Knobs); k2++ {
							if c02LayoutKnob(c02Knobs[k1].Name) && c02LayoutKnob(c02Knobs[k2].Name) {
								// two knobs that each fix the flight layout (or the ClientHello size a layout was
								// computed for) contradict each other: the second overwrites or invalidates the first
								continue
							}
							cfgs = append(cfgs, c02Config{Base: b, Knobs: []int{k1, k2}, Server: 0, History: "seq3", Seed: seed(e)})
						}
					}
				}
			}
			return cfgs, fmt.Sprintf("every built-in QUICID x every one-knob deviation (%d knobs; in thorough every pair except two layout knobs, which contradict each other) x dial histories on ONE reused spec value (3 sequential dials; 2 overlapping dials; second UTransport sharing the spec), default server, no faults", len(c02Knobs))
		}),
		c02Part(t, "knobs-x-servers", func(e explore.Env) ([]c02Config, string) {
			// every knob also against the servers that make the client re-create its Initial
			// space (Retry) or the whole connection (Version Negotiation), or that make it continue
			// the Initial CRYPTO stream with a second ClientHello (HelloRetryRequest): a knob that
			// works on a first flight may be mis-applied on the second
			servers := []int{c02Server("retry"), c02Server("v2-only"), c02Server("hrr-p256")}
			hist := []string{"seq3"}
			if e.Thorough() {
				servers = nil
				for i := 1; i < len(c02Servers); i++ {
					servers = append(servers, i)
				}
				hist = []string{"seq3", "overlap"}
			}
			var cfgs []c02Config
			for _, b := range c02SpecBases() {
				for k := 1; k < len(c02Knobs); k++ {
					for _, s := range servers {
						for _, h := range hist {
							cfgs = append(cfgs, c02Config{Base: b, Knobs: []int{k}, Server: s, History: h, Seed: seed(e)})
						}
					}
				}
			}
			return cfgs, fmt.Sprintf("every built-in QUICID x every one-knob deviation (%d knobs) x servers %v of %v x dial histories %v on ONE reused spec value", len(c02Knobs)-1, servers, c02ServerNames(), hist)
		}),
		c02Part(t, "knobs-x-faults", func(e explore.Env) ([]c02Config, string) {
			// every knob with a loss early in dial 1: what a knob pins for the first flight
			// (numbering, lengths, sizes, layout) must not break the retransmissions
			slots := []sim.Slot{{Dir: sim.C2S, Idx: 0}, {Dir: sim.S2C, Idx: 0}, {Dir: sim.C2S, Idx: 1}}
			fates := []sim.Fate{sim.Drop}
			if e.Thorough() {
				slots = append(slots, sim.Slot{Dir: sim.S2C, Idx: 1}, sim.Slot{Dir: sim.C2S, Idx: 2}, sim.Slot{Dir: sim.S2C, Idx: 2})
				fates = []sim.Fate{sim.Drop, sim.Delay, sim.FlipMid}
			}
			// against a server that asks for a second ClientHello the client's second flight sits
			// one or two datagrams further along
			hrrSlots := append(append([]sim.Slot{}, slots...), sim.Slot{Dir: sim.C2S, Idx: 2}, sim.Slot{Dir: sim.S2C, Idx: 1})
			if e.Thorough() {
				hrrSlots = append(append([]sim.Slot{}, slots...), sim.Slot{Dir: sim.C2S, Idx: 3}, sim.Slot{Dir: sim.S2C, Idx: 3})
			}
			hrr := c02Server("hrr-p256")
			var cfgs []c02Config
			for _, b := range c02SpecBases() {
				for k := 1; k < len(c02Knobs); k++ {
					for _, srv := range []int{0, hrr} {
						sls := slots
						if srv == hrr {
							sls = hrrSlots
						}
						for _, sl := range sls {
							for _, f := range fates {
								cfgs = append(cfgs, c02Config{Base: b, Knobs: []int{k}, Server: srv, History: "seq3", Seed: seed(e), Faults: sim.FaultMap{{Slot: sl, Fate: f}}})
							}
						}
					}
				}
			}
			return cfgs, fmt.Sprintf("every built-in QUICID x every one-knob deviation (%d knobs) x 1 fault %v on one of the datagrams %v of dial 1 against the default server, and on one of %v against the server that demands a second ClientHello (hrr-p256), 3 sequential dials on ONE reused spec value", len(c02Knobs)-1, fates, slots, hrrSlots)
		}),
		c02Part(t, "servers-x-bases", func(e explore.Env) ([]c02Config, string) {
			var cfgs []c02Config
			for b := range c02Bases {
				for s := range c02Servers {
					cfgs = append(cfgs, c02Config{Base: b, Knobs: nil, Server: s, History: "seq3", Seed: seed(e)})
				}
			}
			return cfgs, fmt.Sprintf("every base (plain, UTransport without spec, 7 QUICIDs) x server configuration %v (hrr-*: the server accepts one key exchange group only, one that every base offers without a key share, so it answers with HelloRetryRequest and the client continues the Initial CRYPTO stream with a second ClientHello) x 3 sequential dials", c02ServerNames())
		}),
		c02Part(t, "faults-x-bases", func(e explore.Env) ([]c02Config, string) {
			n := [2]int{6, 6}
			k := 1
			if e.Thorough() {
				n = [2]int{8, 8}
			}
			var cfgs []c02Config
			for b := range c02Bases {
				for _, srv := range []int{0, c02Server("hrr-p256")} {
					for _, m := range sim.AllFaultMaps(n, c02Fates, k) {
						if len(m) == 0 {
							continue
						}
						cfgs = append(cfgs, c02Config{Base: b, Server: srv, History: "seq3", Seed: seed(e), Faults: m})
					}
				}
			}
			if e.Thorough() {
				small := []sim.Fate{sim.Drop, sim.Dup, sim.Delay}
				for _, b := range c02SpecBases() {
					for _, m := range sim.AllFaultMaps([2]int{6, 6}, small, 2) {
						if len(m) == 2 {
							cfgs = append(cfgs, c02Config{Base: b, Server: 0, History: "seq3", Seed: seed(e), Faults: m})
						}
					}
					for _, srv := range []int{c02Server("retry"), c02Server("hrr-p384"), c02Server("hrr-p256-retry"), c02Server("hrr-p256-v2-only")} {
						for _, m := range sim.AllFaultMaps([2]int{6, 6}, small, 1) {
							if len(m) == 1 {
								cfgs = append(cfgs, c02Config{Base: b, Server: srv, History: "seq3", Seed: seed(e), Faults: m})
							}
						}
					}
				}
			}
			return cfgs, fmt.Sprintf("every base x servers {default, hrr-p256 (HelloRetryRequest: second ClientHello)} x every fault map with 1 fault (%d fates) among the first %d datagrams of each direction of dial 1 (thorough: 2 faults from {drop,dup,delay} against the default server, and 1 fault with retry / hrr-p384 / hrr-p256-retry / hrr-p256-v2-only), 3 sequential dials", len(c02Fates), n[0])
		}),
	}
	explore.Main("C02", parts, func(msg string) { t.Fatal(msg) })
}
