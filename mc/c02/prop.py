# ./check configuration for C02 (merged by mc/props.py)
PROP = dict(
    pkg=".", test="TestVerifC02", files=["mc/c02/*.go"], libs=["explore", "canon", "sim", "wiremon"],
    engine="E2 simx", level="fault_enumeration", shards="ncpu", gomaxprocs=1,
    env={"GODEBUG": "randseednop=0,asyncpreemptoff=1"},
    deterministic=False, crash_is_violation=True,
    deadline=dict(quick=100, thorough=1100),
    rule="whole client+server connections of the real implementation in a synctest bubble over a fault-injecting router; one execution per static fault map (slot -> fate)",
    assumptions=["goroutine interleavings inside the connection are chosen by the Go runtime (GOMAXPROCS=1), not enumerated; oracles are schedule-independent",
                 "crypto/rand pinned per run with cryptotest.SetGlobalRandom; math/rand seeded",
                 "bounded liveness: every dial + echo must finish within 30 s of virtual time"],
    level_text="Exhaustive enumeration, on real client and server endpoints in virtual time, of (built-in fingerprint x one-knob spec deviation x dial history on one reused spec value), (base x server configuration) and (base x every single fault on the first datagrams of either direction); every dial must complete the handshake, echo 2 kB both ways and stay error-free. Pairs of knobs and two-fault maps in the thorough tier. Every execution is also read by the passive wire monitor (mc/lib/wiremon): each datagram either endpoint SENT is opened with independent packet protection (mc/lib/ref5, secrets from the TLS key log), its frames are parsed by an independent parser, and sender-side invariants are checked (packet numbers increase and stay decodable for what the sender knows to be acknowledged; ACK frames name only packets whose intact copy had arrived; retransmissions never change stream or CRYPTO bytes; data, stream counts and final sizes stay within the limits that had reached the sender, read from the ClientHello / EncryptedExtensions; frames fit their encryption level; 1-RTT packets use connection IDs the peer issued and the sender has not retired; nothing but CONNECTION_CLOSE after CONNECTION_CLOSE). What an endpoint can have received is over-approximated from fates and virtual times, so the monitor can miss but not invent a violation; exchanges with injected datagrams are not judged by it.",
    level_note="Trusted: simnet + synctest virtual time; the in-tree server as the standards-conformant peer; knob alphabet in mc/c02 (CID lengths, PN settings, tokens, frame/flight builders, per-datagram plans, UDP minimum sizes, parameter shuffling/suppression, ClientHello sizes spanning 1..4 Initial datagrams); the runtime goroutine schedule is not enumerated.",
    technique="exhaustive configuration x dial-history x single-fault enumeration on real endpoints in virtual time",
)
