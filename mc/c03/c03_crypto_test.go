package quic

// C03 part "crypto": explicit-state search over the receive side of the real crypto streams.

import (
	"fmt"
	"strings"

	"github.com/refraction-networking/uquic/internal/protocol"
	"github.com/refraction-networking/uquic/internal/qerr"
	"github.com/refraction-networking/uquic/internal/verifmc/canon"
	"github.com/refraction-networking/uquic/internal/verifmc/explore"
	"github.com/refraction-networking/uquic/internal/wire"
)

type c03CryptoStream interface {
	HandleCryptoFrame(*wire.CryptoFrame) error
	GetCryptoData() []byte
	Finish() error
}

type c03CryptoInst struct {
	str      c03CryptoStream
	K, c     int
	recv     []bool
	far      bool // a segment ending exactly at MaxCryptoStreamOffset was received
	readPos  int
	highest  int
	finished bool
	dead     bool
	outcome  string
}

func newC03CryptoInst(K, c int, initial bool) *c03CryptoInst {
	in := &c03CryptoInst{K: K, c: c, recv: make([]bool, K)}
	if initial {
		in.str = newInitialCryptoStream(false)
	} else {
		in.str = newCryptoStream()
	}
	return in
}

func (in *c03CryptoInst) Ops() []explore.Op {
	if in.dead {
		return nil
	}
	ops := []explore.Op{{N: "get"}, {N: "finish"}, {N: "far", A: 0}, {N: "far", A: 1}}
	for l := 1; l <= in.K; l++ {
		for o := 0; o+l <= in.K; o++ {
			ops = append(ops, explore.Op{N: "handle", A: o, B: l})
		}
	}
	return ops
}

func (in *c03CryptoInst) pending() bool { // received but undelivered bytes exist
	if in.far {
		return true
	}
	for cell := in.readPos / in.c; cell < in.K; cell++ {
		if in.recv[cell] {
			return true
		}
	}
	return false
}

func (in *c03CryptoInst) handle(o, l int) *explore.Fail {
	end := o + l
	err := in.str.HandleCryptoFrame(&wire.CryptoFrame{Offset: protocol.ByteCount(o), Data: c03Fill(o, l)})
	switch {
	case end > int(protocol.MaxCryptoStreamOffset):
		if !c03IsTransportErr(err, qerr.CryptoBufferExceeded) {
			return explore.Failf("crypto-offset-cap", "CRYPTO frame ending at %d (cap %d) returned %v, want CRYPTO_BUFFER_EXCEEDED", end, protocol.MaxCryptoStreamOffset, err)
		}
		in.dead = true
	case in.finished && end > in.highest:
		if !c03IsTransportErr(err, qerr.ProtocolViolation) {
			return explore.Failf("crypto-after-finish", "new CRYPTO data [%d,%d) after the level was finished at %d returned %v, want PROTOCOL_VIOLATION", o, end, in.highest, err)
		}
		in.dead = true
	default:
		if err != nil {
			return explore.Failf("crypto-spurious-reject", "CRYPTO frame [%d,%d) rejected: %v", o, end, err)
		}
		if !in.finished {
			in.highest = max(in.highest, end)
		}
	}
	return nil
}

func (in *c03CryptoInst) Apply(op explore.Op) *explore.Fail {
	in.outcome = op.N
	switch op.N {
	case "handle":
		if fl := in.handle(op.A*in.c, op.B*in.c); fl != nil || in.dead {
			return fl
		}
		if !in.finished {
			for i := op.A; i < op.A+op.B; i++ {
				if (i+1)*in.c > in.readPos {
					in.recv[i] = true
				}
			}
		}
	case "far":
		o := int(protocol.MaxCryptoStreamOffset) - in.c + op.A
		if fl := in.handle(o, in.c); fl != nil || in.dead {
			return fl
		}
		if !in.finished && op.A == 0 {
			in.far = true
		}
	case "get":
		data := in.str.GetCryptoData()
		av := 0
		for cell := in.readPos / in.c; cell < in.K && in.recv[cell]; cell++ {
			av += in.c
		}
		if data == nil {
			if av > 0 {
				return explore.Failf("crypto-get-missing", "GetCryptoData returned nothing although %d contiguous bytes are available at %d", av, in.readPos)
			}
			in.outcome = "get empty"
			break
		}
		if len(data) == 0 || len(data) > av {
			return explore.Failf("crypto-get-length", "GetCryptoData returned %d bytes at %d, only %d contiguous bytes were received", len(data), in.readPos, av)
		}
		if i, ok := c03CheckBytes(data, in.readPos); !ok {
			return explore.Failf("crypto-get-bytes", "GetCryptoData at %d: byte %d wrong", in.readPos, i)
		}
		in.readPos += len(data)
		in.outcome = "get data"
	case "finish":
		err := in.str.Finish()
		if in.pending() {
			if !c03IsTransportErr(err, qerr.ProtocolViolation) {
				return explore.Failf("crypto-finish-with-data", "Finish with undelivered data returned %v, want PROTOCOL_VIOLATION", err)
			}
			in.dead = true
		} else {
			if err != nil {
				return explore.Failf("crypto-finish-spurious", "Finish without pending data returned %v", err)
			}
			in.finished = true
		}
	default:
		explore.Must(false, "unknown op %v", op)
	}
	return nil
}

func (in *c03CryptoInst) Outcome() string { return in.outcome }

func (in *c03CryptoInst) Key() string {
	var sb strings.Builder
	sb.WriteString(canon.Dump(in.str, canon.Options{}))
	fmt.Fprintf(&sb, "|%v far=%v rp=%d h=%d fin=%v dead=%v", in.recv, in.far, in.readPos, in.highest, in.finished, in.dead)
	return sb.String()
}

func c03CryptoPart(name string, initial bool) explore.Part {
	return explore.BFSPart(name, func(e explore.Env) explore.BFSSpec {
		K := 5
		if e.Thorough() {
			K = 7
		}
		return explore.BFSSpec{
			New:              func() explore.Instance { return newC03CryptoInst(K, 50, initial) },
			PanicIsViolation: true,
			Rule:             fmt.Sprintf("BFS to closure over the real crypto stream receive side (initial=%v); alphabet: HandleCryptoFrame for every cell-aligned segment of a %d-cell lattice plus a segment ending exactly at / one byte past MaxCryptoStreamOffset, GetCryptoData, Finish", initial, K),
		}
	})
}
