package quic

import (
	"testing"

	"github.com/refraction-networking/uquic/internal/verifmc/explore"
)

func TestVerifC03(t *testing.T) {
	explore.Main("C03", []explore.Part{
		c03SorterPart("sorter-cell50", 50),
		c03SorterPart("sorter-cell1", 1),
		c03SorterPart("sorter-cell128", 128),
		c03RStreamPart("rstream-cell50", 50),
		c03RStreamPart("rstream-cell1", 1),
		c03CryptoPart("crypto", false),
		c03CryptoPart("crypto-initial", true),
	}, func(msg string) { t.Fatal(msg) })
}
