package quic

// C03 part "rstream": explicit-state search over the real ReceiveStream wired to real
// stream and connection flow controllers.

import (
	"errors"
	"fmt"
	"io"
	"strings"
	"sync/atomic"
	"time"

	"github.com/refraction-networking/uquic/internal/flowcontrol"
	"github.com/refraction-networking/uquic/internal/monotime"
	"github.com/refraction-networking/uquic/internal/protocol"
	"github.com/refraction-networking/uquic/internal/qerr"
	"github.com/refraction-networking/uquic/internal/utils"
	"github.com/refraction-networking/uquic/internal/verifmc/canon"
	"github.com/refraction-networking/uquic/internal/verifmc/explore"
	"github.com/refraction-networking/uquic/internal/wire"
)

type c03Sender struct {
	hasCtrl   bool
	completed int
}

func (s *c03Sender) onHasConnectionData()                                    {}
func (s *c03Sender) onHasStreamData(protocol.StreamID, *SendStream)          {}
func (s *c03Sender) onHasStreamControlFrame(protocol.StreamID, streamControlFrameGetter) {
	s.hasCtrl = true
}
func (s *c03Sender) onStreamCompleted(protocol.StreamID) { s.completed++ }

var errC03Shutdown = errors.New("c03 shutdown")

const c03Now = monotime.Time(1_000_000_000_000)

type c03RStreamInst struct {
	str    *ReceiveStream
	sender *c03Sender
	K, c   int

	// reference model
	recv        []bool // cells accepted into the stream before any local cancellation
	highest     int    // highest offset seen (bytes)
	final       int    // -1: unknown
	finViaFIN   bool
	readPos     int
	limit       int // advertised stream limit (bytes)
	cancelLocal bool
	cancelCode  int
	reset       bool
	resetCode   int
	reliable    int
	shutdown    bool
	dead        bool // a transport error was returned: the connection would be closed
	outcome     string
}

func newC03RStreamInst(K, c, windowCells int) *c03RStreamInst {
	in := &c03RStreamInst{K: K, c: c, recv: make([]bool, K), final: -1, limit: windowCells * c, sender: &c03Sender{}}
	rtt := utils.NewRTTStats()
	cfc := flowcontrol.NewConnectionFlowController(1<<20, 1<<20, func(protocol.ByteCount) bool { return true }, rtt, utils.DefaultLogger)
	sfc := flowcontrol.NewStreamFlowController(3, cfc, protocol.ByteCount(in.limit), protocol.ByteCount(in.limit), 0, rtt, utils.DefaultLogger)
	in.str = newReceiveStream(3, in.sender, sfc)
	return in
}

func (in *c03RStreamInst) avail() int {
	n := 0
	for cell := in.readPos / in.c; cell < in.K && in.recv[cell]; cell++ {
		n += in.c
	}
	n -= in.readPos % in.c
	if n < 0 {
		n = 0
	}
	return n
}

func (in *c03RStreamInst) resetEffective() bool { return in.reset && in.readPos >= in.reliable }

func (in *c03RStreamInst) atEOF() bool {
	return in.finViaFIN && in.final >= 0 && in.readPos == in.final
}

// readEnabled: the model predicts that Read returns without blocking.
func (in *c03RStreamInst) readEnabled() bool {
	return in.avail() > 0 || in.atEOF() || in.cancelLocal || in.shutdown || in.resetEffective()
}

func (in *c03RStreamInst) Ops() []explore.Op {
	if in.dead {
		return nil
	}
	var ops []explore.Op
	if in.readEnabled() {
		ops = append(ops, explore.Op{N: "read", A: 1}, explore.Op{N: "read", A: in.c}, explore.Op{N: "read", A: 2*in.c + 1}, explore.Op{N: "read", A: in.K * in.c})
	}
	av := in.avail()
	for _, n := range []int{1, in.c + 1, 2 * in.c} {
		if av >= n || in.cancelLocal || in.shutdown || in.resetEffective() || in.atEOF() ||
			(in.finViaFIN && av > 0 && in.readPos+av == in.final) || (in.reset && av > 0 && in.readPos+av >= in.reliable) {
			ops = append(ops, explore.Op{N: "peek", A: n})
		}
	}
	if in.sender.hasCtrl {
		ops = append(ops, explore.Op{N: "ctrl"})
	}
	for l := 1; l <= in.K; l++ {
		for o := 0; o+l <= in.K; o++ {
			ops = append(ops, explore.Op{N: "frame", A: o, B: l}, explore.Op{N: "frame", A: o, B: l, C: 1})
		}
	}
	for o := 0; o <= in.K; o++ {
		ops = append(ops, explore.Op{N: "frame", A: o, B: 0, C: 1}) // empty FIN frame
	}
	for fin := 0; fin <= in.K; fin++ {
		ops = append(ops, explore.Op{N: "reset", A: fin, B: 0})
		if fin >= 2 {
			ops = append(ops, explore.Op{N: "reset", A: fin, B: fin / 2})
		}
		if fin >= 1 {
			ops = append(ops, explore.Op{N: "reset", A: fin, B: fin})
		}
	}
	if !in.cancelLocal {
		ops = append(ops, explore.Op{N: "cancel"})
	}
	if !in.shutdown {
		ops = append(ops, explore.Op{N: "shutdown"})
	}
	return ops
}

func c03IsTransportErr(err error, code qerr.TransportErrorCode) bool {
	var te *qerr.TransportError
	return errors.As(err, &te) && te.ErrorCode == code
}

// expectFrameErr returns the transport error codes the model allows for a frame / reset
// ending at `end` (final=true for FIN / RESET_STREAM); empty = must be accepted.
func (in *c03RStreamInst) expectErr(end int, final bool) []qerr.TransportErrorCode {
	var codes []qerr.TransportErrorCode
	if in.final >= 0 && (end > in.final || (final && end != in.final)) {
		codes = append(codes, qerr.FinalSizeError)
	}
	if final && end < in.highest {
		codes = append(codes, qerr.FinalSizeError)
	}
	if end > in.limit {
		codes = append(codes, qerr.FlowControlError)
	}
	return codes
}

func (in *c03RStreamInst) checkErr(what string, err error, allowed []qerr.TransportErrorCode) *explore.Fail {
	if len(allowed) == 0 {
		if err != nil {
			return explore.Failf("rstream-spurious-reject:"+what, "%s within final size %d and limit %d was rejected: %v", what, in.final, in.limit, err)
		}
		return nil
	}
	if err == nil {
		return explore.Failf("rstream-missing-reject:"+what, "%s accepted although it must be rejected with %v (final %d, highest %d, limit %d)", what, allowed, in.final, in.highest, in.limit)
	}
	for _, c := range allowed {
		if c03IsTransportErr(err, c) {
			in.dead = true
			return nil
		}
	}
	return explore.Failf("rstream-wrong-reject:"+what, "%s rejected with %v, expected one of %v", what, err, allowed)
}

// classify checks an error returned by Read/Peek after n good bytes against the model.
func (in *c03RStreamInst) classify(call string, n int, err error) *explore.Fail {
	pos := in.readPos + n
	var se *StreamError
	switch {
	case err == nil:
		return nil
	case err == io.EOF:
		if !(in.finViaFIN && pos == in.final) {
			return explore.Failf("rstream-early-eof:"+call, "%s returned io.EOF at offset %d; final size %d (FIN seen: %v)", call, pos, in.final, in.finViaFIN)
		}
	case errors.As(err, &se):
		if se == nil {
			return explore.Failf("rstream-nil-streamerror:"+call, "%s returned a nil *StreamError as error", call)
		}
		if se.Remote {
			if !in.reset || (pos < in.reliable && !in.cancelLocal) || int(se.ErrorCode) != in.resetCode {
				return explore.Failf("rstream-bad-reset-error:"+call, "%s returned %v at offset %d; reset=%v reliable=%d code=%d", call, err, pos, in.reset, in.reliable, in.resetCode)
			}
		} else {
			if !in.cancelLocal || int(se.ErrorCode) != in.cancelCode {
				return explore.Failf("rstream-bad-cancel-error:"+call, "%s returned %v; cancelled locally=%v", call, err, in.cancelLocal)
			}
		}
	case err == errC03Shutdown:
		if !in.shutdown {
			return explore.Failf("rstream-bad-shutdown-error:"+call, "%s returned the shutdown error before shutdown", call)
		}
	default:
		return explore.Failf("rstream-unexpected-error:"+call, "%s returned unexpected error %v", call, err)
	}
	return nil
}

var c03Blocked atomic.Int32

// c03Call runs f in its own goroutine; a call that the model says cannot block gets 30 s
// (2 s once a first call has been found blocked in this process: the verdict exists already).
func c03Call(f func()) bool {
	done := make(chan struct{})
	go func() { f(); close(done) }()
	d := 30 * time.Second
	if c03Blocked.Load() > 0 {
		d = 2 * time.Second
	}
	select {
	case <-done:
		return true
	case <-time.After(d):
		c03Blocked.Add(1)
		return false
	}
}

func (in *c03RStreamInst) Apply(op explore.Op) *explore.Fail {
	in.outcome = op.N
	switch op.N {
	case "frame":
		o, l, fin := op.A*in.c, op.B*in.c, op.C == 1
		f := &wire.StreamFrame{StreamID: 3, Offset: protocol.ByteCount(o), Data: c03Fill(o, l), Fin: fin}
		allowed := in.expectErr(o+l, fin)
		err := in.str.handleStreamFrame(f, c03Now)
		if fl := in.checkErr("STREAM frame", err, allowed); fl != nil || in.dead {
			in.outcome = "frame rejected"
			return fl
		}
		in.highest = max(in.highest, o+l)
		if fin {
			in.final = o + l
			in.finViaFIN = true
		}
		if !in.cancelLocal {
			for i := op.A; i < op.A+op.B; i++ {
				in.recv[i] = true
			}
		}
	case "reset":
		final, rel := op.A*in.c, op.B*in.c
		f := &wire.ResetStreamFrame{StreamID: 3, ErrorCode: 77, FinalSize: protocol.ByteCount(final), ReliableSize: protocol.ByteCount(rel)}
		allowed := in.expectErr(final, true)
		err := in.str.handleResetStreamFrame(f, c03Now)
		if in.shutdown {
			// the connection is going away; nothing is specified for frames arriving now
			if err != nil && !c03IsTransportErr(err, qerr.FinalSizeError) && !c03IsTransportErr(err, qerr.FlowControlError) {
				return explore.Failf("rstream-unexpected-error:reset", "reset after shutdown returned %v", err)
			}
			if err != nil {
				in.dead = true
			}
			return nil
		}
		if fl := in.checkErr("RESET_STREAM frame", err, allowed); fl != nil || in.dead {
			in.outcome = "reset rejected"
			return fl
		}
		in.highest = max(in.highest, final)
		in.final = final
		if !in.cancelLocal {
			if !in.reset {
				in.reset = true
				in.resetCode = 77
				in.reliable = rel
			} else if rel < in.reliable {
				in.reliable = rel
			}
		} else if in.reset && rel < in.reliable {
			in.reliable = rel
		}
	case "cancel":
		in.str.CancelRead(55)
		if !in.cancelLocal {
			in.cancelLocal = true
			in.cancelCode = 55
		}
	case "shutdown":
		in.str.closeForShutdown(errC03Shutdown)
		in.shutdown = true
	case "ctrl":
		in.sender.hasCtrl = false
		for {
			f, ok, more := in.str.getControlFrame(c03Now)
			if !ok {
				break
			}
			switch fr := f.Frame.(type) {
			case *wire.MaxStreamDataFrame:
				if int(fr.MaximumStreamData) > in.limit {
					in.limit = int(fr.MaximumStreamData)
				}
				in.outcome = "ctrl max_stream_data"
			case *wire.StopSendingFrame:
				if !in.cancelLocal {
					return explore.Failf("rstream-spurious-stop-sending", "STOP_SENDING without CancelRead")
				}
				in.outcome = "ctrl stop_sending"
			default:
				return explore.Failf("rstream-unexpected-control-frame", "unexpected control frame %T", fr)
			}
			if !more {
				break
			}
		}
	case "read":
		p := make([]byte, op.A)
		var n int
		var err error
		if !c03Call(func() { n, err = in.str.Read(p) }) {
			return explore.Failf("rstream-read-blocked", "Read blocked although the model has %d bytes available (eof=%v cancel=%v reset=%v shutdown=%v)", in.avail(), in.atEOF(), in.cancelLocal, in.resetEffective(), in.shutdown)
		}
		terminal := in.cancelLocal || in.shutdown || in.resetEffective()
		av := in.avail()
		if n < 0 || n > len(p) {
			return explore.Failf("rstream-read-count", "Read returned n=%d for a %d byte buffer", n, len(p))
		}
		if n > av {
			return explore.Failf("rstream-read-invented", "Read returned %d bytes at offset %d but only %d contiguous bytes were received", n, in.readPos, av)
		}
		if i, ok := c03CheckBytes(p[:n], in.readPos); !ok {
			return explore.Failf("rstream-read-bytes", "Read at offset %d: byte %d is %#x, original %#x", in.readPos, i, p[i], c03Byte(in.readPos+i))
		}
		if in.final >= 0 && in.readPos+n > in.final {
			return explore.Failf("rstream-read-beyond-final", "Read delivered bytes up to %d beyond the final size %d", in.readPos+n, in.final)
		}
		if fl := in.classify("Read", n, err); fl != nil {
			return fl
		}
		if err == nil && n == 0 {
			return explore.Failf("rstream-read-zero", "Read returned (0, nil)")
		}
		if !terminal {
			if av > 0 && n == 0 {
				return explore.Failf("rstream-read-no-progress", "Read returned no data (err %v) although %d bytes are available at %d", err, av, in.readPos)
			}
			if err != nil && err != io.EOF && !(in.reset && in.readPos+n >= in.reliable) {
				return explore.Failf("rstream-read-spurious-error", "Read returned %v in a state without cancellation", err)
			}
			if in.atEOF() && err != io.EOF {
				return explore.Failf("rstream-read-missing-eof", "Read at the final size %d after FIN returned (%d, %v) instead of io.EOF", in.final, n, err)
			}
		}
		in.readPos += n
		in.outcome = fmt.Sprintf("read n=%d cells err=%T", (n+in.c-1)/in.c, err)
	case "peek":
		p := make([]byte, op.A)
		var n int
		var err error
		if !c03Call(func() { n, err = in.str.Peek(p) }) {
			return explore.Failf("rstream-peek-blocked", "Peek(%d) blocked although the model has %d bytes available", op.A, in.avail())
		}
		av := in.avail()
		if n < 0 || n > len(p) || n > av {
			return explore.Failf("rstream-peek-invented", "Peek returned %d bytes at offset %d, %d contiguous bytes were received", n, in.readPos, av)
		}
		if i, ok := c03CheckBytes(p[:n], in.readPos); !ok {
			return explore.Failf("rstream-peek-bytes", "Peek at offset %d: byte %d wrong", in.readPos, i)
		}
		if fl := in.classify("Peek", n, err); fl != nil {
			return fl
		}
		if err == nil && n != len(p) {
			return explore.Failf("rstream-peek-short", "Peek returned %d of %d bytes without error", n, len(p))
		}
		in.outcome = fmt.Sprintf("peek full=%v err=%T", n == len(p), err)
	default:
		explore.Must(false, "unknown op %v", op)
	}
	if in.sender.completed > 1 {
		return explore.Failf("rstream-completed-twice", "onStreamCompleted called %d times", in.sender.completed)
	}
	return nil
}

func (in *c03RStreamInst) Outcome() string { return in.outcome }

func (in *c03RStreamInst) Key() string {
	var sb strings.Builder
	sb.WriteString(canon.Dump(in.str, canon.Options{}))
	fmt.Fprintf(&sb, "|%v|h=%d f=%d fin=%v rp=%d lim=%d cl=%v rs=%v rel=%d sd=%v dead=%v", in.recv, in.highest, in.final, in.finViaFIN, in.readPos, in.limit, in.cancelLocal, in.reset, in.reliable, in.shutdown, in.dead)
	return sb.String()
}

func c03RStreamPart(name string, cell int) explore.Part {
	return explore.BFSPart(name, func(e explore.Env) explore.BFSSpec {
		K, depth, win := 4, 6, 3
		if e.Thorough() {
			K, depth, win = 5, 7, 4
		}
		return explore.BFSSpec{
			New:              func() explore.Instance { return newC03RStreamInst(K, cell, win) },
			MaxDepth:         depth,
			PanicIsViolation: true,
			Rule: fmt.Sprintf("BFS depth %d over the real ReceiveStream + real stream/connection flow controllers; alphabet: STREAM frame for every cell-aligned (offset,len,fin) of a %d-cell lattice (cell %d bytes, stream window %d cells) incl. empty FIN frames, RESET_STREAM / RESET_STREAM_AT (final, reliable), Read(1|cell|2cell+1|all), Peek, CancelRead, closeForShutdown, getControlFrame; reads only issued when the model says they cannot block",
				depth, K, cell, win),
		}
	})
}
