package quic

// C03 part "sorter": explicit-state search over the real frameSorter.
// Alphabet: push of every cell-aligned segment of a K-cell lattice (cell size c, chosen on
// both sides of MinStreamFrameBufferSize), pop, peek(n cells) at the read position.
// Oracle: byte-array model (received set + read position) and per-buffer done-callback
// counters; a buffer is poisoned the moment its callback fires, so a later delivery of
// recycled memory shows up as wrong bytes.

import (
	"fmt"
	"sort"
	"strings"

	"github.com/refraction-networking/uquic/internal/protocol"
	"github.com/refraction-networking/uquic/internal/verifmc/canon"
	"github.com/refraction-networking/uquic/internal/verifmc/explore"
)

func c03Byte(i int) byte { return byte((i*131 + 17) % 251) }

func c03Fill(off, n int) []byte {
	b := make([]byte, n)
	for i := range b {
		b[i] = c03Byte(off + i)
	}
	return b
}

// c03CheckBytes verifies that data is the original byte string at [off, off+len).
func c03CheckBytes(data []byte, off int) (int, bool) {
	for i, x := range data {
		if x != c03Byte(off+i) {
			return i, false
		}
	}
	return 0, true
}

type c03Buf struct {
	o, l  int // in bytes
	data  []byte
	fired int
}

type c03SorterInst struct {
	s       *frameSorter
	K, c    int
	recv    []bool // per cell
	readPos int    // bytes
	live    []*c03Buf
	cbFail  *explore.Fail
	outcome string
}

func newC03SorterInst(K, c int) *c03SorterInst {
	return &c03SorterInst{s: newFrameSorter(), K: K, c: c, recv: make([]bool, K)}
}

func (in *c03SorterInst) avail() int { // contiguous received bytes from readPos
	n := 0
	for cell := in.readPos / in.c; cell < in.K && in.recv[cell]; cell++ {
		n += in.c
	}
	return n
}

func (in *c03SorterInst) Ops() []explore.Op {
	var ops []explore.Op
	ops = append(ops, explore.Op{N: "pop"})
	for n := 1; n <= 3; n++ {
		ops = append(ops, explore.Op{N: "peek", A: n})
	}
	for l := 1; l <= in.K; l++ {
		for o := 0; o+l <= in.K; o++ {
			ops = append(ops, explore.Op{N: "push", A: o, B: l})
		}
	}
	return ops
}

func (in *c03SorterInst) mkBuf(o, l int) (*c03Buf, func()) {
	b := &c03Buf{o: o, l: l, data: c03Fill(o, l)}
	in.live = append(in.live, b)
	return b, func() {
		b.fired++
		if b.fired > 1 && in.cbFail == nil {
			in.cbFail = explore.Failf("buffer-recycled-twice", "done callback of buffer [%d,%d) fired %d times", b.o, b.o+b.l, b.fired)
		}
		for i := range b.data {
			b.data[i] ^= 0xff // poison: recycled memory must never be delivered
		}
		for i, x := range in.live {
			if x == b {
				in.live = append(in.live[:i], in.live[i+1:]...)
				break
			}
		}
	}
}

func (in *c03SorterInst) Apply(op explore.Op) *explore.Fail {
	in.outcome = ""
	switch op.N {
	case "push":
		o, l := op.A*in.c, op.B*in.c
		b, cb := in.mkBuf(o, l)
		err := in.s.Push(b.data, protocol.ByteCount(o), cb)
		if err != nil {
			return explore.Failf("sorter-push-error", "Push(%d,%d) returned %v", o, l, err)
		}
		for i := op.A; i < op.A+op.B; i++ {
			if i*in.c >= in.readPos {
				in.recv[i] = true
			}
		}
		in.outcome = fmt.Sprintf("push fired=%d", b.fired)
	case "pop":
		off, data, cb := in.s.Pop()
		av := in.avail()
		if int(off) != in.readPos {
			return explore.Failf("sorter-pop-offset", "Pop returned offset %d, model read position %d", off, in.readPos)
		}
		if data == nil {
			if av > 0 {
				return explore.Failf("sorter-pop-missing", "Pop returned nothing although %d contiguous bytes are available at %d", av, in.readPos)
			}
			in.outcome = "pop empty"
			break
		}
		if len(data) == 0 || len(data) > av {
			return explore.Failf("sorter-pop-length", "Pop returned %d bytes at %d, only %d contiguous bytes were received", len(data), off, av)
		}
		if i, ok := c03CheckBytes(data, int(off)); !ok {
			return explore.Failf("sorter-pop-bytes", "Pop at %d: byte %d is %#x, original is %#x (shifted, corrupted or recycled buffer)", off, i, data[i], c03Byte(int(off)+i))
		}
		in.readPos += len(data)
		if cb != nil {
			cb() // the consumer is done with the buffer
		}
		in.outcome = fmt.Sprintf("pop %d", len(data)/in.c)
	case "peek":
		n := op.A * in.c
		p := make([]byte, n)
		err := in.s.Peek(protocol.ByteCount(in.readPos), p)
		av := in.avail()
		if av >= n {
			if err != nil {
				return explore.Failf("sorter-peek-missing", "Peek(%d bytes at %d) failed with %v although %d contiguous bytes are available", n, in.readPos, err, av)
			}
			if i, ok := c03CheckBytes(p, in.readPos); !ok {
				return explore.Failf("sorter-peek-bytes", "Peek at %d: byte %d wrong", in.readPos, i)
			}
			in.outcome = "peek ok"
		} else {
			if err == nil {
				return explore.Failf("sorter-peek-invented", "Peek(%d bytes at %d) succeeded but only %d contiguous bytes were received", n, in.readPos, av)
			}
			in.outcome = "peek short"
		}
	default:
		explore.Must(false, "unknown op %v", op)
	}
	if in.cbFail != nil {
		return in.cbFail
	}
	return nil
}

func (in *c03SorterInst) Outcome() string { return in.outcome }

func (in *c03SorterInst) Key() string {
	var sb strings.Builder
	sb.WriteString(canon.Dump(in.s, canon.Options{}))
	fmt.Fprintf(&sb, "|rp=%d|", in.readPos)
	for _, r := range in.recv {
		if r {
			sb.WriteByte('1')
		} else {
			sb.WriteByte('0')
		}
	}
	var lv []string
	for _, b := range in.live {
		lv = append(lv, fmt.Sprintf("%d+%d", b.o, b.l))
	}
	sort.Strings(lv)
	sb.WriteString("|" + strings.Join(lv, ","))
	return sb.String()
}

func c03SorterPart(name string, cell int) explore.Part {
	return explore.BFSPart(name, func(e explore.Env) explore.BFSSpec {
		K := 6
		if e.Thorough() {
			K = 8
		}
		return explore.BFSSpec{
			New:              func() explore.Instance { return newC03SorterInst(K, cell) },
			PanicIsViolation: true,
			Rule: fmt.Sprintf("BFS to closure over the real frameSorter; alphabet: push of each of the %d cell-aligned segments of a %d-cell lattice (cell = %d bytes, copy threshold %d), pop, peek(1..3 cells); state = canon(frameSorter) + byte model + live buffers",
				K*(K+1)/2, K, cell, protocol.MinStreamFrameBufferSize),
		}
	})
}
