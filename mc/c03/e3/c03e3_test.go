package quic

// C03 under lock-point exploration: the thread mixes of mc/c04/e3 (a real ReceiveStream with
// Read / Peek callers that wait for more than has arrived, racing with RESET_STREAM,
// RESET_STREAM_AT, FIN and CancelRead handled by another goroutine) run under C03, whose
// statement they also decide: the reader observes end-of-stream (or the reset) - a reader that
// is never woken observes nothing.

import (
	"testing"

	"github.com/refraction-networking/uquic/internal/verifmc/explore"
)

func TestVerifC03E3(t *testing.T) {
	explore.Main("C03", []explore.Part{c04e3Part(t)}, func(msg string) { t.Fatal(msg) })
}
