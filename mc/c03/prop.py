# ./check configuration for C03 (merged by mc/props.py)
PROP = dict(
        pkg=".", test="TestVerifC03", files=["mc/c03/*.go"], libs=["explore", "canon"],
        level="model_checking", shards=1,
        level_text="Explicit-state model checking of the real frameSorter, ReceiveStream (+real flow controllers) and crypto streams against a byte-array reference model: the frameSorter and crypto-stream state spaces are explored to closure, the ReceiveStream to a depth bound; every transition is executed on the real code, so there is no model/code gap. Right level because the property quantifies over all segmentations/orders of a byte string, which is a finite space on a small lattice chosen around the 128-byte copy threshold.",
        level_note="Trusted: the reference byte-array model in mc/c03, the reflective canonicaliser (nothing that is data is dropped), cell-aligned lattice (K<=8 cells of 1/50/128 bytes); blocking behaviour of Read is only exercised in states where the model says it cannot block.",
        technique="explicit-state BFS over the real implementation with reference-model oracle",
        deadline=dict(quick=90, thorough=1000),
        rule="explicit-state BFS over the real frameSorter / ReceiveStream / crypto streams; successor = fresh instance + replay of the shortest path + one op",
        assumptions=["the goroutine running a Read that the model says cannot block is given 30 s of wall clock before it is declared blocked",
                     "lattice offsets only (cell-aligned segments); sizes beyond the lattice are not explored"],
    )
