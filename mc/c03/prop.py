# ./check configuration for C03 (merged by mc/props.py)
PROP = dict(
        libs=["explore", "canon"],
        targets=[
            dict(name="e1", pkg=".", test="TestVerifC03", files=["mc/c03/*.go"]),
            dict(name="e3", pkg=".", test="TestVerifC03E3", files=["mc/c04/*.go", "mc/c04/e3/*.go", "mc/c03/e3/*.go"], parts=["e3-receive-lockpoints"],
                 libs=["explore", "canon", "sched", "vsync"],
                 rewrite={f: [('"sync"', 'sync "github.com/refraction-networking/uquic/internal/verifmc/vsync"')]
                          for f in ("receive_stream.go", "send_stream.go", "framer.go", "internal/flowcontrol/base_flow_controller.go")}),
        ],
        crash_is_violation=True,
        level="model_checking", shards=1,
        level_text="Explicit-state model checking of the real frameSorter, ReceiveStream (+real flow controllers) and crypto streams against a byte-array reference model: the frameSorter and crypto-stream state spaces are explored to closure, the ReceiveStream to a depth bound; every transition is executed on the real code, so there is no model/code gap. Right level because the property quantifies over all segmentations/orders of a byte string, which is a finite space on a small lattice chosen around the 128-byte copy threshold.",
        level_note="Trusted: the reference byte-array model in mc/c03, the reflective canonicaliser (nothing that is data is dropped), cell-aligned lattice (K<=8 cells of 1/50/128 bytes); blocking behaviour of Read is only exercised in the BFS parts in states where the model says it cannot block; blocked Read / Peek callers racing with the frames that end the stream are explored by target e3 (lock-point exploration, the thread mixes of mc/c04/e3 with every Lock and Unlock of receive_stream.go and the flow controllers as a scheduler point).",
        technique="explicit-state BFS over the real implementation with reference-model oracle",
        deadline=dict(quick=90, thorough=1000),
        rule="explicit-state BFS over the real frameSorter / ReceiveStream / crypto streams; successor = fresh instance + replay of the shortest path + one op",
        assumptions=["the goroutine running a Read that the model says cannot block is given 30 s of wall clock before it is declared blocked",
                     "lattice offsets only (cell-aligned segments); sizes beyond the lattice are not explored"],
    )
