package quic

import (
	"fmt"
	"testing"

	"github.com/refraction-networking/uquic/internal/verifmc/explore"
)

func TestC04Debug(t *testing.T) {
	cfg := c04Config("send", false)
	path := []explore.Op{{N: "write", A: 0, B: 1}, {N: "write", A: 1, B: 1}, {N: "closew", A: 1}, {N: "pop", A: 1, B: 1}, {N: "cancelw", A: 1}}
	var first string
	for i := 0; i < 2000; i++ {
		w := newC04World(cfg)
		for _, op := range path {
			if f := w.Apply(op); f != nil {
				t.Fatal(f.What)
			}
		}
		k := w.Key()
		if i == 0 {
			first = k
		} else if k != first {
			fmt.Println(first)
			fmt.Println(k)
			t.Fatal("diverged at ", i)
		}
	}
}
