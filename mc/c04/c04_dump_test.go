package quic

// c04Dump is a faster drop-in for canon.Dump (same canonical form principles: every data
// field, unexported ones included; pointers renumbered in traversal order; maps sorted by
// dumped key; locks / loggers skipped; funcs as nil/non-nil; channels as len/cap; Time-typed
// int64 relative to a time base). The only difference is that the per-type work (field
// list, skip decisions, type names) is computed once and cached, which makes a dump about
// 5x cheaper. Setting VERIF_C04_CANON=1 switches the keys back to canon.Dump; both give the
// same state and transition counts on every part (checked when this file was written).

import (
	"encoding/hex"
	"reflect"
	"sort"
	"strconv"
	"sync"
	"unsafe"
)

type c04FieldPlan struct {
	idx  int
	name string
}

type c04Plan struct {
	skip     bool
	name     string // type string, for interface dynamic types
	isTime   bool   // int64 type named "Time"
	byteElem bool   // slice / array of uint8
	fields   []c04FieldPlan
}

var c04Plans sync.Map // reflect.Type -> *c04Plan

var c04SkipTypes = map[string]bool{
	"sync.Mutex": true, "sync.RWMutex": true, "sync.Once": true, "sync.WaitGroup": true,
	"sync.Pool": true, "sync.Cond": true, "sync.noCopy": true, "atomic.noCopy": true,
	"utils.defaultLogger": true,
}

func c04PlanOf(t reflect.Type) *c04Plan {
	if p, ok := c04Plans.Load(t); ok {
		return p.(*c04Plan)
	}
	p := &c04Plan{name: t.String()}
	p.skip = c04SkipTypes[p.name]
	switch t.Kind() {
	case reflect.Int64:
		p.isTime = t.Name() == "Time"
	case reflect.Slice, reflect.Array:
		p.byteElem = t.Elem().Kind() == reflect.Uint8
	case reflect.Struct:
		if p.name == "time.Time" {
			panic("c04Dump: time.Time is not supported")
		}
		for i := 0; i < t.NumField(); i++ {
			f := t.Field(i)
			if c04SkipField(p.name, f.Name) || c04SkipTypes[f.Type.String()] {
				continue
			}
			p.fields = append(p.fields, c04FieldPlan{idx: i, name: f.Name})
		}
	}
	c04Plans.Store(t, p)
	return p
}

type c04Dumper struct {
	buf  []byte
	ptrs map[unsafe.Pointer]int
	tb   int64
}

func c04Dump(v any, timeBase int64) string {
	d := &c04Dumper{buf: make([]byte, 0, 4096), ptrs: make(map[unsafe.Pointer]int, 32), tb: timeBase}
	d.val(reflect.ValueOf(v), 0)
	return string(d.buf)
}

func (d *c04Dumper) str(s string) { d.buf = append(d.buf, s...) }

func (d *c04Dumper) val(v reflect.Value, depth int) {
	if depth > 64 {
		d.str("<deep>")
		return
	}
	if !v.IsValid() {
		d.str("nil")
		return
	}
	p := c04PlanOf(v.Type())
	if p.skip {
		return
	}
	switch v.Kind() {
	case reflect.Bool:
		if v.Bool() {
			d.buf = append(d.buf, 'T')
		} else {
			d.buf = append(d.buf, 'F')
		}
	case reflect.Int, reflect.Int8, reflect.Int16, reflect.Int32, reflect.Int64:
		x := v.Int()
		if p.isTime && x != 0 && d.tb != 0 {
			x -= d.tb
			d.buf = append(d.buf, 't')
		}
		d.buf = strconv.AppendInt(d.buf, x, 10)
	case reflect.Uint, reflect.Uint8, reflect.Uint16, reflect.Uint32, reflect.Uint64, reflect.Uintptr:
		d.buf = strconv.AppendUint(d.buf, v.Uint(), 10)
	case reflect.Float32, reflect.Float64:
		d.buf = strconv.AppendFloat(d.buf, v.Float(), 'g', -1, 64)
	case reflect.String:
		d.buf = strconv.AppendQuote(d.buf, v.String())
	case reflect.Func:
		if v.IsNil() {
			d.str("fn0")
		} else {
			d.str("fn1")
		}
	case reflect.Chan:
		if v.IsNil() {
			d.str("ch0")
		} else {
			d.str("ch(")
			d.buf = strconv.AppendInt(d.buf, int64(v.Len()), 10)
			d.buf = append(d.buf, '/')
			d.buf = strconv.AppendInt(d.buf, int64(v.Cap()), 10)
			d.buf = append(d.buf, ')')
		}
	case reflect.UnsafePointer:
		d.str("up")
	case reflect.Interface:
		if v.IsNil() {
			d.str("i0")
			return
		}
		e := v.Elem()
		d.str("i<")
		d.str(c04PlanOf(e.Type()).name)
		d.buf = append(d.buf, '>')
		d.val(e, depth+1)
	case reflect.Pointer:
		if v.IsNil() {
			d.str("p0")
			return
		}
		ptr := v.UnsafePointer()
		if n, ok := d.ptrs[ptr]; ok {
			d.str("p#")
			d.buf = strconv.AppendInt(d.buf, int64(n), 10)
			return
		}
		n := len(d.ptrs) + 1
		d.ptrs[ptr] = n
		d.buf = append(d.buf, 'p')
		d.buf = strconv.AppendInt(d.buf, int64(n), 10)
		d.buf = append(d.buf, '=')
		d.val(v.Elem(), depth+1)
	case reflect.Slice:
		if v.IsNil() {
			d.str("s0")
			return
		}
		n := v.Len()
		if p.byteElem {
			d.buf = append(d.buf, 'b')
			d.buf = strconv.AppendInt(d.buf, int64(n), 10)
			d.buf = append(d.buf, ':')
			if n > 0 {
				b := unsafe.Slice((*byte)(v.UnsafePointer()), n)
				d.buf = hex.AppendEncode(d.buf, b)
			}
			return
		}
		d.buf = append(d.buf, 's')
		d.buf = strconv.AppendInt(d.buf, int64(n), 10)
		d.buf = append(d.buf, '[')
		for i := 0; i < n; i++ {
			d.val(v.Index(i), depth+1)
			d.buf = append(d.buf, ',')
		}
		d.buf = append(d.buf, ']')
	case reflect.Array:
		d.str("a[")
		for i := 0; i < v.Len(); i++ {
			d.val(v.Index(i), depth+1)
			d.buf = append(d.buf, ',')
		}
		d.buf = append(d.buf, ']')
	case reflect.Map:
		if v.IsNil() {
			d.str("m0")
			return
		}
		type kv struct {
			k string
			v reflect.Value
		}
		items := make([]kv, 0, v.Len())
		it := v.MapRange()
		for it.Next() {
			kd := &c04Dumper{ptrs: map[unsafe.Pointer]int{}, tb: d.tb}
			kd.val(it.Key(), depth+1)
			items = append(items, kv{k: string(kd.buf), v: it.Value()})
		}
		sort.Slice(items, func(i, j int) bool { return items[i].k < items[j].k })
		d.buf = append(d.buf, 'm')
		d.buf = strconv.AppendInt(d.buf, int64(len(items)), 10)
		d.buf = append(d.buf, '{')
		for _, e := range items {
			d.str(e.k)
			d.buf = append(d.buf, ':')
			d.val(e.v, depth+1)
			d.buf = append(d.buf, ',')
		}
		d.buf = append(d.buf, '}')
	case reflect.Struct:
		d.buf = append(d.buf, '{')
		for _, f := range p.fields {
			d.str(f.name)
			d.buf = append(d.buf, '=')
			d.val(v.Field(f.idx), depth+1)
			d.buf = append(d.buf, ';')
		}
		d.buf = append(d.buf, '}')
	default:
		d.str("?" + v.Kind().String())
	}
}
