package quic

// C04 parts kinds-send / kinds-recv: the per-stream limits of the four KINDS of stream.
//
// Every other part hands the streams a flow controller built by the harness with one send
// limit and one receive window. On a connection the flow controller of a stream is built by
// Conn.newFlowController (handed to the real streamsMap, which calls it for locally opened
// and for accepted streams), and which limit applies depends on the kind of stream
// (RFC 9000, 18.2): the peer's initial_max_stream_data_bidi_remote for bidirectional
// streams WE open, its initial_max_stream_data_bidi_local for bidirectional streams the PEER
// opens, its initial_max_stream_data_uni for our unidirectional streams; and in the other
// direction the three values this endpoint advertised itself. These parts run the real
// Conn.newFlowController + real streamsMap + real framer + real connection flow controller
// (the Conn is the streams' streamSender, as on a connection) against a peer whose three
// values all differ, with one stream of every kind, as client and as server, including the
// 0-RTT client whose peer parameters are first the remembered and then the fresh ones
// (Conn.peerParams replaced, later streamsMap.HandleTransportParameters for the streams
// that are already open).
//
// Oracle: the sender ledger of c04_send_test.go (hi[s] <= largest limit the peer advertised
// for THIS stream, Σ hi <= largest connection limit, *_BLOCKED at most once per limit) and,
// in kinds-recv, the receiver clause "accepts all data within the limits it has advertised
// and answers the first byte beyond them with FLOW_CONTROL_ERROR" with the limit this
// endpoint advertised for the kind of the stream.

import (
	"context"
	"fmt"

	tls "github.com/refraction-networking/utls"

	"github.com/refraction-networking/uquic/internal/ackhandler"
	"github.com/refraction-networking/uquic/internal/flowcontrol"
	"github.com/refraction-networking/uquic/internal/protocol"
	"github.com/refraction-networking/uquic/internal/qerr"
	"github.com/refraction-networking/uquic/internal/utils"
	"github.com/refraction-networking/uquic/internal/verifmc/explore"
	"github.com/refraction-networking/uquic/internal/wire"
)

// slots: one stream of every kind
const (
	c04KBidiLocal  = 0 // bidirectional, opened by this endpoint (OpenStream)
	c04KUniLocal   = 1 // unidirectional, opened by this endpoint (OpenUniStream): send only
	c04KBidiRemote = 2 // bidirectional, opened by the peer (first frame for it, AcceptStream)
	c04KUniRemote  = 3 // unidirectional, opened by the peer: receive only
)

var c04KNames = [4]string{"bidi-local", "uni-local", "bidi-remote", "uni-remote"}

// the six orders of three distinct values; [0] ascending and [1] descending together put
// every ordered pair of parameters both ways round
var c04KPerms = [][3]int{{0, 1, 2}, {2, 1, 0}, {1, 2, 0}, {0, 2, 1}, {1, 0, 2}, {2, 0, 1}}

type c04KCfg struct {
	name  string
	recv  bool
	cell  int
	depth int
	perms int // how many of c04KPerms
	// the peer's three initial_max_stream_data values are a permutation of peer (cells); the
	// fresh parameters of the 0-RTT case are each one cell larger
	peer    [3]int
	peerMD  int // the peer's initial_max_data (cells)
	own     [3]int
	ownConf int // Config.InitialStreamReceiveWindow (cells): what a connection without QUICSpec advertises for all kinds
}

func c04KConfig(name string, thorough bool) *c04KCfg {
	c := &c04KCfg{name: name, cell: 50, perms: 2, peer: [3]int{1, 2, 3}, peerMD: 5, own: [3]int{2, 3, 4}, ownConf: 5}
	switch name {
	case "kinds-send":
		c.depth = 6
		if thorough {
			c.depth, c.perms = 8, 6
		}
	case "kinds-recv":
		c.recv, c.depth = true, 5
		if thorough {
			c.depth, c.perms = 6, 6
		}
	default:
		explore.Must(false, "unknown part %s", name)
	}
	return c
}

func c04KPart(name string) explore.Part {
	return explore.BFSPart(name, func(e explore.Env) explore.BFSSpec {
		cfg := c04KConfig(name, e.Thorough())
		return explore.BFSSpec{
			New:              func() explore.Instance { return &c04KWorld{cfg: cfg} },
			MaxDepth:         cfg.depth,
			PanicIsViolation: true,
			Rule:             c04KRule(cfg),
		}
	})
}

func c04KRule(c *c04KCfg) string {
	base := fmt.Sprintf("BFS depth %d over a real Conn{perspective, peerParams, config, uStreamWindows} whose newFlowController builds the flow controllers for a real streamsMap (one stream of each kind: bidi opened locally, uni opened locally, bidi opened by the peer, uni opened by the peer), real framer, real connectionFlowController; cell %d bytes; first op = start state: perspective client|server x %d orders of three DISTINCT values ", c.depth, c.cell, c.perms)
	if c.recv {
		return base + fmt.Sprintf("advertised by this endpoint (client: a QUICSpec listing initial_max_stream_data_bidi_local / _bidi_remote / _uni = a permutation of %v cells through configForSpec, Config window %d cells; server: the Config window for all kinds); alphabet: OpenStream, STREAM frame through streamsMap.HandleStreamFrame on every receive-capable kind (1 cell | exactly up to the limit advertised for that kind | 1 byte beyond it); oracle: accepted iff within the limit advertised for the kind, else FLOW_CONTROL_ERROR", c.own, c.ownConf)
	}
	return base + fmt.Sprintf("advertised by the peer (initial_max_stream_data_bidi_local / _bidi_remote / _uni = a permutation of %v cells, initial_max_data %d cells); alphabet: OpenStream, OpenUniStream, the peer's first STREAM frame on its bidirectional stream (AcceptStream), Write(1|5 cells) on every send-capable kind, framer.Append(128|1200 bytes), MAX_STREAM_DATA through streamsMap (2|5 cells: stale for some kinds, a raise for others; may be the frame that opens the peer's stream), MAX_DATA(4|9 cells), ack(oldest)/lose(any), client only: fresh transport parameters after 0-RTT (each limit one cell larger) in the two steps of the connection (peerParams replaced; applied to the open streams at handshake completion); oracle: sender credit ledger with the limit RFC 9000 18.2 assigns to the kind of the stream (bidi_remote for streams this endpoint opens, bidi_local for streams the peer opens, uni for unidirectional ones)", c.peer, c.peerMD)
}

type c04KWorld struct {
	cfg *c04KCfg

	// start state (op setup)
	set   bool
	persp protocol.Perspective
	perm  int

	// real objects
	conn *Conn
	sm   *streamsMap
	fr   *framer
	cfc  flowcontrol.ConnectionFlowController
	rtt  *utils.RTTStats
	ids  [4]protocol.StreamID
	ss   [4]*SendStream // send halves (slots 0..2), nil until the application holds the stream
	open [4]bool        // the stream exists in the streams map

	// the peer's transport parameters (bytes): [bidi_local, bidi_remote, uni], remembered and fresh
	p0, p1 [3]int
	tp     int // client: 0 = only the remembered ones, 1 = fresh ones received, 2 = applied

	// sender ledger
	limS     [3]int
	limC     int
	hi       [3]int
	written  [3]int
	blkS     [3][]int
	blkC     []int
	inflight []ackhandler.StreamFrame

	// receiver ledger
	advS [4]int
	advC int
	h    [4]int

	dead    bool
	outcome string
}

// kindLimit: which of the advertiser's three values governs the stream in slot s
// (RFC 9000, 18.2). fromPeer: the values are the peer's (sender side) / ours (receiver side).
func c04KLimit(v [3]int, slot int, fromPeer bool) int {
	switch slot {
	case c04KUniLocal, c04KUniRemote:
		return v[2]
	case c04KBidiLocal: // opened by this endpoint
		if fromPeer {
			return v[1] // the peer's bidi_remote: streams opened by the peer's peer
		}
		return v[0] // our bidi_local
	default: // opened by the peer
		if fromPeer {
			return v[0] // the peer's bidi_local
		}
		return v[1] // our bidi_remote
	}
}

func (w *c04KWorld) slotOf(id protocol.StreamID) int {
	for i, x := range w.ids {
		if x == id {
			return i
		}
	}
	explore.Must(false, "unknown stream id %d", id)
	return -1
}

func (w *c04KWorld) perspName() string {
	if w.persp == protocol.PerspectiveClient {
		return "client"
	}
	return "server"
}

func (w *c04KWorld) peerParams(v [3]int, md int) *wire.TransportParameters {
	return &wire.TransportParameters{
		InitialMaxStreamDataBidiLocal:  protocol.ByteCount(v[0]),
		InitialMaxStreamDataBidiRemote: protocol.ByteCount(v[1]),
		InitialMaxStreamDataUni:        protocol.ByteCount(v[2]),
		InitialMaxData:                 protocol.ByteCount(md),
		MaxBidiStreamNum:               1,
		MaxUniStreamNum:                1,
		ActiveConnectionIDLimit:        2,
	}
}

func (w *c04KWorld) setup(persp, perm int) {
	c := w.cfg
	w.set, w.perm = true, perm
	w.persp = protocol.PerspectiveClient
	w.ids = [4]protocol.StreamID{0, 2, 1, 3}
	if persp == 1 {
		w.persp = protocol.PerspectiveServer
		w.ids = [4]protocol.StreamID{1, 3, 0, 2}
	}
	p := c04KPerms[perm]
	var own [3]int
	for i := 0; i < 3; i++ {
		w.p0[i] = c.peer[p[i]] * c.cell
		w.p1[i] = w.p0[i] + c.cell
		own[i] = c.own[p[i]] * c.cell
	}
	cell := uint64(c.cell)
	conf := &Config{
		InitialStreamReceiveWindow:     uint64(c.ownConf) * cell,
		MaxStreamReceiveWindow:         8 * cell,
		InitialConnectionReceiveWindow: 20 * cell,
		MaxConnectionReceiveWindow:     30 * cell,
		MaxIncomingStreams:             1,
		MaxIncomingUniStreams:          1,
	}
	var usw *uStreamReceiveWindows
	ownAdv := [3]int{c.ownConf * c.cell, c.ownConf * c.cell, c.ownConf * c.cell}
	if w.persp == protocol.PerspectiveClient {
		// a uQUIC client: what it advertises is what its QUICSpec lists
		spec := &QUICSpec{ClientHelloSpec: &tls.ClientHelloSpec{Extensions: []tls.TLSExtension{
			&tls.QUICTransportParametersExtension{TransportParameters: tls.TransportParameters{
				tls.InitialMaxData(20 * cell),
				tls.InitialMaxStreamDataBidiLocal(own[0]),
				tls.InitialMaxStreamDataBidiRemote(own[1]),
				tls.InitialMaxStreamDataUni(own[2]),
				tls.InitialMaxStreamsBidi(1),
				tls.InitialMaxStreamsUni(1),
			}},
		}}}
		conf, usw = configForSpec(conf, spec)
		explore.Must(usw != nil, "configForSpec returned no stream windows")
		ownAdv = own
	}
	w.rtt = utils.NewRTTStats()
	w.cfc = flowcontrol.NewConnectionFlowController(protocol.ByteCount(conf.InitialConnectionReceiveWindow), protocol.ByteCount(conf.MaxConnectionReceiveWindow),
		func(protocol.ByteCount) bool { return true }, w.rtt, utils.DefaultLogger)
	w.advC = int(conf.InitialConnectionReceiveWindow)
	w.conn = &Conn{perspective: w.persp, config: conf, uStreamWindows: usw, connFlowController: w.cfc, rttStats: w.rtt, logger: utils.DefaultLogger}
	w.fr = newFramer(w.cfc)
	w.conn.framer = w.fr
	w.sm = newStreamsMap(context.Background(), w.conn, w.conn.queueControlFrame, w.conn.newFlowController,
		uint64(conf.MaxIncomingStreams), uint64(conf.MaxIncomingUniStreams), w.persp)
	w.conn.streamsMap = w.sm
	// the peer's parameters: restored from the session ticket (0-RTT client) or received in
	// the handshake, and applied as restoreTransportParameters / applyTransportParameters do
	w.deliverParams(w.p0, c.peerMD*c.cell, true, true)
	for s := 0; s < 4; s++ {
		w.advS[s] = c04KLimit(ownAdv, s, false)
	}
	w.outcome = fmt.Sprintf("setup %s perm%d", w.perspName(), perm)
}

// deliverParams: the peer's transport parameters reach the connection. store: Conn.peerParams
// is replaced (handleTransportParameters); apply: connection window and open streams are
// updated (applyTransportParameters / restoreTransportParameters: the three lines that
// concern flow control).
func (w *c04KWorld) deliverParams(v [3]int, md int, store, apply bool) {
	if store {
		w.conn.peerParams = w.peerParams(v, md)
		// from now on the peer has advertised these values
		for s := 0; s < 3; s++ {
			w.limS[s] = max(w.limS[s], c04KLimit(v, s, true))
		}
		w.limC = max(w.limC, md)
	}
	if apply {
		w.cfc.UpdateSendWindow(w.conn.peerParams.InitialMaxData)
		w.sm.HandleTransportParameters(w.conn.peerParams)
	}
}

// ---- alphabet --------------------------------------------------------------------------

func (w *c04KWorld) buffered(s int) int {
	str := w.ss[s]
	str.mutex.Lock()
	defer str.mutex.Unlock()
	n := len(str.dataForWriting)
	if str.nextFrame != nil {
		n += len(str.nextFrame.Data)
	}
	return n
}

func (w *c04KWorld) Ops() []explore.Op {
	if w.dead {
		return nil
	}
	c := w.cfg
	var ops []explore.Op
	if !w.set {
		for perm := 0; perm < c.perms; perm++ {
			for persp := 0; persp < 2; persp++ {
				ops = append(ops, explore.Op{N: "setup", A: persp, B: perm})
			}
		}
		return ops
	}
	if !w.open[c04KBidiLocal] {
		ops = append(ops, explore.Op{N: "open", A: c04KBidiLocal})
	}
	if c.recv {
		for _, s := range []int{c04KBidiLocal, c04KBidiRemote, c04KUniRemote} {
			if s == c04KBidiLocal && !w.open[s] {
				continue
			}
			for k := 0; k < 3; k++ {
				if _, ok := w.frameLen(s, k); ok {
					ops = append(ops, explore.Op{N: "rframe", A: s, B: k})
				}
			}
		}
		return ops
	}
	if !w.open[c04KUniLocal] {
		ops = append(ops, explore.Op{N: "open", A: c04KUniLocal})
	}
	if !w.open[c04KBidiRemote] {
		ops = append(ops, explore.Op{N: "popen"})
	}
	for s := 0; s < 3; s++ {
		if w.ss[s] == nil {
			continue
		}
		for _, n := range []int{1, 5} {
			if w.buffered(s)+n*c.cell <= int(protocol.MaxPacketBufferSize) {
				ops = append(ops, explore.Op{N: "write", A: s, B: n})
			}
		}
	}
	if w.fr.HasData() {
		ops = append(ops, explore.Op{N: "packet", A: 128}, explore.Op{N: "packet", A: 1200})
	}
	for s := 0; s < 3; s++ {
		if s != c04KBidiRemote && !w.open[s] {
			continue // a MAX_STREAM_DATA for a stream we have not opened is a connection error
		}
		ops = append(ops, explore.Op{N: "msd", A: s, B: 5}, explore.Op{N: "msd", A: s, B: 2})
	}
	ops = append(ops, explore.Op{N: "md", A: 9}, explore.Op{N: "md", A: 4})
	if w.persp == protocol.PerspectiveClient && w.tp < 2 {
		ops = append(ops, explore.Op{N: "tp", A: w.tp + 1})
	}
	if len(w.inflight) > 0 {
		ops = append(ops, explore.Op{N: "ack"})
	}
	for i := range w.inflight {
		ops = append(ops, explore.Op{N: "lose", A: i})
	}
	return ops
}

// frameLen: length of receive-side frame kind k at the current highest offset of slot s.
func (w *c04KWorld) frameLen(s, k int) (int, bool) {
	room := w.advS[s] - w.h[s]
	switch k {
	case 0:
		return w.cfg.cell, true
	case 1: // exactly up to the limit advertised for this kind of stream
		return room, room > 0 && room != w.cfg.cell
	default: // first byte beyond it
		return room + 1, room+1 != w.cfg.cell
	}
}

// ---- transitions -----------------------------------------------------------------------

func (w *c04KWorld) Apply(op explore.Op) *explore.Fail {
	w.outcome = op.N
	c := w.cfg.cell
	switch op.N {
	case "setup":
		w.setup(op.A, op.B)
	case "open":
		w.applyOpen(op.A)
	case "popen":
		// the peer's first STREAM frame on its bidirectional stream
		id := w.ids[c04KBidiRemote]
		err := w.sm.HandleStreamFrame(&wire.StreamFrame{StreamID: id, Data: []byte{0x42}}, c04Base)
		explore.Must(err == nil, "1 byte on the peer's first bidirectional stream rejected: %v", err)
		w.accept()
		w.outcome = "peer-open"
	case "write":
		return w.applyWrite(op.A, op.B*c)
	case "packet":
		return w.applyPacket(op.A)
	case "msd":
		w.applyMaxStreamData(op.A, op.B*c)
	case "md":
		v := op.A * c
		w.outcome = "MAX_DATA stale"
		if v > w.limC {
			w.limC = v
			w.outcome = "MAX_DATA raise"
		}
		w.cfc.UpdateSendWindow(protocol.ByteCount(v)) // connection.go handleFrame
	case "tp":
		md := (w.cfg.peerMD + 1) * c
		if op.A == 1 {
			w.deliverParams(w.p1, md, true, false)
			w.outcome = "fresh-params received"
		} else {
			w.deliverParams(w.p1, md, false, true)
			w.outcome = "fresh-params applied"
		}
		w.tp = op.A
	case "ack":
		sf := w.takeFlight(0)
		sf.Handler.OnAcked(sf.Frame)
	case "lose":
		sf := w.takeFlight(op.A)
		sf.Handler.OnLost(sf.Frame)
	case "rframe":
		return w.applyRFrame(op.A, op.B)
	default:
		explore.Must(false, "unknown op %v", op)
	}
	return nil
}

func (w *c04KWorld) applyOpen(s int) {
	switch s {
	case c04KBidiLocal:
		str, err := w.sm.OpenStream()
		explore.Must(err == nil && str.StreamID() == w.ids[s], "OpenStream: %v", err)
		w.ss[s] = str.sendStr
	case c04KUniLocal:
		str, err := w.sm.OpenUniStream()
		explore.Must(err == nil && str.StreamID() == w.ids[s], "OpenUniStream: %v", err)
		w.ss[s] = str
	}
	w.open[s] = true
	w.outcome = "open " + c04KNames[s]
}

// accept hands the peer's bidirectional stream to the application once a frame created it.
func (w *c04KWorld) accept() {
	if w.open[c04KBidiRemote] {
		return
	}
	id := w.ids[c04KBidiRemote]
	m := w.sm.incomingBidiStreams
	m.mutex.RLock()
	_, ok := m.streams[id]
	m.mutex.RUnlock()
	if !ok {
		return
	}
	var str *Stream
	var err error
	done := c04Call(func() { str, err = w.sm.AcceptStream(context.Background()) })
	explore.Must(done, "AcceptStream blocked although stream %d exists", id)
	explore.Must(err == nil && str.StreamID() == id, "AcceptStream: %v", err)
	w.ss[c04KBidiRemote] = str.sendStr
	w.open[c04KBidiRemote] = true
}

func (w *c04KWorld) applyWrite(s, n int) *explore.Fail {
	data := c04Fill(s, w.written[s], n)
	var got int
	var err error
	ok := c04Call(func() { got, err = w.ss[s].Write(data) })
	explore.Must(ok, "Write of %d bytes blocked although it fits the stream's frame buffer", n)
	explore.Must(err == nil && got == n, "Write returned (%d, %v) for %d bytes", got, err, n)
	w.written[s] += n
	w.outcome = "write " + c04KNames[s]
	return nil
}

func (w *c04KWorld) applyMaxStreamData(s, v int) {
	w.outcome = "MAX_STREAM_DATA stale " + c04KNames[s]
	if v > w.limS[s] {
		w.limS[s] = v
		w.outcome = "MAX_STREAM_DATA raise " + c04KNames[s]
	}
	err := w.sm.HandleMaxStreamDataFrame(&wire.MaxStreamDataFrame{StreamID: w.ids[s], MaximumStreamData: protocol.ByteCount(v)})
	explore.Must(err == nil, "MAX_STREAM_DATA for stream %d rejected: %v", w.ids[s], err)
	if s == c04KBidiRemote && !w.open[s] {
		w.accept()
		w.outcome += " (opens it)"
	}
}

func (w *c04KWorld) takeFlight(i int) ackhandler.StreamFrame {
	sf := w.inflight[i]
	w.inflight = append(append([]ackhandler.StreamFrame(nil), w.inflight[:i]...), w.inflight[i+1:]...)
	return sf
}

func (w *c04KWorld) cells(n int) string {
	c := w.cfg.cell
	switch {
	case n == 0:
		return "0"
	case n%c == 0:
		return fmt.Sprint(n / c)
	default:
		return fmt.Sprintf("%d+", n/c)
	}
}

func (w *c04KWorld) applyPacket(budget int) *explore.Fail {
	frames, sfs, _ := w.fr.Append(nil, nil, protocol.ByteCount(budget), c04Base, protocol.Version1)
	w.outcome = fmt.Sprintf("packet %d", len(sfs))
	for _, sf := range sfs {
		f := sf.Frame
		s := w.slotOf(f.StreamID)
		explore.Must(s < 3, "STREAM frame on the receive-only stream %d", f.StreamID)
		off, end := int(f.Offset), int(f.Offset)+len(f.Data)
		newB := max(0, end-w.hi[s])
		kind := "retx"
		if newB > 0 {
			kind = "new"
		}
		w.hi[s] = max(w.hi[s], end)
		w.inflight = append(w.inflight, sf)
		who := w.perspName() + ":" + c04KNames[s]
		if w.hi[s] > w.limS[s] {
			return explore.Failf("snd-over-stream-limit:kinds:"+who+":"+kind, "%s, stream %d (%s): frame [%d,%d) sent, %d new bytes, but the largest limit the peer advertised for this stream is %d (peer parameters bidi_local/bidi_remote/uni: remembered %v, fresh %v delivered=%v)", w.perspName(), f.StreamID, c04KNames[s], off, end, newB, w.limS[s], w.p0, w.p1, w.tp > 0)
		}
		if sum := w.hi[0] + w.hi[1] + w.hi[2]; sum > w.limC {
			return explore.Failf("snd-over-conn-limit:kinds:"+who+":"+kind, "%s, stream %d: frame [%d,%d) sent, connection total now %d new bytes, but the largest MAX_DATA delivered is %d", w.perspName(), f.StreamID, off, end, sum, w.limC)
		}
		w.outcome += fmt.Sprintf(" %s:%s=%s", c04KNames[s], kind, w.cells(newB))
		if w.hi[s] == w.limS[s] {
			w.outcome += "@slim"
		}
		if w.hi[0]+w.hi[1]+w.hi[2] == w.limC {
			w.outcome += "@clim"
		}
	}
	for _, f := range frames {
		switch fr := f.Frame.(type) {
		case *wire.StreamDataBlockedFrame:
			s := w.slotOf(fr.StreamID)
			v := int(fr.MaximumStreamData)
			if c04Has(w.blkS[s], v) {
				return explore.Failf("snd-stream-blocked-twice:kinds", "stream %d (%s): STREAM_DATA_BLOCKED reported a second time for limit %d", fr.StreamID, c04KNames[s], v)
			}
			w.blkS[s] = c04Insert(w.blkS[s], v)
			w.outcome += " STREAM_DATA_BLOCKED"
		case *wire.DataBlockedFrame:
			v := int(fr.MaximumData)
			if c04Has(w.blkC, v) {
				return explore.Failf("snd-conn-blocked-twice:kinds", "DATA_BLOCKED reported a second time for limit %d", v)
			}
			w.blkC = c04Insert(w.blkC, v)
			w.outcome += " DATA_BLOCKED"
		}
	}
	return nil
}

func (w *c04KWorld) applyRFrame(s, k int) *explore.Fail {
	l, ok := w.frameLen(s, k)
	explore.Must(ok, "frame kind %d not applicable", k)
	off := w.h[s]
	e := off + l
	existed := w.open[s]
	err := w.sm.HandleStreamFrame(&wire.StreamFrame{StreamID: w.ids[s], Offset: protocol.ByteCount(off), Data: c04Fill(s, off, l)}, c04Base)
	sumH := e
	for i := range w.h {
		if i != s {
			sumH += w.h[i]
		}
	}
	explore.Must(sumH <= w.advC, "harness bound: connection receive window reached")
	who := w.perspName() + ":" + c04KNames[s]
	if e <= w.advS[s] {
		if err != nil {
			return explore.Failf("rcv-rejected-within-limit:kinds:"+who, "%s: STREAM frame [%d,%d) on stream %d (%s) rejected with %v although this endpoint advertised %d bytes for this kind of stream", w.perspName(), off, e, w.ids[s], c04KNames[s], err, w.advS[s])
		}
		w.h[s] = e
		w.open[s] = true
		w.outcome = fmt.Sprintf("rframe %s accepted", c04KNames[s])
		if e == w.advS[s] {
			w.outcome += " @limit"
		}
		if !existed {
			w.outcome += " (opens it)"
		}
		return nil
	}
	if !c04IsTE(err, qerr.FlowControlError) {
		return explore.Failf("rcv-accepted-beyond-limit:kinds:"+who, "%s: STREAM frame [%d,%d) on stream %d (%s) answered with %v, want FLOW_CONTROL_ERROR: this endpoint advertised %d bytes for this kind of stream", w.perspName(), off, e, w.ids[s], c04KNames[s], err, w.advS[s])
	}
	w.dead = true
	w.outcome = fmt.Sprintf("rframe %s FLOW_CONTROL_ERROR", c04KNames[s])
	return nil
}

// ---- state -----------------------------------------------------------------------------

func (w *c04KWorld) Key() string {
	if !w.set {
		return "unset"
	}
	real := struct {
		C any
		M *streamsMap
		F *framer
		R *utils.RTTStats
	}{C: w.cfc, M: w.sm, F: w.fr, R: w.rtt}
	k := &c04KeyBuf{b: make([]byte, 0, 8192)}
	k.s(c04Dump(real, int64(c04Base)))
	for _, str := range w.ss {
		if str == nil {
			k.s("|-")
			continue
		}
		if nf := str.nextFrame; nf != nil {
			k.s("|nf ")
			k.i(int(nf.Offset))
			k.i(len(nf.Data))
			k.t(nf.DataLenPresent)
		} else {
			k.s("|nf-")
		}
	}
	k.s("|K ")
	k.i(int(w.persp))
	k.i(w.perm)
	k.i(w.tp)
	pp := w.conn.peerParams
	k.i(int(pp.InitialMaxStreamDataBidiLocal))
	k.i(int(pp.InitialMaxStreamDataBidiRemote))
	k.i(int(pp.InitialMaxStreamDataUni))
	k.i(int(pp.InitialMaxData))
	k.i(w.limC)
	k.i(w.advC)
	k.is(w.blkC)
	k.s("|fl ")
	for _, sf := range w.inflight {
		k.i(int(sf.Frame.StreamID))
		k.i(int(sf.Frame.Offset))
		k.i(len(sf.Frame.Data))
	}
	for s := 0; s < 4; s++ {
		k.s("|s ")
		k.t(w.open[s])
		k.i(w.advS[s])
		k.i(w.h[s])
		if s < 3 {
			k.i(w.limS[s])
			k.i(w.hi[s])
			k.i(w.written[s])
			k.is(w.blkS[s])
		}
	}
	k.t(w.dead)
	return string(k.b)
}

func (w *c04KWorld) Outcome() string { return w.outcome }
