package quic

// C04 — flow control: senders stay within advertised credit, receivers enforce it.
// Parts (all explicit-state BFS over real objects, see c04_world_test.go):
//   send      sender ledger, direct popStreamFrame with byte-exact budgets, small writes
//   send-big  same, with Writes larger than the frame buffer (blocking Write goroutine)
//   framer    sender ledger through the real framer.Append (real DATA_BLOCKED logic)
//   recv      receiver ledger, harness-made STREAM / RESET_STREAM(_AT) frames
//   tune      receiver ledger with window auto-tuning (RTT samples, clock steps)
//   tune-over same, started from a configuration whose initial receive windows EXCEED the
//             auto-tuning ceilings (Config{InitialStreamReceiveWindow: x} with x above the
//             default MaxStreamReceiveWindow is accepted by populateConfig unclamped)
//   loop      SendStream -> (deliver / lose / spurious loss) -> ReceiveStream on the shared
//             flow controllers, MAX_* frames of the receiver fed back in any order
//   kinds-send / kinds-recv (c04_kinds_test.go): one stream of every kind (bidi / uni, opened
//             locally / by the peer) from the real streamsMap with Conn.newFlowController, a peer
//             (resp. a QUICSpec of this endpoint) whose three initial_max_stream_data values differ

import (
	"fmt"
	"testing"
	"time"

	"github.com/refraction-networking/uquic/internal/protocol"
	"github.com/refraction-networking/uquic/internal/verifmc/explore"
	"github.com/refraction-networking/uquic/internal/wire"
)

func TestVerifC04(t *testing.T) {
	explore.Main("C04", []explore.Part{
		c04Part("send"),
		c04Part("send-big"),
		c04Part("send-rsa"),
		c04Part("framer"),
		c04Part("framer-conn"),
		c04Part("recv"),
		c04Part("tune"),
		c04Part("tune-over"),
		c04Part("loop"),
		c04KPart("kinds-send"),
		c04KPart("kinds-recv"),
	}, func(msg string) { t.Fatal(msg) })
}

func c04Config(name string, thorough bool) *c04Cfg {
	var c *c04Cfg
	switch name {
	case "send":
		c = &c04Cfg{mode: "send", cell: 10, sndS: 2, sndC: 3, rcvS: 4, rcvC: 6, maxS: 4, maxC: 6, depth: 6}
		if thorough {
			c.depth = 7
		}
	case "send-rsa":
		c = &c04Cfg{mode: "send", rsa: true, cell: 10, sndS: 2, sndC: 3, rcvS: 4, rcvC: 6, maxS: 4, maxC: 6, depth: 6}
		if thorough {
			c.depth = 7
		}
	case "send-big":
		c = &c04Cfg{mode: "sendbig", cell: 400, sndS: 2, sndC: 3, rcvS: 4, rcvC: 6, maxS: 4, maxC: 6, depth: 6, bigLen: 1500}
		if thorough {
			c.depth = 7
		}
	case "framer":
		c = &c04Cfg{mode: "framer", cell: 50, sndS: 2, sndC: 3, rcvS: 4, rcvC: 6, maxS: 4, maxC: 6, depth: 6}
		if thorough {
			c.depth = 7
		}
	case "framer-conn": // the connection limit is the tighter one: the connection is blocked again after every MAX_DATA
		c = &c04Cfg{mode: "framer", cell: 50, sndS: 3, sndC: 2, rcvS: 4, rcvC: 6, maxS: 4, maxC: 6, depth: 6}
		if thorough {
			c.depth = 7
		}
	case "recv":
		c = &c04Cfg{mode: "recv", cell: 10, sndS: 2, sndC: 3, rcvS: 4, rcvC: 6, maxS: 4, maxC: 6, depth: 5}
		if thorough {
			c.depth = 6
		}
	case "tune":
		c = &c04Cfg{mode: "tune", cell: 10, sndS: 2, sndC: 3, rcvS: 4, rcvC: 6, maxS: 16, maxC: 24, depth: 6}
		if thorough {
			c.depth = 8
		}
	case "tune-over":
		// initial window > ceiling on both levels. Sizes chosen so that, with reads of 1 and 3
		// cells, every relation between the bytes consumed since the last update / in the
		// current auto-tuning epoch and the thresholds window/4 (update due), window/2
		// (auto-tuning looks at the epoch), initial-ceiling (outstanding credit above what the
		// ceiling would allow) is reachable within the depth bound.
		c = &c04Cfg{mode: "tune", over: true, cell: 10, sndS: 2, sndC: 3, rcvS: 8, rcvC: 10, maxS: 4, maxC: 4, depth: 6}
		if thorough {
			c.depth = 8
		}
	case "loop":
		c = &c04Cfg{mode: "loop", cell: 10, sndS: 4, sndC: 6, rcvS: 4, rcvC: 6, maxS: 4, maxC: 6, depth: 6}
		if thorough {
			c.depth = 7
		}
	default:
		explore.Must(false, "unknown part %s", name)
	}
	c.name = name
	c.wide = thorough
	return c
}

func c04Part(name string) explore.Part {
	return explore.BFSPart(name, func(e explore.Env) explore.BFSSpec {
		cfg := c04Config(name, e.Thorough())
		return explore.BFSSpec{
			New:              func() explore.Instance { return newC04World(cfg) },
			MaxDepth:         cfg.depth,
			PanicIsViolation: true,
			Rule:             c04Rule(cfg),
		}
	})
}

func c04Rule(c *c04Cfg) string {
	base := fmt.Sprintf("BFS depth %d over one real connectionFlowController + 2 real streamFlowControllers shared by 2 real SendStream/ReceiveStream pairs (cell %d bytes; ", c.depth, c.cell)
	switch c.mode {
	case "send", "sendbig", "framer":
		base += fmt.Sprintf("initial send limits %d cells per stream, %d per connection); ", c.sndS, c.sndC)
	default:
		base += fmt.Sprintf("receive windows %d cells per stream, %d per connection, maximum %d / %d); ", c.rcvS, c.rcvC, c.maxS, c.maxC)
	}
	switch c.mode {
	case "send":
		if c.rsa {
			base += "peer negotiated RESET_STREAM_AT; alphabet of part send plus SetReliableBoundary (any time before the reset): after CancelWrite / STOP_SENDING the not yet sent reliable part is still new data and stays under the ledger; "
		}
		return base + "alphabet: Write(1|3 cells), popStreamFrame(budget = header+1 byte | header+1 cell | full packet), ack(oldest)/lose(any) of popped frames via their ackhandler.FrameHandler, MAX_STREAM_DATA / MAX_DATA(initial-1|+2 cells; thorough: initial-1|+1|+3 resp. +4) incl. stale/duplicate/reordered, Close, CancelWrite, STOP_SENDING; connection IsNewlyBlocked queried after every pop as framer.Append does; oracle: sender credit ledger"
	case "sendbig":
		return base + fmt.Sprintf("as part send (small Write: 1 cell only), plus Write(%d bytes) > frame buffer, run in a goroutine that stays blocked across operations until enough was popped; oracle: sender credit ledger", c.bigLen)
	case "framer":
		return base + "alphabet: Write(1|3 cells), real framer.Append(128|200|1200 bytes) as the packet packer calls it, ack/lose, loss of a packet that carried a *_BLOCKED frame (the frame object the framer handed out goes on the wire again, as from the retransmission queue), MAX_STREAM_DATA / MAX_DATA (stale, duplicate, reordered), Close; oracle: sender credit ledger on the STREAM, STREAM_DATA_BLOCKED and DATA_BLOCKED frames the framer returns"
	case "recv":
		return base + "alphabet per stream: STREAM frame (next 1|2 cells, exactly up to the advertised stream limit, 1 byte beyond it, exactly up to / 1 byte beyond the connection limit, gap, old duplicate, each optionally FIN, empty FIN), RESET_STREAM (final = received | +1 cell | beyond the limit) and RESET_STREAM_AT (reliable size 1 cell) incl. duplicates, Read(1 byte|1 cell|all), CancelRead, getControlFrame, connection GetWindowUpdate; reads only issued when the model says they cannot block; oracle: receiver ledger"
	case "tune":
		if c.over {
			base += "start state: initial receive windows ABOVE the auto-tuning ceilings (as Config allows); Read(3 cells) added so that a window update can precede the auto-tuning step inside one epoch; "
		}
		return base + "alphabet: STREAM frame (next 2 cells, up to the stream limit, 1 byte beyond), Read(1 cell|all), CancelRead, getControlFrame, connection GetWindowUpdate, RTT sample 10 ms | 1 s, clock step 30 ms | 3 s (auto-tuning thresholds 2..4 RTT lie on both sides); oracle: receiver ledger with the window size read at the moment of each update"
	case "loop":
		return base + "alphabet: Write(1|2 cells), popStreamFrame(3 budgets), deliver+ack / lose / spurious-loss(deliver and declare lost) of any popped frame, Read(1 cell|all), CancelRead, getControlFrame (STOP_SENDING delivered at once), connection GetWindowUpdate, delivery of any MAX_STREAM_DATA / MAX_DATA emitted so far (any order, repeatedly), Close, CancelWrite, RESET_STREAM delivery; oracle: sender ledger against the delivered limits + receiver ledger"
	}
	return base
}

// ---- alphabet --------------------------------------------------------------------------

func (w *c04World) Ops() []explore.Op {
	if w.dead {
		return nil
	}
	switch w.cfg.mode {
	case "send", "sendbig", "framer":
		return w.opsSend()
	case "recv", "tune":
		return w.opsRecv()
	default:
		return w.opsLoop()
	}
}

func (w *c04World) canWrite(s, cellsN int) bool {
	if w.closedW[s] || w.cancelW[s] || w.pending[s] != nil {
		return false
	}
	return w.buffered(s)+cellsN*w.cfg.cell <= int(protocol.MaxPacketBufferSize)
}

func (w *c04World) opsSend() []explore.Op {
	var ops []explore.Op
	c := w.cfg
	for s := 0; s < 2; s++ {
		for _, n := range []int{1, 3} {
			if c.mode == "sendbig" && n == 3 {
				continue
			}
			if w.canWrite(s, n) {
				ops = append(ops, explore.Op{N: "write", A: s, B: n})
			}
		}
		if c.mode == "sendbig" && w.canWrite(s, 0) && w.buffered(s) == 0 {
			ops = append(ops, explore.Op{N: "bigwrite", A: s})
		}
	}
	if c.mode == "framer" {
		for _, b := range []int{128, 200, 1200} {
			ops = append(ops, explore.Op{N: "packet", A: b})
		}
	} else {
		for s := 0; s < 2; s++ {
			if w.mayHaveFrame(s) {
				for k := 0; k < 3; k++ {
					ops = append(ops, explore.Op{N: "pop", A: s, B: k})
				}
			}
		}
	}
	for s := 0; s < 2; s++ {
		vals := []int{c.sndS + 2, c.sndS - 1}
		if c.wide {
			vals = []int{c.sndS + 1, c.sndS - 1, c.sndS + 3}
		}
		for _, v := range vals {
			ops = append(ops, explore.Op{N: "msd", A: s, B: v})
		}
	}
	vals := []int{c.sndC + 2, c.sndC - 1}
	if c.wide {
		vals = []int{c.sndC + 1, c.sndC - 1, c.sndC + 4}
	}
	for _, v := range vals {
		ops = append(ops, explore.Op{N: "md", A: v})
	}
	if len(w.inflight) > 0 {
		ops = append(ops, explore.Op{N: "ack", A: 0})
	}
	for i := range w.inflight {
		ops = append(ops, explore.Op{N: "lose", A: i})
	}
	for i := range w.ctrlHeld {
		ops = append(ops, explore.Op{N: "rtxctrl", A: i})
	}
	for s := 0; s < 2; s++ {
		if !w.closedW[s] && !w.cancelW[s] && w.pending[s] == nil {
			ops = append(ops, explore.Op{N: "closew", A: s})
		}
		if c.mode != "framer" && !w.cancelW[s] {
			ops = append(ops, explore.Op{N: "cancelw", A: s}, explore.Op{N: "stop", A: s})
			if c.rsa {
				ops = append(ops, explore.Op{N: "boundary", A: s})
			}
		}
	}
	return ops
}

// frameShape returns offset, length, fin of receive-side frame kind k for stream s;
// ok=false if the kind is not applicable in this state.
func (w *c04World) frameShape(s, k int, fin bool) (off, l int, ok bool) {
	c := w.cfg.cell
	h := w.h[s]
	switch k {
	case 0:
		off, l = h, c
	case 1:
		off, l = h, 2*c
	case 2: // exactly up to the advertised stream limit
		off, l = h, w.advS[s]-h
		ok = l > 2*c
	case 3: // leaves a gap
		off, l = h+c, c
	case 4: // old data again
		off, l = 0, c
		ok = h >= c
	case 5: // empty FIN
		off, l = h, 0
		ok = fin
	case 6: // first byte beyond the advertised stream limit
		off, l = h, w.advS[s]-h+1
		ok = true
	case 7: // exactly up to the advertised connection limit
		off, l = h, w.advC-w.sumH()
		ok = l > 0 && l != c && l != 2*c && h+l <= w.advS[s] && h+l != w.advS[s]
	case 8: // first byte beyond the advertised connection limit
		off, l = h, w.advC-w.sumH()+1
		ok = h+l <= w.advS[s]
	}
	switch k {
	case 0, 1, 3:
		ok = true
	}
	if !ok || l < 0 || (l == 0 && !fin) {
		return 0, 0, false
	}
	e := off + l
	if f := w.final[s]; f >= 0 && (e > f || (fin && e != f)) {
		return 0, 0, false
	}
	return off, l, true
}

func (w *c04World) resetShape(s, k int) (final, rel int, ok bool) {
	c := w.cfg.cell
	fk := w.final[s] >= 0
	final = w.h[s]
	if fk {
		final = w.final[s]
	}
	switch k {
	case 0:
		return final, 0, true
	case 1:
		return w.h[s] + c, 0, !fk
	case 2:
		return final, c, final >= c
	case 3:
		return w.advS[s] + 1, 0, !fk
	}
	return 0, 0, false
}

func (w *c04World) opsRecv() []explore.Op {
	var ops []explore.Op
	tune := w.cfg.mode == "tune"
	kinds := []int{0, 1, 2, 3, 4, 5, 6, 7, 8}
	if tune {
		kinds = []int{1, 2, 6}
	}
	for s := 0; s < 2; s++ {
		if w.rcvGone(s) {
			continue
		}
		for _, k := range kinds {
			if _, _, ok := w.frameShape(s, k, false); ok {
				ops = append(ops, explore.Op{N: "frame", A: s, B: k})
			}
			if !tune && (k == 0 || k == 3 || k == 5 || k == 2) {
				if _, _, ok := w.frameShape(s, k, true); ok {
					ops = append(ops, explore.Op{N: "frame", A: s, B: k, C: 1})
				}
			}
		}
	}
	for s := 0; s < 2; s++ {
		if w.readEnabled(s) {
			if !tune {
				ops = append(ops, explore.Op{N: "read", A: s, B: 1})
			}
			ops = append(ops, explore.Op{N: "read", A: s, B: w.cfg.cell})
			if w.cfg.over {
				ops = append(ops, explore.Op{N: "read", A: s, B: 3 * w.cfg.cell})
			}
			ops = append(ops, explore.Op{N: "read", A: s, B: 64 * w.cfg.cell})
		}
	}
	for s := 0; s < 2; s++ {
		if w.sndR.hasCtrl(s) {
			ops = append(ops, explore.Op{N: "ctrlr", A: s})
		}
	}
	ops = append(ops, explore.Op{N: "maxdata"})
	if tune {
		ops = append(ops, explore.Op{N: "rtt", A: 10}, explore.Op{N: "rtt", A: 1000}, explore.Op{N: "tick", A: 30}, explore.Op{N: "tick", A: 3000})
	}
	for s := 0; s < 2; s++ {
		if w.rcvGone(s) {
			continue
		}
		if !w.cancelL[s] {
			ops = append(ops, explore.Op{N: "cancelr", A: s})
		}
		if !tune {
			for k := 0; k < 4; k++ {
				if _, _, ok := w.resetShape(s, k); ok {
					ops = append(ops, explore.Op{N: "rreset", A: s, B: k})
				}
			}
		}
	}
	return ops
}

func (w *c04World) hasQueuedReset(s int) bool {
	str := w.ss[s]
	str.mutex.Lock()
	defer str.mutex.Unlock()
	return str.queuedResetStreamFrame != nil
}

func (w *c04World) opsLoop() []explore.Op {
	var ops []explore.Op
	for s := 0; s < 2; s++ {
		for _, n := range []int{1, 2} {
			if w.canWrite(s, n) {
				ops = append(ops, explore.Op{N: "write", A: s, B: n})
			}
		}
	}
	for s := 0; s < 2; s++ {
		if w.mayHaveFrame(s) {
			for k := 0; k < 3; k++ {
				ops = append(ops, explore.Op{N: "pop", A: s, B: k})
			}
		}
	}
	for i := range w.inflight {
		ops = append(ops, explore.Op{N: "deliver", A: i}, explore.Op{N: "lose", A: i}, explore.Op{N: "spur", A: i})
	}
	for s := 0; s < 2; s++ {
		if w.readEnabled(s) {
			ops = append(ops, explore.Op{N: "read", A: s, B: w.cfg.cell}, explore.Op{N: "read", A: s, B: 64 * w.cfg.cell})
		}
	}
	for s := 0; s < 2; s++ {
		if w.sndR.hasCtrl(s) {
			ops = append(ops, explore.Op{N: "ctrlr", A: s})
		}
	}
	ops = append(ops, explore.Op{N: "maxdata"})
	for s := 0; s < 2; s++ {
		for j := range w.emS[s] {
			ops = append(ops, explore.Op{N: "dmsd", A: s, B: j})
		}
	}
	for j := range w.emC {
		ops = append(ops, explore.Op{N: "dmd", A: j})
	}
	for s := 0; s < 2; s++ {
		if !w.rcvGone(s) && !w.cancelL[s] {
			ops = append(ops, explore.Op{N: "cancelr", A: s})
		}
		if !w.closedW[s] && !w.cancelW[s] {
			ops = append(ops, explore.Op{N: "closew", A: s})
		}
		if !w.cancelW[s] {
			ops = append(ops, explore.Op{N: "cancelw", A: s})
		}
		if w.hasQueuedReset(s) {
			ops = append(ops, explore.Op{N: "rst", A: s})
		}
	}
	return ops
}

// ---- transitions -----------------------------------------------------------------------

func (w *c04World) Apply(op explore.Op) *explore.Fail {
	w.outcome = op.N
	if fl := w.apply(op); fl != nil {
		return fl
	}
	if w.cfg.mode == "sendbig" {
		w.settle()
	}
	if w.dead {
		return nil
	}
	if fl := w.checkCompletion(); fl != nil {
		return fl
	}
	switch w.cfg.mode {
	case "recv", "tune", "loop":
		return w.checkCredit(op.N)
	}
	return nil
}

// checkCompletion: once a send stream reports itself completed (the connection then forgets
// it and never asks it for frames again) without having been reset, every byte the
// application wrote before Close must have been acknowledged: anything still queued for
// retransmission at that moment is lost for good, and the reader would never obtain every
// byte although neither side reports an error (C01's clause, checked here at the component
// that decides completion).
func (w *c04World) checkCompletion() *explore.Fail {
	if w.cfg.mode == "recv" || w.cfg.mode == "tune" {
		return nil
	}
	for s := 0; s < 2; s++ {
		if w.sndS.done(s) == 0 || w.cancelW[s] || !w.closedW[s] {
			continue
		}
		for i := 0; i < w.written[s]; i++ {
			if i >= len(w.ackedB[s]) || !w.ackedB[s][i] {
				return explore.Failf("snd-completed-with-unacknowledged-data", "stream %d reported itself completed (FIN sent, nothing outstanding) although byte %d of the %d bytes written before Close was never acknowledged (retransmission queue: %d frames)", c04IDs[s], i, w.written[s], len(w.ss[s].retransmissionQueue))
			}
		}
	}
	return nil
}

// noteAcked records the bytes of an acknowledged STREAM frame.
func (w *c04World) noteAcked(f *wire.StreamFrame) {
	s := c04Idx(f.StreamID)
	end := int(f.Offset) + len(f.Data)
	for len(w.ackedB[s]) < end {
		w.ackedB[s] = append(w.ackedB[s], false)
	}
	for i := int(f.Offset); i < end; i++ {
		w.ackedB[s][i] = true
	}
}

func (w *c04World) apply(op explore.Op) *explore.Fail {
	c := w.cfg.cell
	switch op.N {
	case "write":
		return w.applyWrite(op.A, op.B)
	case "bigwrite":
		return w.applyBigWrite(op.A)
	case "pop":
		return w.applyPop(op.A, op.B)
	case "packet":
		return w.applyPacket(op.A)
	case "rtxctrl":
		return w.applyRetransmitCtrl(op.A)
	case "msd":
		w.applyMaxStreamData(op.A, op.B*c)
	case "md":
		w.applyMaxData(op.A * c)
	case "ack":
		w.applyAck(op.A)
	case "lose":
		w.applyLose(op.A)
	case "closew":
		w.applyCloseW(op.A)
	case "boundary":
		w.ss[op.A].SetReliableBoundary()
		w.outcome = "boundary"
	case "cancelw":
		w.applyCancelW(op.A)
	case "stop":
		w.applyStopSending(op.A)
	case "frame":
		off, l, ok := w.frameShape(op.A, op.B, op.C == 1)
		explore.Must(ok, "frame kind %d not applicable", op.B)
		fl := w.rcvFrame(op.A, off, c04Fill(op.A, off, l), op.C == 1)
		w.outcome = fmt.Sprintf("frame/%d %s", op.B, w.outcome)
		return fl
	case "rreset":
		final, rel, ok := w.resetShape(op.A, op.B)
		explore.Must(ok, "reset kind %d not applicable", op.B)
		fl := w.rcvReset(op.A, final, rel)
		w.outcome = fmt.Sprintf("reset/%d %s", op.B, w.outcome)
		return fl
	case "read":
		return w.applyRead(op.A, op.B)
	case "cancelr":
		w.applyCancelRead(op.A)
	case "ctrlr":
		fl, stop := w.applyCtrlR(op.A)
		if fl != nil {
			return fl
		}
		if stop != nil && w.cfg.mode == "loop" {
			w.ss[op.A].handleStopSendingFrame(stop)
			w.cancelW[op.A] = true
		}
	case "maxdata":
		return w.applyConnUpdate()
	case "rtt":
		w.rtt.UpdateRTT(time.Duration(op.A)*time.Millisecond, 0)
		w.outcome = "rtt"
	case "tick":
		w.now = w.now.Add(time.Duration(op.A) * time.Millisecond)
		w.outcome = "tick"
	case "deliver", "spur":
		fl := w.takeFlight(op.A)
		f := fl.sf.Frame
		var res *explore.Fail
		w.outcome = op.N + " dropped(stream gone)"
		if !w.rcvGone(fl.s) {
			res = w.rcvFrame(fl.s, int(f.Offset), append([]byte(nil), f.Data...), f.Fin)
			w.outcome = op.N + " " + w.outcome
		}
		if op.N == "deliver" {
			w.noteAcked(f)
			fl.sf.Handler.OnAcked(f)
		} else {
			fl.sf.Handler.OnLost(f)
		}
		return res
	case "dmsd":
		w.applyMaxStreamData(op.A, w.emS[op.A][op.B])
	case "dmd":
		w.applyMaxData(w.emC[op.A])
	case "rst":
		fr, ok, _ := w.ss[op.A].getControlFrame(w.now)
		explore.Must(ok, "no RESET_STREAM queued")
		rf := fr.Frame.(*wire.ResetStreamFrame)
		var res *explore.Fail
		w.outcome = "rst dropped(stream gone)"
		if !w.rcvGone(op.A) {
			res = w.rcvReset(op.A, int(rf.FinalSize), int(rf.ReliableSize))
			w.outcome = "rst " + w.outcome
		}
		fr.Handler.OnAcked(rf)
		return res
	default:
		explore.Must(false, "unknown op %v", op)
	}
	return nil
}
