package quic

// C04 receiver side: operations on the real ReceiveStreams / receive half of the flow
// controllers, and the receiver ledger.
//
// Oracle (statement: "A receiver accepts all data within the limits it has advertised and
// answers the first byte beyond them with FLOW_CONTROL_ERROR; the limits it advertises
// never decrease and are only ever raised by what the application has consumed plus the
// current window. Every byte the application consumes or abandons (reset, cancelled read,
// early close) is returned as connection-level credit exactly once."):
//   advS[s], advC = largest limit advertised so far (initial window, then every
//                   MAX_STREAM_DATA / MAX_DATA frame the real code creates)
//   a STREAM / RESET_STREAM frame whose end offset is <= advS[s] and which keeps Σ highest
//   offsets <= advC must be accepted; otherwise it must be answered with FLOW_CONTROL_ERROR
//   every MAX_* value v: v >= previous advertised limit, v == consumed + current window
//   connection credit (bytesRead of the connection flow controller) == Σ_s credit(s) with
//   credit(s) = bytes read by the application, or the final size once the stream is
//   abandoned (cancelled locally / reset effective) and its final size is known. Where the
//   statement does not fix the moment (abandoned but final size unknown; RESET_STREAM_AT
//   whose reliable part is still unread) the admissible range is used.

import (
	"errors"
	"fmt"
	"io"
	"sort"
	"strings"

	"github.com/refraction-networking/uquic/internal/protocol"
	"github.com/refraction-networking/uquic/internal/qerr"
	"github.com/refraction-networking/uquic/internal/verifmc/explore"
	"github.com/refraction-networking/uquic/internal/wire"
)

func (w *c04World) sumH() int { return w.h[0] + w.h[1] }

func (w *c04World) avail(s int) int {
	n := 0
	for i := w.read[s]; i < len(w.got[s]) && w.got[s][i]; i++ {
		n++
	}
	return n
}

func (w *c04World) resetEffective(s int) bool { return w.reset[s] && w.read[s] >= w.reliable[s] }
func (w *c04World) atEOF(s int) bool {
	return w.finFIN[s] && !w.reset[s] && w.final[s] >= 0 && w.read[s] == w.final[s]
}
func (w *c04World) rcvGone(s int) bool { return w.sndR.done(s) > 0 }

// readEnabled: the model predicts that Read returns without blocking.
func (w *c04World) readEnabled(s int) bool {
	if w.rcvGone(s) {
		return false
	}
	return w.avail(s) > 0 || w.atEOF(s) || w.cancelL[s] || w.resetEffective(s)
}

func (w *c04World) status(s int) string {
	fk := w.final[s] >= 0
	switch {
	case w.cancelL[s] && w.reset[s]:
		return fmt.Sprintf("cancelread+reset(final=%v,reliable-unread=%v)", fk, w.read[s] < w.reliable[s])
	case w.cancelL[s] && fk && !w.finFIN[s]:
		return fmt.Sprintf("cancelread-then-reset(reliable-unread=%v)", w.read[s] < w.reliable[s])
	case w.cancelL[s]:
		return fmt.Sprintf("cancelread(final=%v)", fk)
	case w.reset[s]:
		return fmt.Sprintf("reset(effective=%v)", w.resetEffective(s))
	case w.eofRead[s]:
		return "eof"
	case fk:
		return "fin-known"
	}
	return "open"
}

// creditRange: connection-level credit that must have been returned for stream s.
func (w *c04World) creditRange(s int) (lo, hi int) {
	fk := w.final[s] >= 0
	switch {
	case fk && (w.cancelL[s] || w.resetEffective(s)):
		return w.final[s], w.final[s]
	case w.cancelL[s]:
		return w.read[s], w.h[s]
	case w.reset[s]:
		return w.read[s], w.final[s]
	}
	return w.read[s], w.read[s]
}

// culprit names the history class of the stream(s) whose own consumed-bytes counter is
// outside the admissible range (violation keys identify the history, not the bystander).
func (w *c04World) culprit() string {
	var l []string
	for s := 0; s < 2; s++ {
		lo, hi := w.creditRange(s)
		if b := c04Field(w.sfc[s], "bytesRead"); b < lo || b > hi {
			l = append(l, w.status(s))
		}
	}
	if len(l) == 0 {
		return "connection-counter-only"
	}
	sort.Strings(l)
	return strings.Join(l, "|")
}

func (w *c04World) checkCredit(after string) *explore.Fail {
	lo0, hi0 := w.creditRange(0)
	lo1, hi1 := w.creditRange(1)
	got := c04Field(w.cfc, "bytesRead")
	if got < lo0+lo1 {
		return explore.Failf("rcv-credit-leak:"+w.culprit(),
			"after %s: connection-level credit returned is %d bytes, but the application consumed/abandoned %d (stream %d: read %d final %d %s; stream %d: read %d final %d %s)",
			after, got, lo0+lo1, c04IDs[0], w.read[0], w.final[0], w.status(0), c04IDs[1], w.read[1], w.final[1], w.status(1))
	}
	if got > hi0+hi1 {
		return explore.Failf("rcv-credit-double:"+w.culprit(),
			"after %s: connection-level credit returned is %d bytes, but only %d were consumed/abandoned (stream %d: read %d final %d %s; stream %d: read %d final %d %s)",
			after, got, hi0+hi1, c04IDs[0], w.read[0], w.final[0], w.status(0), c04IDs[1], w.read[1], w.final[1], w.status(1))
	}
	return nil
}

func (w *c04World) mark(s, off, n int) {
	for len(w.got[s]) < off+n {
		w.got[s] = append(w.got[s], false)
	}
	for i := off; i < off+n; i++ {
		w.got[s][i] = true
	}
}

// verdictFor checks the error returned for a frame ending at e (final: FIN/RESET).
func (w *c04World) verdictFor(what string, s, e int, final bool, err error) *explore.Fail {
	inc := max(0, e-w.h[s])
	overS := e > w.advS[s]
	overC := w.sumH()+inc > w.advC
	finalErr := (w.final[s] >= 0 && (e > w.final[s] || (final && e != w.final[s]))) || (final && e < w.h[s])
	lim := "stream"
	if !overS {
		lim = "connection"
	}
	switch {
	case err == nil:
		if overS || overC {
			return explore.Failf("rcv-accepted-beyond-"+lim+"-limit:"+what, "%s on stream %d ending at %d accepted; advertised stream limit %d, connection: received %d+%d, advertised %d", what, c04IDs[s], e, w.advS[s], w.sumH(), inc, w.advC)
		}
		w.outcome = what + " accepted"
		if e == w.advS[s] {
			w.outcome += " @slim"
		}
		if w.sumH()+inc == w.advC {
			w.outcome += " @clim"
		}
		return nil
	case c04IsTE(err, qerr.FlowControlError):
		w.dead = true
		if !overS && !overC {
			return explore.Failf("rcv-rejected-within-limit:"+what, "%s on stream %d ending at %d rejected with %v; advertised stream limit %d, connection: received %d+%d, advertised %d", what, c04IDs[s], e, err, w.advS[s], w.sumH(), inc, w.advC)
		}
		w.outcome = what + " FLOW_CONTROL_ERROR " + lim
		return nil
	default:
		w.dead = true
		if finalErr && c04IsTE(err, qerr.FinalSizeError) {
			w.outcome = what + " FINAL_SIZE_ERROR"
			return nil
		}
		if overS || overC {
			return explore.Failf("rcv-wrong-error-beyond-"+lim+"-limit:"+what, "%s on stream %d ending at %d beyond the advertised limit answered with %v instead of FLOW_CONTROL_ERROR", what, c04IDs[s], e, err)
		}
		return explore.Failf("rcv-rejected-within-limit:"+what, "%s on stream %d ending at %d within the advertised limits rejected with %v", what, c04IDs[s], e, err)
	}
}

func (w *c04World) rcvFrame(s, off int, data []byte, fin bool) *explore.Fail {
	e := off + len(data)
	f := &wire.StreamFrame{StreamID: c04IDs[s], Offset: protocol.ByteCount(off), Data: data, Fin: fin}
	err := w.rs[s].handleStreamFrame(f, w.now)
	what := "STREAM"
	if fin {
		what = "STREAM+FIN"
	}
	if fl := w.verdictFor(what, s, e, fin, err); fl != nil || w.dead {
		return fl
	}
	w.h[s] = max(w.h[s], e)
	if fin {
		w.final[s] = e
		w.finFIN[s] = true
	}
	if !w.cancelL[s] {
		w.mark(s, off, len(data))
	}
	return nil
}

func (w *c04World) rcvReset(s, final, rel int) *explore.Fail {
	f := &wire.ResetStreamFrame{StreamID: c04IDs[s], ErrorCode: 77, FinalSize: protocol.ByteCount(final), ReliableSize: protocol.ByteCount(rel)}
	err := w.rs[s].handleResetStreamFrame(f, w.now)
	what := "RESET_STREAM"
	if rel > 0 {
		what = "RESET_STREAM_AT"
	}
	if fl := w.verdictFor(what, s, final, true, err); fl != nil || w.dead {
		return fl
	}
	w.h[s] = max(w.h[s], final)
	w.final[s] = final
	if (!w.reset[s] && w.reliable[s] == 0) || rel < w.reliable[s] {
		w.reliable[s] = rel
	}
	if !w.reset[s] && !w.cancelL[s] {
		w.reset[s] = true
	}
	return nil
}

func (w *c04World) applyRead(s, n int) *explore.Fail {
	p := make([]byte, n)
	var got int
	var err error
	ok := c04Call(func() { got, err = w.rs[s].Read(p) })
	explore.Must(ok, "Read on stream %d blocked although the model has %d bytes available (eof=%v cancel=%v reset=%v)", s, w.avail(s), w.atEOF(s), w.cancelL[s], w.resetEffective(s))
	explore.Must(got >= 0 && got <= n && got <= w.avail(s), "Read returned %d bytes, %d available", got, w.avail(s))
	w.read[s] += got
	var se *StreamError
	cls := "nil"
	switch {
	case err == nil:
	case err == io.EOF:
		w.eofRead[s] = true
		cls = "EOF"
	case errors.As(err, &se):
		cls = "StreamError"
	default:
		explore.Must(false, "Read returned unexpected error %v", err)
	}
	w.outcome = fmt.Sprintf("read %s %s", w.cells(got), cls)
	return nil
}

func (w *c04World) applyCancelRead(s int) {
	w.rs[s].CancelRead(55)
	w.cancelL[s] = true
	w.outcome = "cancelread " + w.status(s)
}

func (w *c04World) winS(s int) int { return c04Field(w.sfc[s], "receiveWindowSize") }
func (w *c04World) winC() int      { return c04Field(w.cfc, "receiveWindowSize") }

// applyCtrlR drains the control frames of receive stream s, the way
// framer.appendControlFrames does. Returns a STOP_SENDING frame if one was produced.
func (w *c04World) applyCtrlR(s int) (*explore.Fail, *wire.StopSendingFrame) {
	w.sndR.clearCtrl(s)
	w.outcome = "ctrl"
	var stop *wire.StopSendingFrame
	for {
		oldWin := w.winS(s)
		f, ok, more := w.rs[s].getControlFrame(w.now)
		if !ok {
			break
		}
		switch fr := f.Frame.(type) {
		case *wire.MaxStreamDataFrame:
			v := int(fr.MaximumStreamData)
			if v < w.advS[s] {
				hist := "open"
				if w.final[s] >= 0 {
					hist = "after-final-offset"
				}
				val := "zero"
				if v != 0 {
					val = "nonzero"
				}
				return explore.Failf(fmt.Sprintf("rcv-max-stream-data-decreased:%s:value=%s", hist, val),
					"stream %d: MAX_STREAM_DATA frame created with limit %d after limit %d had been advertised (consumed %d, window %d, final size %d)", c04IDs[s], v, w.advS[s], w.read[s], w.winS(s), w.final[s]), nil
			}
			// "current window": the size before or after the auto-tuning step of this very update
			if v != w.read[s]+w.winS(s) && v != w.read[s]+oldWin {
				return explore.Failf("rcv-max-stream-data-not-consumed-plus-window", "stream %d: MAX_STREAM_DATA %d, but the application consumed %d and the window is %d (%d before this update)", c04IDs[s], v, w.read[s], w.winS(s), oldWin), nil
			}
			w.outcome += fmt.Sprintf(" MAX_STREAM_DATA(win=%d)", w.winS(s)/w.cfg.cell)
			if v == w.advS[s] {
				w.outcome += "(same)"
			}
			if w.winS(s) > oldWin {
				w.outcome += " window-grown"
			}
			w.advS[s] = v
			w.emS[s] = append(w.emS[s], v)
		case *wire.StopSendingFrame:
			stop = fr
			w.outcome += " STOP_SENDING"
		default:
			explore.Must(false, "unexpected control frame %T", fr)
		}
		if !more {
			break
		}
	}
	return nil, stop
}

// applyConnUpdate: connection.go queries the connection flow controller whenever it is
// about to send a packet and queues a MAX_DATA frame for a non-zero answer.
func (w *c04World) applyConnUpdate() *explore.Fail {
	oldWin := w.winC()
	v := int(w.cfc.GetWindowUpdate(w.now))
	w.outcome = "maxdata none"
	if w.winC() > oldWin {
		w.outcome += " window-grown"
	}
	if v == 0 {
		return nil
	}
	if v < w.advC {
		return explore.Failf("rcv-max-data-decreased", "MAX_DATA %d after %d had been advertised", v, w.advC)
	}
	lo0, hi0 := w.creditRange(0)
	lo1, hi1 := w.creditRange(1)
	in := func(c int) bool { return c >= lo0+lo1 && c <= hi0+hi1 }
	if !in(v-w.winC()) && !in(v-oldWin) {
		return explore.Failf("rcv-max-data-not-consumed-plus-window", "MAX_DATA %d with window %d, but the application consumed/abandoned %d..%d bytes", v, w.winC(), lo0+lo1, hi0+hi1)
	}
	w.outcome = fmt.Sprintf("maxdata MAX_DATA(win=%d)", w.winC()/w.cfg.cell)
	if v == w.advC {
		w.outcome += "(same)"
	}
	if w.winC() > oldWin {
		w.outcome += " window-grown"
	}
	w.advC = v
	w.emC = append(w.emC, v)
	return nil
}
