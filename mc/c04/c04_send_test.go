package quic

// C04 sender side: operations on the real SendStreams / send half of the flow
// controllers, and the credit ledger.
//
// Oracle (statement: "A sender never transmits new stream bytes beyond the largest
// per-stream and per-connection limits its peer has advertised, and reports being blocked
// at most once per limit"):
//   hi[s]   = highest stream offset ever put on the wire (retransmissions never raise it)
//   hi[s]  <= largest MAX_STREAM_DATA (or initial limit) delivered to the sender
//   Σ hi[s] <= largest MAX_DATA (or initial limit) delivered to the sender
//   STREAM_DATA_BLOCKED at most once per (stream, limit value); DATA_BLOCKED at most once
//   per limit value.

import (
	"fmt"

	"github.com/refraction-networking/uquic/internal/ackhandler"
	"github.com/refraction-networking/uquic/internal/protocol"
	"github.com/refraction-networking/uquic/internal/verifmc/explore"
	"github.com/refraction-networking/uquic/internal/wire"
	"github.com/refraction-networking/uquic/quicvarint"
)

func (w *c04World) buffered(s int) int {
	str := w.ss[s]
	str.mutex.Lock()
	defer str.mutex.Unlock()
	n := len(str.dataForWriting)
	if str.nextFrame != nil {
		n += len(str.nextFrame.Data)
	}
	return n
}

// mayHaveFrame: popStreamFrame can possibly return something (used to prune no-op pops).
func (w *c04World) mayHaveFrame(s int) bool {
	str := w.ss[s]
	str.mutex.Lock()
	defer str.mutex.Unlock()
	return len(str.retransmissionQueue) > 0 || len(str.dataForWriting) > 0 || str.nextFrame != nil || (str.finishedWriting && !str.finSent)
}

// budget returns the size budget for pop kind k: 0 = header + 1 data byte of the frame
// that is next in line, 1 = header + one cell, 2 = a full packet.
func (w *c04World) budget(s, k int) protocol.ByteCount {
	str := w.ss[s]
	str.mutex.Lock()
	off := str.writeOffset
	if len(str.retransmissionQueue) > 0 {
		off = str.retransmissionQueue[0].Offset
	}
	str.mutex.Unlock()
	hdr := 1 + quicvarint.Len(uint64(c04IDs[s])) + 1
	if off != 0 {
		hdr += quicvarint.Len(uint64(off))
	}
	switch k {
	case 0:
		return protocol.ByteCount(hdr + 1)
	case 1:
		n := hdr + w.cfg.cell
		if w.cfg.cell >= 64 {
			n++
		}
		return protocol.ByteCount(n)
	default:
		return protocol.MaxPacketBufferSize
	}
}

func (w *c04World) sumHi() int { return w.hi[0] + w.hi[1] }

// onWire accounts one STREAM frame that the sender put on the wire.
func (w *c04World) onWire(sf ackhandler.StreamFrame, via string) (*explore.Fail, string) {
	f := sf.Frame
	s := c04Idx(f.StreamID)
	off, l := int(f.Offset), len(f.Data)
	end := off + l
	newB := max(0, end-w.hi[s])
	kind := "retx"
	if newB > 0 {
		kind = "new"
		if off < w.hi[s] {
			kind = "new+retx"
		}
	} else if l == 0 {
		kind = "fin-only"
	}
	w.hi[s] = max(w.hi[s], end)
	w.inflight = append(w.inflight, c04Flight{sf: sf, s: s})
	if w.hi[s] > w.limS[s] {
		return explore.Failf("snd-over-stream-limit:"+via+":"+kind, "stream %d: frame [%d,%d) sent, %d new bytes, but the largest MAX_STREAM_DATA delivered is %d", f.StreamID, off, end, newB, w.limS[s]), ""
	}
	if w.sumHi() > w.limC {
		return explore.Failf("snd-over-conn-limit:"+via+":"+kind, "stream %d: frame [%d,%d) sent, connection total now %d new bytes, but the largest MAX_DATA delivered is %d", f.StreamID, off, end, w.sumHi(), w.limC), ""
	}
	cls := kind + "=" + w.cells(max(newB, 0))
	if f.Fin {
		cls += " fin"
	}
	if w.hi[s] == w.limS[s] {
		cls += " @slim"
	}
	if w.sumHi() == w.limC {
		cls += " @clim"
	}
	return nil, cls
}

func (w *c04World) onStreamBlocked(b *wire.StreamDataBlockedFrame) *explore.Fail {
	s := c04Idx(b.StreamID)
	v := int(b.MaximumStreamData)
	if c04Has(w.blkS[s], v) {
		return explore.Failf("snd-stream-blocked-twice", "stream %d: STREAM_DATA_BLOCKED reported a second time for limit %d", b.StreamID, v)
	}
	w.blkS[s] = c04Insert(w.blkS[s], v)
	return nil
}

func (w *c04World) onConnBlocked(v int) *explore.Fail {
	if c04Has(w.blkC, v) {
		return explore.Failf("snd-conn-blocked-twice", "DATA_BLOCKED reported a second time for limit %d", v)
	}
	w.blkC = c04Insert(w.blkC, v)
	return nil
}

// connBlockedQuery asks the connection flow controller the way framer.Append does after
// it popped STREAM frames.
func (w *c04World) connBlockedQuery() (*explore.Fail, bool) {
	if ok, off := w.cfc.IsNewlyBlocked(); ok {
		return w.onConnBlocked(int(off)), true
	}
	return nil, false
}

func (w *c04World) applyWrite(s, cellsN int) *explore.Fail {
	n := cellsN * w.cfg.cell
	data := c04Fill(s, w.written[s], n)
	var got int
	var err error
	ok := c04Call(func() {
		got, err = w.ss[s].Write(data)
		for i := range data { // the application reuses its buffer at once
			data[i] = 0xEE
		}
	})
	explore.Must(ok, "Write of %d bytes blocked although %d+%d bytes fit the stream's frame buffer", n, w.buffered(s), n)
	explore.Must(err == nil && got == n, "Write returned (%d, %v) for %d bytes", got, err, n)
	w.written[s] += n
	w.outcome = "write"
	return nil
}

func (w *c04World) applyPop(s, k int) *explore.Fail {
	via := "buffered"
	str := w.ss[s]
	str.mutex.Lock()
	if len(str.retransmissionQueue) == 0 && str.nextFrame == nil && len(str.dataForWriting) > 0 {
		via = "direct"
	}
	str.mutex.Unlock()
	sf, blocked, more := str.popStreamFrame(w.budget(s, k), protocol.Version1)
	w.outcome = fmt.Sprintf("pop/%d none more=%v", k, more)
	if sf.Frame != nil {
		fl, cls := w.onWire(sf, via)
		if fl != nil {
			return fl
		}
		w.outcome = fmt.Sprintf("pop/%d %s", k, cls)
	}
	if blocked != nil {
		if fl := w.onStreamBlocked(blocked); fl != nil {
			return fl
		}
		w.outcome += " STREAM_DATA_BLOCKED"
	}
	fl, cb := w.connBlockedQuery()
	if fl != nil {
		return fl
	}
	if cb {
		w.outcome += " DATA_BLOCKED"
	}
	return nil
}

// applyPacket lets the real framer assemble the frames of one packet.
func (w *c04World) applyPacket(budget int) *explore.Fail {
	frames, sfs, _ := w.fr.Append(nil, nil, protocol.ByteCount(budget), w.now, protocol.Version1)
	w.outcome = fmt.Sprintf("packet %d streamframes", len(sfs))
	for _, sf := range sfs {
		fl, cls := w.onWire(sf, "framer")
		if fl != nil {
			return fl
		}
		w.outcome += " " + cls
	}
	for _, f := range frames {
		switch fr := f.Frame.(type) {
		case *wire.StreamDataBlockedFrame:
			if fl := w.onStreamBlocked(fr); fl != nil {
				return fl
			}
			w.ctrlHeld = append(w.ctrlHeld, c04Ctrl{f: fr, s: c04Idx(fr.StreamID), orig: int(fr.MaximumStreamData)})
			w.outcome += " STREAM_DATA_BLOCKED"
		case *wire.DataBlockedFrame:
			if fl := w.onConnBlocked(int(fr.MaximumData)); fl != nil {
				return fl
			}
			w.ctrlHeld = append(w.ctrlHeld, c04Ctrl{f: fr, s: -1, orig: int(fr.MaximumData)})
			w.outcome += " DATA_BLOCKED"
		case *wire.ResetStreamFrame:
		default:
			explore.Must(false, "unexpected control frame %T from the framer", fr)
		}
	}
	return nil
}

// applyRetransmitCtrl: the packet that carried the i-th held *_BLOCKED frame is declared lost.
// Frames without a handler go to the connection's retransmission queue as they are, and the
// packer serialises the same object into the next packet. A retransmission that repeats the
// limit of the lost report is not a second report; one that names another limit is a new
// report for that limit.
func (w *c04World) applyRetransmitCtrl(i int) *explore.Fail {
	h := w.ctrlHeld[i]
	w.ctrlHeld = append(append([]c04Ctrl(nil), w.ctrlHeld[:i]...), w.ctrlHeld[i+1:]...)
	w.outcome = "retransmit blocked-frame unchanged"
	switch fr := h.f.(type) {
	case *wire.DataBlockedFrame:
		if v := int(fr.MaximumData); v != h.orig {
			w.outcome = "retransmit DATA_BLOCKED changed"
			return w.onConnBlocked(v)
		}
	case *wire.StreamDataBlockedFrame:
		if v := int(fr.MaximumStreamData); v != h.orig || c04Idx(fr.StreamID) != h.s {
			w.outcome = "retransmit STREAM_DATA_BLOCKED changed"
			return w.onStreamBlocked(fr)
		}
	}
	return nil
}

func (w *c04World) applyMaxStreamData(s, v int) {
	w.outcome = "MAX_STREAM_DATA stale"
	if v > w.limS[s] {
		w.limS[s] = v
		w.outcome = "MAX_STREAM_DATA raise"
	}
	w.ss[s].updateSendWindow(protocol.ByteCount(v))
}

func (w *c04World) applyMaxData(v int) {
	w.outcome = "MAX_DATA stale"
	if v > w.limC {
		w.limC = v
		w.outcome = "MAX_DATA raise"
	}
	w.cfc.UpdateSendWindow(protocol.ByteCount(v)) // connection.go handleFrame
}

func (w *c04World) takeFlight(i int) c04Flight {
	fl := w.inflight[i]
	w.inflight = append(append([]c04Flight(nil), w.inflight[:i]...), w.inflight[i+1:]...)
	return fl
}

func (w *c04World) applyAck(i int) {
	fl := w.takeFlight(i)
	w.noteAcked(fl.sf.Frame)
	fl.sf.Handler.OnAcked(fl.sf.Frame)
	w.outcome = "ack"
}

func (w *c04World) applyLose(i int) {
	fl := w.takeFlight(i)
	fl.sf.Handler.OnLost(fl.sf.Frame)
	w.outcome = "lose"
}

func (w *c04World) applyCloseW(s int) {
	explore.Must(w.ss[s].Close() == nil, "Close failed")
	w.closedW[s] = true
	w.outcome = "close"
}

func (w *c04World) applyCancelW(s int) {
	w.ss[s].CancelWrite(7)
	w.cancelW[s] = true
	w.outcome = "cancelwrite"
}

func (w *c04World) applyStopSending(s int) {
	w.ss[s].handleStopSendingFrame(&wire.StopSendingFrame{StreamID: c04IDs[s], ErrorCode: 9})
	w.cancelW[s] = true
	w.outcome = "stop_sending"
}

// ---- blocking writes (part send-big) ---------------------------------------------------

// applyBigWrite starts a Write that is larger than the stream's frame buffer: it blocks
// until enough of it has been popped. Only issued when nothing is buffered, so every pop
// while it is pending goes through the unbuffered path, which signals the writer exactly
// when the rest fits the buffer (see settle).
func (w *c04World) applyBigWrite(s int) *explore.Fail {
	for {
		select {
		case <-w.sndS.notify:
			continue
		default:
		}
		break
	}
	pw := &c04Pending{done: make(chan struct{})}
	str := w.ss[s]
	data := c04Fill(s, w.written[s], w.cfg.bigLen)
	notify := w.sndS.notify
	go func() {
		pw.n, pw.err = str.Write(data)
		close(pw.done)
	}()
	// wait until the writer has registered its data and announced it
	entered := make(chan struct{})
	go func() {
		select {
		case <-notify:
		case <-pw.done:
		}
		close(entered)
	}()
	explore.Must(c04Wait(entered), "blocking Write never announced its data")
	w.pending[s] = pw
	w.outcome = "bigwrite"
	return nil
}

// settle waits for every pending Write that the stream state says is about to return.
func (w *c04World) settle() {
	for s := 0; s < 2; s++ {
		pw := w.pending[s]
		if pw == nil {
			continue
		}
		str := w.ss[s]
		str.mutex.Lock()
		fin := str.dataForWriting == nil || str.resetErr != nil || str.shutdownErr != nil || str.canBufferStreamFrame()
		str.mutex.Unlock()
		if !fin {
			continue
		}
		explore.Must(c04Wait(pw.done), "pending Write on stream %d did not return although its data fits the frame buffer / the stream was reset", s)
		w.written[s] += pw.n
		w.pending[s] = nil
		w.outcome += fmt.Sprintf(" +write-returned(%s,%T)", w.cells(pw.n), pw.err)
	}
}
