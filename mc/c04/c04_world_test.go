package quic

// C04 — flow control. One "world" = one real connectionFlowController + 2 real
// streamFlowControllers, each shared (as in a bidirectional Stream) by one real SendStream
// and one real ReceiveStream, plus the reference ledgers of the sender side and of the
// receiver side. The parts (c04_main_test.go) select different alphabets over this world.

import (
	"context"
	"encoding/hex"
	"errors"
	"fmt"
	"os"
	"reflect"
	"runtime"
	"sort"
	"strconv"
	"sync"
	"sync/atomic"
	"time"

	"github.com/refraction-networking/uquic/internal/ackhandler"
	"github.com/refraction-networking/uquic/internal/flowcontrol"
	"github.com/refraction-networking/uquic/internal/monotime"
	"github.com/refraction-networking/uquic/internal/protocol"
	"github.com/refraction-networking/uquic/internal/qerr"
	"github.com/refraction-networking/uquic/internal/utils"
	"github.com/refraction-networking/uquic/internal/verifmc/canon"
	"github.com/refraction-networking/uquic/internal/verifmc/explore"
	"github.com/refraction-networking/uquic/internal/wire"
)

const c04Base = monotime.Time(1_000_000_000_000)

var c04IDs = [2]protocol.StreamID{4, 8}

func c04Idx(id protocol.StreamID) int {
	if id == c04IDs[0] {
		return 0
	}
	explore.Must(id == c04IDs[1], "unknown stream id %d", id)
	return 1
}

var errC04Gone = errors.New("c04: instance dropped")

type c04Cfg struct {
	name string
	mode string // send | sendbig | framer | recv | tune | loop
	cell int    // bytes per cell
	// sender side: limits initially advertised by the (harness) peer, in cells
	sndS, sndC int
	// receiver side: initial and maximum receive windows, in cells
	rcvS, rcvC int
	maxS, maxC int
	depth      int
	bigLen     int  // sendbig: size of a blocking Write
	wide       bool // thorough tier: larger argument domains
	over       bool // tune: the initial receive windows exceed the auto-tuning ceilings (rcv > max); Read(3 cells) in the alphabet
	rsa        bool // the peer negotiated RESET_STREAM_AT: SetReliableBoundary is in the alphabet
}

// c04Snd receives the streamSender callbacks of the send halves (recvSide=false) or of the
// receive halves (recvSide=true). It must not reference the world (finalizer, see below).
type c04Snd struct {
	mu        sync.Mutex
	ctrl      [2]bool
	completed [2]int
	fr        *framer
	notify    chan struct{}
}

func (s *c04Snd) onHasConnectionData() {}
func (s *c04Snd) onHasStreamData(id protocol.StreamID, str *SendStream) {
	if s.fr != nil {
		s.fr.AddActiveStream(id, str)
	}
	if s.notify != nil {
		select {
		case s.notify <- struct{}{}:
		default:
		}
	}
}

func (s *c04Snd) onHasStreamControlFrame(id protocol.StreamID, _ streamControlFrameGetter) {
	s.mu.Lock()
	s.ctrl[c04Idx(id)] = true
	s.mu.Unlock()
}

func (s *c04Snd) onStreamCompleted(id protocol.StreamID) {
	s.mu.Lock()
	s.completed[c04Idx(id)]++
	s.mu.Unlock()
}

func (s *c04Snd) hasCtrl(i int) bool { s.mu.Lock(); defer s.mu.Unlock(); return s.ctrl[i] }
func (s *c04Snd) clearCtrl(i int)    { s.mu.Lock(); s.ctrl[i] = false; s.mu.Unlock() }
func (s *c04Snd) done(i int) int     { s.mu.Lock(); defer s.mu.Unlock(); return s.completed[i] }

type c04Flight struct {
	sf ackhandler.StreamFrame
	s  int
}

type c04Pending struct {
	done chan struct{}
	n    int
	err  error
}

type c04Ctrl struct {
	f    wire.Frame
	s    int // stream index, -1 for DATA_BLOCKED
	orig int // the limit it reported when it was first put on the wire
}

type c04World struct {
	cfg *c04Cfg

	// real objects
	rtt  *utils.RTTStats
	cfc  flowcontrol.ConnectionFlowController
	sfc  [2]flowcontrol.StreamFlowController
	ss   [2]*SendStream
	rs   [2]*ReceiveStream
	sndS *c04Snd // callbacks of the send halves
	sndR *c04Snd // callbacks of the receive halves
	fr   *framer
	now  monotime.Time

	inflight []c04Flight
	pending  [2]*c04Pending

	// ---- sender ledger (bytes)
	limS    [2]int // largest MAX_STREAM_DATA delivered to the sender
	limC    int    // largest MAX_DATA delivered to the sender
	hi      [2]int // highest stream offset put on the wire = number of new bytes sent
	written [2]int
	ackedB  [2][]bool // bytes of each stream acknowledged so far
	closedW [2]bool
	cancelW [2]bool
	blkS    [2][]int // limit values for which STREAM_DATA_BLOCKED was reported
	blkC    []int    // limit values for which DATA_BLOCKED was reported
	// *_BLOCKED frames the framer handed to the packer and that are still unacknowledged: the
	// sent-packet history keeps the very frame object and puts it on the wire again when the
	// packet is declared lost
	ctrlHeld []c04Ctrl

	// ---- receiver ledger (bytes)
	advS     [2]int // largest stream limit advertised so far
	advC     int
	h        [2]int    // highest offset received (flow-control accounted)
	got      [2][]bool // bytes handed to the stream for reading
	read     [2]int    // bytes consumed by the application
	final    [2]int    // -1: unknown
	finFIN   [2]bool
	cancelL  [2]bool
	reset    [2]bool // cancelled remotely (first RESET_STREAM before any CancelRead)
	reliable [2]int
	eofRead  [2]bool
	// loop part: MAX_* frames emitted by the receiver, deliverable in any order / repeatedly
	emS [2][]int
	emC []int

	dead    bool
	outcome string
}

func newC04World(cfg *c04Cfg) *c04World {
	c := protocol.ByteCount(cfg.cell)
	w := &c04World{cfg: cfg, now: c04Base, sndS: &c04Snd{}, sndR: &c04Snd{}}
	w.rtt = utils.NewRTTStats()
	w.cfc = flowcontrol.NewConnectionFlowController(c*protocol.ByteCount(cfg.rcvC), c*protocol.ByteCount(cfg.maxC),
		func(protocol.ByteCount) bool { return true }, w.rtt, utils.DefaultLogger)
	w.cfc.UpdateSendWindow(c * protocol.ByteCount(cfg.sndC))
	w.limC = cfg.cell * cfg.sndC
	w.advC = cfg.cell * cfg.rcvC
	if cfg.mode == "framer" {
		w.fr = newFramer(w.cfc)
		w.sndS.fr = w.fr
	}
	if cfg.mode == "sendbig" {
		w.sndS.notify = make(chan struct{}, 8)
	}
	for i := 0; i < 2; i++ {
		w.sfc[i] = flowcontrol.NewStreamFlowController(c04IDs[i], w.cfc, c*protocol.ByteCount(cfg.rcvS), c*protocol.ByteCount(cfg.maxS),
			c*protocol.ByteCount(cfg.sndS), w.rtt, utils.DefaultLogger)
		w.ss[i] = newSendStream(context.Background(), c04IDs[i], w.sndS, w.sfc[i], cfg.rsa)
		w.rs[i] = newReceiveStream(c04IDs[i], w.sndR, w.sfc[i])
		w.limS[i] = cfg.cell * cfg.sndS
		w.advS[i] = cfg.cell * cfg.rcvS
		w.final[i] = -1
	}
	if cfg.mode == "sendbig" {
		// a Write blocked on flow control would otherwise outlive the instance forever
		ss := w.ss
		runtime.SetFinalizer(w, func(*c04World) {
			ss[0].closeForShutdown(errC04Gone)
			ss[1].closeForShutdown(errC04Gone)
		})
	}
	return w
}

// ---- helpers -------------------------------------------------------------------------

func c04Byte(s, i int) byte { return byte((i*131 + 17 + 29*s) % 251) }

func c04Fill(s, off, n int) []byte {
	b := make([]byte, n)
	for i := range b {
		b[i] = c04Byte(s, off+i)
	}
	return b
}

// c04Field reads an (unexported) integer field of a flow controller: observation only.
func c04Field(obj any, name string) int {
	v := reflect.ValueOf(obj)
	for v.Kind() == reflect.Interface || v.Kind() == reflect.Pointer {
		v = v.Elem()
	}
	b := v.FieldByName("baseFlowController")
	explore.Must(b.IsValid(), "no baseFlowController in %T", obj)
	f := b.FieldByName(name)
	explore.Must(f.IsValid(), "no field %s", name)
	return int(f.Int())
}

func c04IsTE(err error, code qerr.TransportErrorCode) bool {
	var te *qerr.TransportError
	return errors.As(err, &te) && te.ErrorCode == code
}

var c04Blocked atomic.Int32

// c04Call runs f in its own goroutine; a call that the model says cannot block gets 30 s.
func c04Call(f func()) bool {
	done := make(chan struct{})
	go func() { f(); close(done) }()
	return c04Wait(done)
}

func c04Wait(done <-chan struct{}) bool {
	d := 30 * time.Second
	if c04Blocked.Load() > 0 {
		d = 2 * time.Second
	}
	t := time.NewTimer(d)
	defer t.Stop()
	select {
	case <-done:
		return true
	case <-t.C:
		c04Blocked.Add(1)
		return false
	}
}

func c04Has(l []int, v int) bool {
	for _, x := range l {
		if x == v {
			return true
		}
	}
	return false
}

func c04Insert(l []int, v int) []int {
	l = append(l, v)
	sort.Ints(l)
	return l
}

func (w *c04World) cells(n int) string {
	c := w.cfg.cell
	switch {
	case n == 0:
		return "0"
	case n < c:
		return "<1"
	case n%c == 0 && n/c <= 3:
		return fmt.Sprint(n / c)
	case n/c < 3:
		return fmt.Sprintf("%d+", n/c)
	default:
		return "3+"
	}
}

func c04SkipField(typ, field string) bool {
	switch typ {
	case "quic.SendStream":
		// ctx is derived state (cancelled iff closed/reset); sender is the harness; the
		// write channels only carry wake-up tokens (a stale token costs a spurious loop
		// iteration and changes nothing else)
		// nextFrame comes from a sync.Pool and its Fin flag is stale until the frame is
		// popped (popNewOrRetransmittedStreamFrame always assigns it): dumped by hand in Key
		return field == "ctx" || field == "ctxCancel" || field == "sender" || field == "writeChan" || field == "writeOnce" || field == "nextFrame"
	case "quic.ReceiveStream":
		return field == "sender" || field == "readChan" || field == "readOnce"
	// parts kinds-*: the streams' sender is the Conn literal of the harness (its framer, flow
	// controller and peer parameters are dumped / keyed on their own); ctx is context.Background
	case "quic.streamsMap":
		return field == "sender" || field == "ctx"
	case "quic.Stream":
		return field == "sender"
	case "quic.uniStreamSender":
		return field == "streamSender"
	}
	return false
}

var c04UseCanon = os.Getenv("VERIF_C04_CANON") != ""

type c04KeyBuf struct{ b []byte }

func (k *c04KeyBuf) s(x string) { k.b = append(k.b, x...) }
func (k *c04KeyBuf) i(x int) {
	k.b = strconv.AppendInt(k.b, int64(x), 10)
	k.b = append(k.b, ' ')
}
func (k *c04KeyBuf) is(l []int) {
	k.b = append(k.b, '[')
	for _, x := range l {
		k.i(x)
	}
	k.b = append(k.b, ']')
}
func (k *c04KeyBuf) t(x bool) {
	if x {
		k.b = append(k.b, 'T')
	} else {
		k.b = append(k.b, 'F')
	}
}

func (w *c04World) Key() string {
	// objects that the part's alphabet never touches stay in their initial state and are
	// left out of the dump
	real := struct {
		C  any
		S  [2]any
		SS [2]*SendStream
		RS [2]*ReceiveStream
		R  *utils.RTTStats
		F  *framer
	}{C: w.cfc, S: [2]any{w.sfc[0], w.sfc[1]}, R: w.rtt, F: w.fr}
	switch w.cfg.mode {
	case "send", "sendbig", "framer":
		real.SS = w.ss
	case "recv", "tune":
		real.RS = w.rs
	default:
		real.SS, real.RS = w.ss, w.rs
	}
	k := &c04KeyBuf{b: make([]byte, 0, 8192)}
	if c04UseCanon {
		k.s(canon.Dump(real, canon.Options{SkipField: c04SkipField, TimeBase: int64(w.now)}))
	} else {
		k.s(c04Dump(real, int64(w.now)))
	}
	for _, str := range w.ss {
		if nf := str.nextFrame; nf != nil {
			k.s("|nf ")
			k.i(int(nf.StreamID))
			k.i(int(nf.Offset))
			k.b = hex.AppendEncode(k.b, nf.Data)
			k.t(nf.DataLenPresent)
		} else {
			k.s("|nf-")
		}
	}
	k.s("|fl ")
	for _, fl := range w.inflight {
		k.i(fl.s)
		k.i(int(fl.sf.Frame.Offset))
		k.i(len(fl.sf.Frame.Data))
		k.t(fl.sf.Frame.Fin)
	}
	k.s("|pw")
	k.t(w.pending[0] != nil)
	k.t(w.pending[1] != nil)
	k.s("|S ")
	k.i(w.limC)
	k.is(w.blkC)
	k.s("|held")
	for _, h := range w.ctrlHeld {
		k.i(h.s)
		k.i(h.orig)
	}
	k.s("|R ")
	k.i(w.advC)
	k.is(w.emC)
	for s := 0; s < 2; s++ {
		k.s("|s ")
		k.i(w.limS[s])
		k.i(w.hi[s])
		k.i(w.written[s])
		k.s("|ak")
		for _, b := range w.ackedB[s] {
			k.t(b)
		}
		k.t(w.closedW[s])
		k.t(w.cancelW[s])
		k.is(w.blkS[s])
		k.s("|r ")
		k.i(w.advS[s])
		k.i(w.h[s])
		k.i(w.read[s])
		k.i(w.final[s])
		k.i(w.reliable[s])
		k.t(w.finFIN[s])
		k.t(w.cancelL[s])
		k.t(w.reset[s])
		k.t(w.eofRead[s])
		k.is(w.emS[s])
		k.s("|g")
		for _, b := range w.got[s] {
			k.t(b)
		}
		k.s("|cb")
		k.t(w.sndS.ctrl[s])
		k.i(w.sndS.completed[s])
		k.t(w.sndR.ctrl[s])
		k.i(w.sndR.completed[s])
	}
	k.t(w.dead)
	return string(k.b)
}

func (w *c04World) Outcome() string { return w.outcome }
