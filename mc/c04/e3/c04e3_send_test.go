package quic

// C04 / C01 E3, send side: application calls (Write, Close, CancelWrite) racing with the run
// loop (popStreamFrame, OnAcked / OnLost, STOP_SENDING, MAX_STREAM_DATA) on one real SendStream
// with real flow controllers, every Lock and Unlock of send_stream.go and the flow controllers a
// scheduler point, every schedule with at most two preemptions. Oracles from the statements:
// new stream bytes never exceed the limits delivered to the sender (C04); the bytes of every
// popped frame are the bytes the application wrote at that offset (C01); the stream reports
// itself completed at most once, and - unless it was reset - only when every written byte was
// acknowledged (C01); nothing stays blocked once the stream has ended.

import (
	"fmt"
	"io"
	"testing"

	"context"

	"github.com/refraction-networking/uquic/internal/ackhandler"
	"github.com/refraction-networking/uquic/internal/flowcontrol"
	"github.com/refraction-networking/uquic/internal/protocol"
	"github.com/refraction-networking/uquic/internal/utils"
	"github.com/refraction-networking/uquic/internal/verifmc/explore"
	"github.com/refraction-networking/uquic/internal/verifmc/sched"
	"github.com/refraction-networking/uquic/internal/wire"
)

type c04e3SendVariant struct {
	Name    string
	Window  int // initial stream send window
	Threads [][]string
}

// steps: w<n> Write n*100 bytes | close | cancelw | pop | popsmall | ackall | loseall | stop (STOP_SENDING) | msd (MAX_STREAM_DATA 5000) | rst (fetch + acknowledge the RESET_STREAM)
var c04e3SendVariants = []c04e3SendVariant{
	{"write-close|pop-ack|cancelwrite", 5000, [][]string{{"w10", "close"}, {"pop", "ackall"}, {"cancelw"}}},
	{"write-close|pop-lose-pop-ack", 5000, [][]string{{"w10", "close"}, {"pop", "loseall", "pop", "ackall"}}},
	{"write-close|popsmall-lose|stop", 5000, [][]string{{"w8", "close"}, {"popsmall", "loseall"}, {"stop"}}},
	{"write-write|pop-pop|msd", 500, [][]string{{"w4", "w4"}, {"pop", "pop"}, {"msd"}}},
	{"write|cancelwrite|pop-lose", 5000, [][]string{{"w10"}, {"cancelw"}, {"pop", "loseall"}}},
	{"write-close|cancelwrite|popsmall-ack-rst", 5000, [][]string{{"w5", "close"}, {"cancelw"}, {"popsmall", "ackall", "rst"}}},
	{"close|pop-ack|pop-ack", 5000, [][]string{{"w3", "close"}, {"pop", "ackall"}, {"pop", "ackall"}}},
	// through the real framer (streams announce themselves from the application's goroutine,
	// the run loop packs): a lost activation leaves written bytes unsent for ever
	{"framer:write-write|packet-packet", 5000, [][]string{{"w4", "w4"}, {"packet", "packet"}}},
	{"framer:write-close|packet|packet", 5000, [][]string{{"w6", "close"}, {"packet"}, {"packet"}}},
	{"framer:write|packet-lose-packet|msd", 500, [][]string{{"w8"}, {"packet", "loseall", "packet"}, {"msd"}}},
}

func c04e3SendScenario(v c04e3SendVariant) func() *sched.Scenario {
	return func() *sched.Scenario {
		rtt := utils.NewRTTStats()
		cfc := flowcontrol.NewConnectionFlowController(1<<20, 1<<20, func(protocol.ByteCount) bool { return true }, rtt, utils.DefaultLogger)
		cfc.UpdateSendWindow(1 << 20)
		sfc := flowcontrol.NewStreamFlowController(4, cfc, 1<<20, 1<<20, protocol.ByteCount(v.Window), rtt, utils.DefaultLogger)
		snd := &c04Snd{}
		var fr *framer
		if len(v.Name) > 7 && v.Name[:7] == "framer:" {
			fr = newFramer(cfc)
			snd.fr = fr
		}
		ss := newSendStream(context.Background(), 4, snd, sfc, false)
		limit := v.Window
		written, hi := 0, 0
		var inflight []ackhandler.StreamFrame
		acked := map[int]bool{}
		closed, reset := false, false
		var fail *explore.Fail
		bad := func(key, f string, a ...any) {
			if fail == nil {
				fail = explore.Failf(key, "%s: %s", v.Name, fmt.Sprintf(f, a...))
			}
		}
		onFrame := func(sf ackhandler.StreamFrame) {
			f := sf.Frame
			end := int(f.Offset) + len(f.Data)
			for i, b := range f.Data {
				if b != c04Byte(0, int(f.Offset)+i) {
					bad("e3:frame-bytes-differ", "popped frame [%d,%d) carries byte %#x at offset %d, the application wrote %#x there", f.Offset, end, b, int(f.Offset)+i, c04Byte(0, int(f.Offset)+i))
					break
				}
			}
			if end > hi {
				hi = end
			}
			if hi > limit {
				bad("e3:snd-over-stream-limit", "frame [%d,%d) sent although the largest MAX_STREAM_DATA delivered is %d", f.Offset, end, limit)
			}
			inflight = append(inflight, sf)
		}
		step := func(name string) func() {
			switch {
			case name[0] == 'w':
				n := int(name[1]-'0') * 100
				if len(name) == 3 {
					n = 1000
				}
				return func() {
					data := c04Fill(0, written, n)
					written += n // model first: the bytes may be popped before Write returns
					ss.Write(data)
					for i := range data {
						data[i] = 0xEE
					}
				}
			case name == "close":
				return func() { closed = true; ss.Close() }
			case name == "cancelw":
				return func() { reset = true; ss.CancelWrite(7) }
			case name == "stop":
				return func() {
					reset = true
					ss.handleStopSendingFrame(&wire.StopSendingFrame{StreamID: 4, ErrorCode: 9})
				}
			case name == "msd":
				return func() { limit = max(limit, 5000); ss.updateSendWindow(5000) }
			case name == "pop", name == "popsmall":
				budget := protocol.ByteCount(protocol.MaxPacketBufferSize)
				if name == "popsmall" {
					budget = 300
				}
				return func() {
					if sf, _, _ := ss.popStreamFrame(budget, protocol.Version1); sf.Frame != nil {
						onFrame(sf)
					}
				}
			case name == "packet":
				return func() {
					_, sfs, _ := fr.Append(nil, nil, 700, 0, protocol.Version1)
					for _, sf := range sfs {
						onFrame(sf)
					}
				}
			case name == "ackall":
				return func() {
					fl := inflight
					inflight = nil
					for _, sf := range fl {
						for i := int(sf.Frame.Offset); i < int(sf.Frame.Offset)+len(sf.Frame.Data); i++ {
							acked[i] = true
						}
						sf.Handler.OnAcked(sf.Frame)
					}
				}
			case name == "loseall":
				return func() {
					fl := inflight
					inflight = nil
					for _, sf := range fl {
						sf.Handler.OnLost(sf.Frame)
					}
				}
			case name == "rst":
				return func() {
					if snd.hasCtrl(c04Idx(4)) {
						snd.clearCtrl(c04Idx(4))
						if fr, ok, _ := ss.getControlFrame(0); ok {
							fr.Handler.OnAcked(fr.Frame)
						}
					}
				}
			}
			panic("unknown step " + name)
		}
		var threads []sched.Thread
		for i, t := range v.Threads {
			var steps []func()
			for _, n := range t {
				steps = append(steps, step(n))
			}
			threads = append(threads, sched.Thread{Name: fmt.Sprintf("T%d:%s", i, t[0]), Steps: steps})
		}
		check := func() *explore.Fail {
			if fail != nil {
				return fail
			}
			if d := snd.done(c04Idx(4)); d > 1 {
				return explore.Failf("e3:completed-twice", "%s: the send stream reported itself completed %d times", v.Name, d)
			} else if d == 1 && !reset {
				if !closed {
					return explore.Failf("e3:completed-without-close", "%s: the send stream reported itself completed although it was neither closed nor reset", v.Name)
				}
				for i := 0; i < written; i++ {
					if !acked[i] {
						return explore.Failf("e3:completed-with-unacknowledged-data", "%s: the send stream reported itself completed although byte %d of %d was never acknowledged", v.Name, i, written)
					}
				}
			}
			return nil
		}
		return &sched.Scenario{
			Threads:   threads,
			AfterStep: check,
			Final: func(blocked []string) *explore.Fail {
				if f := check(); f != nil {
					return f
				}
				for _, b := range blocked {
					if reset {
						return explore.Failf("e3:blocked-after-reset", "%s: %s is still blocked after the stream was reset", v.Name, b)
					}
				}
				if fr != nil && !reset && len(blocked) == 0 {
					// the run loop keeps packing while the framer says there is data: everything that
					// was written and fits the delivered limits must go out
					for i := 0; i < 20; i++ {
						_, sfs, _ := fr.Append(nil, nil, 1200, 0, protocol.Version1)
						if len(sfs) == 0 {
							break
						}
						for _, sf := range sfs {
							onFrame(sf)
							sf.Handler.OnAcked(sf.Frame)
						}
						inflight = nil
					}
					if fail != nil {
						return fail
					}
					if want := min(written, limit); hi < want {
						return explore.Failf("e3:written-bytes-never-sent", "%s: %d bytes were written and the peer's limit is %d, but the framer hands out nothing beyond offset %d any more (a stream that announced data was forgotten)", v.Name, written, limit, hi)
					}
				}
				return nil
			},
			Cleanup: func() { ss.closeForShutdown(io.ErrClosedPipe) },
			Outcome: func() string {
				return fmt.Sprintf("sent=%d completed=%d reset=%v", hi/100*100, snd.done(c04Idx(4)), reset)
			},
		}
	}
}

func c04e3SendPart(t *testing.T) explore.Part {
	return c04e3GenericPart(t, "e3-send-lockpoints", len(c04e3SendVariants),
		func(i int) (string, func() *sched.Scenario) {
			return c04e3SendVariants[i].Name, c04e3SendScenario(c04e3SendVariants[i])
		},
		fmt.Sprintf("%d thread mixes on one real SendStream with real flow controllers (Write, Close, CancelWrite against popStreamFrame, OnAcked / OnLost, STOP_SENDING, MAX_STREAM_DATA, RESET_STREAM collection) with every mutex Lock and Unlock of send_stream.go and internal/flowcontrol as a scheduler point (files import-rewritten to vsync from the working tree)", len(c04e3SendVariants)))
}
