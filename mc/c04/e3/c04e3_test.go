package quic

// C04 E3: application calls racing with the run loop on one receive stream. The BFS parts
// execute complete calls one after the other; here receive_stream.go and the flow controllers
// are rebuilt against the channel-based mutex of mc/lib/vsync, every Lock and every Unlock is a
// scheduler point, and every schedule of the thread mixes below with at most two preemptions
// is executed (a critical section that is split in two, a value read under the lock and used
// after it, shows only between two calls that overlap). Oracle, from the statement: "every
// byte the application consumes or abandons is returned as connection-level credit exactly
// once" - the connection flow controller's consumed-byte count never exceeds the bytes
// received and equals them once the stream is completely read or abandoned; the stream's own
// count never exceeds what it received.

import (
	"encoding/json"
	"fmt"
	"io"
	"testing"

	"github.com/refraction-networking/uquic/internal/flowcontrol"
	"github.com/refraction-networking/uquic/internal/monotime"
	"github.com/refraction-networking/uquic/internal/protocol"
	"github.com/refraction-networking/uquic/internal/utils"
	"github.com/refraction-networking/uquic/internal/verifmc/explore"
	"github.com/refraction-networking/uquic/internal/verifmc/sched"
	"github.com/refraction-networking/uquic/internal/verifmc/vsync"
	"github.com/refraction-networking/uquic/internal/wire"
)

type c04e3Variant struct {
	Name    string
	Fin     bool     // the 1000 bytes delivered before the threads start carry FIN
	Threads []string // read600 | readall | cancelread | reset (RESET_STREAM final 1000) | resetat (RESET_STREAM_AT final 1000 reliable 400) | fin (empty FIN frame) | update (MAX_STREAM_DATA / MAX_DATA collection as the run loop does)
}

var c04e3Variants = []c04e3Variant{
	{"cancelread-vs-reset-after-fin", true, []string{"cancelread", "reset"}},
	{"cancelread-vs-reset", false, []string{"cancelread", "reset"}},
	{"read-vs-cancelread-vs-reset", false, []string{"read600", "cancelread", "reset"}},
	{"readall-vs-reset", false, []string{"readall", "reset"}},
	{"readall-vs-resetat", false, []string{"readall", "resetat"}},
	{"read-vs-cancelread-vs-fin", false, []string{"read600", "cancelread", "fin"}},
	{"cancelread-vs-update-vs-reset", true, []string{"cancelread", "update", "reset"}},
	{"2x-cancelread-vs-reset", true, []string{"cancelread", "cancelread", "reset"}},
	// blocked readers (C03: the reader observes the end of the stream): a Peek / Read that waits
	// for more than has arrived must be woken by whatever ends the stream
	{"blocked-peek-vs-resetat", false, []string{"peekbig", "resetat"}},
	{"blocked-peek-vs-reset", false, []string{"peekbig", "reset"}},
	{"blocked-peek-vs-fin", false, []string{"peekbig", "fin"}},
	{"blocked-read-vs-resetat", false, []string{"readbig", "resetat"}},
	{"blocked-read-vs-fin-vs-cancelread", false, []string{"readbig", "fin", "cancelread"}},
	{"blocked-peek-vs-read-vs-reset", false, []string{"peekbig", "read600", "reset"}},
	// the frame a blocked reader waits for arrives (200 more bytes, with or without FIN) while
	// another goroutine cancels reading: the woken reader must look at the cancellation again
	{"blocked-read-vs-datafin-vs-cancelread", false, []string{"readbig", "datafin", "cancelread"}},
	{"blocked-read-vs-data-fin-vs-cancelread", false, []string{"readbig", "data", "cancelread"}},
	{"blocked-read-vs-datafin-vs-reset", false, []string{"readbig", "datafin", "reset1200"}},
	{"blocked-peek-vs-datafin-vs-cancelread", false, []string{"peekbig", "datafin", "cancelread"}},
}

type c04e3Replay struct {
	Variant int   `json:"variant"`
	Choices []int `json:"choices"`
}

func c04e3Scenario(v c04e3Variant) func() *sched.Scenario {
	return func() *sched.Scenario {
		const initial = 1000
		total := initial // bytes received on the stream (raised by the data / datafin steps)
		rtt := utils.NewRTTStats()
		cfc := flowcontrol.NewConnectionFlowController(4000, 4000, func(protocol.ByteCount) bool { return true }, rtt, utils.DefaultLogger)
		sfc := flowcontrol.NewStreamFlowController(4, cfc, 2000, 2000, 1<<20, rtt, utils.DefaultLogger)
		snd := &c04Snd{}
		rs := newReceiveStream(4, snd, sfc)
		data := make([]byte, initial)
		explore.Must(rs.handleStreamFrame(&wire.StreamFrame{StreamID: 4, Data: data, Fin: v.Fin}, monotime.Now()) == nil, "setup frame rejected")
		var threads []sched.Thread
		var errs []error
		note := func(err error) {
			if err != nil {
				errs = append(errs, err)
			}
		}
		for i, name := range v.Threads {
			var f func()
			switch name {
			case "read600":
				f = func() { rs.Read(make([]byte, 600)) }
			case "readall":
				f = func() { io.ReadFull(rs, make([]byte, initial)) }
			case "datafin", "data": // the next 200 bytes arrive
				fin := name == "datafin"
				f = func() {
					total = initial + 200 // model first: the bytes may be consumed before the call returns
					note(rs.handleStreamFrame(&wire.StreamFrame{StreamID: 4, Offset: initial, Data: make([]byte, 200), Fin: fin}, monotime.Now()))
				}
			case "reset1200":
				f = func() {
					total = initial + 200 // the final size counts as received for flow control
					note(rs.handleResetStreamFrame(&wire.ResetStreamFrame{StreamID: 4, ErrorCode: 9, FinalSize: initial + 200}, monotime.Now()))
				}
			case "peekbig": // more than has been received: waits for data or for the end of the stream
				f = func() { rs.Peek(make([]byte, 1500)) }
			case "readbig":
				f = func() { io.ReadFull(rs, make([]byte, 1500)) }
			case "cancelread":
				f = func() { rs.CancelRead(7) }
			case "reset":
				f = func() {
					note(rs.handleResetStreamFrame(&wire.ResetStreamFrame{StreamID: 4, ErrorCode: 9, FinalSize: initial}, monotime.Now()))
				}
			case "resetat":
				f = func() {
					note(rs.handleResetStreamFrame(&wire.ResetStreamFrame{StreamID: 4, ErrorCode: 9, FinalSize: initial, ReliableSize: 400}, monotime.Now()))
				}
			case "fin":
				f = func() {
					note(rs.handleStreamFrame(&wire.StreamFrame{StreamID: 4, Offset: initial, Fin: true}, monotime.Now()))
				}
			case "update":
				f = func() {
					rs.getControlFrame(monotime.Now())
					cfc.GetWindowUpdate(monotime.Now())
				}
			}
			threads = append(threads, sched.Thread{Name: fmt.Sprintf("%s#%d", name, i), Steps: []func(){f}})
		}
		check := func(final bool) *explore.Fail {
			conn, str := c04Field(cfc, "bytesRead"), c04Field(sfc, "bytesRead")
			if conn > total {
				return explore.Failf("e3:connection-credit-exceeds-received", "%s: the connection flow controller counts %d consumed bytes, only %d were received on its one stream", v.Name, conn, total)
			}
			if str > total {
				return explore.Failf("e3:stream-credit-exceeds-received", "%s: the stream flow controller counts %d consumed bytes of %d received", v.Name, str, total)
			}
			if final && snd.done(c04Idx(4)) > 0 && conn != total {
				return explore.Failf("e3:credit-not-returned", "%s: the receive stream is completed (read to the end or abandoned) but only %d of its %d bytes were returned as connection-level credit", v.Name, conn, total)
			}
			return nil
		}
		return &sched.Scenario{
			Threads:   threads,
			AfterStep: func() *explore.Fail { return check(false) },
			Final: func(blocked []string) *explore.Fail {
				// every variant ends the stream (reset, FIN or local cancellation): nobody may stay blocked
				for _, b := range blocked {
					return explore.Failf("e3:reader-not-woken", "%s: %s is still blocked after the stream has ended (all other calls have returned)", v.Name, b)
				}
				for _, err := range errs {
					return explore.Failf("e3:frame-rejected", "%s: a frame within the limits was rejected: %v", v.Name, err)
				}
				return check(true)
			},
			Cleanup: func() { rs.closeForShutdown(io.ErrClosedPipe) },
			Outcome: func() string {
				return fmt.Sprintf("credit=%d completed=%v", c04Field(cfc, "bytesRead"), snd.done(c04Idx(4)) > 0)
			},
		}
	}
}

func TestVerifC04E3(t *testing.T) {
	explore.Main("C04", []explore.Part{c04e3Part(t), c04e3SendPart(t)}, func(msg string) { t.Fatal(msg) })
}

func c04e3Part(t *testing.T) explore.Part {
	return c04e3GenericPart(t, "e3-receive-lockpoints", len(c04e3Variants),
		func(i int) (string, func() *sched.Scenario) {
			return c04e3Variants[i].Name, c04e3Scenario(c04e3Variants[i])
		},
		fmt.Sprintf("%d thread mixes on one real ReceiveStream with real stream and connection flow controllers (Read, Peek and Read that wait for more than has arrived, CancelRead, RESET_STREAM, RESET_STREAM_AT, FIN, window-update collection; 1000 bytes received beforehand, with or without FIN) with every mutex Lock and Unlock of receive_stream.go and internal/flowcontrol as a scheduler point (files import-rewritten to vsync from the working tree)", len(c04e3Variants)))
}

// c04e3GenericPart explores n thread mixes under lock-point preemption (bound 2, thorough 3).
func c04e3GenericPart(t *testing.T, name string, n int, get func(i int) (string, func() *sched.Scenario), what string) explore.Part {
	vsync.Hook = sched.Point
	vsync.UnlockHook = sched.Point
	return explore.Part{
		Name: name,
		Run: func(e explore.Env) *explore.Report {
			rep := &explore.Report{Level: "exploration", Exhaustive: true}
			bound := 2
			if e.Thorough() {
				bound = 3
			}
			outcomes := map[string]bool{}
			for vi := 0; vi < n; vi++ {
				vname, mk := get(vi)
				explore.MarkCurrent(e, name, c04e3Replay{Variant: vi})
				r := sched.ExploreBounded(t, e, bound, 0, mk)
				rep.Evaluations += r.Executions
				rep.Transitions += r.Steps
				for o := range r.Outcomes {
					outcomes[vname+": "+o] = true
				}
				if r.Capped {
					rep.Exhaustive = false
					rep.Caps = append(rep.Caps, "deadline in "+vname)
				}
				if r.Fail != nil {
					rep.Violations = append(rep.Violations, explore.Violation{Key: r.Fail.Key, What: r.Fail.What, Replay: explore.JSON(c04e3Replay{vi, r.FailChoice}), Human: r.FailTrace})
				}
				rep.Samples = append(rep.Samples, fmt.Sprintf("%s: %d schedules", vname, r.Executions))
			}
			explore.ClearCurrent(e)
			for o := range outcomes {
				rep.Outcomes = append(rep.Outcomes, o)
			}
			rep.OutcomesN = int64(len(rep.Outcomes))
			rep.States = rep.OutcomesN
			rep.Traces = rep.Transitions
			rep.Rule = fmt.Sprintf("%s: every schedule with at most %d preemptions", what, bound)
			rep.Bound = fmt.Sprintf("preemption bound %d completed", bound)
			return rep
		},
		Replay: func(e explore.Env, raw json.RawMessage) *explore.Violation {
			var rp c04e3Replay
			if err := json.Unmarshal(raw, &rp); err != nil {
				t.Fatal(err)
			}
			_, mk := get(rp.Variant)
			f, trace := sched.Replay(t, mk, rp.Choices)
			if f == nil {
				return nil
			}
			return &explore.Violation{Key: f.Key, What: f.What, Human: trace}
		},
	}
}
