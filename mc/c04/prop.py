# ./check configuration for C04 (merged by mc/props.py)
PROP = dict(
        libs=["explore", "canon"],
        targets=[
            dict(name="e1", pkg=".", test="TestVerifC04", files=["mc/c04/*.go"]),
            dict(name="e3", pkg=".", test="TestVerifC04E3", files=["mc/c04/*.go", "mc/c04/e3/*.go"], parts=["e3-receive-lockpoints", "e3-send-lockpoints"],
                 libs=["explore", "canon", "sched", "vsync"],
                 rewrite={f: [('"sync"', 'sync "github.com/refraction-networking/uquic/internal/verifmc/vsync"')]
                          for f in ("receive_stream.go", "send_stream.go", "framer.go", "internal/flowcontrol/base_flow_controller.go")}),
            dict(name="race", pkg=".", test="TestVerifC04Race", files=["mc/c04/*.go", "mc/c04/race/*.go"], parts=["stream-race-pass"],
                 race=True, shards=4, gomaxprocs=4, env={"GORACE": "halt_on_error=1"}),
        ],
        crash_is_violation=True,
        level="model_checking", shards=1,
        level_text="Explicit-state model checking of the real flow-control code: one real connectionFlowController and two real streamFlowControllers, each shared (as in a bidirectional stream) by a real SendStream and a real ReceiveStream, are driven breadth-first through every operation sequence up to a depth bound by six alphabets (sender with byte-exact packet budgets, sender with blocking Writes, sender through the real framer, receiver with adversarial frames, receiver with window auto-tuning, and a loop-back world in which the frames of the real sender are delivered / lost / spuriously retransmitted to the real receiver and its MAX_* frames are fed back in any order). Every transition is executed on the real code and checked against a credit ledger (reference model), so there is no model/code gap. Right level because the property is an invariant over whole histories of a handful of counters, which is a finite space on a small lattice of cells chosen around the window boundaries.",
        level_note="Trusted: the ledgers in mc/c04 (sender: highest offset on the wire vs largest delivered limit; receiver: advertised limits, consumed bytes, abandoned bytes), the reflective canonicaliser (wake-up channels and the derived context of the streams are not part of the state), the read-out of bytesRead / receiveWindowSize of the flow controllers by reflection (observation only). Bounds: 2 streams, windows of 2-6 cells (16/24 with auto-tuning), cells of 10/50/400 bytes, depth 5-8; windows in the MB range and more than 2 streams are not explored. Blocking behaviour of Read/Write is only exercised in states where the stream state says the call returns. The sender parts also carry C01's completion oracle (a send stream reports itself completed only when every byte written before Close was acknowledged); it is reported under C01 by the target C01.e1, and under key snd-completed-with-unacknowledged-data here. Supporting pass stream-race-pass: the same objects with writer, reader and frame pump on separate goroutines under the race detector (sampled, excluded from the counts; wall-clock time decides nothing in it). Target e3 (lock-point exploration, mc/lib/sched + vsync with Lock AND Unlock as scheduler points, preemption bound 2 [3]): application calls racing with the run loop on one real ReceiveStream (Read / Peek incl. callers that wait for more than has arrived, CancelRead against RESET_STREAM, RESET_STREAM_AT, FIN, window updates) and on one real SendStream (Write / Close / CancelWrite against popStreamFrame, OnAcked / OnLost, STOP_SENDING, MAX_STREAM_DATA), also through the real framer (a lost stream activation leaves written bytes unsent for ever); receive_stream.go, send_stream.go, framer.go and the flow controllers are import-rewritten to vsync from the working tree.",
        technique="explicit-state BFS over the real implementation with reference-model (credit ledger) oracle",
        deadline=dict(quick=90, thorough=900),
        rule="explicit-state BFS over real SendStream / ReceiveStream / framer / stream and connection flow controllers; successor = fresh instance + replay of the shortest path + one op",
        assumptions=["a Read/Write that the stream state says must return is given 30 s of wall clock before it is declared blocked (harness error, not a verdict)",
                     "a limit is 'advertised' at the moment the real code creates the MAX_STREAM_DATA / MAX_DATA frame (or by the initial window); it is 'delivered' to the sender when updateSendWindow / UpdateSendWindow is called",
                     "RESET_STREAM_AT frames are delivered to the ReceiveStream as on a connection that negotiated the extension",
                     "2 streams, small windows (cells of 10-400 bytes); MB-sized windows are not explored"],
    )
