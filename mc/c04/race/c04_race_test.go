package quic

// C04 / C01 / C03 free-running race pass at stream level. SendStream, ReceiveStream and the
// flow controllers are used from several goroutines in a connection (the application's Write /
// Read / Close / Cancel* calls against the run loop's popStreamFrame / handleStreamFrame /
// updateSendWindow / OnAcked / OnLost / getControlFrame). The BFS parts execute those calls one
// at a time; that explores every ORDER of complete calls but not interleavings inside them,
// which is sound only without unsynchronised shared accesses. This supporting pass runs the
// same objects with the calls on concurrent goroutines under `go test -race` and checks the
// byte stream end to end (the reader obtains exactly the written bytes, or a prefix plus an
// error after a cancellation). Sampled, excluded from the counts; a race report kills the
// worker and is a violation.

import (
	"context"
	"encoding/json"
	"fmt"
	"io"
	"math/rand"
	"sync"
	"sync/atomic"
	"testing"
	"time"

	"github.com/refraction-networking/uquic/internal/ackhandler"
	"github.com/refraction-networking/uquic/internal/flowcontrol"
	"github.com/refraction-networking/uquic/internal/monotime"
	"github.com/refraction-networking/uquic/internal/protocol"
	"github.com/refraction-networking/uquic/internal/utils"
	"github.com/refraction-networking/uquic/internal/verifmc/explore"
	"github.com/refraction-networking/uquic/internal/wire"
)

type c04RaceSender struct {
	wake chan struct{}
	mu   sync.Mutex
	ctrl bool
	done int
}

func (s *c04RaceSender) kick() {
	select {
	case s.wake <- struct{}{}:
	default:
	}
}
func (s *c04RaceSender) onHasConnectionData()                           { s.kick() }
func (s *c04RaceSender) onHasStreamData(protocol.StreamID, *SendStream) { s.kick() }
func (s *c04RaceSender) onStreamCompleted(protocol.StreamID)            { s.mu.Lock(); s.done++; s.mu.Unlock() }
func (s *c04RaceSender) onHasStreamControlFrame(protocol.StreamID, streamControlFrameGetter) {
	s.mu.Lock()
	s.ctrl = true
	s.mu.Unlock()
	s.kick()
}

type c04RaceCase struct {
	Seed   int64 `json:"seed"`
	Mode   int   `json:"mode"` // 0 plain transfer, 1 CancelWrite mid-way, 2 CancelRead mid-way, 3 losses (every 3rd frame lost once)
	Window int   `json:"window"`
}

func (c c04RaceCase) String() string {
	return fmt.Sprintf("seed=%d mode=%d window=%d", c.Seed, c.Mode, c.Window)
}

// c04RaceRun moves 20 kB through one real stream pair with the application and the "run loop"
// on separate goroutines. It returns a description of what went wrong ("" = fine).
func c04RaceRun(c c04RaceCase) string {
	rng := rand.New(rand.NewSource(c.Seed))      // writer goroutine
	rngP := rand.New(rand.NewSource(c.Seed + 1)) // pump goroutine
	rtt := utils.NewRTTStats()
	win := protocol.ByteCount(c.Window)
	// sender side controllers (send window = what the receiver advertises) and receiver side controllers
	cfcS := flowcontrol.NewConnectionFlowController(1<<20, 1<<20, func(protocol.ByteCount) bool { return true }, rtt, utils.DefaultLogger)
	cfcS.UpdateSendWindow(4 * win)
	cfcR := flowcontrol.NewConnectionFlowController(4*win, 4*win, func(protocol.ByteCount) bool { return true }, rtt, utils.DefaultLogger)
	sfcS := flowcontrol.NewStreamFlowController(4, cfcS, 1<<20, 1<<20, win, rtt, utils.DefaultLogger)
	sfcR := flowcontrol.NewStreamFlowController(4, cfcR, win, win, 1<<20, rtt, utils.DefaultLogger)
	snd := &c04RaceSender{wake: make(chan struct{}, 1)}
	rcv := &c04RaceSender{wake: make(chan struct{}, 1)}
	ss := newSendStream(context.Background(), 4, snd, sfcS, false)
	rs := newReceiveStream(4, rcv, sfcR)
	const total = 20000
	data := make([]byte, total)
	for i := range data {
		data[i] = c04Byte(0, i)
	}
	var wg sync.WaitGroup
	stop := make(chan struct{})
	var problem string
	var timedOut atomic.Bool
	var pmu sync.Mutex
	bad := func(f string, a ...any) {
		pmu.Lock()
		if problem == "" {
			problem = fmt.Sprintf(f, a...)
		}
		pmu.Unlock()
	}
	// application writer
	wg.Add(1)
	go func() {
		defer wg.Done()
		off := 0
		for off < total {
			n := 1 + rng.Intn(3000)
			if off+n > total {
				n = total - off
			}
			if c.Mode == 1 && off > total/2 {
				ss.CancelWrite(7)
				return
			}
			if _, err := ss.Write(data[off : off+n]); err != nil {
				if c.Mode == 0 || c.Mode == 3 {
					bad("Write failed: %v", err)
				}
				return
			}
			off += n
		}
		ss.Close()
	}()
	// application reader
	var got []byte
	var readErr error
	wg.Add(1)
	go func() {
		defer wg.Done()
		buf := make([]byte, 777)
		for {
			if c.Mode == 2 && len(got) > total/2 {
				rs.CancelRead(9)
				return
			}
			n, err := rs.Read(buf)
			got = append(got, buf[:n]...)
			if err != nil {
				readErr = err
				return
			}
		}
	}()
	// "run loop": packs frames, delivers them (or loses them once), feeds window updates back
	wg.Add(1)
	go func() {
		defer wg.Done()
		nframe := 0
		var lost []ackhandler.StreamFrame
		deadline := time.Now().Add(20 * time.Second)
		for {
			select {
			case <-stop:
				return
			case <-snd.wake:
			case <-rcv.wake:
			case <-time.After(200 * time.Microsecond):
			}
			if time.Now().After(deadline) {
				timedOut.Store(true) // no verdict from wall-clock time: the round is inconclusive
				return
			}
			for _, l := range lost {
				l.Handler.OnLost(l.Frame)
			}
			lost = nil
			for i := 0; i < 8; i++ {
				sf, blocked, _ := ss.popStreamFrame(protocol.ByteCount(100+rngP.Intn(1200)), protocol.Version1)
				_ = blocked
				if sf.Frame == nil {
					break
				}
				nframe++
				if c.Mode == 3 && nframe%3 == 0 {
					lost = append(lost, sf)
					continue
				}
				f := &wire.StreamFrame{StreamID: 4, Offset: sf.Frame.Offset, Data: append([]byte(nil), sf.Frame.Data...), Fin: sf.Frame.Fin}
				if err := rs.handleStreamFrame(f, monotime.Now()); err != nil {
					bad("handleStreamFrame: %v", err)
					return
				}
				sf.Handler.OnAcked(sf.Frame)
			}
			// control frames of the sender (RESET_STREAM) and of the receiver (MAX_STREAM_DATA, STOP_SENDING)
			snd.mu.Lock()
			sc := snd.ctrl
			snd.ctrl = false
			snd.mu.Unlock()
			for more := sc; more; {
				var fr ackhandler.Frame
				var ok bool
				fr, ok, more = ss.getControlFrame(monotime.Now())
				if !ok {
					break
				}
				if r, isReset := fr.Frame.(*wire.ResetStreamFrame); isReset {
					rs.handleResetStreamFrame(r, monotime.Now())
					fr.Handler.OnAcked(r)
				}
			}
			rcv.mu.Lock()
			rc := rcv.ctrl
			rcv.ctrl = false
			rcv.mu.Unlock()
			for more := rc; more; {
				var fr ackhandler.Frame
				var ok bool
				fr, ok, more = rs.getControlFrame(monotime.Now())
				if !ok {
					break
				}
				switch x := fr.Frame.(type) {
				case *wire.MaxStreamDataFrame:
					ss.updateSendWindow(x.MaximumStreamData)
				case *wire.StopSendingFrame:
					ss.handleStopSendingFrame(x)
				}
			}
			if off := cfcR.GetWindowUpdate(monotime.Now()); off > 0 {
				cfcS.UpdateSendWindow(off)
			}
		}
	}()
	// wait for the application side to finish, then stop the loop
	appDone := make(chan struct{})
	go func() {
		// the reader ends on EOF / error / cancel; the writer on Close / cancel / error
		for {
			pmu.Lock()
			p := problem
			pmu.Unlock()
			if p != "" || timedOut.Load() {
				break
			}
			snd.mu.Lock()
			d := snd.done
			snd.mu.Unlock()
			rcv.mu.Lock()
			d2 := rcv.done
			rcv.mu.Unlock()
			if d > 0 && d2 > 0 {
				break
			}
			time.Sleep(time.Millisecond)
		}
		close(appDone)
	}()
	select {
	case <-appDone:
	case <-time.After(25 * time.Second):
		timedOut.Store(true)
	}
	close(stop)
	ss.closeForShutdown(io.ErrClosedPipe)
	rs.closeForShutdown(io.ErrClosedPipe)
	wg.Wait()
	pmu.Lock()
	defer pmu.Unlock()
	if problem != "" {
		return problem
	}
	if len(got) > total || string(got) != string(data[:len(got)]) {
		return fmt.Sprintf("the reader obtained %d bytes that are not a prefix of the %d bytes written", len(got), total)
	}
	if timedOut.Load() {
		return "" // inconclusive (machine too slow): only the race detector and the prefix check apply
	}
	if (c.Mode == 0 || c.Mode == 3) && (len(got) != total || readErr != io.EOF) {
		return fmt.Sprintf("the reader obtained %d of %d bytes and ended with %v", len(got), total, readErr)
	}
	return ""
}

func TestVerifC04Race(t *testing.T) {
	part := explore.Part{Name: "stream-race-pass"}
	part.Run = func(e explore.Env) *explore.Report {
		rounds := 24
		if e.Thorough() {
			rounds = 120
		}
		rep := &explore.Report{Level: "exploration", Supporting: true}
		oc := map[string]bool{}
		for r := e.Shard; r < rounds; r += max(e.Shards, 1) {
			if e.Expired() {
				break
			}
			c := c04RaceCase{Seed: int64(e.Seed)*1000 + int64(r), Mode: r % 4, Window: []int{2000, 5000, 30000}[r/4%3]}
			explore.MarkCurrent(e, "stream-race-pass", c)
			rep.Evaluations++
			oc[fmt.Sprintf("mode %d window %d", c.Mode, c.Window)] = true
			t0 := time.Now()
			msg := c04RaceRun(c)
			if d := time.Since(t0); d > time.Second {
				oc[fmt.Sprintf("slow round: mode %d window %d took %v", c.Mode, c.Window, d.Round(time.Second))] = true
			}
			if msg != "" {
				rep.Violations = append(rep.Violations, explore.Violation{Key: fmt.Sprintf("stream-race-pass:mode%d", c.Mode), What: c.String() + ": " + msg, Replay: explore.JSON(c), Human: []string{c.String()}})
				break
			}
		}
		explore.ClearCurrent(e)
		for o := range oc {
			rep.Outcomes = append(rep.Outcomes, o)
		}
		rep.OutcomesN = int64(len(rep.Outcomes))
		rep.Rule = fmt.Sprintf("%d transfers of 20 kB through one real SendStream / ReceiveStream pair with writer, reader and frame pump on separate goroutines (plain, CancelWrite, CancelRead, every 3rd frame lost once; stream windows 2 kB / 5 kB / 30 kB) under the race detector (sampled supporting pass)", rounds)
		rep.Caps = []string{"sampled: validates the no-data-race assumption of the call-at-a-time BFS parts"}
		return rep
	}
	part.Replay = func(e explore.Env, raw json.RawMessage) *explore.Violation {
		var c c04RaceCase
		if err := json.Unmarshal(raw, &c); err != nil {
			t.Fatal(err)
		}
		for i := 0; i < 20; i++ {
			if msg := c04RaceRun(c); msg != "" {
				return &explore.Violation{Key: fmt.Sprintf("stream-race-pass:mode%d", c.Mode), What: c.String() + ": " + msg, Human: []string{c.String()}}
			}
		}
		return nil
	}
	explore.Main("C04", []explore.Part{part}, func(msg string) { t.Fatal(msg) })
}
