package ackhandler

import (
	"testing"

	"github.com/refraction-networking/uquic/internal/verifmc/explore"
)

func TestVerifC05Ack(t *testing.T) {
	explore.Main("C05", []explore.Part{}, func(msg string) { t.Fatal(msg) })
}
