package ackhandler

// C05, target "ack" (package internal/ackhandler):
//
//	pn-codec     protocol.PacketNumberLengthForHeader + protocol.DecodePacketNumber against RFC 9000 A.2/A.3 (ref5)
//	pngen        the real packet number generators over all short histories and skip choices
//	sph-pn*      BFS over the real sentPacketHandler / uSentPacketHandler: packet numbers strictly
//	             increasing per space (Retry, key drops, 0-RTT included), Peek == Pop, and the length
//	             chosen by PeekPacketNumber decodes for every receiver state consistent with the ACKs
//	sph-pn-uquic-edge  the same BFS for the spec-driven client with first Initial packet numbers next to
//	             2^8, 2^16, 2^24, 2^32 and every spec'd length, Initial space only, with the loss timer
//	uquic-pn-grid  every short (sent, acknowledged, lost, Retry) history of Initial packets for a grid of
//	             first packet numbers x spec'd lengths / length lists (c05_uquic_test.go)

import (
	"encoding/json"
	"fmt"
	"testing"

	"github.com/refraction-networking/uquic/internal/protocol"
	"github.com/refraction-networking/uquic/internal/verifmc/explore"
	"github.com/refraction-networking/uquic/internal/verifmc/ref5"
)

func TestVerifC05Ack(t *testing.T) {
	explore.Main("C05", []explore.Part{
		c05CodecPart(),
		c05PNGenPart(),
		c05SphPart("sph-pn", c05SphCfg{pers: protocol.PerspectiveClient}),
		c05SphPart("sph-pn-server", c05SphCfg{pers: protocol.PerspectiveServer}),
		c05SphPart("sph-pn-edge", c05SphCfg{pers: protocol.PerspectiveClient, start: 1<<15 - 3}),
		c05SphPart("sph-pn-uquic", c05SphCfg{pers: protocol.PerspectiveClient, uquic: true}),
		c05SphPart("sph-pn-uquic-edge", c05SphCfg{pers: protocol.PerspectiveClient, uquic: true, specs: c05UEdgeSpecs(), initialOnly: true}),
		c05UGridPart(),
	}, func(msg string) { t.Fatal(msg) })
}

func c05CasesPart(name string, mk func(e explore.Env) (n int, rule, bound string, run func(i int) explore.CaseResult)) explore.Part {
	return explore.Part{
		Name: name,
		Run: func(e explore.Env) *explore.Report {
			n, rule, bound, run := mk(e)
			rep := explore.RunCases(e, n, 0, true, run)
			rep.Rule = rule
			rep.Bound = bound
			if !rep.Exhaustive {
				rep.Bound += " (cut by the deadline)"
			}
			for _, i := range []int{0, n / 2, n - 1} {
				if i >= 0 && i < n {
					rep.Samples = append(rep.Samples, fmt.Sprintf("case %d: %s", i, run(i).Outcome))
				}
			}
			return rep
		},
		Replay: func(e explore.Env, raw json.RawMessage) *explore.Violation {
			_, _, _, run := mk(e)
			cr := run(explore.ReplayIndex(raw))
			if cr.Fail == nil {
				return nil
			}
			return &explore.Violation{Key: cr.Fail.Key, What: cr.Fail.What, Replay: raw, Human: cr.Human}
		},
	}
}

// ---------------------------------------------------------------------------------------
// part "pn-codec"

const c05MaxPN = int64(1)<<62 - 1

// c05Gaps lists the num_unacked values (pn - largestAcked, or pn + 1 when nothing is
// acknowledged): 1..300 and windows around 2^15, 2^23 and below 2^31 (RFC 9000 cannot
// encode more than 2^31 unacknowledged packets).
func c05Gaps(thorough bool) []int64 {
	w := int64(64)
	small := int64(300)
	if thorough {
		w, small = 512, 1200
	}
	var g []int64
	for d := int64(1); d <= small; d++ {
		g = append(g, d)
	}
	for _, c := range []int64{1 << 15, 1 << 23} {
		for d := c - w; d <= c+w; d++ {
			g = append(g, d)
		}
	}
	for d := int64(1)<<31 - w; d <= 1<<31; d++ {
		g = append(g, d)
	}
	return g
}

// c05Ackeds lists largest-acknowledged values; -1 = nothing acknowledged; negative values
// below -1 mean "such that pn = 2^62-1-k".
func c05Ackeds() []int64 {
	return []int64{-1, 0, 1, 2, 127, 128, 255, 256, 32767, 32768, 65535, 65536, 1<<24 - 1, 1 << 24, 1<<31 - 1, 1 << 31, 1<<32 - 1, 1 << 32, 1<<40 + 7, 1<<61 + 12345,
		-2 /* pn = 2^62-1 */, -3 /* pn = 2^62-2 */, -4 /* pn = 2^62-3 */}
}

func c05Window(d int64) string {
	switch {
	case d <= 1200:
		return "small"
	case d < 1<<20:
		return "2^15"
	case d < 1<<28:
		return "2^23"
	}
	return "2^31"
}

func c05CodecCase(gaps []int64, smallMax int64) func(i int) explore.CaseResult {
	ackeds := c05Ackeds()
	return func(i int) explore.CaseResult {
		if i >= len(gaps)*len(ackeds) { // pure differential grid
			return c05CodecGridCase(i-len(gaps)*len(ackeds), i)
		}
		d := gaps[i%len(gaps)]
		la := ackeds[i/len(gaps)]
		var pn int64
		switch {
		case la == -1:
			pn = d - 1
		case la < -1:
			pn = c05MaxPN - (-la - 2)
			la = pn - d
		default:
			pn = la + d
		}
		if pn > c05MaxPN || la < -1 {
			return explore.CaseResult{Outcome: "out of range"}
		}
		realLA := protocol.InvalidPacketNumber
		if la >= 0 {
			realLA = protocol.PacketNumber(la)
		}
		l := protocol.PacketNumberLengthForHeader(protocol.PacketNumber(pn), realLA)
		need := ref5.EncodedPacketNumberLength(uint64(pn), la)
		explore.Must(need <= 4, "gap %d needs %d bytes: outside the domain", d, need)
		if int(l) < need || l > 4 {
			return explore.CaseResult{Outcome: "length too short", Replay: i,
				Fail: explore.Failf(fmt.Sprintf("pn-length-too-short:window=%s", c05Window(d)), "PacketNumberLengthForHeader(pn=%d, largestAcked=%d) = %d bytes, RFC 9000 A.2 needs at least %d (num_unacked %d)", pn, la, l, need, d)}
		}
		// receiver states consistent with the sender's knowledge: the largest packet number the
		// receiver has processed is at least the largest acknowledged one and at most pn-1; with
		// nothing acknowledged the receiver may not have processed anything (the openers start at 0)
		lo := max(la, 0)
		var rs []int64
		if d <= smallMax {
			for r := lo; r < pn; r++ {
				rs = append(rs, r)
			}
			if pn == 0 || la < 0 {
				rs = append(rs, 0)
			}
		} else {
			rs = []int64{lo, lo + 1, lo + 2, (lo + pn) / 2, pn - 3, pn - 2, pn - 1}
		}
		var n int64
		for _, r := range rs {
			for ll := 1; ll <= 4; ll++ {
				trunc := pn & (int64(1)<<(8*uint(ll)) - 1)
				got := protocol.DecodePacketNumber(protocol.PacketNumberLen(ll), protocol.PacketNumber(r), protocol.PacketNumber(trunc))
				want := ref5.DecodePacketNumber(r, uint64(trunc), ll)
				n++
				if uint64(got) != want {
					return explore.CaseResult{Outcome: "decode differs", Replay: i,
						Fail: explore.Failf(fmt.Sprintf("pn-decode-differs:len=%d", ll), "DecodePacketNumber(len=%d, largest=%d, truncated=%#x) = %d, RFC 9000 A.3 gives %d", ll, r, trunc, got, want)}
				}
				if ll == int(l) && int64(got) != pn {
					return explore.CaseResult{Outcome: "roundtrip fails", Replay: i,
						Fail: explore.Failf(fmt.Sprintf("pn-roundtrip:len=%d:window=%s", ll, c05Window(d)), "pn=%d sent with largestAcked=%d is encoded in %d bytes (%#x); a receiver whose largest processed packet number is %d decodes %d", pn, la, l, trunc, r, got)}
				}
			}
		}
		return explore.CaseResult{Outcome: fmt.Sprintf("len=%d need=%d window=%s ok", l, need, c05Window(d)), Trans: n}
	}
}

// c05CodecGridCase compares DecodePacketNumber with the reference on a boundary grid that
// is not constrained to decodable situations.
func c05CodecGridCase(i, replayIdx int) explore.CaseResult {
	ll := i%4 + 1
	win := int64(1) << (8 * uint(ll))
	bases := []int64{0, win, 2 * win, 7 * win, 1 << 32, 1<<62 - 2*win, 1<<62 - win}
	base := bases[i/4%len(bases)]
	var n int64
	for _, lo := range []int64{-3, -2, -1, 0, 1, 2, win/2 - 2, win/2 - 1, win / 2, win/2 + 1, win - 3, win - 2, win - 1} {
		largest := base + lo
		if largest < 0 || largest > c05MaxPN {
			continue
		}
		for _, t := range []int64{0, 1, 2, win/2 - 2, win/2 - 1, win / 2, win/2 + 1, win/2 + 2, win - 2, win - 1} {
			got := protocol.DecodePacketNumber(protocol.PacketNumberLen(ll), protocol.PacketNumber(largest), protocol.PacketNumber(t))
			want := ref5.DecodePacketNumber(largest, uint64(t), ll)
			n++
			if uint64(got) != want {
				return explore.CaseResult{Outcome: "decode differs", Replay: replayIdx,
					Fail: explore.Failf(fmt.Sprintf("pn-decode-differs:len=%d", ll), "DecodePacketNumber(len=%d, largest=%d, truncated=%#x) = %d, RFC 9000 A.3 gives %d", ll, largest, t, got, want)}
			}
		}
	}
	return explore.CaseResult{Outcome: fmt.Sprintf("grid len=%d identical", ll), Trans: n}
}

func c05CodecPart() explore.Part {
	return c05CasesPart("pn-codec", func(e explore.Env) (int, string, string, func(int) explore.CaseResult) {
		gaps := c05Gaps(e.Thorough())
		small := int64(300)
		if e.Thorough() {
			small = 1200
		}
		n := len(gaps)*len(c05Ackeds()) + 4*7
		return n, fmt.Sprintf("%d num_unacked values (1..%d, windows around 2^15 and 2^23, the top of the encodable range 2^31) x %d largest-acknowledged values (none, 0 .. 2^61, and such that pn is 2^62-1, 2^62-2, 2^62-3): PacketNumberLengthForHeader >= RFC 9000 A.2 minimum, and DecodePacketNumber(chosen length, r, truncated pn) == pn for every receiver state r in [largestAcked, pn-1] (all r for gaps <= %d, 7 representatives otherwise); for all four lengths DecodePacketNumber == RFC 9000 A.3 reference, plus a boundary grid of (largest, truncated) pairs", len(gaps), small, len(c05Ackeds()), small),
			fmt.Sprintf("all %d cases", n), c05CodecCase(gaps, small)
	})
}

// ---------------------------------------------------------------------------------------
// part "pngen"

type c05GenRun struct {
	fail    *explore.Fail
	outcome string
	trace   []int64
}

// c05GenOnce drives one real skippingPacketNumberGenerator; the random skip distance
// (crypto/rand in production) is replaced by an enumerated choice over its whole range.
func c05GenOnce(c *explore.Chooser, pops int) c05GenRun {
	initials := []protocol.PacketNumber{0, 1, 1<<62 - 64}
	initial := initials[c.ChooseCost(len(initials), 0)]
	period := protocol.PacketNumber(1 + c.ChooseCost(2, 0))
	maxPeriod := protocol.PacketNumber(2)
	g := newSkippingPacketNumberGenerator(initial, period, maxPeriod).(*skippingPacketNumberGenerator)
	var run c05GenRun
	fix := func(prePeriod protocol.PacketNumber) {
		if g.nextToSkip < g.next+3 || g.nextToSkip >= g.next+3+2*prePeriod {
			run.fail = explore.Failf("pngen-skip-distance", "generateNewSkip chose nextToSkip=%d with next=%d period=%d (allowed [next+3, next+3+2*period))", g.nextToSkip, g.next, prePeriod)
		}
		g.nextToSkip = g.next + 3 + protocol.PacketNumber(c.ChooseCost(int(2*prePeriod), 0))
	}
	fix(period)
	last := protocol.InvalidPacketNumber
	lastSkipped := false
	skips := 0
	for i := 0; i < pops && run.fail == nil; i++ {
		pre := g.period
		peek := g.Peek()
		if c.ChooseCost(2, 1) == 1 { // an extra Peek must not change anything (at most two per history)
			if p2 := g.Peek(); p2 != peek {
				run.fail = explore.Failf("pngen-peek-unstable", "two consecutive Peek() calls returned %d and %d", peek, p2)
				break
			}
		}
		skipped, pn := g.Pop()
		run.trace = append(run.trace, int64(pn))
		switch {
		case pn != peek:
			run.fail = explore.Failf("pngen-peek-pop-differ", "Peek() = %d but Pop() = %d", peek, pn)
		case pn <= last:
			run.fail = explore.Failf("pngen-reuse", "Pop() returned %d after %d: packet numbers must strictly increase", pn, last)
		case last != protocol.InvalidPacketNumber && !skipped && pn != last+1:
			run.fail = explore.Failf("pngen-unreported-gap", "Pop() returned %d after %d without reporting a skipped packet number", pn, last)
		case skipped && (last != protocol.InvalidPacketNumber && pn != last+2 || last == protocol.InvalidPacketNumber && pn != initial+1):
			run.fail = explore.Failf("pngen-skip-size", "Pop() reported a skip but returned %d after %d", pn, last)
		case skipped && lastSkipped:
			run.fail = explore.Failf("pngen-consecutive-skips", "two consecutive packet numbers were skipped before %d", pn)
		}
		if skipped {
			skips++
			fix(pre)
		}
		last, lastSkipped = pn, skipped
	}
	run.outcome = fmt.Sprintf("initial=%d period=%d skips=%d", initial, period, skips)
	return run
}

func c05PNGenPart() explore.Part {
	return explore.Part{
		Name: "pngen",
		Run: func(e explore.Env) *explore.Report {
			pops := 11
			if e.Thorough() {
				pops = 16
			}
			rep := &explore.Report{Level: "model_checking", Exhaustive: true}
			rep.Rule = fmt.Sprintf("every history of %d Pop() calls (at most two of them preceded by a second Peek()) on the real skippingPacketNumberGenerator for initial pn in {0, 1, 2^62-64}, initial period 1|2, max period 2, with the random skip distance replaced by an exhaustive choice over its whole range; plus the sequentialPacketNumberGenerator: Peek == Pop, strictly increasing, every gap reported as exactly one skipped number, never two skips in a row", pops)
			outcomes := explore.NewOutcomeSet()
			res := explore.EnumerateChoices(2, 0, e.Expired, func(c *explore.Chooser) {
				run := c05GenOnce(c, pops)
				rep.Transitions += int64(len(run.trace))
				outcomes.Add(run.outcome)
				if run.fail != nil && len(rep.Violations) < 5 {
					dup := false
					for _, v := range rep.Violations {
						dup = dup || v.Key == run.fail.Key
					}
					if !dup {
						rep.Violations = append(rep.Violations, explore.Violation{Key: run.fail.Key, What: run.fail.What, Replay: explore.JSON(c.Trace), Human: []string{fmt.Sprint(run.trace)}})
					}
				}
				if len(rep.Samples) < 3 && len(run.trace) > 0 && run.trace[len(run.trace)-1] > run.trace[0]+int64(pops) {
					rep.Samples = append(rep.Samples, fmt.Sprintf("%s: %v", run.outcome, run.trace))
				}
			})
			// sequential generator
			for _, init := range []protocol.PacketNumber{0, 7, 1<<62 - 40} {
				g := newSequentialPacketNumberGenerator(init)
				for i := 0; i < 32; i++ {
					peek := g.Peek()
					skipped, pn := g.Pop()
					rep.Transitions++
					if skipped || pn != peek || pn != init+protocol.PacketNumber(i) {
						rep.Violations = append(rep.Violations, explore.Violation{Key: "pngen-sequential", What: fmt.Sprintf("sequential generator from %d: pop %d gave %d (peek %d, skipped %v)", init, i, pn, peek, skipped), Replay: explore.JSON([]int{})})
						break
					}
				}
				outcomes.Add(fmt.Sprintf("sequential initial=%d", init))
			}
			rep.Evaluations = res.Executions
			rep.Traces = res.Executions
			rep.Outcomes = outcomes.List()
			rep.OutcomesN = int64(len(rep.Outcomes))
			rep.States = rep.OutcomesN
			rep.Exhaustive = !res.Capped
			rep.Bound = fmt.Sprintf("all %d choice sequences", res.Executions)
			if res.Capped {
				rep.Caps = append(rep.Caps, "deadline")
			}
			return rep
		},
		Replay: func(e explore.Env, raw json.RawMessage) *explore.Violation {
			var prefix []int
			if err := json.Unmarshal(raw, &prefix); err != nil {
				return nil
			}
			pops := 11
			if e.Thorough() {
				pops = 16
			}
			run := c05GenOnce(explore.NewChooser(prefix), pops)
			if run.fail == nil {
				return nil
			}
			return &explore.Violation{Key: run.fail.Key, What: run.fail.What, Replay: raw}
		},
	}
}
