package ackhandler

// Parts "sph-pn*": explicit-state BFS over the real sentPacketHandler (wrapped in the
// uSentPacketHandler the uQUIC client uses). The harness plays the packet packer: Peek,
// Pop, SentPacket. Reference model: per packet number space the last number handed out,
// the numbers in flight and the largest number the peer acknowledged.
//
// Oracle at every send: Pop() == Peek(); the number is larger than every number handed
// out before in that space (also across a Retry and across the 0-RTT / 1-RTT levels that
// share a space); the length returned by PeekPacketNumber decodes (real
// protocol.DecodePacketNumber, cross-checked with ref5) to the true number for every
// receiver state consistent with what was acknowledged.
//
// The random skip distance of the skippingPacketNumberGenerator (crypto/rand) is replaced
// by an enumerated choice of its three smallest values.

import (
	"fmt"
	"strings"

	"github.com/refraction-networking/uquic/internal/monotime"
	"github.com/refraction-networking/uquic/internal/protocol"
	"github.com/refraction-networking/uquic/internal/utils"
	"github.com/refraction-networking/uquic/internal/verifmc/canon"
	"github.com/refraction-networking/uquic/internal/verifmc/explore"
	"github.com/refraction-networking/uquic/internal/verifmc/ref5"
	"github.com/refraction-networking/uquic/internal/wire"
)

type c05SphCfg struct {
	pers  protocol.Perspective
	start protocol.PacketNumber // first packet number of every space (0: production default)
	uquic bool                  // first op selects a uQUIC Initial packet number spec
	// specs is the table the first op chooses from (nil: c05USpecs, the parrots' configurations)
	specs []c05USpec
	// initialOnly restricts the alphabet to the Initial space - the only one a spec touches -
	// (send Initial, ack, retry) and adds the loss timer (op lose), so that the depth bound is
	// spent on (sent, acknowledged, lost) histories of Initial packets
	initialOnly bool
}

func (cfg c05SphCfg) table() []c05USpec {
	if cfg.specs != nil {
		return cfg.specs
	}
	return c05USpecs
}

// uQUIC Initial packet number specs: the ones of the in-tree parrots (u_parrot.go) and
// small variations.
type c05USpec struct {
	name string
	base protocol.PacketNumber
	one  protocol.PacketNumberLen   // SetInitialPacketNumberLength
	lens []protocol.PacketNumberLen // SetInitialPacketNumberLengths
}

var c05USpecs = []c05USpec{
	{name: "chrome: pn 1, lengths [1,2]", base: 1, lens: []protocol.PacketNumberLen{1, 2}},
	{name: "firefox: pn 0, length 1", base: 0, one: 1},
	{name: "chrome-115: pn 1, length 1", base: 1, one: 1},
	{name: "pn 0, lengths [1,1,2]", base: 0, lens: []protocol.PacketNumberLen{1, 1, 2}},
	{name: "pn 2, lengths [2]", base: 2, lens: []protocol.PacketNumberLen{2}},
	{name: "pn 0, length 4", base: 0, one: 4},
	{name: "pn 1, lengths [3,1]", base: 1, lens: []protocol.PacketNumberLen{3, 1}},
}

// c05UEdgeSpecs: what a QUICSpec may say beyond the parrots - a first Initial packet number
// (InitPacketNumber, any value below 2^32 is accepted by Transport.Dial) next to the value
// from which a spec'd length of L bytes stops being recoverable by a peer that has processed
// nothing, i.e. 2^(8L): bases 2^(8L)-2, 2^(8L)-1 and 2^(8L) itself (L = 4: 2^32-2, 2^32-1),
// each with the single-value override L, the one-entry list [L] and the list [4, L] (a long
// first packet number, then the short one for every later packet).
func c05UEdgeSpecs() []c05USpec {
	var specs []c05USpec
	for l := protocol.PacketNumberLen(1); l <= 4; l++ {
		edge := protocol.PacketNumber(1) << (8 * uint(l))
		for _, base := range []protocol.PacketNumber{edge - 2, edge - 1, edge} {
			if base >= 1<<32 {
				continue // rejected by Transport.Dial
			}
			specs = append(specs,
				c05USpec{name: fmt.Sprintf("pn 2^%d%+d, length %d", 8*l, int64(base-edge), l), base: base, one: l},
				c05USpec{name: fmt.Sprintf("pn 2^%d%+d, lengths [%d]", 8*l, int64(base-edge), l), base: base, lens: []protocol.PacketNumberLen{l}})
			if l < 4 {
				specs = append(specs, c05USpec{name: fmt.Sprintf("pn 2^%d%+d, lengths [4,%d]", 8*l, int64(base-edge), l), base: base, lens: []protocol.PacketNumberLen{4, l}})
			}
		}
	}
	return specs
}

const (
	c05SpInitial = iota
	c05SpHandshake
	c05SpApp
)

var c05SpaceNames = []string{"initial", "handshake", "appdata"}

type c05SpaceModel struct {
	exists       bool
	first        int64 // nothing below it was ever sent in this space
	last         int64
	largestAcked int64
	inFlight     []int64
}

type c05SphInst struct {
	cfg      c05SphCfg
	h        SentPacketHandler
	sph      *sentPacketHandler
	sp       [3]c05SpaceModel
	now      monotime.Time
	gen      *skippingPacketNumberGenerator
	genSkip  protocol.PacketNumber
	retried  bool
	acked    bool
	sent1RTT bool
	sent0RTT bool
	loses    int
	outcome  string
	lenClass string // last send: length on the wire vs. spec'd length
	spec     int
}

func (in *c05SphInst) build(initialPN protocol.PacketNumber) {
	in.h = NewUAckHandler(initialPN, 1200, utils.NewRTTStats(), &utils.ConnectionStats{}, true, false, func(protocol.PacketNumber) {}, in.cfg.pers, nil, utils.DefaultLogger)
	in.sph = in.h.(*uSentPacketHandler).sentPacketHandler
	for i := range in.sp {
		in.sp[i] = c05SpaceModel{exists: true, last: -1, largestAcked: -1}
	}
	in.sp[c05SpInitial].last = int64(initialPN) - 1
	in.sp[c05SpInitial].first = int64(initialPN)
	if in.cfg.start != 0 {
		// state injection: spaces whose first packet number is not configurable start as if
		// `start` packets had been sent and none acknowledged
		in.sph.handshakePackets.pns.(*sequentialPacketNumberGenerator).next = in.cfg.start
		in.sph.appDataPackets.pns.(*skippingPacketNumberGenerator).next = in.cfg.start
		in.sp[c05SpHandshake].last = int64(in.cfg.start) - 1
		in.sp[c05SpApp].last = int64(in.cfg.start) - 1
	}
	in.fixSkip(0)
}

func c05SphNew(cfg c05SphCfg) *c05SphInst {
	in := &c05SphInst{cfg: cfg, now: monotime.Time(1_000_000_000), spec: -1}
	if !cfg.uquic {
		in.build(cfg.start)
	}
	return in
}

// fixSkip replaces a freshly drawn random skip distance by the enumerated choice c.
func (in *c05SphInst) fixSkip(c int) {
	g := in.sph.appDataPackets.pns.(*skippingPacketNumberGenerator)
	if g != in.gen || g.nextToSkip != in.genSkip {
		g.nextToSkip = g.next + 3 + protocol.PacketNumber(c)
		in.gen, in.genSkip = g, g.nextToSkip
	}
}

func c05Level(l int) protocol.EncryptionLevel {
	return []protocol.EncryptionLevel{protocol.EncryptionInitial, protocol.EncryptionHandshake, protocol.Encryption0RTT, protocol.Encryption1RTT}[l]
}

func c05SpaceOf(l int) int { return min(l, c05SpApp) }

func (in *c05SphInst) Ops() []explore.Op {
	if in.h == nil {
		var ops []explore.Op
		for k := range in.cfg.table() {
			ops = append(ops, explore.Op{N: "spec", A: k})
		}
		return ops
	}
	if in.cfg.initialOnly {
		return in.initialOps()
	}
	var ops []explore.Op
	for l := 0; l < 4; l++ {
		if !in.sp[c05SpaceOf(l)].exists {
			continue
		}
		if l == 2 && (in.cfg.pers != protocol.PerspectiveClient || in.sent1RTT) {
			continue // 0-RTT: client only, before the first 1-RTT packet
		}
		nc := 1
		if l >= 2 && in.gen.next == in.gen.nextToSkip {
			nc = 3 // this Pop draws a new random skip distance
		}
		for c := 0; c < nc; c++ {
			ops = append(ops, explore.Op{N: "send", A: l, C: c})
		}
	}
	for s := 0; s < 3; s++ {
		if in.sp[s].exists && len(in.sp[s].inFlight) > 0 && !(s == c05SpApp && !in.sent1RTT) {
			ops = append(ops, explore.Op{N: "ack", A: s, B: 0})
			if len(in.sp[s].inFlight) > 1 {
				ops = append(ops, explore.Op{N: "ack", A: s, B: 1})
			}
		}
	}
	if in.cfg.pers == protocol.PerspectiveClient && !in.retried && !in.acked && in.sp[c05SpInitial].exists &&
		len(in.sp[c05SpInitial].inFlight) > 0 && in.sp[c05SpHandshake].last == int64(in.cfg.start)-1 && !in.sent1RTT {
		for c := 0; c < 3; c++ {
			ops = append(ops, explore.Op{N: "retry", C: c})
		}
	}
	if in.sp[c05SpInitial].exists {
		ops = append(ops, explore.Op{N: "drop-initial"})
	} else if in.sp[c05SpHandshake].exists {
		ops = append(ops, explore.Op{N: "drop-handshake"})
	}
	return ops
}

// initialOps is the alphabet of the Initial-only parts: send an Initial, acknowledge the
// largest | smallest Initial in flight, Retry (once, before any acknowledgement), and the
// loss detection timer (lose: 10 s pass, OnLossDetectionTimeout - a PTO, or the time-threshold
// loss of what an earlier acknowledgement left behind; at most twice per history).
func (in *c05SphInst) initialOps() []explore.Op {
	m := &in.sp[c05SpInitial]
	ops := []explore.Op{{N: "send", A: 0}}
	if len(m.inFlight) > 0 {
		ops = append(ops, explore.Op{N: "ack", A: c05SpInitial, B: 0})
		if len(m.inFlight) > 1 {
			ops = append(ops, explore.Op{N: "ack", A: c05SpInitial, B: 1})
		}
		if !in.retried && !in.acked {
			ops = append(ops, explore.Op{N: "retry"})
		}
		if in.loses < 2 {
			ops = append(ops, explore.Op{N: "lose"})
		}
	}
	return ops
}

func (in *c05SphInst) send(l, c int) *explore.Fail {
	s := c05SpaceOf(l)
	m := &in.sp[s]
	level := c05Level(l)
	pn, pnLen := in.h.PeekPacketNumber(level)
	pn2 := in.h.PopPacketNumber(level)
	in.fixSkip(c)
	name := c05SpaceNames[s]
	if pn2 != pn {
		return explore.Failf("peek-pop-differ:"+name, "PeekPacketNumber(%s) = %d but PopPacketNumber = %d", level, pn, pn2)
	}
	if int64(pn) <= m.last {
		return explore.Failf("packet-number-reused:"+name, "%s space: packet number %d handed out after %d (numbers must strictly increase within a space)", name, pn, m.last)
	}
	if pn < 0 || int64(pn) > 1<<62-1 || pnLen < 1 || pnLen > 4 {
		return explore.Failf("packet-number-invalid:"+name, "PeekPacketNumber(%s) = (%d, %d)", level, pn, pnLen)
	}
	// every receiver state consistent with the acknowledgements: the largest number processed is
	// one that was sent (>= the first number of the space) and lies in [largestAcked, pn-1], or
	// nothing was processed yet when nothing was acknowledged (RFC 9000 A.3 then expects 0; the
	// repository's openers start as if packet 0 had been processed: both are asked)
	lo := max(m.largestAcked, m.first)
	var rs []int64
	if int64(pn)-lo <= 400 {
		for r := lo; r < int64(pn); r++ {
			rs = append(rs, r)
		}
	} else {
		rs = []int64{lo, lo + 1, (lo + int64(pn)) / 2, int64(pn) - 2, int64(pn) - 1}
	}
	if m.largestAcked < 0 {
		rs = append(rs, -1, 0)
	}
	// RFC 9000 offers no encoding when even 4 bytes are not recovered by every such receiver
	// (more than 2^31 numbers above the largest acknowledged one, or a space whose numbers
	// reach 2^32 before anything was acknowledged): the statement is silent there
	encodable := true
	for _, r := range rs {
		encodable = encodable && ref5.DecodePacketNumber(r, uint64(pn)&0xffffffff, 4) == uint64(pn)
	}
	if !encodable {
		rs = nil
	}
	trunc := int64(pn) & (int64(1)<<(8*uint(pnLen)) - 1)
	for _, r := range rs {
		got := protocol.DecodePacketNumber(pnLen, protocol.PacketNumber(r), protocol.PacketNumber(trunc))
		if ref := ref5.DecodePacketNumber(r, uint64(trunc), int(pnLen)); uint64(got) != ref {
			return explore.Failf(fmt.Sprintf("pn-decode-differs:len=%d", pnLen), "DecodePacketNumber(len=%d, largest=%d, truncated=%#x) = %d, RFC 9000 A.3 gives %d", pnLen, r, trunc, got, ref)
		}
		if got != pn {
			return explore.Failf(fmt.Sprintf("pn-undecodable:%s:len=%d", name, pnLen), "%s space: pn=%d is sent with a %d-byte packet number (%#x) while the largest acknowledged is %d; a receiver whose largest processed number is %d (-1: none) decodes %d", name, pn, pnLen, trunc, m.largestAcked, r, got)
		}
	}
	in.h.SentPacket(in.now, pn, protocol.InvalidPacketNumber, nil, []Frame{{Frame: &wire.PingFrame{}}}, level, protocol.ECNNon, 100, false, false)
	m.last = int64(pn)
	m.inFlight = append(m.inFlight, int64(pn))
	if l == 3 {
		in.sent1RTT = true
	}
	if l == 2 {
		in.sent0RTT = true
	}
	in.outcome = fmt.Sprintf("send %s len=%d gap=%d", level, pnLen, min(int64(pn)-m.largestAcked, 9))
	if in.spec >= 0 && l == 0 {
		// spec'd length kept, or replaced by a longer / shorter one
		sp := in.cfg.table()[in.spec]
		want := sp.one
		if len(sp.lens) > 0 {
			want = sp.lens[min(max(int64(pn)-int64(sp.base), 0), int64(len(sp.lens)-1))]
		}
		in.outcome += fmt.Sprintf(" spec=%d", want)
		in.lenClass = fmt.Sprintf("%d/%d", pnLen, want)
	}
	if !encodable {
		in.outcome += " no-encoding-exists(out of domain)"
		in.lenClass += "(no encoding exists)"
	}
	return nil
}

func (in *c05SphInst) Apply(op explore.Op) *explore.Fail {
	in.outcome = op.N
	switch op.N {
	case "spec":
		sp := in.cfg.table()[op.A]
		in.spec = op.A
		in.build(sp.base) // u_transport.go passes InitPacketNumber as the Initial space's first number
		if len(sp.lens) > 0 {
			SetInitialPacketNumberLengths(in.h, sp.base, sp.lens)
		} else {
			SetInitialPacketNumberLength(in.h, sp.one)
		}
		in.outcome = "spec " + sp.name
		if in.cfg.specs != nil {
			in.outcome = fmt.Sprintf("spec kind one=%d lens=%v", sp.one, sp.lens)
		}
	case "send":
		return in.send(op.A, op.C)
	case "ack":
		m := &in.sp[op.A]
		idx := len(m.inFlight) - 1
		if op.B == 1 {
			idx = 0
		}
		pn := m.inFlight[idx]
		level := c05Level(op.A)
		if op.A == c05SpApp {
			level = protocol.Encryption1RTT
		}
		_, err := in.h.ReceivedAck(&wire.AckFrame{AckRanges: []wire.AckRange{{Smallest: protocol.PacketNumber(pn), Largest: protocol.PacketNumber(pn)}}}, level, in.now)
		explore.Must(err == nil, "ReceivedAck(%d, %s): %v", pn, level, err)
		m.inFlight = append(append([]int64(nil), m.inFlight[:idx]...), m.inFlight[idx+1:]...)
		m.largestAcked = max(m.largestAcked, pn)
		in.acked = true
		in.outcome = fmt.Sprintf("ack %s which=%d", c05SpaceNames[op.A], op.B)
	case "retry":
		in.h.ResetForRetry(in.now)
		in.fixSkip(op.C)
		in.retried = true
		// the Retry invalidates what is in flight, not the packet numbers used so far
		in.sp[c05SpInitial].inFlight = nil
		in.sp[c05SpApp].inFlight = nil
	case "lose":
		in.now += monotime.Time(10_000_000_000)
		err := in.h.OnLossDetectionTimeout(in.now)
		explore.Must(err == nil, "OnLossDetectionTimeout: %v", err)
		in.loses++
	case "drop-initial":
		in.h.DropPackets(protocol.EncryptionInitial, in.now)
		in.sp[c05SpInitial].exists = false
	case "drop-handshake":
		in.h.DropPackets(protocol.EncryptionHandshake, in.now)
		in.sp[c05SpHandshake].exists = false
	default:
		explore.Must(false, "unknown op %v", op)
	}
	return nil
}

func (in *c05SphInst) Outcome() string { return in.outcome }

func c05SphSkip(typ, field string) bool { return typ == "utils.Rand" && field == "buf" }

func (in *c05SphInst) Key() string {
	var sb strings.Builder
	fmt.Fprintf(&sb, "spec=%d retried=%v acked=%v 1rtt=%v 0rtt=%v loses=%d now=%d\n", in.spec, in.retried, in.acked, in.sent1RTT, in.sent0RTT, in.loses, in.now)
	if in.h == nil {
		return sb.String()
	}
	opt := canon.Options{SkipField: c05SphSkip}
	for s, sp := range []*packetNumberSpace{in.sph.initialPackets, in.sph.handshakePackets, in.sph.appDataPackets} {
		m := in.sp[s]
		fmt.Fprintf(&sb, "%s M{%v %d %d %d %v} ", c05SpaceNames[s], m.exists, m.first, m.last, m.largestAcked, m.inFlight)
		if sp != nil {
			// what determines future packet numbers and lengths: the generator, the ACK state and the history
			sb.WriteString(canon.Dump(sp.pns, opt))
			fmt.Fprintf(&sb, " la=%d ls=%d ", sp.largestAcked, sp.largestSent)
			sb.WriteString(canon.Dump(&sp.history, opt))
		}
		sb.WriteString("\n")
	}
	return sb.String()
}

func c05SphPart(name string, cfg c05SphCfg) explore.Part {
	return explore.BFSPart(name, func(e explore.Env) explore.BFSSpec {
		depth := 8
		if e.Thorough() {
			depth = 10
		}
		// for the uQUIC parts the first op selects one of the specs (7 resp. 9 ops follow)
		if cfg.initialOnly {
			depth += 2 // small alphabet: spec + 9 resp. 11 ops
		}
		alphabet := "send(Initial|Handshake|0-RTT|1-RTT) = PeekPacketNumber + PopPacketNumber + SentPacket (x3 skip distances when the generator draws a new one), ack(space, largest|smallest in flight), retry (ResetForRetry, client), drop-initial, drop-handshake"
		if cfg.initialOnly {
			alphabet = fmt.Sprintf("spec (one of %d: InitPacketNumber 2^(8L)-2 | 2^(8L)-1 | 2^(8L) x InitPacketNumberLength L | InitPacketNumberLengths [L] | [4,L], L = 1..4, below 2^32), then send(Initial) = PeekPacketNumber + PopPacketNumber + SentPacket, ack(largest|smallest Initial in flight), retry (ResetForRetry, once, before any acknowledgement), lose (10 s pass + OnLossDetectionTimeout, at most twice)", len(cfg.table()))
		}
		return explore.BFSSpec{
			New:              func() explore.Instance { return c05SphNew(cfg) },
			MaxDepth:         depth,
			PanicIsViolation: true,
			Rule: fmt.Sprintf("BFS over the real sentPacketHandler behind uSentPacketHandler (%s, first packet number %d, uQUIC Initial packet number spec: %v); alphabet: %s; state = canon(packet number generators, histories, ACK state) + ledger",
				cfg.pers, cfg.start, cfg.uquic, alphabet),
		}
	})
}
