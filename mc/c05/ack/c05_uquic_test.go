package ackhandler

// Part "uquic-pn-grid": the packet numbers and packet number lengths of the spec-driven
// (uQUIC) client's sent-packet handler over a GRID of QUICSpec inputs. The BFS parts sph-pn-uquic
// and sph-pn-uquic-edge go deep on few specs; this part goes wide:
//
//	case   = (first Initial packet number, i.e. InitPacketNumber) x (how the spec fixes the
//	         Initial packet number length: not at all | InitPacketNumberLength 1..4 |
//	         InitPacketNumberLengths, ten short lists)
//	inside = EVERY sequence of at most `depth` operations of the Initial-only alphabet
//	         (send | ack largest | ack smallest | retry | lose, see c05SphInst.initialOps) on a fresh
//	         real handler, plus one run of 12 Initials none of which is ever acknowledged
//
// judged at every send by the oracle of c05SphInst.send: Peek == Pop, numbers strictly
// increasing, and the length on the wire recovers the true number (RFC 9000 A.3, real
// DecodePacketNumber cross-checked with ref5) for every receiver state that is consistent with
// what was acknowledged.

import (
	"encoding/json"
	"fmt"
	"sort"
	"strings"

	"github.com/refraction-networking/uquic/internal/protocol"
	"github.com/refraction-networking/uquic/internal/verifmc/explore"
)

type c05UShape struct {
	one  protocol.PacketNumberLen
	lens []protocol.PacketNumberLen
}

func (s c05UShape) String() string {
	switch {
	case len(s.lens) > 0:
		return strings.ReplaceAll(fmt.Sprintf("lens=%v", s.lens), " ", ",")
	case s.one != 0:
		return fmt.Sprintf("one=%d", s.one)
	}
	return "none"
}

func c05UGridShapes() []c05UShape {
	l := func(v ...protocol.PacketNumberLen) c05UShape { return c05UShape{lens: v} }
	return []c05UShape{
		{}, {one: 1}, {one: 2}, {one: 3}, {one: 4},
		l(1), l(2), l(3), l(4), l(1, 2), l(2, 1), l(1, 1, 2), l(3, 1), l(4, 1), l(1, 4),
	}
}

// c05UGridBases: first packet numbers around every value at which an encoding of 1..4 bytes
// stops covering the numbers sent so far (2^8, 2^16, 2^24, 2^32) or half of them (2^7, 2^15,
// 2^23, 2^31), and the small values the parrots use.
func c05UGridBases(thorough bool) []protocol.PacketNumber {
	var b []protocol.PacketNumber
	span := func(lo, hi protocol.PacketNumber) {
		for v := lo; v <= hi; v++ {
			b = append(b, v)
		}
	}
	if thorough {
		span(0, 300)
	} else {
		span(0, 8)
		span(114, 132)
		span(242, 260)
	}
	w := protocol.PacketNumber(5)
	if thorough {
		w = 14
	}
	for _, c := range []protocol.PacketNumber{1 << 15, 1 << 16, 1 << 23, 1 << 24, 1 << 31} {
		span(c-w, c+2)
	}
	span(1<<32-w-8, 1<<32-1) // Transport.Dial rejects 2^32 and above
	return b
}

const c05UGridLostRun = 12

type c05UGridResult struct {
	fail  *explore.Fail
	human []string
	execs int64
	trans int64
	lens  map[string]bool
}

func c05UGridCase(shapes []c05UShape, bases []protocol.PacketNumber, depth int) func(i int) explore.CaseResult {
	return func(i int) explore.CaseResult {
		sh := shapes[i%len(shapes)]
		base := bases[i/len(shapes)]
		cfg := c05SphCfg{pers: protocol.PerspectiveClient, uquic: true, initialOnly: true,
			specs: []c05USpec{{name: fmt.Sprintf("pn %d, %s", base, sh), base: base, one: sh.one, lens: sh.lens}}}
		res := c05UGridResult{lens: map[string]bool{}}
		// run executes seq on a fresh real handler; only the last operation can fail (every
		// proper prefix was executed before)
		run := func(seq []explore.Op) *c05SphInst {
			in := c05SphNew(cfg)
			res.execs++
			for k, op := range seq {
				res.trans++
				if f := in.Apply(op); f != nil {
					if res.fail == nil {
						res.fail = &explore.Fail{Key: f.Key + ":spec-" + sh.String(), What: fmt.Sprintf("InitPacketNumber %d, %s: %s", base, sh, f.What)}
						for _, o := range seq[:k+1] {
							res.human = append(res.human, fmt.Sprintf("%s %d %d", o.N, o.A, o.B))
						}
					}
					return nil
				}
				if op.N == "send" && k == len(seq)-1 {
					res.lens[in.lenClass] = true
				}
			}
			return in
		}
		var walk func(seq []explore.Op)
		walk = func(seq []explore.Op) {
			in := run(seq)
			if in == nil || res.fail != nil || len(seq) > depth {
				return
			}
			for _, op := range in.Ops() {
				walk(append(seq[:len(seq):len(seq)], op))
			}
		}
		walk([]explore.Op{{N: "spec", A: 0}})
		// a whole flight and its retransmissions without a single acknowledgement
		if res.fail == nil {
			seq := []explore.Op{{N: "spec", A: 0}}
			for k := 0; k < c05UGridLostRun && res.fail == nil; k++ {
				seq = append(seq, explore.Op{N: "send", A: 0})
				run(seq)
			}
		}
		var used []string
		for l := range res.lens {
			used = append(used, l)
		}
		sort.Strings(used)
		cr := explore.CaseResult{Outcome: fmt.Sprintf("spec %s: sent/spec'd length %s", sh, strings.Join(used, " ")), Execs: res.execs, Trans: res.trans}
		if res.fail != nil {
			cr.Outcome = "violation"
			cr.Fail, cr.Replay, cr.Human = res.fail, i, res.human
		}
		return cr
	}
}

func c05UGridPart() explore.Part {
	mk := func(e explore.Env) (int, int, func(int) explore.CaseResult) {
		depth := 6
		if e.Thorough() {
			depth = 7
		}
		shapes, bases := c05UGridShapes(), c05UGridBases(e.Thorough())
		return len(shapes) * len(bases), depth, c05UGridCase(shapes, bases, depth)
	}
	return explore.Part{
		Name: "uquic-pn-grid",
		Run: func(e explore.Env) *explore.Report {
			n, depth, run := mk(e)
			rep := explore.RunCases(e, n, 0, true, run)
			rep.Rule = fmt.Sprintf("%d first Initial packet numbers (InitPacketNumber: the parrots' 0 and 1, and windows around 2^7, 2^8, 2^15, 2^16, 2^23, 2^24, 2^31 and below 2^32) x %d ways a QUICSpec fixes the Initial packet number length (none | InitPacketNumberLength 1..4 | InitPacketNumberLengths [1] [2] [3] [4] [1,2] [2,1] [1,1,2] [3,1] [4,1] [1,4]); per case EVERY sequence of <= %d operations send(Initial) | ack(largest|smallest in flight) | retry | lose (loss timer) on a fresh real uSentPacketHandler, plus %d Initials in a row without any acknowledgement; at every send: Peek == Pop, strictly increasing, and the length on the wire recovers the true number for every receiver state consistent with the acknowledgements (RFC 9000 A.3)", len(c05UGridBases(e.Thorough())), len(c05UGridShapes()), depth, c05UGridLostRun)
			rep.Bound = fmt.Sprintf("all %d cases, all operation sequences of length <= %d in each", n, depth)
			if !rep.Exhaustive {
				rep.Bound += " (cut by the deadline)"
			}
			for _, i := range []int{1, n / 2, n - 1} {
				rep.Samples = append(rep.Samples, fmt.Sprintf("case %d: %s", i, run(i).Outcome))
			}
			return rep
		},
		Replay: func(e explore.Env, raw json.RawMessage) *explore.Violation {
			_, _, run := mk(e)
			cr := run(explore.ReplayIndex(raw))
			if cr.Fail == nil {
				return nil
			}
			return &explore.Violation{Key: cr.Fail.Key, What: cr.Fail.What, Replay: raw, Human: cr.Human}
		},
	}
}
