package handshake

// Parts "keyupdate-*": explicit-state BFS over TWO real updatableAEADs (client, server)
// joined by a lossy, reordering network (window 3 per direction) and an adversary.
//
// The endpoints above the AEADs behave like the connection does: KeyPhase() before every
// packet, short header written by wire.AppendShortHeader, Seal + EncryptHeader as in
// packetPacker.encryptPacket; on receipt DecryptHeader / wire.ParseShortHeader /
// DecodePacketNumber / Open as in packetUnpacker.unpackShortHeaderPacket, then
// SetLargestAcked for the acknowledgement the packet carries.
//
// Reference model (phase ledger, independent of the implementation's fields): per
// endpoint the key phase, whether the handshake is confirmed, the first packet number
// sent in the phase, whether a packet of the current phase was acknowledged, and until
// when the previous read keys have to be retained (3*PTO after the first packet of the
// current phase was received). With `monitor` every genuine packet is also compared
// bit-by-bit with the packet ref5 builds from the key generation the model expects.
//
// Adversary without keys (on-path / off-path attacker): at ANY point of a history it may
// hand a receiver a packet that cannot be authentic - a modified copy of a packet in flight
// (adv-tamper) or a made-up packet with chosen header fields (adv-inject; key phase bit of
// the receiver's current or next phase, packet number below or far above everything sent).
// Such a packet must be rejected, and because the reference model does not change on it,
// every later genuine packet is judged exactly as if it had never arrived: a rejected
// packet that moved the key-phase cursor, armed the key-drop timer, rolled keys or disturbed
// packet number decoding shows up as a genuine packet that is not opened (or a key phase
// that differs from the model's). These operations are not terminal, so they occur as the
// first packet of a key phase, right after a locally initiated update, before a peer's
// update, around ticks of the drop timer, ...
//
// Start states (parts "keyupdate-*-late"): the depth bound of a BFS from the fresh pair ends
// around the first timer-based discard of old read keys, so nothing ever FOLLOWS such a discard.
// The late parts therefore start from settled states: the macro operation settle(i, rounds, tail)
// (only enabled in the initial state; a fixed sequence of ordinary operations, each judged by the
// oracle) runs 1 or 2 complete key updates driven by endpoint i, each one confirmed, acknowledged
// and followed by > 3*PTO and a packet that makes the timer discard the old keys; the last round
// stops after the discard / after the expiry / with the timer running. Same alphabet and oracle
// from there on: further local and remote updates with old-phase packets in flight, replays, ...

import (
	"bytes"
	"encoding/json"
	"errors"
	"fmt"
	"strings"
	"time"

	"github.com/refraction-networking/uquic/internal/monotime"
	"github.com/refraction-networking/uquic/internal/protocol"
	"github.com/refraction-networking/uquic/internal/qerr"
	"github.com/refraction-networking/uquic/internal/utils"
	"github.com/refraction-networking/uquic/internal/verifmc/canon"
	"github.com/refraction-networking/uquic/internal/verifmc/explore"
	"github.com/refraction-networking/uquic/internal/verifmc/ref5"
	"github.com/refraction-networking/uquic/internal/wire"
)

type c05KUConfig struct {
	version  protocol.Version
	suite    uint16
	first    uint64 // FirstKeyUpdateInterval
	interval uint64 // SetKeyUpdateInterval
	monitor  bool   // compare every genuine packet with ref5 (false: the adversary uses the implementation's own derivation)
	tier     int    // 1: thorough tier only
	// extraDepth is added to the thorough tier's depth bound (10)
	extraDepth int
	// late: the BFS does not start at the fresh pair of AEADs but at SETTLED start states: the only
	// operation enabled in the initial state is the macro operation settle(i, rounds, tail) (see
	// settle below), which drives the pair through `rounds` complete key updates, each followed by the
	// regular timer-based discard of the old read keys; lateDepth[0|1] = number of ordinary operations
	// explored after it in the quick | thorough tier
	late      bool
	lateDepth [2]int
}

// start states of the "late" parts: settle(i, rounds, tail)
const (
	c05KUSettleRounds = 2
	c05KUSettleTails  = 3
)

var c05KUSettleTailNames = [...]string{"discard-observed", "timer-expired", "timer-running"}

// packet numbers of made-up packets: below every genuine packet / far above every genuine packet
// (still inside the decoding window of a 4-byte packet number)
var c05KUInjectPNs = [...]int64{0, 1 << 30}

var c05KUInjectPNNames = [...]string{"low", "high"}

// kinds of modification of a packet in flight
const c05KUTamperKinds = 2

var c05KUTamperNames = [...]string{"keyphase-bit", "tag-bit"}

const (
	c05KUWindow  = 3
	c05KUMaxGen  = 16
	c05KUCIDLen  = 4
	c05KUBaseNow = monotime.Time(1_000_000_000_000)
)

type c05KUShared struct {
	cfg     c05KUConfig
	secrets [2][]byte                 // traffic secret of endpoint i's SEND direction
	gen     [2][c05KUMaxGen]ref5.Keys // keys of key generation g used by sender i
	cid     [2]protocol.ConnectionID  // destination connection ID used by sender i
}

type c05KUPkt struct {
	raw    []byte
	plain  []byte
	pn     int64
	pnLen  protocol.PacketNumberLen
	phase  int
	ack    int64
	sender int
}

type c05KUEnd struct {
	a *updatableAEAD
	// reference model
	phase            int
	confirmed        bool
	nextPN           int64
	firstSentInPhase int64
	sentInPhase      int
	ackedInPhase     bool
	largestAcked     int64
	highestRcvd      int64
	rcvdInPhase      bool
	oldDeadline      monotime.Time // 0: drop timer for the previous read keys not running
	oldExists        bool          // previous read keys exist at all (phase > 0)
}

type c05KUInst struct {
	sh      *c05KUShared
	rtt     [2]*utils.RTTStats
	end     [2]*c05KUEnd
	flight  [2][]*c05KUPkt  // by sender
	repl    [2][2]*c05KUPkt // by sender: first and latest delivered packet
	now     monotime.Time
	dead    bool
	settled bool // late parts: the settle macro operation has run
	outcome string
}

func c05KUNewShared(cfg c05KUConfig) *c05KUShared {
	sh := &c05KUShared{cfg: cfg}
	for i := 0; i < 2; i++ {
		sh.secrets[i] = c05Pattern(2, c05SecretLen(cfg.suite)+i)[i:]
		sh.cid[i] = protocol.ParseConnectionID([]byte{0xc0 + byte(i), 0x11, 0x22, 0x33})
		k0 := ref5.KeysFromSecret(sh.secrets[i], c05Version(cfg.version), cfg.suite)
		s := sh.secrets[i]
		for g := 0; g < c05KUMaxGen; g++ {
			if g > 0 {
				if cfg.monitor {
					s = ref5.NextGeneration(s, c05Version(cfg.version), cfg.suite)
				} else {
					// no independent monitor in this configuration: the adversary derives its keys the way the implementation does
					s = (&updatableAEAD{version: cfg.version}).getNextTrafficSecret(getCipherSuite(cfg.suite).Hash, s)
				}
			}
			k := ref5.KeysFromSecret(s, c05Version(cfg.version), cfg.suite)
			k.HP = k0.HP
			sh.gen[i][g] = k
		}
	}
	return sh
}

func c05KUNew(sh *c05KUShared) *c05KUInst {
	in := &c05KUInst{sh: sh, now: c05KUBaseNow}
	suite := getCipherSuite(sh.cfg.suite)
	for i := 0; i < 2; i++ {
		in.rtt[i] = utils.NewRTTStats()
		a := newUpdatableAEAD(in.rtt[i], nil, utils.DefaultLogger, sh.cfg.version)
		if i == 0 { // client: read key first
			a.SetReadKey(suite, sh.secrets[1])
			a.SetWriteKey(suite, sh.secrets[0])
		} else {
			a.SetWriteKey(suite, sh.secrets[1])
			a.SetReadKey(suite, sh.secrets[0])
		}
		in.end[i] = &c05KUEnd{a: a, firstSentInPhase: -1, largestAcked: -1, highestRcvd: -1}
	}
	return in
}

func (in *c05KUInst) Ops() []explore.Op {
	if in.dead {
		return nil
	}
	var ops []explore.Op
	if in.sh.cfg.late && !in.settled {
		// start states: which endpoint drives the key updates, how many complete rounds, how the last round ends
		for rounds := 1; rounds <= c05KUSettleRounds; rounds++ {
			for tail := 0; tail < c05KUSettleTails; tail++ {
				for i := 0; i < 2; i++ {
					ops = append(ops, explore.Op{N: "settle", A: i, B: rounds, C: tail})
				}
			}
		}
		return ops
	}
	for e := 0; e < 2; e++ {
		if !in.end[e].confirmed {
			ops = append(ops, explore.Op{N: "confirm", A: e})
		}
	}
	for e := 0; e < 2; e++ {
		if len(in.flight[e]) < c05KUWindow && in.end[e].phase < c05KUMaxGen-3 {
			ops = append(ops, explore.Op{N: "send", A: e})
		}
	}
	for e := 0; e < 2; e++ {
		for i := range in.flight[e] {
			ops = append(ops, explore.Op{N: "deliver", A: e, B: i})
		}
	}
	for e := 0; e < 2; e++ {
		if len(in.flight[e]) > 0 {
			ops = append(ops, explore.Op{N: "drop", A: e})
		}
	}
	for e := 0; e < 2; e++ {
		// time may pass whenever an endpoint holds previous read keys (whether or not the model
		// thinks their drop timer is running); expired deadlines are clamped in Key()
		if in.end[e].oldExists {
			ops = append(ops, explore.Op{N: "tick"})
			break
		}
	}
	for e := 0; e < 2; e++ {
		ops = append(ops, explore.Op{N: "keyphase", A: e})
	}
	for e := 0; e < 2; e++ {
		for w := 0; w < 2; w++ {
			if in.repl[e][w] != nil && (w == 0 || in.repl[e][1] != in.repl[e][0]) {
				ops = append(ops, explore.Op{N: "replay", A: e, B: w})
			}
		}
	}
	for e := 0; e < 2; e++ { // adversary impersonating sender e towards receiver 1-e
		r := in.end[1-e]
		if r.phase > 0 && r.sentInPhase == 0 {
			ops = append(ops, explore.Op{N: "adv-premature", A: e})
		}
	}
	// adversary without keys, never terminal: modified copies of packets in flight ...
	for e := 0; e < 2; e++ {
		for i := range in.flight[e] {
			for kind := 0; kind < c05KUTamperKinds; kind++ {
				ops = append(ops, explore.Op{N: "adv-tamper", A: e, B: i, C: kind})
			}
		}
	}
	// ... and made-up packets (C: 0 = key phase bit of the receiver's current phase, 1 = of its next phase; D: packet number class)
	for e := 0; e < 2; e++ {
		for kp := 0; kp < 2; kp++ {
			for pc := range c05KUInjectPNs {
				ops = append(ops, explore.Op{N: "adv-inject", A: e, B: 0, C: kp, D: pc})
			}
		}
	}
	return ops
}

func c05Bit(phase int) protocol.KeyPhaseBit { return protocol.KeyPhase(phase).Bit() }

func (in *c05KUInst) threePTO(e int) time.Duration { return 3 * in.rtt[e].PTO(true) }

// noteRoll updates the model when endpoint e moves to the next key phase.
func (in *c05KUInst) noteRoll(e int) {
	m := in.end[e]
	m.phase++
	m.firstSentInPhase = -1
	m.sentInPhase = 0
	m.ackedInPhase = false
	m.rcvdInPhase = false
	m.oldDeadline = 0
	m.oldExists = true
}

// checkKeyPhaseCall runs KeyPhase() on endpoint e and checks an initiated key update against the model.
func (in *c05KUInst) checkKeyPhaseCall(e int) (protocol.KeyPhaseBit, *explore.Fail) {
	m := in.end[e]
	kp := m.a.KeyPhase()
	if kp == c05Bit(m.phase) {
		return kp, nil
	}
	// the endpoint initiated a key update
	switch {
	case !m.confirmed:
		return kp, explore.Failf("keyupdate-initiated-early:handshake-unconfirmed", "endpoint %d initiated a key update to phase %d before the handshake was confirmed", e, m.phase+1)
	case m.phase > 0 && !m.ackedInPhase:
		return kp, explore.Failf("keyupdate-initiated-early:no-ack-in-phase", "endpoint %d initiated a key update to phase %d although no packet sent in phase %d (first pn %d) has been acknowledged (largest acked %d)", e, m.phase+1, m.phase, m.firstSentInPhase, m.largestAcked)
	}
	in.noteRoll(e)
	in.outcome += " initiates-update"
	return kp, nil
}

// protect assembles a packet the way packetPacker does.
func c05KUProtect(a *updatableAEAD, hdr, plain []byte, pn int64, pnLen protocol.PacketNumberLen) []byte {
	po := len(hdr)
	raw := make([]byte, po+len(plain), po+len(plain)+a.Overhead())
	copy(raw, hdr)
	copy(raw[po:], plain)
	_ = a.Seal(raw[po:po], raw[po:], protocol.PacketNumber(pn), raw[:po])
	raw = raw[:len(raw)+a.Overhead()]
	pnOff := po - int(pnLen)
	a.EncryptHeader(raw[pnOff+4:pnOff+4+16], &raw[0], raw[pnOff:po])
	return raw
}

func c05KUPlain(sender, phase int, pn, ack int64) []byte {
	return []byte{0x50 + byte(sender), byte(phase), byte(pn >> 8), byte(pn), byte((ack + 1) >> 8), byte(ack + 1), 0xa5, 0x5a}
}

func (in *c05KUInst) send(e int) *explore.Fail {
	m := in.end[e]
	kp, fl := in.checkKeyPhaseCall(e)
	if fl != nil {
		return fl
	}
	pn := m.nextPN
	m.nextPN++
	la := protocol.InvalidPacketNumber
	if m.largestAcked >= 0 {
		la = protocol.PacketNumber(m.largestAcked)
	}
	pnLen := protocol.PacketNumberLengthForHeader(protocol.PacketNumber(pn), la)
	hdr, err := wire.AppendShortHeader(nil, in.sh.cid[e], protocol.PacketNumber(pn), pnLen, kp)
	explore.Must(err == nil, "AppendShortHeader: %v", err)
	p := &c05KUPkt{pn: pn, pnLen: pnLen, phase: m.phase, ack: m.highestRcvd, sender: e}
	p.plain = c05KUPlain(e, m.phase, pn, p.ack)
	p.raw = c05KUProtect(m.a, hdr, p.plain, pn, pnLen)
	if m.firstSentInPhase < 0 {
		m.firstSentInPhase = pn
	}
	m.sentInPhase++
	if in.sh.cfg.monitor {
		want, err := ref5.Protect(hdr, p.plain, uint64(pn), in.sh.gen[e][m.phase])
		explore.Must(err == nil, "ref5.Protect: %v", err)
		if !bytes.Equal(want, p.raw) {
			return explore.Failf(fmt.Sprintf("keyupdate-wire-mismatch:%s", c05VName(in.sh.cfg.version)),
				"packet pn=%d sent by endpoint %d in key phase %d is %x, the reference (generation %d keys) gives %x", pn, e, m.phase, p.raw, m.phase, want)
		}
	}
	in.flight[e] = append(in.flight[e], p)
	return nil
}

type c05KUOpenResult struct {
	err   error
	dec   []byte
	pn    protocol.PacketNumber
	pnLen protocol.PacketNumberLen
	kp    protocol.KeyPhaseBit
	perr  error
}

// receive mirrors packetUnpacker.unpackShortHeaderPacket.
func (in *c05KUInst) receive(r int, raw []byte) c05KUOpenResult {
	a := in.end[r].a
	data := append([]byte(nil), raw...)
	hdrLen := 1 + c05KUCIDLen
	var res c05KUOpenResult
	if len(data) < hdrLen+4+16 {
		res.err = errors.New("packet too small")
		return res
	}
	orig := append([]byte(nil), data[hdrLen:hdrLen+4]...)
	a.DecryptHeader(data[hdrLen+4:hdrLen+4+16], &data[0], data[hdrLen:hdrLen+4])
	l, pn, pnLen, kp, perr := wire.ParseShortHeader(data, c05KUCIDLen)
	if perr != nil && perr != wire.ErrInvalidReservedBits {
		res.err = perr
		return res
	}
	if pnLen != protocol.PacketNumberLen4 {
		copy(data[hdrLen+int(pnLen):hdrLen+4], orig[int(pnLen):])
	}
	pn = a.DecodePacketNumber(pn, pnLen)
	res.pn, res.pnLen, res.kp, res.perr = pn, pnLen, kp, perr
	res.dec, res.err = a.Open(data[l:l], data[l:], in.now, pn, kp, data[:l])
	return res
}

func c05IsKeyUpdateError(err error) bool {
	var te *qerr.TransportError
	return errors.As(err, &te) && te.ErrorCode == qerr.KeyUpdateError
}

func c05ErrClass(err error) string {
	var te *qerr.TransportError
	switch {
	case err == nil:
		return "ok"
	case err == ErrKeysDropped:
		return "keys-dropped"
	case err == ErrDecryptionFailed:
		return "decryption-failed"
	case errors.As(err, &te):
		return "transport-error-" + te.ErrorCode.String()
	}
	return "error:" + err.Error()
}

// deliverGenuine hands a genuine packet (fresh or replayed) to its receiver and evaluates the oracle.
func (in *c05KUInst) deliverGenuine(p *c05KUPkt, replay bool) *explore.Fail {
	r := 1 - p.sender
	m := in.end[r]
	explore.Must(p.phase <= m.phase+1, "model: conformant sender is two phases ahead (packet phase %d, receiver phase %d)", p.phase, m.phase)
	res := in.receive(r, p.raw)
	rel := p.phase - m.phase
	what := fmt.Sprintf("packet pn=%d of phase %d from endpoint %d at receiver in phase %d (replay=%v)", p.pn, p.phase, p.sender, m.phase, replay)
	cls := c05ErrClass(res.err)
	in.outcome += fmt.Sprintf(" rel=%+d %s", max(rel, -3), cls)
	if c05IsKeyUpdateError(res.err) {
		return explore.Failf("keyupdate-error-against-conformant-peer:open", "%s: Open returned %v although the peer follows the protocol", what, res.err)
	}
	mustOpen := false
	switch {
	case rel == 0 || rel == 1:
		mustOpen = true
	case rel == -1:
		// the previous read keys must be retained until 3*PTO after the first packet of the current phase
		mustOpen = m.oldExists && (m.oldDeadline == 0 || !in.now.After(m.oldDeadline))
	}
	if res.err != nil {
		if mustOpen {
			return explore.Failf(fmt.Sprintf("genuine-packet-not-opened:rel=%+d:%s", rel, cls), "%s: Open failed with %v, but the receiver must still hold the keys (drop timer %v, now %v)", what, res.err, m.oldDeadline, in.now)
		}
		if res.err != ErrKeysDropped && res.err != ErrDecryptionFailed {
			return explore.Failf("genuine-packet-bad-error:"+cls, "%s: Open failed with %v, allowed are only ErrKeysDropped / ErrDecryptionFailed", what, res.err)
		}
		return nil
	}
	// opened: header fields and payload must be exactly what was sent
	if res.pn != protocol.PacketNumber(p.pn) || res.pnLen != p.pnLen || res.kp != c05Bit(p.phase) || res.perr != nil {
		return explore.Failf("genuine-packet-header-differs", "%s: unprotected header gives pn=%d len=%d kp=%s (parse error %v), sent pn=%d len=%d kp=%s", what, res.pn, res.pnLen, res.kp, res.perr, p.pn, p.pnLen, c05Bit(p.phase))
	}
	if !bytes.Equal(res.dec, p.plain) {
		return explore.Failf("genuine-packet-payload-differs", "%s: opened to %x, sent %x", what, res.dec, p.plain)
	}
	if rel < -1 || (rel == -1 && !m.oldExists) {
		explore.Must(false, "model: %s opened although its keys cannot exist any more", what)
	}
	if rel == 1 { // the peer initiated a key update and the receiver follows
		in.noteRoll(r)
		in.outcome += " follows-update"
	}
	if p.phase == m.phase && !m.rcvdInPhase {
		m.rcvdInPhase = true
		if m.phase > 0 {
			m.oldDeadline = in.now.Add(in.threePTO(r))
		}
	}
	if replay {
		return nil // duplicates are dropped by the connection before frames are handled
	}
	m.highestRcvd = max(m.highestRcvd, p.pn)
	if p.ack > m.largestAcked {
		if err := m.a.SetLargestAcked(protocol.PacketNumber(p.ack)); err != nil {
			return explore.Failf("keyupdate-error-against-conformant-peer:ack", "%s acknowledging pn<=%d: SetLargestAcked returned %v although the peer follows the protocol", what, p.ack, err)
		}
		m.largestAcked = p.ack
		if m.firstSentInPhase >= 0 && p.ack >= m.firstSentInPhase {
			m.ackedInPhase = true
		}
	}
	return nil
}

// checkRejected hands a packet that cannot be authentic to receiver r. It must not be opened; the
// reference model is left untouched, so everything that follows is judged as if it never arrived.
func (in *c05KUInst) checkRejected(r int, raw []byte, key, what string) *explore.Fail {
	res := in.receive(r, raw)
	in.outcome += " " + c05ErrClass(res.err)
	if res.err == nil {
		return explore.Failf(key+":accepted", "%s was opened to %x instead of being rejected", what, res.dec)
	}
	if res.err != ErrDecryptionFailed && res.err != ErrKeysDropped {
		return explore.Failf(key+":bad-error:"+c05ErrClass(res.err), "%s: %v (a packet that fails authentication is dropped, allowed are only ErrDecryptionFailed / ErrKeysDropped)", what, res.err)
	}
	return nil
}

// settle is the macro operation that produces the start states of the "late" parts. It is a fixed
// sequence of ORDINARY operations of the alphabet (each one executed on the real code and on the
// reference model and judged by the same oracle), i.e. a history every conformant pair of endpoints
// can go through; it only saves BFS depth:
//
//	confirm(i)                                   only endpoint i may initiate key updates
//	rounds x {
//	  send(i) [+ deliver] until i initiates      the key update of this round (KeyPhase() decides)
//	  deliver                                    the peer follows
//	  send(peer), deliver                        the peer answers in the new phase: update confirmed and
//	                                             acknowledged, i's 3*PTO drop timer starts
//	  tick, tick                                 strictly more than 3*PTO pass            (tail <= 1 in the last round)
//	  send(peer), deliver                        i receives a packet after the expiry: regular,
//	                                             timer-based discard of the old read keys  (tail == 0 in the last round)
//	}
func (in *c05KUInst) settle(i, rounds, tail int) *explore.Fail {
	explore.Must(i >= 0 && i < 2 && rounds >= 1 && rounds <= c05KUSettleRounds && tail >= 0 && tail < c05KUSettleTails, "settle(%d,%d,%d)", i, rounds, tail)
	peer := 1 - i
	var steps []string
	do := func(op explore.Op) *explore.Fail {
		steps = append(steps, op.String())
		if fl := in.apply1(op); fl != nil {
			fl.What = fmt.Sprintf("inside settle(%d,%d,%d) = %s: %s", i, rounds, tail, strings.Join(steps, " "), fl.What)
			return fl
		}
		return nil
	}
	seq := func(ops ...explore.Op) *explore.Fail {
		for _, op := range ops {
			if fl := do(op); fl != nil {
				return fl
			}
		}
		return nil
	}
	if fl := do(explore.Op{N: "confirm", A: i}); fl != nil {
		return fl
	}
	for r := 1; r <= rounds; r++ {
		for n := 0; in.end[i].phase < r; n++ {
			explore.Must(n <= int(max(in.sh.cfg.first, in.sh.cfg.interval))+2, "settle: endpoint %d does not initiate key update %d", i, r)
			if fl := do(explore.Op{N: "send", A: i}); fl != nil {
				return fl
			}
			if in.end[i].phase < r { // a packet of the old phase: delivered in order
				if fl := do(explore.Op{N: "deliver", A: i}); fl != nil {
					return fl
				}
			}
		}
		explore.Must(len(in.flight[i]) == 1 && len(in.flight[peer]) == 0, "settle: packets in flight %d/%d", len(in.flight[i]), len(in.flight[peer]))
		if fl := seq(explore.Op{N: "deliver", A: i}, explore.Op{N: "send", A: peer}, explore.Op{N: "deliver", A: peer}); fl != nil {
			return fl
		}
		mi, mp := in.end[i], in.end[peer]
		explore.Must(mi.phase == r && mp.phase == r && mi.ackedInPhase && mi.rcvdInPhase && mi.oldDeadline != 0 && mp.oldDeadline != 0, "settle: round %d not settled in the model", r)
		last := r == rounds
		if !last || tail <= 1 {
			if fl := seq(explore.Op{N: "tick"}, explore.Op{N: "tick"}); fl != nil {
				return fl
			}
			explore.Must(in.now.After(mi.oldDeadline) && in.now.After(mp.oldDeadline), "settle: drop timers not expired")
		}
		if !last || tail == 0 {
			if fl := seq(explore.Op{N: "send", A: peer}, explore.Op{N: "deliver", A: peer}); fl != nil {
				return fl
			}
			explore.Must(mp.phase == r && mi.phase == r, "settle: unexpected key update in the model")
		}
	}
	in.settled = true
	in.outcome = fmt.Sprintf("settle i=%d rounds=%d %s old-read-keys-held=%v/%v", i, rounds, c05KUSettleTailNames[tail], in.end[0].a.prevRcvAEAD != nil, in.end[1].a.prevRcvAEAD != nil)
	return nil
}

func (in *c05KUInst) Apply(op explore.Op) *explore.Fail {
	if op.N == "settle" {
		explore.Must(in.sh.cfg.late && !in.settled, "settle outside the initial state of a late part")
		return in.settle(op.A, op.B, op.C)
	}
	return in.apply1(op)
}

func (in *c05KUInst) apply1(op explore.Op) *explore.Fail {
	in.outcome = op.N
	var fl *explore.Fail
	switch op.N {
	case "confirm":
		in.end[op.A].a.SetHandshakeConfirmed()
		in.end[op.A].confirmed = true
	case "send":
		fl = in.send(op.A)
	case "keyphase":
		_, fl = in.checkKeyPhaseCall(op.A)
	case "deliver":
		p := in.flight[op.A][op.B]
		in.flight[op.A] = append(append([]*c05KUPkt(nil), in.flight[op.A][:op.B]...), in.flight[op.A][op.B+1:]...)
		fl = in.deliverGenuine(p, false)
		if in.repl[op.A][0] == nil {
			in.repl[op.A][0] = p
		}
		in.repl[op.A][1] = p
	case "drop":
		in.flight[op.A] = append([]*c05KUPkt(nil), in.flight[op.A][1:]...)
	case "tick":
		in.now = in.now.Add(in.threePTO(0))
	case "replay":
		fl = in.deliverGenuine(in.repl[op.A][op.B], true)
	case "adv-premature":
		// an attacker in possession of the keys (= a non-conformant peer) sends a packet of the
		// receiver's NEXT key phase although the receiver has not sent anything in its current
		// phase, so no acknowledgement can have allowed that update
		r := 1 - op.A
		m := in.end[r]
		pn := in.end[op.A].nextPN
		pnLen := protocol.PacketNumberLen2
		hdr, err := wire.AppendShortHeader(nil, in.sh.cid[op.A], protocol.PacketNumber(pn), pnLen, c05Bit(m.phase+1))
		explore.Must(err == nil, "AppendShortHeader: %v", err)
		raw, err := ref5.Protect(hdr, c05KUPlain(op.A, m.phase+1, pn, -1), uint64(pn), in.sh.gen[op.A][m.phase+1])
		explore.Must(err == nil, "ref5.Protect: %v", err)
		res := in.receive(r, raw)
		in.outcome += " " + c05ErrClass(res.err)
		// "not accepted" is what the property demands; KEY_UPDATE_ERROR is the expected way (recorded in the outcome)
		if res.err == nil {
			fl = explore.Failf("premature-keyupdate-accepted", "receiver %d is in key phase %d and has not sent any packet in it, yet a packet of phase %d (pn=%d) was accepted (opened to %x) instead of being answered with KEY_UPDATE_ERROR", r, m.phase, m.phase+1, pn, res.dec)
		} else if !c05IsKeyUpdateError(res.err) && res.err != ErrDecryptionFailed && res.err != ErrKeysDropped {
			fl = explore.Failf("premature-keyupdate-bad-error:"+c05ErrClass(res.err), "premature key update answered with %v", res.err)
		}
		in.dead = true
	case "adv-tamper":
		// on-path attacker: a modified copy of a genuine packet in flight reaches the receiver (the
		// genuine packet stays in flight). kind 0: key phase bit flipped (header protection is removed
		// and re-applied with the mask computed by the reference); kind 1: last bit of the AEAD tag
		// flipped (outside the header protection sample, so the header fields are the genuine ones).
		p := in.flight[op.A][op.B]
		r := 1 - op.A
		raw := append([]byte(nil), p.raw...)
		switch op.C {
		case 0:
			pnOff := 1 + c05KUCIDLen
			mask := in.sh.gen[op.A][0].HeaderMask(raw[pnOff+4 : pnOff+4+16])
			raw[0] ^= mask[0] & 0x1f
			raw[0] ^= 0x04
			raw[0] ^= mask[0] & 0x1f
		default:
			raw[len(raw)-1] ^= 0x01
		}
		fl = in.checkRejected(r, raw, "tampered-packet:"+c05KUTamperNames[op.C],
			fmt.Sprintf("copy of packet pn=%d (phase %d) from endpoint %d with a flipped %s at receiver in phase %d", p.pn, p.phase, op.A, c05KUTamperNames[op.C], in.end[r].phase))
	case "adv-inject":
		// attacker without keys: a made-up packet whose (unprotected) header carries the key phase bit
		// of the receiver's current (C=0) or next (C=1) phase and a chosen packet number; the payload is
		// sealed with keys of a generation the receiver can never hold, i.e. it cannot be authentic
		r := 1 - op.A
		m := in.end[r]
		pn := c05KUInjectPNs[op.D]
		hdr, err := wire.AppendShortHeader(nil, in.sh.cid[op.A], protocol.PacketNumber(pn), protocol.PacketNumberLen4, c05Bit(m.phase+op.C))
		explore.Must(err == nil, "AppendShortHeader: %v", err)
		raw, err := ref5.Protect(hdr, c05KUPlain(op.A, m.phase+op.C, pn, -1), uint64(pn), in.sh.gen[op.A][c05KUMaxGen-1])
		explore.Must(err == nil, "ref5.Protect: %v", err)
		kpName := [...]string{"current", "next"}[op.C]
		fl = in.checkRejected(r, raw, fmt.Sprintf("injected-packet:kp=%s:pn=%s", kpName, c05KUInjectPNNames[op.D]),
			fmt.Sprintf("made-up packet (key phase bit of the receiver's %s phase, pn=%d) at receiver %d in phase %d", kpName, pn, r, m.phase))
	default:
		explore.Must(false, "unknown op %v", op)
	}
	if fl != nil {
		return fl
	}
	// the implementation's key phase must be the one the model derived from permitted transitions only
	for e := 0; e < 2; e++ {
		if int(in.end[e].a.keyPhase) != in.end[e].phase {
			return explore.Failf("keyphase-changed-without-permission", "after %v endpoint %d is in key phase %d, the model (only permitted updates) says %d", op, e, in.end[e].a.keyPhase, in.end[e].phase)
		}
	}
	return nil
}

func (in *c05KUInst) Outcome() string { return in.outcome }

func c05KUSkip(typ, field string) bool {
	if typ != "handshake.updatableAEAD" {
		return false
	}
	switch field {
	case "suite", "rcvAEAD", "sendAEAD", "prevRcvAEAD", "nextRcvAEAD", "nextSendAEAD", "nextRcvTrafficSecret", "nextSendTrafficSecret",
		"headerDecrypter", "headerEncrypter", "rttStats", "qlogger", "logger", "nonceBuf":
		// key material is a function of keyPhase (dumped); prevRcvAEAD's presence is added by hand
		return true
	case "prevRcvAEADExpiry":
		// added by hand, clamped once expired (the harness clock is monotone and the code only asks rcvTime.After(expiry))
		return true
	case "invalidPacketCount":
		// only compared with the AEAD limit (>= 2^36), out of reach within the depth bound: not part of the state
		return true
	}
	return false
}

// c05KURelTime: 0 = not set, -1 = expired, otherwise 1 + time left.
func c05KURelTime(t, now monotime.Time) int64 {
	switch {
	case t == 0:
		return 0
	case now.After(t):
		return -1
	}
	return 1 + int64(t) - int64(now)
}

func (in *c05KUInst) Key() string {
	var sb strings.Builder
	opt := canon.Options{SkipField: c05KUSkip, TimeBase: int64(in.now)}
	for e := 0; e < 2; e++ {
		m := in.end[e]
		sb.WriteString(canon.Dump(m.a, opt))
		fmt.Fprintf(&sb, "|prev=%v|exp=%d|", m.a.prevRcvAEAD != nil, c05KURelTime(m.a.prevRcvAEADExpiry, in.now))
		dl := c05KURelTime(m.oldDeadline, in.now)
		fmt.Fprintf(&sb, "M{%d %v %d %d %d %v %d %d %v %d %v}", m.phase, m.confirmed, m.nextPN, m.firstSentInPhase, m.sentInPhase, m.ackedInPhase, m.largestAcked, m.highestRcvd, m.rcvdInPhase, dl, m.oldExists)
		sb.WriteString("F[")
		for _, p := range in.flight[e] {
			fmt.Fprintf(&sb, "%d/%d/%d,", p.pn, p.phase, p.ack)
		}
		sb.WriteString("]R[")
		for _, p := range in.repl[e] {
			if p != nil {
				fmt.Fprintf(&sb, "%d/%d,", p.pn, p.phase)
			} else {
				sb.WriteString("-,")
			}
		}
		sb.WriteString("]\n")
	}
	fmt.Fprintf(&sb, "dead=%v settled=%v", in.dead, in.settled)
	return sb.String()
}

func c05KeyUpdatePart(name string, cfg c05KUConfig) explore.Part {
	mk := func(e explore.Env) explore.BFSSpec {
		// the package-level intervals are set for the duration of this part (parts run one after the other)
		FirstKeyUpdateInterval = cfg.first
		SetKeyUpdateInterval(cfg.interval)
		sh := c05KUNewShared(cfg)
		depth := 8
		if e.Thorough() {
			depth = 10 + cfg.extraDepth
		}
		start := "start state: fresh pair of AEADs"
		if cfg.late {
			depth = 1 + cfg.lateDepth[0]
			if e.Thorough() {
				depth = 1 + cfg.lateDepth[1]
			}
			start = fmt.Sprintf("START STATES: the only operation enabled in the initial state is the macro operation settle(i, rounds<=%d, tail) = a fixed sequence of the ordinary operations below, every step judged by the same oracle: confirm(i); rounds x { send(i) (+deliver) until endpoint i initiates the key update, deliver, send(peer), deliver [update confirmed and acknowledged, i's drop timer running]; tick, tick [more than 3*PTO]; send(peer), deliver [i receives a packet after the expiry: regular timer-based discard of the old read keys] }, where the last round ends after the discard | after the two ticks | before them (tail); then all sequences of %d ordinary operations", c05KUSettleRounds, depth-1)
		}
		return explore.BFSSpec{
			New:              func() explore.Instance { return c05KUNew(sh) },
			MaxDepth:         depth,
			PanicIsViolation: true,
			Rule: fmt.Sprintf("BFS over two real updatableAEADs (%s, %s, FirstKeyUpdateInterval=%d, key update interval=%d, ref5 wire monitor=%v); alphabet: confirm(e), send(e) [KeyPhase+Seal+EncryptHeader, carries an ACK of everything received], deliver(e,i) of any of the <=%d packets in flight, drop(e), tick (3*PTO), keyphase(e) [KeyPhase() without a packet], replay(e, first|latest delivered), adversary with keys (terminal): adv-premature(e) [next-phase packet while the receiver has sent nothing in its phase]; adversary without keys (never terminal, enabled in every state, the model ignores it and keeps judging all later genuine packets): adv-tamper(e,i,kind) [copy of any packet in flight with the key phase bit / the last tag bit flipped, the original stays in flight], adv-inject(e,kp,pn) [made-up packet, key phase bit of the receiver's current|next phase, pn 0 | 2^30, sealed with a key generation the receiver never holds]; tick is enabled whenever an endpoint holds previous read keys; state = canon(both AEADs, without the invalid-packet counter) + phase ledger + packets in flight; %s",
				c05VName(cfg.version), c05SuiteName(cfg.suite), cfg.first, cfg.interval, cfg.monitor, c05KUWindow, start),
		}
	}
	return explore.Part{
		Name: name,
		Run: func(e explore.Env) *explore.Report {
			if cfg.tier == 1 && !e.Thorough() {
				return nil
			}
			return explore.BFS(e, mk(e))
		},
		Replay: func(e explore.Env, raw json.RawMessage) *explore.Violation { return explore.ReplayBFS(mk(e), raw) },
	}
}
