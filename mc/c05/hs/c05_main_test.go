package handshake

// C05, target "hs" (package internal/handshake): reference self-test against the RFC
// vectors, AEAD / header protection of all three suites, key-update derivation, Retry
// integrity tag and the key-update state machine (BFS over two real updatableAEADs).

import (
	"encoding/hex"
	"encoding/json"
	"fmt"
	"strings"
	"testing"

	"github.com/refraction-networking/uquic/internal/protocol"
	"github.com/refraction-networking/uquic/internal/verifmc/explore"
	"github.com/refraction-networking/uquic/internal/verifmc/ref5"
)

func TestVerifC05HS(t *testing.T) {
	explore.Main("C05", []explore.Part{
		c05VectorsPart(),
		c05SuitesPart(),
		c05KUDerivePart(),
		c05RetryPart(),
		c05PNReorderPart("pn-reorder-1rtt", c05PRConfig{level: c05Lv1RTT, version: protocol.Version1, suite: ref5.TLS_AES_128_GCM_SHA256, ku: true, depth: [2]int{7, 9}, jumps: c05PRJumpsNear}),
		c05PNReorderPart("pn-reorder-initial", c05PRConfig{level: c05LvInitial, version: protocol.Version1, depth: [2]int{7, 9}, jumps: c05PRJumpsNear}),
		c05PNReorderPart("pn-reorder-handshake", c05PRConfig{level: c05LvHandshake, version: protocol.Version2, suite: ref5.TLS_AES_256_GCM_SHA384, tier: 1, depth: [2]int{7, 8}, jumps: c05PRJumpsEdge, fourBytes: true}),
		c05PNReorderPart("pn-reorder-1rtt-chacha-v2", c05PRConfig{level: c05Lv1RTT, version: protocol.Version2, suite: ref5.TLS_CHACHA20_POLY1305_SHA256, ku: true, tier: 1, depth: [2]int{7, 7}, jumps: c05PRJumpsWide, fourBytes: true}),
		c05SetupInstallPart(),
		c05SetupHandshakePart(),
		c05KeyUpdatePart("keyupdate-v1", c05KUConfig{version: protocol.Version1, suite: ref5.TLS_AES_128_GCM_SHA256, first: 1, interval: 1, monitor: true, tier: 0, extraDepth: 1}),
		c05KeyUpdatePart("keyupdate-v1-i2", c05KUConfig{version: protocol.Version1, suite: ref5.TLS_AES_256_GCM_SHA384, first: 2, interval: 2, monitor: true, tier: 0}),
		c05KeyUpdatePart("keyupdate-v1-late", c05KUConfig{version: protocol.Version1, suite: ref5.TLS_AES_128_GCM_SHA256, first: 1, interval: 1, monitor: true, tier: 0, late: true, lateDepth: [2]int{6, 8}}),
		c05KeyUpdatePart("keyupdate-v1-i2-late", c05KUConfig{version: protocol.Version1, suite: ref5.TLS_AES_256_GCM_SHA384, first: 2, interval: 2, monitor: true, tier: 0, late: true, lateDepth: [2]int{6, 8}}),
		c05KeyUpdatePart("keyupdate-v1-chacha", c05KUConfig{version: protocol.Version1, suite: ref5.TLS_CHACHA20_POLY1305_SHA256, first: 1, interval: 2, monitor: true, tier: 1}),
		c05KeyUpdatePart("keyupdate-v2", c05KUConfig{version: protocol.Version2, suite: ref5.TLS_AES_128_GCM_SHA256, first: 1, interval: 1, monitor: false, tier: 1}),
	}, func(msg string) { t.Fatal(msg) })
}

// c05CasesPart wraps an explicit case list as a Part.
func c05CasesPart(name string, mk func(e explore.Env) (n int, rule, bound string, run func(i int) explore.CaseResult)) explore.Part {
	return explore.Part{
		Name: name,
		Run: func(e explore.Env) *explore.Report {
			n, rule, bound, run := mk(e)
			rep := explore.RunCases(e, n, 0, true, run)
			rep.Rule = rule
			rep.Bound = bound
			if !rep.Exhaustive {
				rep.Bound += " (cut by the deadline)"
			}
			for _, i := range []int{0, n / 2, n - 1} {
				if i >= 0 && i < n {
					cr := run(i)
					rep.Samples = append(rep.Samples, fmt.Sprintf("case %d: %s", i, cr.Outcome))
				}
			}
			return rep
		},
		Replay: func(e explore.Env, raw json.RawMessage) *explore.Violation {
			_, _, _, run := mk(e)
			i := explore.ReplayIndex(raw)
			cr := run(i)
			if cr.Fail == nil {
				return nil
			}
			return &explore.Violation{Key: cr.Fail.Key, What: cr.Fail.What, Replay: raw, Human: cr.Human}
		},
	}
}

func c05Hex(s string) []byte {
	b, err := hex.DecodeString(strings.ReplaceAll(s, " ", ""))
	if err != nil {
		panic(err)
	}
	return b
}

func c05Version(v protocol.Version) uint32 { return uint32(v) }

func c05VName(v protocol.Version) string {
	if v == protocol.Version2 {
		return "v2"
	}
	return "v1"
}

func c05SuiteName(id uint16) string {
	switch id {
	case ref5.TLS_AES_128_GCM_SHA256:
		return "aes128gcm"
	case ref5.TLS_AES_256_GCM_SHA384:
		return "aes256gcm"
	case ref5.TLS_CHACHA20_POLY1305_SHA256:
		return "chacha20poly1305"
	}
	return fmt.Sprintf("suite%#x", id)
}

// c05Pattern returns n deterministic bytes of one of three patterns: 0 = all zero,
// 1 = all 0xff, 2 = a non-repeating ramp seeded by n.
func c05Pattern(kind, n int) []byte {
	b := make([]byte, n)
	for i := range b {
		switch kind {
		case 0:
			b[i] = 0
		case 1:
			b[i] = 0xff
		default:
			b[i] = byte(0x83 + 37*i + 11*n)
		}
	}
	return b
}
