package handshake

// Parts "pn-reorder-*": explicit-state BFS over ONE real sealer and the real opener of its peer
// (1-RTT: two updatableAEADs; long header: longHeaderSealer / longHeaderOpener as built by
// NewInitialAEAD or by the constructors cryptoSetup uses for the Handshake level), joined by a
// lossy, REORDERING network (3 packets in flight), with a sender that
//
//   - may SKIP packet numbers (RFC 9000 12.3 allows gaps; jumps of 1, ~100, ~25000, ... so that the
//     distance between packets crosses half of the 1-, 2-, 3- and 4-byte encoding windows within a
//     few operations), and
//   - truncates its packet numbers as RFC 9000 17.1 allows GIVEN WHAT IT KNOWS TO BE ACKNOWLEDGED:
//     the shortest encoding covering more than twice the distance to the largest acknowledged packet
//     (1 byte possible - quic-go itself never sends that, an RFC-conformant peer does), the
//     repository's own PacketNumberLengthForHeader, or always 4 bytes.
//
// Acknowledgements reach the sender either together with a delivery or later (own operation).
//
// What the other parts do not reach: pn-codec checks the pure function DecodePacketNumber for all
// (largest, pn) pairs, and the key-update BFS keeps all packet numbers below 20 with 2-byte
// encodings, so the STATE the decoding depends on - the opener's record of the largest packet
// number successfully processed, fed back by Open into DecodePacketNumber - never matters there.
// Here it does: a late packet followed by a packet more than half a window above it, a first packet
// far from 0, a key update in between.
//
// Oracle (reference model = largest packet number successfully processed so far, RFC 9000 A.3 as
// implemented by ref5, the reference keys of the sender): the independent implementation
// unprotects every delivered packet given the model's largest processed packet number. If it
// arrives at the header, packet number and payload that were protected ("within the permitted
// reordering window"), the real opener must do so, too. If the reference itself recovers a
// different packet number (the packet is outside the window), the property is silent and every
// behaviour short of opening to something else is accepted. A packet that was opened counts as
// processed (and can be acknowledged), whoever demanded it.

import (
	"bytes"
	"encoding/json"
	"fmt"
	"strings"

	"github.com/refraction-networking/uquic/internal/protocol"
	"github.com/refraction-networking/uquic/internal/utils"
	"github.com/refraction-networking/uquic/internal/verifmc/canon"
	"github.com/refraction-networking/uquic/internal/verifmc/explore"
	"github.com/refraction-networking/uquic/internal/verifmc/ref5"
	"github.com/refraction-networking/uquic/internal/wire"
)

type c05PRConfig struct {
	level   int // c05LvInitial | c05LvHandshake | c05Lv1RTT
	version protocol.Version
	suite   uint16 // ignored for Initial
	tier    int    // 1: thorough tier only
	// ku (1-RTT only): the operation confirm(sender) is in the alphabet; with FirstKeyUpdateInterval = 2
	// the real sender then initiates ONE key update on its own (it is never told about acknowledgements,
	// so a second one is not permitted), and the receiver has to follow while old-phase packets are late
	ku bool
	// depth[0|1]: BFS depth in the quick | thorough tier
	depth [2]int
	// jumps: distances between consecutive packet numbers the sender may choose from
	jumps []int64
	// fourBytes: the encoder "always 4 bytes" is in the alphabet
	fourBytes bool
}

const (
	c05PRWindow     = 3
	c05PRKUFirst    = 2
	c05PRMaxUnacked = int64(1) << 31 // RFC 9000 offers no encoding beyond (see assumptions)
)

// distances between consecutive packet numbers of the sender (1 = no gap): around half of the 1-, 2-,
// 3- and 4-byte encoding windows (128, 32768, 2^23, 2^31)
var (
	c05PRJumpsNear = []int64{1, 100, 25000}
	c05PRJumpsEdge = []int64{1, 127, 6_000_000, 1_600_000_000}
	c05PRJumpsWide = []int64{1, 100, 25000, 6_000_000}
)

var c05PREncNames = [...]string{"rfc-shortest", "repo", "4-bytes"}

type c05PRShared struct {
	cfg c05PRConfig
	cid [2]protocol.ConnectionID // [0] destination, [1] source (long headers)
	sec []byte                   // traffic secret of the sender's direction (not Initial)
	gen [2]ref5.Keys             // reference keys of the sender, by key phase
}

type c05PRPkt struct {
	raw, hdr, plain []byte
	pn              int64
	pnLen           int
	phase           int
}

type c05PRInst struct {
	sh *c05PRShared
	// real objects
	sealer LongHeaderSealer
	opener c05Opener
	snd    *updatableAEAD // 1-RTT only
	rcv    any            // *updatableAEAD | *longHeaderOpener (for the state key)
	// reference model
	nextPN    int64
	acked     int64 // largest packet number the sender knows to be acknowledged (-1: none)
	highest   int64 // largest packet number the receiver processed successfully (-1: none)
	sphase    int   // key phase of the sender
	rphase    int   // key phase of the receiver
	confirmed bool
	flight    []*c05PRPkt
	outcome   string
}

func c05PRNewShared(cfg c05PRConfig) *c05PRShared {
	sh := &c05PRShared{cfg: cfg}
	sh.cid[0] = protocol.ParseConnectionID([]byte{0xd0, 0x11, 0x22, 0x33, 0x44, 0x55, 0x66, 0x77})
	sh.cid[1] = protocol.ParseConnectionID([]byte{0xd1, 0x01, 0x02, 0x03})
	v := c05Version(cfg.version)
	if cfg.level == c05LvInitial {
		sh.gen[0], _ = ref5.InitialKeys(v, sh.cid[0].Bytes())
		return sh
	}
	sh.sec = c05Pattern(2, c05SecretLen(cfg.suite))
	sh.gen[0] = ref5.KeysFromSecret(sh.sec, v, cfg.suite)
	sh.gen[1] = ref5.KeysFromSecret(ref5.NextGeneration(sh.sec, v, cfg.suite), v, cfg.suite)
	sh.gen[1].HP = sh.gen[0].HP // header protection keys are not updated
	return sh
}

func c05PRNew(sh *c05PRShared) *c05PRInst {
	in := &c05PRInst{sh: sh, acked: -1, highest: -1}
	cfg := sh.cfg
	switch cfg.level {
	case c05LvInitial:
		in.sealer, _ = NewInitialAEAD(sh.cid[0], protocol.PerspectiveClient, cfg.version)
		_, o := NewInitialAEAD(sh.cid[0], protocol.PerspectiveServer, cfg.version)
		in.setLongOpener(o)
	case c05LvHandshake: // the constructors cryptoSetup.SetReadKey / SetWriteKey use for this level
		suite := getCipherSuite(cfg.suite)
		in.sealer = newLongHeaderSealer(createAEAD(suite, sh.sec, cfg.version), newHeaderProtector(suite, sh.sec, true, cfg.version))
		in.setLongOpener(newLongHeaderOpener(createAEAD(suite, sh.sec, cfg.version), newHeaderProtector(suite, sh.sec, true, cfg.version)))
	default:
		suite := getCipherSuite(cfg.suite)
		back := c05Pattern(2, c05SecretLen(cfg.suite)+1)[1:] // secret of the direction that carries no packets here
		in.snd = newUpdatableAEAD(utils.NewRTTStats(), nil, utils.DefaultLogger, cfg.version)
		in.snd.SetReadKey(suite, back) // client order: read key first
		in.snd.SetWriteKey(suite, sh.sec)
		r := newUpdatableAEAD(utils.NewRTTStats(), nil, utils.DefaultLogger, cfg.version)
		r.SetWriteKey(suite, back)
		r.SetReadKey(suite, sh.sec)
		in.sealer, in.rcv = in.snd, r
		in.opener = c05Opener{hd: r, decode: r.DecodePacketNumber, open: func(src []byte, pn protocol.PacketNumber, kp protocol.KeyPhaseBit, ad []byte) ([]byte, error) {
			return r.Open(nil, src, c05SetupRcvTime, pn, kp, ad)
		}}
	}
	return in
}

func (in *c05PRInst) setLongOpener(o LongHeaderOpener) {
	in.rcv = o
	in.opener = c05Opener{hd: o, decode: o.DecodePacketNumber, open: func(src []byte, pn protocol.PacketNumber, _ protocol.KeyPhaseBit, ad []byte) ([]byte, error) {
		return o.Open(nil, src, pn, ad)
	}}
}

// c05PRShortestLen is RFC 9000 17.1 read literally: the smallest packet number size "able to
// represent MORE THAN twice as large a range as the difference between the largest acknowledged
// packet number and the packet number being sent" (no acknowledgement yet: pn + 1). 0: none.
func c05PRShortestLen(pn, acked int64) int {
	unacked := pn + 1
	if acked >= 0 {
		unacked = pn - acked
	}
	for n := 1; n <= 4; n++ {
		if int64(1)<<(8*uint(n)) > 2*unacked {
			return n
		}
	}
	return 0
}

// lens lists the distinct packet number lengths the sender's encoders choose for pn (in encoder order).
func (in *c05PRInst) lens(pn int64) (out [3]int) {
	short := c05PRShortestLen(pn, in.acked)
	if short == 0 || pn-in.acked > c05PRMaxUnacked {
		return
	}
	la := protocol.InvalidPacketNumber
	if in.acked >= 0 {
		la = protocol.PacketNumber(in.acked)
	}
	out[0] = short
	if l := int(protocol.PacketNumberLengthForHeader(protocol.PacketNumber(pn), la)); l != short {
		out[1] = l
	}
	if in.sh.cfg.fourBytes && out[0] != 4 && out[1] != 4 {
		out[2] = 4
	}
	return
}

func (in *c05PRInst) Ops() []explore.Op {
	var ops []explore.Op
	if in.sh.cfg.ku && !in.confirmed && in.nextPN == 0 {
		// only as the first operation: the sender is confirmed before its first packet or never
		ops = append(ops, explore.Op{N: "confirm"})
	}
	if len(in.flight) < c05PRWindow {
		for j, d := range in.sh.cfg.jumps {
			for enc, l := range in.lens(in.nextPN + d - 1) {
				if l != 0 {
					ops = append(ops, explore.Op{N: "send", A: j, B: enc})
				}
			}
		}
	}
	for i := range in.flight {
		ops = append(ops, explore.Op{N: "deliver", A: i}, explore.Op{N: "deliver", A: i, B: 1})
	}
	if len(in.flight) == c05PRWindow {
		// a packet that is never delivered is as good as lost; the operation only makes room (the
		// receiver cannot tell a lost packet from a skipped packet number, and those are in the alphabet)
		ops = append(ops, explore.Op{N: "drop"})
	}
	if in.highest > in.acked {
		ops = append(ops, explore.Op{N: "ack"})
	}
	return ops
}

func (in *c05PRInst) header(pn int64, pnLen int, kp protocol.KeyPhaseBit) []byte {
	cfg := in.sh.cfg
	if cfg.level == c05Lv1RTT {
		b, err := wire.AppendShortHeader(nil, in.sh.cid[0], protocol.PacketNumber(pn), protocol.PacketNumberLen(pnLen), kp)
		explore.Must(err == nil, "AppendShortHeader: %v", err)
		return b
	}
	typ := protocol.PacketTypeInitial
	if cfg.level == c05LvHandshake {
		typ = protocol.PacketTypeHandshake
	}
	eh := &wire.ExtendedHeader{
		Header: wire.Header{
			Type:             typ,
			Version:          cfg.version,
			DestConnectionID: in.sh.cid[0],
			SrcConnectionID:  in.sh.cid[1],
			Length:           protocol.ByteCount(pnLen + 8 + ref5.TagLen),
		},
		PacketNumber:    protocol.PacketNumber(pn),
		PacketNumberLen: protocol.PacketNumberLen(pnLen),
	}
	b, err := eh.Append(nil, cfg.version)
	explore.Must(err == nil, "ExtendedHeader.Append: %v", err)
	return b
}

func (in *c05PRInst) key(what string, p *c05PRPkt) string {
	dir := "in-order"
	if p.pn < in.highest {
		dir = "late"
	}
	return fmt.Sprintf("pn-reorder:%s:%s:pnlen=%d:%s", what, c05LvNames[in.sh.cfg.level], p.pnLen, dir)
}

func (in *c05PRInst) send(jump, enc int) *explore.Fail {
	pn := in.nextPN + in.sh.cfg.jumps[jump] - 1
	pnLen := in.lens(pn)[enc]
	explore.Must(pnLen != 0, "send(%d,%d) is not enabled", jump, enc)
	in.nextPN = pn + 1
	kp := protocol.KeyPhaseZero
	if in.snd != nil {
		kp = in.snd.KeyPhase() // as the packet packer does; may initiate the key update
		if kp != c05Bit(in.sphase) {
			// whether the update was permitted is the subject of the keyupdate-* parts; here only the first
			// one can happen (confirmed, no acknowledgement ever passed to the sender's AEAD)
			explore.Must(in.confirmed && in.sphase == 0, "model: sender initiated a key update in phase %d (confirmed=%v)", in.sphase, in.confirmed)
			in.sphase++
			in.outcome += " initiates-update"
		}
	}
	p := &c05PRPkt{pn: pn, pnLen: pnLen, phase: in.sphase}
	p.hdr = in.header(pn, pnLen, kp)
	p.plain = c05KUPlain(0, in.sphase, pn&0xffff, int64(pnLen))
	p.raw = c05RealProtect(in.sealer, p.hdr, p.plain, protocol.PacketNumber(pn))
	want, err := ref5.Protect(p.hdr, p.plain, uint64(pn), in.sh.gen[p.phase])
	explore.Must(err == nil, "ref5.Protect: %v", err)
	in.outcome += fmt.Sprintf(" pnlen=%d %s", pnLen, c05PREncNames[enc])
	if !bytes.Equal(want, p.raw) {
		return explore.Failf(in.key("wire-mismatch", p), "packet pn=%d (%d-byte packet number, key phase %d) is protected as %x, the reference gives %x", pn, pnLen, p.phase, p.raw, want)
	}
	in.flight = append(in.flight, p)
	return nil
}

// reference unprotects raw with the sender's reference keys, given the largest packet number processed so far.
func (in *c05PRInst) reference(p *c05PRPkt, largest int64) bool {
	var hdr, payload []byte
	var pn uint64
	var err error
	if in.sh.cfg.level == c05Lv1RTT {
		hdr, pn, payload, err = ref5.UnprotectShortFull(p.raw, in.sh.gen[p.phase], largest, in.sh.cid[0].Len())
	} else {
		hdr, pn, payload, _, err = ref5.UnprotectLongFull(p.raw, in.sh.gen[p.phase], largest)
	}
	if int64(pn) != p.pn {
		return false // outside the window the truncated packet number can be recovered in
	}
	explore.Must(err == nil && bytes.Equal(hdr, p.hdr) && bytes.Equal(payload, p.plain), "reference recovers pn=%d but does not open its own packet: %v", p.pn, err)
	return true
}

func (in *c05PRInst) deliver(i int, withAck bool) *explore.Fail {
	p := in.flight[i]
	in.flight = append(append([]*c05PRPkt(nil), in.flight[:i]...), in.flight[i+1:]...)
	// reference verdict. The repository's openers start as if packet 0 had been processed (the RFC
	// leaves the start value open); before the first packet both readings have to agree.
	inWindow := in.reference(p, in.highest)
	startSensitive := false
	if in.highest < 0 {
		alt := in.reference(p, 0)
		startSensitive = alt != inWindow
		inWindow = inWindow && alt
	}
	key := func(what string) string { return in.key(what, p) }
	what := fmt.Sprintf("packet pn=%d (%d-byte packet number %#x, key phase %d, sent knowing pn<=%d acknowledged) at a receiver that has processed packets up to pn=%d (key phase %d)",
		p.pn, p.pnLen, uint64(p.pn)&(1<<(8*uint(p.pnLen))-1), p.phase, in.acked, in.highest, in.rphase)
	// the real receiver, as packetUnpacker does it
	pnOff := len(p.hdr) - p.pnLen
	data := append([]byte(nil), p.raw...)
	explore.Must(len(data) >= pnOff+4+16, "packet too short for a sample")
	orig := append([]byte(nil), data[pnOff:pnOff+4]...)
	in.opener.hd.DecryptHeader(data[pnOff+4:pnOff+4+16], &data[0], data[pnOff:pnOff+4])
	pnLen := int(data[0]&3) + 1
	copy(data[pnOff+pnLen:pnOff+4], orig[pnLen:])
	var wirePN protocol.PacketNumber
	for _, b := range data[pnOff : pnOff+pnLen] {
		wirePN = wirePN<<8 | protocol.PacketNumber(b)
	}
	pn := in.opener.decode(wirePN, protocol.PacketNumberLen(pnLen))
	kp := protocol.KeyPhaseZero
	if in.sh.cfg.level == c05Lv1RTT && data[0]&0x4 != 0 {
		kp = protocol.KeyPhaseOne
	}
	dec, err := in.opener.open(data[pnOff+pnLen:], pn, kp, data[:pnOff+pnLen])
	dir := "in-order"
	if p.pn < in.highest {
		dir = "late"
	}
	in.outcome += fmt.Sprintf(" pnlen=%d %s in-window=%v rel=%+d %s", p.pnLen, dir, inWindow, p.phase-in.rphase, c05ErrClass(err))
	if startSensitive {
		in.outcome += " start-value-sensitive"
	}
	if c05IsKeyUpdateError(err) {
		return explore.Failf(key("keyupdate-error-against-conformant-peer"), "%s: Open returned %v although the peer follows the protocol", what, err)
	}
	if err != nil {
		if inWindow {
			return explore.Failf(key("genuine-packet-not-opened"), "%s: the receiver recovers packet number %d and Open fails with %v; RFC 9000 A.3 with the largest processed packet number %d recovers %d and the reference opens the packet", what, pn, err, in.highest, p.pn)
		}
		return nil // outside the reordering window: the property is silent
	}
	if !bytes.Equal(data[:pnOff+pnLen], p.hdr) || int64(pn) != p.pn {
		return explore.Failf(key("genuine-packet-header-differs"), "%s: opened with header %x and packet number %d, protected were %x and %d", what, data[:pnOff+pnLen], pn, p.hdr, p.pn)
	}
	if !bytes.Equal(dec, p.plain) {
		return explore.Failf(key("genuine-packet-payload-differs"), "%s: opened to %x, sent %x", what, dec, p.plain)
	}
	explore.Must(p.phase <= in.rphase+1, "model: sender two phases ahead")
	if p.phase == in.rphase+1 {
		in.rphase++
		in.outcome += " follows-update"
	}
	in.highest = max(in.highest, p.pn)
	if withAck {
		in.acked = max(in.acked, in.highest)
	}
	return nil
}

func (in *c05PRInst) Apply(op explore.Op) *explore.Fail {
	in.outcome = op.N
	var fl *explore.Fail
	switch op.N {
	case "confirm":
		in.snd.SetHandshakeConfirmed()
		in.confirmed = true
	case "send":
		fl = in.send(op.A, op.B)
	case "deliver":
		if op.B == 1 {
			in.outcome = "deliver+ack"
		}
		fl = in.deliver(op.A, op.B == 1)
	case "drop":
		in.flight = append(append([]*c05PRPkt(nil), in.flight[:op.A]...), in.flight[op.A+1:]...)
	case "ack":
		in.acked = max(in.acked, in.highest)
	default:
		explore.Must(false, "unknown op %v", op)
	}
	if fl != nil {
		return fl
	}
	if r, ok := in.rcv.(*updatableAEAD); ok && int(r.keyPhase) != in.rphase {
		return explore.Failf("pn-reorder:keyphase-changed-without-permission", "after %v the receiver is in key phase %d, the model says %d", op, r.keyPhase, in.rphase)
	}
	return nil
}

func (in *c05PRInst) Outcome() string { return in.outcome }

func c05PRSkip(typ, field string) bool {
	if typ == "handshake.longHeaderOpener" {
		// keys are fixed per part; nonceBuf is scratch space written before every use
		return field == "aead" || field == "headerProtector" || field == "nonceBuf"
	}
	return c05KUSkip(typ, field)
}

func (in *c05PRInst) Key() string {
	var sb strings.Builder
	opt := canon.Options{SkipField: c05PRSkip, TimeBase: int64(c05SetupRcvTime)}
	if in.snd != nil {
		sb.WriteString(canon.Dump(in.snd, opt))
		r := in.rcv.(*updatableAEAD)
		fmt.Fprintf(&sb, "|prev=%v|exp=%d|", r.prevRcvAEAD != nil, c05KURelTime(r.prevRcvAEADExpiry, c05SetupRcvTime))
	}
	sb.WriteString(canon.Dump(in.rcv, opt))
	fmt.Fprintf(&sb, "M{%d %d %d %d %d %v}F[", in.nextPN, in.acked, in.highest, in.sphase, in.rphase, in.confirmed)
	for _, p := range in.flight {
		fmt.Fprintf(&sb, "%d/%d/%d,", p.pn, p.pnLen, p.phase)
	}
	sb.WriteString("]")
	return sb.String()
}

func c05PNReorderPart(name string, cfg c05PRConfig) explore.Part {
	// package-level key update intervals: set for the duration of this part (parts run one after the
	// other) and restored afterwards, because the parts that follow rely on the defaults
	intervals := func() (restore func()) {
		oldFirst := FirstKeyUpdateInterval
		FirstKeyUpdateInterval = c05PRKUFirst
		reset := SetKeyUpdateInterval(1 << 40)
		return func() { FirstKeyUpdateInterval = oldFirst; reset() }
	}
	mk := func(e explore.Env) explore.BFSSpec {
		sh := c05PRNewShared(cfg)
		depth := cfg.depth[0]
		if e.Thorough() {
			depth = cfg.depth[1]
		}
		suite := "aes128gcm"
		if cfg.level != c05LvInitial {
			suite = c05SuiteName(cfg.suite)
		}
		ku := ""
		if cfg.ku {
			ku = fmt.Sprintf(" confirm [handshake confirmed at the sender: with FirstKeyUpdateInterval=%d it initiates one key update by itself, the receiver has to follow with old-phase packets still in flight; the clock stands still, so the previous read keys stay],", c05PRKUFirst)
		}
		return explore.BFSSpec{
			New:              func() explore.Instance { return c05PRNew(sh) },
			MaxDepth:         depth,
			PanicIsViolation: true,
			Rule: fmt.Sprintf("BFS over one real %s sealer and the real opener of its peer (%s, %s); alphabet:%s send(jump, enc) [next packet number = previous + jump, jump in %v; packet number length chosen by enc in {shortest RFC 9000 17.1 allows given the largest packet number the sender knows to be acknowledged (1 byte possible), protocol.PacketNumberLengthForHeader, 4 bytes}; real header serialisation, Seal, EncryptHeader; compared bit by bit with ref5.Protect], deliver(i, ack) of any of the <=%d packets in flight [DecryptHeader, DecodePacketNumber, Open as in packetUnpacker; ack=1: the acknowledgement of everything processed reaches the sender at once], drop(i), ack [the acknowledgement reaches the sender later]; oracle: ref5 (RFC 9000 A.3 + RFC 9001) unprotects the packet given the LARGEST PACKET NUMBER PROCESSED SO FAR; when it recovers the true packet number the real opener must open the packet to exactly the protected header, packet number and payload, otherwise the property is silent; state = canon(opener [+ both updatableAEADs]) + model (next pn, largest acked, largest processed, key phases) + packets in flight",
				c05LvNames[cfg.level], c05VName(cfg.version), suite, ku, cfg.jumps, c05PRWindow),
		}
	}
	return explore.Part{
		Name: name,
		Run: func(e explore.Env) *explore.Report {
			if cfg.tier == 1 && !e.Thorough() {
				return nil
			}
			defer intervals()()
			return explore.BFS(e, mk(e))
		},
		Replay: func(e explore.Env, raw json.RawMessage) *explore.Violation {
			defer intervals()()
			return explore.ReplayBFS(mk(e), raw)
		},
	}
}
