package handshake

// Parts "setup-install" and "setup-handshake": the packet protection of EVERY encryption
// level as the real cryptoSetup installs it.
//
// The other parts of this target build sealers / openers / header protectors with the
// constructors directly. What cryptoSetup.setReadKey / setWriteKey do with a traffic secret
// (which constructor, which header form, which secret for which direction, which level is
// dropped when) is only reached through a cryptoSetup. Here two real cryptoSetups, a client
// and a server, are taken through key installation
//
//   - "setup-install": by feeding them the tls.QUICEvents of a handshake with KNOWN traffic
//     secrets (so that every level, 0-RTT included, has independent reference keys), and
//   - "setup-handshake": by a real TLS 1.3 handshake between them (full, resumed, resumed
//     with early data accepted / rejected, with a HelloRetryRequest), secrets of the
//     Handshake and 1-RTT levels taken from the TLS key log;
//
// and after EVERY step each endpoint protects packets (real wire header, Seal, header
// protection with the sample at pn_offset+4 - what packetPacker.encryptPacket does) at every
// level it has a sealer for. A packet is delivered to the peer at the first step at which
// the peer hands out an opener for that level and is unprotected the way packetUnpacker does
// it. Oracle (property text only): the peer arrives at exactly the header bytes, packet
// number and payload that were protected; where reference keys are known the protected
// packet is bit-identical to ref5.Protect; header protection of sealer and opener agree
// with each other (and with the reference mask: 4 bits of the first byte for long headers,
// 5 for short ones) for every pattern of the low five bits of the first byte.

import (
	"bytes"
	"context"
	"crypto/ed25519"
	"crypto/rand"
	"crypto/x509"
	"crypto/x509/pkix"
	"fmt"
	"math/big"
	"net"
	"strings"
	"sync"
	"time"

	tls "github.com/refraction-networking/utls"

	"github.com/refraction-networking/uquic/internal/monotime"
	"github.com/refraction-networking/uquic/internal/protocol"
	"github.com/refraction-networking/uquic/internal/qtls"
	"github.com/refraction-networking/uquic/internal/utils"
	"github.com/refraction-networking/uquic/internal/verifmc/explore"
	"github.com/refraction-networking/uquic/internal/verifmc/ref5"
	"github.com/refraction-networking/uquic/internal/wire"
)

const (
	c05LvInitial = iota
	c05Lv0RTT
	c05LvHandshake
	c05Lv1RTT
)

var (
	c05LvNames   = [4]string{"initial", "0rtt", "handshake", "1rtt"}
	c05LvShort   = [4]string{"I", "0", "H", "1"}
	c05SideNames = [2]string{"client", "server"}
)

const c05SetupRcvTime = monotime.Time(1_000_000_000_000)

type c05FlightPkt struct {
	raw, hdr, payload []byte
	pn                protocol.PacketNumber
	sealedAt          string
}

// c05Opener is the part of LongHeaderOpener / ShortHeaderOpener the unpacker uses.
type c05Opener struct {
	hd     headerDecryptor
	decode func(protocol.PacketNumber, protocol.PacketNumberLen) protocol.PacketNumber
	open   func(src []byte, pn protocol.PacketNumber, kp protocol.KeyPhaseBit, ad []byte) ([]byte, error)
}

// c05Link is a client and a server cryptoSetup plus the packets in flight between them.
type c05Link struct {
	v       protocol.Version
	ep      [2]*cryptoSetup          // 0 client, 1 server
	cid     [2]protocol.ConnectionID // the connection ID endpoint i is addressed with
	ref     [4][2]*ref5.Keys         // reference keys of (level, sender); nil = not known
	flight  [4][2][]c05FlightPkt
	nextPN  [4][2]protocol.PacketNumber
	sealed  [4][2]int
	opened  [4][2]int
	swept   [4][2]int
	late    [4][2]int // packets opened at a later step than the one they were sealed at
	samples int
	step    int
	trace   []string
	trans   int64
}

func (l *c05Link) sealer(side, lv int) (LongHeaderSealer, bool) {
	var s LongHeaderSealer
	var err error
	switch lv {
	case c05LvInitial:
		s, err = l.ep[side].GetInitialSealer()
	case c05Lv0RTT:
		s, err = l.ep[side].Get0RTTSealer()
	case c05LvHandshake:
		s, err = l.ep[side].GetHandshakeSealer()
	default:
		var sh ShortHeaderSealer
		sh, err = l.ep[side].Get1RTTSealer()
		if err == nil {
			s = sh
		}
	}
	return s, err == nil && s != nil
}

func (l *c05Link) opener(side, lv int) (c05Opener, bool) {
	if lv == c05Lv1RTT {
		o, err := l.ep[side].Get1RTTOpener()
		if err != nil || o == nil {
			return c05Opener{}, false
		}
		return c05Opener{hd: o, decode: o.DecodePacketNumber, open: func(src []byte, pn protocol.PacketNumber, kp protocol.KeyPhaseBit, ad []byte) ([]byte, error) {
			return o.Open(nil, src, c05SetupRcvTime, pn, kp, ad)
		}}, true
	}
	var o LongHeaderOpener
	var err error
	switch lv {
	case c05LvInitial:
		o, err = l.ep[side].GetInitialOpener()
	case c05Lv0RTT:
		o, err = l.ep[side].Get0RTTOpener()
	default:
		o, err = l.ep[side].GetHandshakeOpener()
	}
	if err != nil || o == nil {
		return c05Opener{}, false
	}
	return c05Opener{hd: o, decode: o.DecodePacketNumber, open: func(src []byte, pn protocol.PacketNumber, _ protocol.KeyPhaseBit, ad []byte) ([]byte, error) {
		return o.Open(nil, src, pn, ad)
	}}, true
}

// header serialises the unprotected header with the repository's own wire code.
func (l *c05Link) header(lv, from int, s LongHeaderSealer, pn protocol.PacketNumber, pnLen, payloadLen int) []byte {
	if lv == c05Lv1RTT {
		kp := s.(ShortHeaderSealer).KeyPhase()
		b, err := wire.AppendShortHeader(nil, l.cid[1-from], pn, protocol.PacketNumberLen(pnLen), kp)
		explore.Must(err == nil, "AppendShortHeader: %v", err)
		return b
	}
	eh := &wire.ExtendedHeader{
		Header: wire.Header{
			Type:             [3]protocol.PacketType{protocol.PacketTypeInitial, protocol.PacketType0RTT, protocol.PacketTypeHandshake}[lv],
			Version:          l.v,
			DestConnectionID: l.cid[1-from],
			SrcConnectionID:  l.cid[from],
			Length:           protocol.ByteCount(pnLen + payloadLen + ref5.TagLen),
		},
		PacketNumber:    pn,
		PacketNumberLen: protocol.PacketNumberLen(pnLen),
	}
	if lv == c05LvInitial && from == 0 && l.step%2 == 1 {
		eh.Token = c05Pattern(2, 7)
	}
	b, err := eh.Append(nil, l.v)
	explore.Must(err == nil, "ExtendedHeader.Append: %v", err)
	return b
}

func (l *c05Link) failf(what string, lv, from int, format string, a ...any) *explore.Fail {
	return explore.Failf(fmt.Sprintf("setup-%s:%s:from-%s", what, c05LvNames[lv], c05SideNames[from]),
		"%s packets of the %s, keys installed by cryptoSetup, after [%s]: %s", c05LvNames[lv], c05SideNames[from], strings.Join(l.trace, "; "), fmt.Sprintf(format, a...))
}

// probe is run after every step: every endpoint protects a few packets at every level it
// has a sealer for; everything in flight towards an endpoint that hands out the opener of
// that level is delivered.
func (l *c05Link) probe(stepName string) *explore.Fail {
	l.step++
	l.trace = append(l.trace, stepName)
	sizes := [4]int{0, 1, 23, 1200}
	for lv := 0; lv < 4; lv++ {
		for from := 0; from < 2; from++ {
			s, haveSealer := l.sealer(from, lv)
			if haveSealer {
				if s.Overhead() != ref5.TagLen {
					return l.failf("overhead", lv, from, "Overhead() = %d, want 16", s.Overhead())
				}
				for pnLen := 1; pnLen <= 4; pnLen++ {
					sz := sizes[(pnLen+l.step)%4]
					if sz < 4-pnLen {
						sz = 4 - pnLen // the minimum that still yields a header protection sample
					}
					pn := l.nextPN[lv][from]
					l.nextPN[lv][from]++
					payload := c05Pattern(2, sz)
					hdr := l.header(lv, from, s, pn, pnLen, sz)
					pnOff := len(hdr) - pnLen
					raw := append([]byte(nil), hdr...)
					raw = s.Seal(raw, payload, pn, hdr)
					s.EncryptHeader(raw[pnOff+4:pnOff+4+16], &raw[0], raw[pnOff:pnOff+pnLen])
					l.trans++
					l.sealed[lv][from]++
					if rk := l.ref[lv][from]; rk != nil {
						want, err := ref5.Protect(hdr, payload, uint64(pn), *rk)
						explore.Must(err == nil, "ref5.Protect: %v", err)
						if !bytes.Equal(raw, want) {
							d := 0
							for d < len(raw) && d < len(want) && raw[d] == want[d] {
								d++
							}
							return l.failf("ref-mismatch", lv, from, "packet pn=%d (%d byte packet number, %d bytes payload) protected by the implementation differs from the RFC 9001 reference at byte %d (header is %d bytes): %x... vs %x...",
								pn, pnLen, sz, d, len(hdr), raw[:min(len(raw), 32)], want[:min(len(want), 32)])
						}
					}
					l.flight[lv][from] = append(l.flight[lv][from], c05FlightPkt{raw: raw, hdr: hdr, payload: payload, pn: pn, sealedAt: stepName})
				}
			}
			if len(l.flight[lv][from]) == 0 {
				continue
			}
			// the opener is only asked for when a packet of that level arrives, as in the connection
			o, haveOpener := l.opener(1-from, lv)
			if !haveOpener {
				continue
			}
			for _, p := range l.flight[lv][from] {
				if f := l.deliver(lv, from, o, p); f != nil {
					return f
				}
				if p.sealedAt != stepName {
					l.late[lv][from]++
				}
			}
			l.flight[lv][from] = nil
			if haveSealer {
				if f := l.sweep(lv, from, s, o); f != nil {
					return f
				}
			}
		}
	}
	return nil
}

// deliver removes the protection the way packetUnpacker does.
func (l *c05Link) deliver(lv, from int, o c05Opener, p c05FlightPkt) *explore.Fail {
	sentLen := int(p.hdr[0]&3) + 1
	pnOff := len(p.hdr) - sentLen
	data := append([]byte(nil), p.raw...)
	explore.Must(len(data) >= pnOff+4+16, "packet too short for a sample")
	orig := append([]byte(nil), data[pnOff:pnOff+4]...)
	o.hd.DecryptHeader(data[pnOff+4:pnOff+4+16], &data[0], data[pnOff:pnOff+4])
	pnLen := int(data[0]&3) + 1
	copy(data[pnOff+pnLen:pnOff+4], orig[pnLen:])
	l.trans++
	if !bytes.Equal(data[:pnOff+pnLen], p.hdr) {
		return l.failf("header-differs", lv, from, "packet pn=%d sealed at step %q: after removing header protection the %s reads the header %x, protected was %x",
			p.pn, p.sealedAt, c05SideNames[1-from], data[:pnOff+pnLen], p.hdr)
	}
	var wirePN protocol.PacketNumber
	for _, b := range data[pnOff : pnOff+pnLen] {
		wirePN = wirePN<<8 | protocol.PacketNumber(b)
	}
	pn := o.decode(wirePN, protocol.PacketNumberLen(pnLen))
	if pn != p.pn {
		return l.failf("pn-differs", lv, from, "packet pn=%d sealed at step %q decodes to packet number %d", p.pn, p.sealedAt, pn)
	}
	kp := protocol.KeyPhaseZero
	if lv == c05Lv1RTT && data[0]&0x4 != 0 {
		kp = protocol.KeyPhaseOne
	}
	dec, err := o.open(data[pnOff+pnLen:], pn, kp, data[:pnOff+pnLen])
	if err != nil {
		return l.failf("not-opened", lv, from, "packet pn=%d (%d bytes payload) sealed at step %q is not opened by the %s: %v", p.pn, len(p.payload), p.sealedAt, c05SideNames[1-from], err)
	}
	if !bytes.Equal(dec, p.payload) {
		return l.failf("payload-differs", lv, from, "packet pn=%d sealed at step %q opens to a different payload", p.pn, p.sealedAt)
	}
	l.opened[lv][from]++
	return nil
}

// sweep: header protection of the sender's sealer and of the receiver's opener over
// l.samples ciphertext samples x all 32 patterns of the low five bits of the first byte.
// With reference keys the samples are extended until every bit of the reference mask's
// first byte has been seen set and clear, so that a protector that masks the wrong bits
// of the first byte cannot escape.
func (l *c05Link) sweep(lv, from int, s LongHeaderSealer, o c05Opener) *explore.Fail {
	rk := l.ref[lv][from]
	base := byte(0x40)
	bits := byte(0x1f)
	if lv != c05Lv1RTT {
		base, bits = 0xc0, 0x0f
	}
	var seen1, seen0 byte
	for k := 0; ; k++ {
		if k >= l.samples && (rk == nil || seen1 == 0xff && seen0 == 0xff) {
			break
		}
		explore.Must(k < 4096, "no sample set covers all mask bits")
		sample := make([]byte, 16)
		for i := range sample {
			sample[i] = byte(0x83+37*i+11*k) ^ byte(k>>3) ^ byte(lv<<6)
		}
		var mask [5]byte
		if rk != nil {
			mask = rk.HeaderMask(sample)
			seen1 |= mask[0]
			seen0 |= ^mask[0]
		}
		for x := 0; x < 32; x++ {
			fb := base ^ byte(x)
			pnLen := int(fb&3) + 1
			first := fb
			pnb := []byte{0x11, 0xa2, 0x3c, 0xf4}[:pnLen]
			plain := append([]byte(nil), pnb...)
			s.EncryptHeader(sample, &first, pnb)
			l.trans++
			if rk != nil {
				ok := first == fb^mask[0]&bits
				for j := range pnb {
					ok = ok && pnb[j] == plain[j]^mask[1+j]
				}
				if !ok {
					return l.failf("hp-mask", lv, from, "EncryptHeader(sample %x, first byte %#02x, packet number bytes %x) = %#02x %x; RFC 9001 5.4 mask %x (%d bits of the first byte)", sample, fb, plain, first, pnb, mask, map[byte]int{0x0f: 4, 0x1f: 5}[bits])
				}
			}
			o.hd.DecryptHeader(sample, &first, pnb)
			if first != fb || !bytes.Equal(pnb, plain) {
				return l.failf("header-differs", lv, from, "the %s's DecryptHeader does not invert the %s's EncryptHeader (sample %x): first byte %#02x -> %#02x, packet number bytes %x -> %x", c05SideNames[1-from], c05SideNames[from], sample, fb, first, plain, pnb)
			}
		}
	}
	l.swept[lv][from]++
	return nil
}

// summary lists, per level and direction, how many packets were opened by the peer
// ("+n late": at a later step than they were sealed) and how many were never deliverable.
func (l *c05Link) summary() string {
	var sb strings.Builder
	for lv := 0; lv < 4; lv++ {
		for from := 0; from < 2; from++ {
			if l.sealed[lv][from] == 0 {
				continue
			}
			fmt.Fprintf(&sb, " %s%s", c05LvShort[lv], [2]string{">", "<"}[from])
			switch {
			case l.opened[lv][from] == 0:
				sb.WriteString("undeliverable")
			case len(l.flight[lv][from]) > 0:
				sb.WriteString("partly")
			case l.late[lv][from] > 0:
				sb.WriteString("late")
			default:
				sb.WriteString("ok")
			}
		}
	}
	return sb.String()
}

func (l *c05Link) result(name string, i int, f *explore.Fail) explore.CaseResult {
	if f != nil {
		return explore.CaseResult{Outcome: "VIOLATION " + f.Key, Fail: f, Replay: i, Human: append([]string{name}, l.trace...), Trans: l.trans}
	}
	return explore.CaseResult{Outcome: name + ":" + l.summary(), Trans: l.trans}
}

func c05SetupSamples(thorough bool) int {
	if thorough {
		return 256
	}
	return 64
}

// ---------------------------------------------------------------------------------------
// part "setup-install"

type c05InstallEv struct {
	side   int
	kind   tls.QUICEventKind // QUICSetReadSecret, QUICSetWriteSecret, QUICRejectedEarlyData; 0 = call
	level  tls.QUICEncryptionLevel
	secret int // index of the secret: 0 early, 1 client handshake, 2 server handshake, 3 client application, 4 server application
	call   string
}

// The order in which utls emits the events of one handshake (per endpoint), interleaved
// as the flights are exchanged.
func c05InstallScript(kind int) (name string, evs []c05InstallEv) {
	const C, S = 0, 1
	rd, wr := tls.QUICSetReadSecret, tls.QUICSetWriteSecret
	early, hs, app := tls.QUICEncryptionLevelEarly, tls.QUICEncryptionLevelHandshake, tls.QUICEncryptionLevelApplication
	switch kind {
	case 1: // early data offered and accepted
		name = "0rtt-accepted"
		evs = append(evs, c05InstallEv{side: C, kind: wr, level: early, secret: 0}, c05InstallEv{side: S, kind: rd, level: early, secret: 0})
	case 2: // early data offered, the server does not take it
		name = "0rtt-rejected"
		evs = append(evs, c05InstallEv{side: C, kind: wr, level: early, secret: 0})
	default:
		name = "no-0rtt"
	}
	evs = append(evs,
		c05InstallEv{side: S, kind: wr, level: hs, secret: 2},
		c05InstallEv{side: S, kind: rd, level: hs, secret: 1},
		c05InstallEv{side: S, kind: wr, level: app, secret: 4},
		c05InstallEv{side: C, kind: wr, level: hs, secret: 1},
		c05InstallEv{side: C, kind: rd, level: hs, secret: 2},
	)
	if kind == 2 {
		evs = append(evs, c05InstallEv{side: C, kind: tls.QUICRejectedEarlyData})
	}
	evs = append(evs,
		c05InstallEv{side: C, call: "DiscardInitialKeys"},
		c05InstallEv{side: C, kind: rd, level: app, secret: 4},
		c05InstallEv{side: C, kind: wr, level: app, secret: 3},
		c05InstallEv{side: S, call: "DiscardInitialKeys"},
		c05InstallEv{side: S, kind: rd, level: app, secret: 3},
		c05InstallEv{side: S, call: "SetHandshakeConfirmed"},
		c05InstallEv{side: C, call: "SetHandshakeConfirmed"},
	)
	return name, evs
}

func c05InstallCase(thorough bool) func(i int) explore.CaseResult {
	return func(i int) explore.CaseResult {
		script := i % 3
		pat := i / 3 % 3
		v := c05Versions[i/9%2]
		suiteID := c05Suites[i/18%3]
		sname, evs := c05InstallScript(script)
		name := fmt.Sprintf("%s/%s/%s/secrets%d", sname, c05SuiteName(suiteID), c05VName(v), pat)
		dcid := protocol.ParseConnectionID(c05Pattern(2, 8+pat))
		l := &c05Link{v: v, samples: c05SetupSamples(thorough)}
		l.cid = [2]protocol.ConnectionID{protocol.ParseConnectionID(c05Pattern(2, 5*pat)), dcid}
		for side, p := range []protocol.Perspective{protocol.PerspectiveClient, protocol.PerspectiveServer} {
			l.ep[side] = newCryptoSetup(dcid, &wire.TransportParameters{}, utils.NewRTTStats(), nil, utils.DefaultLogger, p, v)
		}
		ci, si := ref5.InitialKeys(c05Version(v), dcid.Bytes())
		l.ref[c05LvInitial] = [2]*ref5.Keys{&ci, &si}
		var secrets [5][]byte
		var keys [5]ref5.Keys
		for k := range secrets {
			secrets[k] = c05Pattern(pat, c05SecretLen(suiteID))
			for j := range secrets[k] {
				secrets[k][j] ^= byte(0x35*k + 7*j*k + 1)
			}
			keys[k] = ref5.KeysFromSecret(secrets[k], c05Version(v), suiteID)
		}
		l.ref[c05Lv0RTT][0] = &keys[0]
		l.ref[c05LvHandshake] = [2]*ref5.Keys{&keys[1], &keys[2]}
		l.ref[c05Lv1RTT] = [2]*ref5.Keys{&keys[3], &keys[4]}
		if f := l.probe("new"); f != nil {
			return l.result(name, i, f)
		}
		for _, ev := range evs {
			var step string
			if ev.call != "" {
				step = c05SideNames[ev.side] + "." + ev.call
				if ev.call == "DiscardInitialKeys" {
					l.ep[ev.side].DiscardInitialKeys()
				} else {
					l.ep[ev.side].SetHandshakeConfirmed()
				}
			} else {
				qe := tls.QUICEvent{Kind: ev.kind, Level: ev.level, Suite: suiteID}
				step = fmt.Sprintf("%s.handleEvent(%v)", c05SideNames[ev.side], ev.kind)
				if ev.kind != tls.QUICRejectedEarlyData {
					qe.Data = append([]byte(nil), secrets[ev.secret]...)
					step = fmt.Sprintf("%s.handleEvent(%s %v)", c05SideNames[ev.side], map[tls.QUICEventKind]string{tls.QUICSetReadSecret: "SetReadSecret", tls.QUICSetWriteSecret: "SetWriteSecret"}[ev.kind], ev.level)
				}
				err := l.ep[ev.side].handleEvent(qe)
				explore.Must(err == nil, "handleEvent: %v", err)
			}
			if f := l.probe(step); f != nil {
				return l.result(name, i, f)
			}
		}
		// not vacuous: every level that both endpoints held keys for was exercised in both directions
		explore.Must(l.opened[c05LvInitial][0] > 0 && l.opened[c05LvInitial][1] > 0 && l.opened[c05LvHandshake][0] > 0 && l.opened[c05LvHandshake][1] > 0 &&
			l.opened[c05Lv1RTT][0] > 0 && l.opened[c05Lv1RTT][1] > 0 && (script != 1 || l.opened[c05Lv0RTT][0] > 0 && l.swept[c05Lv0RTT][0] > 0),
			"setup-install %s: a level was not exercised: %s", name, l.summary())
		return l.result(name, i, nil)
	}
}

func c05SetupInstallPart() explore.Part {
	return c05CasesPart("setup-install", func(e explore.Env) (int, string, string, func(int) explore.CaseResult) {
		return 54, "3 cipher suites x {v1,v2} x 3 secret/connection-ID patterns x 3 event scripts {no 0-RTT, 0-RTT accepted, 0-RTT rejected}: a real client and a real server cryptoSetup receive the tls.QUICEvents of a handshake (SetWriteSecret / SetReadSecret per level in the order utls emits them, RejectedEarlyData, DiscardInitialKeys, SetHandshakeConfirmed) with known traffic secrets; after every single event each endpoint protects 4 packets (packet number lengths 1-4, payload from the minimum that yields a sample up to 1200 bytes) at every level it has a sealer for, bit-identical to ref5.Protect; the peer unprotects everything in flight at the first step it hands out that level's opener and must arrive at the same header, packet number and payload; header protection of sealer and opener compared with each other and with the reference mask (4 bits long / 5 bits short header) over >= 64 samples x 32 first-byte patterns",
			"all 54 cases", c05InstallCase(e.Thorough())
	})
}

// ---------------------------------------------------------------------------------------
// part "setup-handshake"

// The TLS 1.3 cipher suite is selected through the repository's own qtls.SetCipherSuite, which
// edits package-level tables of the TLS stack: one case at a time.
var c05SetupTLSMu sync.Mutex

type c05KeyLog struct {
	mu sync.Mutex
	b  bytes.Buffer
}

func (k *c05KeyLog) Write(p []byte) (int, error) {
	k.mu.Lock()
	defer k.mu.Unlock()
	return k.b.Write(p)
}

func (k *c05KeyLog) entry() (ref5.KeyLogEntry, bool) {
	k.mu.Lock()
	defer k.mu.Unlock()
	es := ref5.ParseKeyLog(k.b.Bytes())
	if len(es) == 0 {
		return ref5.KeyLogEntry{}, false
	}
	explore.Must(len(es) == 1, "key log of one connection has %d client randoms", len(es))
	return es[0], true
}

type c05SessionCache struct {
	tls.ClientSessionCache
	mu   sync.Mutex
	puts int
}

func (c *c05SessionCache) Put(k string, s *tls.ClientSessionState) {
	c.mu.Lock()
	c.puts++
	c.mu.Unlock()
	c.ClientSessionCache.Put(k, s)
}

func c05SetupTLSConfigs() (clientConf, serverConf *tls.Config) {
	pub, priv, err := ed25519.GenerateKey(rand.Reader)
	explore.Must(err == nil, "ed25519: %v", err)
	tmpl := &x509.Certificate{
		SerialNumber:          big.NewInt(1),
		Subject:               pkix.Name{CommonName: "localhost"},
		DNSNames:              []string{"localhost"},
		NotBefore:             time.Date(1990, 1, 1, 0, 0, 0, 0, time.UTC),
		NotAfter:              time.Date(2100, 1, 1, 0, 0, 0, 0, time.UTC),
		IsCA:                  true,
		BasicConstraintsValid: true,
		KeyUsage:              x509.KeyUsageDigitalSignature | x509.KeyUsageCertSign,
		ExtKeyUsage:           []x509.ExtKeyUsage{x509.ExtKeyUsageServerAuth},
	}
	der, err := x509.CreateCertificate(rand.Reader, tmpl, tmpl, pub, priv)
	explore.Must(err == nil, "CreateCertificate: %v", err)
	cert, err := x509.ParseCertificate(der)
	explore.Must(err == nil, "ParseCertificate: %v", err)
	pool := x509.NewCertPool()
	pool.AddCert(cert)
	serverConf = &tls.Config{MinVersion: tls.VersionTLS13, Certificates: []tls.Certificate{{Certificate: [][]byte{der}, PrivateKey: priv}}, NextProtos: []string{"verif-c05"}}
	clientConf = &tls.Config{ServerName: "localhost", RootCAs: pool, NextProtos: []string{"verif-c05"}}
	return clientConf, serverConf
}

type c05HSMode struct {
	name            string
	resume          bool // a first connection delivers a session ticket
	client0, srv0   bool // enable0RTT on the connection under test (client, server)
	tpChanged       bool // the server's transport parameters differ from the ticket's
	hrr             bool // the server insists on a group the client has no key share for
	wantEarlyOpened bool
}

var c05HSModes = []c05HSMode{
	{name: "full"},
	{name: "full-hrr", hrr: true},
	{name: "resumed", resume: true},
	{name: "resumed-0rtt", resume: true, client0: true, srv0: true, wantEarlyOpened: true},
	{name: "resumed-0rtt-rejected-params", resume: true, client0: true, srv0: true, tpChanged: true},
	{name: "resumed-0rtt-rejected-server-off", resume: true, client0: true, srv0: false},
	// (offering early data AND being answered with a HelloRetryRequest is left out: the TLS stack
	// of this tree fails that handshake with "tls: invalid PSK binder", no keys beyond Initial exist)
	{name: "resumed-hrr", resume: true, srv0: true, hrr: true},
	{name: "resumed-0rtt-client-off", resume: true, client0: false, srv0: true},
}

// c05RunHandshake takes a client and a server cryptoSetup through a complete handshake,
// one message at a time, calling after(step) after every step.
func c05RunHandshake(client, server *cryptoSetup, after func(step string) *explore.Fail) *explore.Fail {
	err := client.StartHandshake(context.Background())
	explore.Must(err == nil, "client.StartHandshake: %v", err)
	if f := after("client.StartHandshake"); f != nil {
		return f
	}
	err = server.StartHandshake(context.Background())
	explore.Must(err == nil, "server.StartHandshake: %v", err)
	if f := after("server.StartHandshake"); f != nil {
		return f
	}
	eps := [2]*cryptoSetup{client, server}
	var done [2]bool
	var seen []string
	for round := 0; !(done[0] && done[1]); round++ {
		explore.Must(round < 12, "handshake does not complete: %v", seen)
		for side := 0; side < 2; side++ {
			for {
				ev := eps[side].NextEvent()
				if ev.Kind == EventNoEvent {
					break
				}
				seen = append(seen, fmt.Sprintf("%s:%d", c05SideNames[side], ev.Kind))
				switch ev.Kind {
				case EventWriteInitialData, EventWriteHandshakeData:
					lvl := protocol.EncryptionInitial
					if ev.Kind == EventWriteHandshakeData {
						lvl = protocol.EncryptionHandshake
					}
					err := eps[1-side].HandleMessage(ev.Data, lvl)
					explore.Must(err == nil, "%s.HandleMessage: %v", c05SideNames[1-side], err)
					if f := after(fmt.Sprintf("%s.HandleMessage(%s, TLS message type %d)", c05SideNames[1-side], lvl, ev.Data[0])); f != nil {
						return f
					}
				case EventHandshakeComplete:
					done[side] = true
					if side == 1 {
						ticket, err := server.GetSessionTicket()
						explore.Must(err == nil, "GetSessionTicket: %v", err)
						if ticket != nil {
							err := client.HandleMessage(ticket, protocol.Encryption1RTT)
							explore.Must(err == nil, "client.HandleMessage(ticket): %v", err)
							if f := after("client.HandleMessage(1-RTT, session ticket)"); f != nil {
								return f
							}
						}
					}
				case EventDiscard0RTTKeys:
					if f := after(c05SideNames[side] + ": EventDiscard0RTTKeys"); f != nil {
						return f
					}
				}
			}
		}
	}
	// what the connection does once the handshake is through
	for _, st := range []struct {
		side int
		call string
	}{{0, "DiscardInitialKeys"}, {1, "DiscardInitialKeys"}, {1, "SetHandshakeConfirmed"}, {0, "SetHandshakeConfirmed"}} {
		if st.call == "DiscardInitialKeys" {
			eps[st.side].DiscardInitialKeys()
		} else {
			eps[st.side].SetHandshakeConfirmed()
		}
		if f := after(c05SideNames[st.side] + "." + st.call); f != nil {
			return f
		}
	}
	return nil
}

func c05HandshakeCase(thorough bool) func(i int) explore.CaseResult {
	return func(i int) explore.CaseResult {
		mode := c05HSModes[i%len(c05HSModes)]
		v := c05Versions[i/len(c05HSModes)%2]
		suiteID := c05Suites[i/len(c05HSModes)/2%3]
		name := fmt.Sprintf("%s/%s/%s", mode.name, c05SuiteName(suiteID), c05VName(v))

		c05SetupTLSMu.Lock()
		defer c05SetupTLSMu.Unlock()
		defer qtls.SetCipherSuite(suiteID)()

		clientConf, serverConf := c05SetupTLSConfigs()
		cache := &c05SessionCache{ClientSessionCache: tls.NewLRUClientSessionCache(1)}
		clientConf.ClientSessionCache = cache
		dcid := protocol.ParseConnectionID(c05Pattern(2, 8))
		const maxData protocol.ByteCount = 1337
		mk := func(kl *c05KeyLog, client0, srv0 bool, srvMaxData protocol.ByteCount) (*cryptoSetup, *cryptoSetup) {
			cc := clientConf.Clone()
			cc.KeyLogWriter = kl
			var token protocol.StatelessResetToken
			c := NewCryptoSetupClient(dcid, &wire.TransportParameters{ActiveConnectionIDLimit: 2}, cc, client0, utils.NewRTTStats(), nil, utils.DefaultLogger, v)
			s := NewCryptoSetupServer(dcid, &net.UDPAddr{IP: net.IPv6loopback, Port: 1234}, &net.UDPAddr{IP: net.IPv6loopback, Port: 4321},
				&wire.TransportParameters{ActiveConnectionIDLimit: 2, InitialMaxData: srvMaxData, StatelessResetToken: &token}, serverConf, srv0, utils.NewRTTStats(), nil, utils.DefaultLogger, v)
			return c.(*cryptoSetup), s.(*cryptoSetup)
		}
		if mode.resume {
			// first connection: only there to obtain a session ticket (with early data allowed)
			c, s := mk(&c05KeyLog{}, true, true, maxData)
			f := c05RunHandshake(c, s, func(string) *explore.Fail { return nil })
			c.Close()
			s.Close()
			explore.Must(f == nil && cache.puts == 1, "first connection stored %d session tickets", cache.puts)
		}
		if mode.hrr {
			serverConf.CurvePreferences = []tls.CurveID{tls.CurveP384}
		}
		srvMaxData := maxData
		if mode.tpChanged {
			srvMaxData--
		}
		kl := &c05KeyLog{}
		c, s := mk(kl, mode.client0, mode.srv0, srvMaxData)
		defer c.Close()
		defer s.Close()
		l := &c05Link{v: v, samples: c05SetupSamples(thorough), ep: [2]*cryptoSetup{c, s}}
		l.cid = [2]protocol.ConnectionID{protocol.ParseConnectionID(c05Pattern(2, 4)), dcid}
		ci, si := ref5.InitialKeys(c05Version(v), dcid.Bytes())
		l.ref[c05LvInitial] = [2]*ref5.Keys{&ci, &si}
		f := c05RunHandshake(c, s, func(step string) *explore.Fail {
			// reference keys of the Handshake and 1-RTT levels from the TLS key log (the TLS stack
			// does not log the early traffic secret: the 0-RTT level is judged by the round trip alone)
			if e, ok := kl.entry(); ok {
				for _, x := range []struct {
					label    string
					lv, from int
				}{{ref5.LabelClientHandshake, c05LvHandshake, 0}, {ref5.LabelServerHandshake, c05LvHandshake, 1}, {ref5.LabelClientTraffic, c05Lv1RTT, 0}, {ref5.LabelServerTraffic, c05Lv1RTT, 1}} {
					if l.ref[x.lv][x.from] == nil {
						if k, ok := e.Keys(x.label, c05Version(v), suiteID); ok {
							l.ref[x.lv][x.from] = &k
						}
					}
				}
			}
			return l.probe(step)
		})
		if f != nil {
			return l.result(name, i, f)
		}
		cs := c.ConnectionState()
		explore.Must(cs.CipherSuite == suiteID, "%s: negotiated cipher suite %#x", name, cs.CipherSuite)
		explore.Must(cs.DidResume == mode.resume, "%s: DidResume = %v", name, cs.DidResume)
		explore.Must(l.opened[c05LvInitial][0] > 0 && l.opened[c05LvInitial][1] > 0 && l.opened[c05LvHandshake][0] > 0 && l.opened[c05LvHandshake][1] > 0 &&
			l.opened[c05Lv1RTT][0] > 0 && l.opened[c05Lv1RTT][1] > 0, "%s: a level was not exercised: %s", name, l.summary())
		explore.Must(l.ref[c05LvHandshake][0] != nil && l.ref[c05LvHandshake][1] != nil && l.ref[c05Lv1RTT][0] != nil && l.ref[c05Lv1RTT][1] != nil, "%s: key log incomplete", name)
		if mode.wantEarlyOpened {
			explore.Must(l.opened[c05Lv0RTT][0] > 0 && l.swept[c05Lv0RTT][0] > 0 && cs.Used0RTT, "%s: 0-RTT was not exercised: %s", name, l.summary())
		} else {
			explore.Must(l.opened[c05Lv0RTT][0] == 0 && !cs.Used0RTT, "%s: unexpected 0-RTT: %s", name, l.summary())
		}
		return l.result(name, i, nil)
	}
}

func c05SetupHandshakePart() explore.Part {
	return c05CasesPart("setup-handshake", func(e explore.Env) (int, string, string, func(int) explore.CaseResult) {
		n := len(c05HSModes) * 2 * 3
		return n, "3 cipher suites x {v1,v2} x 8 handshakes {full, full with HelloRetryRequest, resumed, resumed with 0-RTT accepted, 0-RTT rejected (transport parameters changed | server does not allow it), resumed with HelloRetryRequest, ticket allows 0-RTT but the client does not use it}: a real client and a real server cryptoSetup run the real TLS 1.3 handshake (session ticket from a first connection), one TLS message per step, then DiscardInitialKeys / SetHandshakeConfirmed; after every step each endpoint protects 4 packets (packet number lengths 1-4, payload from the minimum that yields a sample up to 1200 bytes) at every level it has a sealer for (Initial, 0-RTT, Handshake, 1-RTT); the peer unprotects everything in flight at the first step it hands out that level's opener and must arrive at the same header, packet number and payload; Initial, Handshake and 1-RTT packets bit-identical to ref5.Protect with keys from the DCID / the TLS key log; header protection of sealer and opener compared with each other (and the reference mask) over >= 64 samples x 32 first-byte patterns",
			fmt.Sprintf("all %d cases", n), c05HandshakeCase(e.Thorough())
	})
}
