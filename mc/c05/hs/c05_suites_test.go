package handshake

// Parts "suites" (AEAD + header protection of every cipher suite / version / header form,
// real code vs. ref5, bit-identical), "ku-derive" (key generations after key updates) and
// "retry-tag".

import (
	"bytes"
	"fmt"

	"github.com/refraction-networking/uquic/internal/protocol"
	"github.com/refraction-networking/uquic/internal/utils"
	"github.com/refraction-networking/uquic/internal/verifmc/explore"
	"github.com/refraction-networking/uquic/internal/verifmc/ref5"
	"github.com/refraction-networking/uquic/internal/wire"
)

var (
	c05Suites   = []uint16{ref5.TLS_AES_128_GCM_SHA256, ref5.TLS_AES_256_GCM_SHA384, ref5.TLS_CHACHA20_POLY1305_SHA256}
	c05Versions = []protocol.Version{protocol.Version1, protocol.Version2}
)

func c05SecretLen(suite uint16) int {
	if suite == ref5.TLS_AES_256_GCM_SHA384 {
		return 48
	}
	return 32
}

var c05PNs = []uint64{0, 1, 2, 0x7f, 0x80, 0xff, 0x100, 0xffff, 0x10000, 0xffffff, 0x1000000, 0xffffffff, 0x100000000, 0x123456789abcdef, 1<<62 - 2, 1<<62 - 1}

func c05SuitesCase(thorough bool) func(i int) explore.CaseResult {
	return func(i int) explore.CaseResult {
		long := i%2 == 1
		pat := i / 2 % 3
		v := c05Versions[i/6%2]
		suiteID := c05Suites[i/12%3]
		name := fmt.Sprintf("%s/%s/long=%v", c05SuiteName(suiteID), c05VName(v), long)
		secret := c05Pattern(pat, c05SecretLen(suiteID))
		suite := getCipherSuite(suiteID)
		rk := ref5.KeysFromSecret(secret, c05Version(v), suiteID)
		fail := func(what, format string, a ...any) explore.CaseResult {
			return explore.CaseResult{Outcome: "MISMATCH " + what, Fail: explore.Failf("suite-"+what+":"+name, format, a...), Replay: i}
		}
		// the constructors cryptoSetup uses for Handshake / 0-RTT (long) and 1-RTT (short) keys
		var sealer LongHeaderSealer
		var openLong LongHeaderOpener
		var openShort *updatableAEAD
		if long {
			sealer = newLongHeaderSealer(createAEAD(suite, secret, v), newHeaderProtector(suite, secret, true, v))
			openLong = newLongHeaderOpener(createAEAD(suite, secret, v), newHeaderProtector(suite, secret, true, v))
		} else {
			a := newUpdatableAEAD(utils.NewRTTStats(), nil, utils.DefaultLogger, v)
			a.SetWriteKey(suite, secret)
			sealer = a
			openShort = newUpdatableAEAD(utils.NewRTTStats(), nil, utils.DefaultLogger, v)
			openShort.SetReadKey(suite, secret)
		}
		if sealer.Overhead() != ref5.TagLen {
			return fail("overhead", "Overhead() = %d, want 16", sealer.Overhead())
		}
		sizes := []int{0, 1, 2, 3, 15, 16, 17, 31, 32, 33, 64, 255, 256, 1200, 1452}
		if thorough {
			sizes = nil
			for s := 0; s <= 300; s++ {
				sizes = append(sizes, s)
			}
			sizes = append(sizes, 1199, 1200, 1201, 1452, 3600, 16383)
		}
		var n int64
		for _, pn := range c05PNs {
			for _, sz := range sizes {
				for adk := 0; adk < 2; adk++ {
					ad := c05Pattern(2, 1+adk*23+int(pn%5))
					pt := c05Pattern(2, sz)
					got := sealer.Seal(nil, pt, protocol.PacketNumber(pn), ad)
					want := rk.Seal(ad, pt, pn)
					n++
					if !bytes.Equal(got, want) {
						return fail("seal", "Seal(pn=%d, %d bytes payload, %d bytes AD) = %x..., reference %x...", pn, sz, len(ad), got[:min(len(got), 24)], want[:min(len(want), 24)])
					}
					// the real opener opens what the reference sealed, the reference opens what the real code sealed
					var dec []byte
					var err error
					if long {
						dec, err = openLong.Open(nil, want, protocol.PacketNumber(pn), ad)
					} else {
						dec, err = openShort.Open(nil, want, 1, protocol.PacketNumber(pn), protocol.KeyPhaseZero, ad)
					}
					if err != nil || !bytes.Equal(dec, pt) {
						return fail("open", "Open(pn=%d, %d bytes) of a reference-sealed payload: err=%v", pn, sz, err)
					}
					if rdec, rerr := rk.Open(ad, got, pn); rerr != nil || !bytes.Equal(rdec, pt) {
						return fail("seal", "reference cannot open the payload sealed by the implementation (pn=%d, %d bytes): %v", pn, sz, rerr)
					}
					// one flipped bit in the tag, the ciphertext or the AD must be rejected
					if len(want) > 0 {
						bad := append([]byte(nil), want...)
						bad[(int(pn%7)+sz)%len(bad)] ^= 1 << (pn % 8)
						if long {
							dec, err = openLong.Open(nil, bad, protocol.PacketNumber(pn), ad)
						} else {
							dec, err = openShort.Open(nil, bad, 1, protocol.PacketNumber(pn), protocol.KeyPhaseZero, ad)
						}
						if err == nil {
							return fail("forgery", "Open accepted a payload with one flipped bit (pn=%d, %d bytes) -> %x", pn, sz, dec)
						}
					}
				}
			}
		}
		// header protection: every first byte of the header form, 4 packet number lengths, several samples
		for sk := 0; sk < 6; sk++ {
			sample := c05Pattern(sk%3, 16)
			if sk >= 3 {
				sample = c05Pattern(2, 16+sk)[sk:]
			}
			mask := rk.HeaderMask(sample)
			for fb := 0; fb < 256; fb++ {
				if (fb&0x80 != 0) != long {
					continue
				}
				for pnLen := 1; pnLen <= 4; pnLen++ {
					first := byte(fb)
					pnb := c05Pattern(2, pnLen)
					orig := append([]byte(nil), pnb...)
					sealer.EncryptHeader(sample, &first, pnb)
					n++
					wantFirst := byte(fb) ^ mask[0]&0x1f
					if long {
						wantFirst = byte(fb) ^ mask[0]&0x0f
					}
					ok := first == wantFirst
					for j := range pnb {
						ok = ok && pnb[j] == orig[j]^mask[1+j]
					}
					if !ok {
						return fail("hp-mask", "EncryptHeader(sample %x, first %#02x, pn %x) = %#02x %x, reference mask %x", sample, fb, orig, first, pnb, mask)
					}
					if long {
						openLong.DecryptHeader(sample, &first, pnb)
					} else {
						openShort.DecryptHeader(sample, &first, pnb)
					}
					if first != byte(fb) || !bytes.Equal(pnb, orig) {
						return fail("hp-roundtrip", "DecryptHeader does not invert EncryptHeader (sample %x, first %#02x)", sample, fb)
					}
				}
			}
		}
		return explore.CaseResult{Outcome: name + " identical", Trans: n}
	}
}

func c05SuitesPart() explore.Part {
	return c05CasesPart("suites", func(e explore.Env) (int, string, string, func(int) explore.CaseResult) {
		return 36, "3 cipher suites x {v1,v2} x 3 secret patterns x {long header sealer/opener as built for Handshake/0-RTT keys, updatableAEAD as built for 1-RTT keys}; per case: 16 packet numbers (0 .. 2^62-1) x payload sizes x 2 AD lengths sealed by the real code and by ref5 (bit-identical, cross-opened, one-bit forgery rejected) and EncryptHeader/DecryptHeader for every first byte x 4 packet number lengths x 6 samples against ref5.HeaderMask",
			"all 36 cases", c05SuitesCase(e.Thorough())
	})
}

// ---------------------------------------------------------------------------------------

func c05KUDeriveCase(gens int) func(i int) explore.CaseResult {
	return func(i int) explore.CaseResult {
		pat := i % 3
		v := c05Versions[i/3%2]
		suiteID := c05Suites[i/6%3]
		suite := getCipherSuite(suiteID)
		cSecret := c05Pattern(pat, c05SecretLen(suiteID))
		sSecret := c05Pattern((pat+1)%3, c05SecretLen(suiteID))
		client := newUpdatableAEAD(utils.NewRTTStats(), nil, utils.DefaultLogger, v)
		server := newUpdatableAEAD(utils.NewRTTStats(), nil, utils.DefaultLogger, v)
		client.SetReadKey(suite, sSecret)
		client.SetWriteKey(suite, cSecret)
		server.SetWriteKey(suite, sSecret)
		server.SetReadKey(suite, cSecret)
		name := fmt.Sprintf("%s/%s", c05SuiteName(suiteID), c05VName(v))
		hdr := []byte{0x41, 0xde, 0xad, 0xbe, 0xef, 0, 0}
		for g := 0; g <= gens; g++ {
			if g > 0 {
				client.rollKeys()
				server.rollKeys()
			}
			for dir, pair := range [][2]*updatableAEAD{{client, server}, {server, client}} {
				secret := cSecret
				if dir == 1 {
					secret = sSecret
				}
				rk := ref5.GenerationKeys(secret, c05Version(v), suiteID, g)
				pn := uint64(10*g + dir)
				pt := c05Pattern(2, 20+g)
				got := pair[0].Seal(nil, pt, protocol.PacketNumber(pn), hdr)
				want := rk.Seal(hdr, pt, pn)
				if !bytes.Equal(got, want) {
					// one key per QUIC version: the derivation differs only in the version specific label
					return explore.CaseResult{
						Outcome: fmt.Sprintf("generation-%d keys differ (%s)", g, c05VName(v)),
						Fail: explore.Failf(fmt.Sprintf("keyupdate-derivation:version=%s", c05VName(v)),
							"after %d key update(s) the packet protection keys of the implementation differ from RFC 9001 6.1 / RFC 9369 3.3.2 (%s, %s sender): payload sealed with pn=%d is %x..., the reference (secret_<n+1> = HKDF-Expand-Label(secret_<n>, \"%s\", \"\", Hash.length)) gives %x...",
							g, name, []string{"client", "server"}[dir], pn, got[:16], map[bool]string{false: "quic ku", true: "quicv2 ku"}[v == protocol.Version2], want[:16]),
						Replay: i,
					}
				}
				dec, err := pair[1].Open(nil, want, 1, protocol.PacketNumber(pn), protocol.KeyPhase(g).Bit(), hdr)
				if err != nil || !bytes.Equal(dec, pt) {
					return explore.CaseResult{Outcome: "peer cannot open generation packet", Fail: explore.Failf("keyupdate-open:"+name, "generation %d packet sealed by the reference is not opened by the peer: %v", g, err), Replay: i}
				}
				// header protection keys are not updated
				sample := c05Pattern(2, 16)
				first, pnb := byte(0x41), []byte{1, 2}
				pair[0].EncryptHeader(sample, &first, pnb)
				m := rk.HeaderMask(sample)
				if first != 0x41^m[0]&0x1f || pnb[0] != 1^m[1] || pnb[1] != 2^m[2] {
					return explore.CaseResult{Outcome: "hp changed by key update", Fail: explore.Failf("keyupdate-hp:"+name, "header protection mask changed after %d key updates", g), Replay: i}
				}
			}
		}
		return explore.CaseResult{Outcome: fmt.Sprintf("%s: %d generations identical", name, gens+1), Trans: int64(2 * (gens + 1))}
	}
}

func c05KUDerivePart() explore.Part {
	return c05CasesPart("ku-derive", func(e explore.Env) (int, string, string, func(int) explore.CaseResult) {
		gens := 4
		if e.Thorough() {
			gens = 40
		}
		return 18, fmt.Sprintf("3 cipher suites x {v1,v2} x 3 secret patterns: two real updatableAEADs rolled through %d key generations (rollKeys); every generation's packet protection compared bit-identically with ref5.GenerationKeys in both directions, the peer opens the reference's packet, header protection stays that of generation 0", gens),
			"all 18 cases", c05KUDeriveCase(gens)
	})
}

// ---------------------------------------------------------------------------------------

func c05RetryCase(i int) explore.CaseResult {
	body := i % 4
	pat := i / 4 % 3
	v := c05Versions[i/12%2]
	ol := i / 24
	odcid := c05Pattern(pat, ol)
	tokenLens := []int{1, 16, 57, 300}
	hdr := &wire.ExtendedHeader{Header: wire.Header{
		Type:             protocol.PacketTypeRetry,
		Version:          v,
		DestConnectionID: protocol.ParseConnectionID(c05Pattern(2, (ol+body)%21)),
		SrcConnectionID:  protocol.ParseConnectionID(c05Pattern(2, (ol*3+7)%21)),
		Token:            c05Pattern(2, tokenLens[body]),
	}}
	retry, err := hdr.Append(nil, v)
	explore.Must(err == nil, "Append retry: %v", err)
	lh, err := ref5.ParseLong(append(append([]byte(nil), retry...), make([]byte, 16)...))
	explore.Must(err == nil && lh.Type == ref5.TypeRetry && lh.Version == c05Version(v), "reference does not recognise the Retry packet: %+v %v", lh, err)
	got := GetRetryIntegrityTag(retry, protocol.ParseConnectionID(odcid), v)
	want := ref5.RetryTag(c05Version(v), odcid, retry)
	if !bytes.Equal(got[:], want[:]) {
		return explore.CaseResult{Outcome: "MISMATCH", Replay: i,
			Fail: explore.Failf(fmt.Sprintf("retry-tag:%s", c05VName(v)), "GetRetryIntegrityTag(retry of %d bytes, ODCID %x, %s) = %x, reference %x", len(retry), odcid, c05VName(v), got[:], want[:])}
	}
	// the tag must depend on the ODCID: a different ODCID of the same length gives a different tag
	if ol > 0 {
		other := append([]byte(nil), odcid...)
		other[ol-1] ^= 1
		if t2 := GetRetryIntegrityTag(retry, protocol.ParseConnectionID(other), v); *t2 == *got {
			return explore.CaseResult{Outcome: "tag ignores ODCID", Replay: i, Fail: explore.Failf("retry-tag-odcid:"+c05VName(v), "Retry tag does not depend on the original destination connection ID")}
		}
	}
	return explore.CaseResult{Outcome: fmt.Sprintf("%s token=%d identical", c05VName(v), tokenLens[body])}
}

func c05RetryPart() explore.Part {
	return c05CasesPart("retry-tag", func(e explore.Env) (int, string, string, func(int) explore.CaseResult) {
		return 21 * 24, "ODCID length 0..20 x 3 byte patterns x {v1,v2} x 4 Retry packets (token 1/16/57/300 bytes, varying CID lengths, serialised by the real wire.ExtendedHeader.Append): GetRetryIntegrityTag == ref5.RetryTag, and the tag changes with the ODCID",
			"all 504 cases", c05RetryCase
	})
}
