package handshake

// Part "ref-vectors": the independent reference ref5 must reproduce the test vectors of
// RFC 5869 A.1, RFC 9001 Appendix A and RFC 9369 Appendix A (a mismatch is a harness
// error: the oracle itself would be broken), and the real implementation must reproduce
// them too (a mismatch is a violation).

import (
	"bytes"
	"crypto/sha256"
	"encoding/hex"
	"fmt"

	"github.com/refraction-networking/uquic/internal/protocol"
	"github.com/refraction-networking/uquic/internal/utils"
	"github.com/refraction-networking/uquic/internal/verifmc/explore"
	"github.com/refraction-networking/uquic/internal/verifmc/ref5"
)

type c05InitVec struct {
	version                              protocol.Version
	clientSecret, cKey, cIV, cHP         string
	serverSecret, sKey, sIV, sHP         string
	clientHdr, clientSample, clientMask  string
	clientProtHdr, clientPacketSHA256    string
	serverHdr, serverSample, serverPkt   string
	retry                                string
	chachaKey, chachaIV, chachaHP, chaKU string
	chachaPacket                         string
}

const (
	c05VecDCID      = "8394c8f03e515708"
	c05VecCrypto    = "060040f1010000ed0303ebf8fa56f12939b9584a3896472ec40bb863cfd3e86804fe3a47f06a2b69484c00000413011302010000c000000010000e00000b6578616d706c652e636f6dff01000100000a00080006001d0017001800100007000504616c706e000500050100000000003300260024001d00209370b2c9caa47fbabaf4559fedba753de171fa71f50f1ce15d43e994ec74d748002b0003020304000d0010000e0403050306030203080408050806002d00020101001c00024001003900320408ffffffffffffffff05048000ffff07048000ffff0801100104800075300901100f088394c8f03e51570806048000ffff"
	c05VecServerPay = "02000000000600405a020000560303eefce7f7b37ba1d1632e96677825ddf73988cfc79825df566dc5430b9a045a1200130100002e00330024001d00209d3c940d89690b84d08a60993c144eca684d1081287c834d5311bcf32bb9da1a002b00020304"
	c05VecChaSecret = "9ac312a7f877468ebe69422748ad00a15443f18203a07d6060f688f30f21632b"
)

var c05InitVecs = []c05InitVec{
	{ // RFC 9001 Appendix A
		version:      protocol.Version1,
		clientSecret: "c00cf151ca5be075ed0ebfb5c80323c42d6b7db67881289af4008f1f6c357aea",
		cKey:         "1f369613dd76d5467730efcbe3b1a22d", cIV: "fa044b2f42a3fd3b46fb255c", cHP: "9f50449e04a0e810283a1e9933adedd2",
		serverSecret: "3c199828fd139efd216c155ad844cc81fb82fa8d7446fa7d78be803acdda951b",
		sKey:         "cf3a5331653c364c88f0f379b6067e37", sIV: "0ac1493ca1905853b0bba03e", sHP: "c206b8d9b9f0f37644430b490eeaa314",
		clientHdr: "c300000001088394c8f03e5157080000449e00000002", clientSample: "d1b1c98dd7689fb8ec11d242b123dc9b", clientMask: "037b9aec36",
		clientProtHdr: "c000000001088394c8f03e5157080000449e7b9aec34", clientPacketSHA256: "73fa0210cb4a5a17dc10b9dc98e5cc359ba1c20fe7c0e93a9e1dcb473c37e097",
		serverHdr: "c1000000010008f067a5502a4262b50040750001", serverSample: "2cd0991cd25b0aac406a5816b6394100",
		serverPkt: "cf000000010008f067a5502a4262b5004075c0d95a482cd0991cd25b0aac406a5816b6394100f37a1c69797554780bb38cc5a99f5ede4cf73c3ec2493a1839b3dbcba3f6ea46c5b7684df3548e7ddeb9c3bf9c73cc3f3bded74b562bfb19fb84022f8ef4cdd93795d77d06edbb7aaf2f58891850abbdca3d20398c276456cbc42158407dd074ee",
		retry:     "ff000000010008f067a5502a4262b5746f6b656e04a265ba2eff4d829058fb3f0f2496ba",
		chachaKey: "c6d98ff3441c3fe1b2182094f69caa2ed4b716b65488960a7a984979fb23e1c8", chachaIV: "e0459b3474bdd0e44a41c144",
		chachaHP: "25a282b9e82f06f21f488917a4fc8f1b73573685608597d0efcb076b0ab7a7a4", chaKU: "1223504755036d556342ee9361d253421a826c9ecdf3c7148684b36b714881f9",
		chachaPacket: "4cfe4189655e5cd55c41f69080575d7999c25a5bfb",
	},
	{ // RFC 9369 Appendix A
		version:      protocol.Version2,
		clientSecret: "14ec9d6eb9fd7af83bf5a668bc17a7e283766aade7ecd0891f70f9ff7f4bf47b",
		cKey:         "8b1a0bc121284290a29e0971b5cd045d", cIV: "91f73e2351d8fa91660e909f", cHP: "45b95e15235d6f45a6b19cbcb0294ba9",
		serverSecret: "0263db1782731bf4588e7e4d93b7463907cb8cd8200b5da55a8bd488eafc37c1",
		sKey:         "82db637861d55e1d011f19ea71d5d2a7", sIV: "dd13c276499c0249d3310652", sHP: "edf6d05c83121201b436e16877593c3a",
		clientHdr: "d36b3343cf088394c8f03e5157080000449e00000002", clientSample: "ffe67b6abcdb4298b485dd04de806071", clientMask: "04a0c95e80",
		clientProtHdr: "d76b3343cf088394c8f03e5157080000449ea0c95e82", clientPacketSHA256: "b0b766fe7e762577072d3365cc4f9635809210cba301a67f8457f5e6fdac5c68",
		serverHdr: "d16b3343cf0008f067a5502a4262b50040750001", serverSample: "6f05d8a4398c47089698baeea26b91eb",
		serverPkt: "dc6b3343cf0008f067a5502a4262b5004075d92faaf16f05d8a4398c47089698baeea26b91eb761d9b89237bbf87263017915358230035f7fd3945d88965cf17f9af6e16886c61bfc703106fbaf3cb4cfa52382dd16a393e42757507698075b2c984c707f0a0812d8cd5a6881eaf21ceda98f4bd23f6fe1a3e2c43edd9ce7ca84bed8521e2e140",
		retry:     "cf6b3343cf0008f067a5502a4262b5746f6b656ec8646ce8bfe33952d955543665dcc7b6",
		chachaKey: "3bfcddd72bcf02541d7fa0dd1f5f9eeea817e09a6963a0e6c7df0f9a1bab90f2", chachaIV: "a6b5bc6ab7dafce30ffff5dd",
		chachaHP: "d659760d2ba434a226fd37b35c69e2da8211d10c4f12538787d65645d5d1b8e2", chaKU: "c69374c49e3d2a9466fa689e49d476db5d0dfbc87d32ceeaa6343fd0ae4c7d88",
		chachaPacket: "5558b1c60ae7b6b932bc27d786f4bc2bb20f2162ba",
	},
}

const c05VecKinds = 7

// c05RealProtect assembles a packet the way packetPacker.encryptPacket does, with a real sealer.
func c05RealProtect(s LongHeaderSealer, hdr, payload []byte, pn protocol.PacketNumber) []byte {
	pnLen := int(hdr[0]&3) + 1
	pnOff := len(hdr) - pnLen
	po := len(hdr)
	raw := make([]byte, po+len(payload), po+len(payload)+s.Overhead())
	copy(raw, hdr)
	copy(raw[po:], payload)
	_ = s.Seal(raw[po:po], raw[po:], pn, raw[:po])
	raw = raw[:len(raw)+s.Overhead()]
	s.EncryptHeader(raw[pnOff+4:pnOff+4+16], &raw[0], raw[pnOff:len(hdr)])
	return raw
}

func c05VectorCase(i int) explore.CaseResult {
	if i == 0 { // the reference's own self-test, then RFC 5869 A.1 (reference only)
		if err := ref5.SelfTest(); err != nil {
			explore.Must(false, "%v", err)
		}
		ikm := bytes.Repeat([]byte{0x0b}, 22)
		prk := ref5.HKDFExtract(sha256.New, ikm, c05Hex("000102030405060708090a0b0c"))
		explore.Must(hex.EncodeToString(prk) == "077709362c2e32df0ddc3f0dc47bba6390b6c73bb50f9c3122ec844ad7c2b3e5", "ref5 HKDF-Extract fails RFC 5869 A.1")
		okm := ref5.HKDFExpand(sha256.New, prk, c05Hex("f0f1f2f3f4f5f6f7f8f9"), 42)
		explore.Must(hex.EncodeToString(okm) == "3cb25f25faacd57a90434f64d0362f2a2d2d0a90cf1a5a4c5db02d56ecc4c5bf34007208d5b887185865", "ref5 HKDF-Expand fails RFC 5869 A.1")
		return explore.CaseResult{Outcome: "rfc5869-a1: reference ok"}
	}
	i--
	vec := c05InitVecs[i/c05VecKinds]
	v := vec.version
	rv := c05Version(v)
	vn := c05VName(v)
	dcid := c05Hex(c05VecDCID)
	fail := func(what, format string, a ...any) explore.CaseResult {
		return explore.CaseResult{Outcome: "MISMATCH " + what, Fail: explore.Failf("rfc-vector:"+what+":"+vn, format, a...)}
	}
	eq := func(b []byte, want string) bool { return hex.EncodeToString(b) == want }
	switch i % c05VecKinds {
	case 0: // secrets, keys, ivs, hp keys
		cs, ss := ref5.InitialSecrets(rv, dcid)
		ck, sk := ref5.InitialKeys(rv, dcid)
		explore.Must(eq(cs, vec.clientSecret) && eq(ss, vec.serverSecret), "ref5 initial secrets fail the %s vector", vn)
		explore.Must(eq(ck.Key, vec.cKey) && eq(ck.IV, vec.cIV) && eq(ck.HP, vec.cHP), "ref5 client initial keys fail the %s vector", vn)
		explore.Must(eq(sk.Key, vec.sKey) && eq(sk.IV, vec.sIV) && eq(sk.HP, vec.sHP), "ref5 server initial keys fail the %s vector", vn)
		rcs, rss := computeSecrets(protocol.ParseConnectionID(dcid), v)
		if !eq(rcs, vec.clientSecret) || !eq(rss, vec.serverSecret) {
			return fail("initial-secrets", "computeSecrets(%x, %s) = %x / %x, RFC: %s / %s", dcid, vn, rcs, rss, vec.clientSecret, vec.serverSecret)
		}
		k1, iv1 := computeInitialKeyAndIV(rcs, v)
		k2, iv2 := computeInitialKeyAndIV(rss, v)
		if !eq(k1, vec.cKey) || !eq(iv1, vec.cIV) || !eq(k2, vec.sKey) || !eq(iv2, vec.sIV) {
			return fail("initial-key-iv", "computeInitialKeyAndIV: client %x/%x server %x/%x differ from the RFC values", k1, iv1, k2, iv2)
		}
		return explore.CaseResult{Outcome: "initial secrets+keys " + vn + ": ref ok, impl ok"}
	case 1: // client Initial packet (1200 bytes, 4-byte packet number 2)
		hdr := c05Hex(vec.clientHdr)
		payload := make([]byte, 1162)
		copy(payload, c05Hex(c05VecCrypto))
		ck, _ := ref5.InitialKeys(rv, dcid)
		pkt, err := ref5.Protect(hdr, payload, 2, ck)
		explore.Must(err == nil, "ref5.Protect: %v", err)
		sum := sha256.Sum256(pkt)
		explore.Must(len(pkt) == 1200 && eq(sum[:], vec.clientPacketSHA256) && eq(pkt[:len(hdr)], vec.clientProtHdr), "ref5 client Initial packet fails the %s vector", vn)
		mask := ck.HeaderMask(c05Hex(vec.clientSample))
		mask[0] &= 0x0f // only the low nibble of mask[0] is visible in a long header
		explore.Must(eq(mask[:], vec.clientMask) && eq(pkt[len(hdr):len(hdr)+16], vec.clientSample), "ref5 header mask fails the %s vector", vn)
		sealer, _ := NewInitialAEAD(protocol.ParseConnectionID(dcid), protocol.PerspectiveClient, v)
		real := c05RealProtect(sealer, hdr, payload, 2)
		if !bytes.Equal(real, pkt) {
			return fail("client-initial", "client Initial built with NewInitialAEAD differs from the RFC packet (first bytes %x, want %x)", real[:24], pkt[:24])
		}
		return explore.CaseResult{Outcome: "client Initial " + vn + ": ref ok, impl ok"}
	case 2: // server Initial packet (2-byte packet number 1)
		hdr := c05Hex(vec.serverHdr)
		payload := c05Hex(c05VecServerPay)
		_, sk := ref5.InitialKeys(rv, dcid)
		pkt, err := ref5.Protect(hdr, payload, 1, sk)
		explore.Must(err == nil && eq(pkt, vec.serverPkt), "ref5 server Initial packet fails the %s vector", vn)
		hl, pn, pl, err := ref5.UnprotectLong(c05Hex(vec.serverPkt), sk, -1, 0)
		explore.Must(err == nil && hl == len(hdr) && pn == 1 && bytes.Equal(pl, payload), "ref5.UnprotectLong fails the %s server Initial vector: %v", vn, err)
		sealer, _ := NewInitialAEAD(protocol.ParseConnectionID(dcid), protocol.PerspectiveServer, v)
		real := c05RealProtect(sealer, hdr, payload, 1)
		if !bytes.Equal(real, pkt) {
			return fail("server-initial", "server Initial built with NewInitialAEAD differs from the RFC packet: %x", real)
		}
		// and the client side opens it
		_, opener := NewInitialAEAD(protocol.ParseConnectionID(dcid), protocol.PerspectiveClient, v)
		data := c05Hex(vec.serverPkt)
		pnOff := len(hdr) - 2
		opener.DecryptHeader(data[pnOff+4:pnOff+20], &data[0], data[pnOff:pnOff+4])
		if !bytes.Equal(data[:len(hdr)], hdr) {
			return fail("server-initial-open", "client opener unprotects the RFC server Initial header to %x, want %x", data[:len(hdr)], hdr)
		}
		copy(data[len(hdr):pnOff+4], c05Hex(vec.serverPkt)[len(hdr):pnOff+4])
		dec, err := opener.Open(nil, data[len(hdr):], 1, data[:len(hdr)])
		if err != nil || !bytes.Equal(dec, payload) {
			return fail("server-initial-open", "client opener fails on the RFC server Initial: %v", err)
		}
		return explore.CaseResult{Outcome: "server Initial " + vn + ": ref ok, impl ok"}
	case 3: // Retry
		r := c05Hex(vec.retry)
		tag := ref5.RetryTag(rv, dcid, r[:len(r)-16])
		explore.Must(bytes.Equal(tag[:], r[len(r)-16:]), "ref5.RetryTag fails the %s vector", vn)
		rt := GetRetryIntegrityTag(r[:len(r)-16], protocol.ParseConnectionID(dcid), v)
		if !bytes.Equal(rt[:], r[len(r)-16:]) {
			return fail("retry-tag", "GetRetryIntegrityTag = %x, RFC: %x", rt[:], r[len(r)-16:])
		}
		return explore.CaseResult{Outcome: "retry " + vn + ": ref ok, impl ok"}
	case 4: // Retry key and nonce derive from the documented secret (reference self-consistency)
		if ref5.RetrySecret(rv) == nil {
			return explore.CaseResult{Outcome: "retry key derivation " + vn + ": no secret documented in the reference"}
		}
		rk := ref5.KeysFromSecret(ref5.RetrySecret(rv), rv, ref5.TLS_AES_128_GCM_SHA256)
		r := c05Hex(vec.retry)
		// a tag made with the derived key/nonce must equal the vector's tag
		pseudo := append(append([]byte{byte(len(dcid))}, dcid...), r[:len(r)-16]...)
		tag := ref5.Keys{Suite: rk.Suite, Key: rk.Key, IV: rk.IV}.Seal(pseudo, nil, 0)
		explore.Must(bytes.Equal(tag, r[len(r)-16:]), "ref5 retry key/nonce derivation from the %s retry secret fails", vn)
		return explore.CaseResult{Outcome: "retry key derivation " + vn + ": reference ok"}
	case 5: // ChaCha20-Poly1305 short header packet
		sec := c05Hex(c05VecChaSecret)
		k := ref5.KeysFromSecret(sec, rv, ref5.TLS_CHACHA20_POLY1305_SHA256)
		explore.Must(eq(k.Key, vec.chachaKey) && eq(k.IV, vec.chachaIV) && eq(k.HP, vec.chachaHP), "ref5 chacha keys fail the %s vector", vn)
		pkt, err := ref5.Protect(c05Hex("4200bff4"), []byte{1}, 654360564, k)
		explore.Must(err == nil && eq(pkt, vec.chachaPacket), "ref5 chacha short header packet fails the %s vector", vn)
		hl, pn, pl, err := ref5.UnprotectShort(pkt, k, 654360563, 0)
		explore.Must(err == nil && hl == 4 && pn == 654360564 && bytes.Equal(pl, []byte{1}), "ref5.UnprotectShort fails the %s chacha vector: %v", vn, err)
		a := newUpdatableAEAD(utils.NewRTTStats(), nil, utils.DefaultLogger, v)
		a.SetWriteKey(getCipherSuite(ref5.TLS_CHACHA20_POLY1305_SHA256), sec)
		real := c05RealProtect(a, c05Hex("4200bff4"), []byte{1}, 654360564)
		if !eq(real, vec.chachaPacket) {
			return fail("chacha-short", "updatableAEAD chacha packet = %x, RFC: %s", real, vec.chachaPacket)
		}
		return explore.CaseResult{Outcome: "chacha short " + vn + ": ref ok, impl ok"}
	case 6: // key update secret
		sec := c05Hex(c05VecChaSecret)
		ku := ref5.NextGeneration(sec, rv, ref5.TLS_CHACHA20_POLY1305_SHA256)
		explore.Must(eq(ku, vec.chaKU), "ref5.NextGeneration fails the %s 'ku' vector: %x", vn, ku)
		// the implementation's derivation of the next generation's secret (same finding key as part "ku-derive")
		a := newUpdatableAEAD(utils.NewRTTStats(), nil, utils.DefaultLogger, v)
		if rku := a.getNextTrafficSecret(getCipherSuite(ref5.TLS_CHACHA20_POLY1305_SHA256).Hash, sec); !eq(rku, vec.chaKU) {
			return explore.CaseResult{Outcome: "MISMATCH ku secret " + vn, Replay: i + 1,
				Fail: explore.Failf("keyupdate-derivation:version="+vn, "updatableAEAD.getNextTrafficSecret(%s) for QUIC %s = %x, the RFC test vector (RFC 9001 A.5 / RFC 9369 A.5, label %q) is %s", c05VecChaSecret, vn, rku, map[bool]string{false: "quic ku", true: "quicv2 ku"}[v == protocol.Version2], vec.chaKU)}
		}
		return explore.CaseResult{Outcome: "ku secret " + vn + ": ref ok, impl ok"}
	}
	return explore.CaseResult{}
}

func c05VectorsPart() explore.Part {
	return c05CasesPart("ref-vectors", func(e explore.Env) (int, string, string, func(int) explore.CaseResult) {
		n := 1 + c05VecKinds*len(c05InitVecs)
		return n, "every hard-coded test vector of RFC 5869 A.1, RFC 9001 A.1-A.5 and RFC 9369 A.1-A.5 evaluated on the reference (harness error on mismatch) and on the real implementation (violation on mismatch)",
			fmt.Sprintf("all %d vector checks", n), c05VectorCase
	})
}
