//go:build verif

package handshake

import (
	"github.com/refraction-networking/uquic/internal/protocol"
	"github.com/refraction-networking/uquic/internal/utils"
)

// VerifC05Short1RTT is what the root-package harness of C05 needs from a real 1-RTT AEAD.
type VerifC05Short1RTT interface {
	ShortHeaderSealer
	ShortHeaderOpener
}

// VerifC05New1RTT builds a real updatableAEAD (the production 1-RTT sealer/opener) with
// the given cipher suite and traffic secrets. Nothing else is configured: no key update
// can be initiated (the handshake is not confirmed).
func VerifC05New1RTT(suiteID uint16, writeSecret, readSecret []byte, v protocol.Version) VerifC05Short1RTT {
	a := newUpdatableAEAD(utils.NewRTTStats(), nil, utils.DefaultLogger, v)
	cs := getCipherSuite(suiteID)
	a.SetReadKey(cs, readSecret)
	a.SetWriteKey(cs, writeSecret)
	return a
}

// VerifC05NewLong builds a long header sealer/opener pair exactly as cryptoSetup does for
// Handshake and 0-RTT keys.
func VerifC05NewLong(suiteID uint16, secret []byte, v protocol.Version) (LongHeaderSealer, LongHeaderOpener) {
	suite := getCipherSuite(suiteID)
	return newLongHeaderSealer(createAEAD(suite, secret, v), newHeaderProtector(suite, secret, true, v)),
		newLongHeaderOpener(createAEAD(suite, secret, v), newHeaderProtector(suite, secret, true, v))
}
