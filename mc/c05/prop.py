# ./check configuration for C05 (merged by mc/props.py)
PROP = dict(
        libs=["explore", "canon", "ref5"],
        level="model_checking", shards=1,
        # export shim: lets the root-package harness build real 1-RTT sealers/openers
        inject={"internal/handshake": ["mc/c05/inject/*.go"]},
        targets=[
            dict(name="hs", pkg="internal/handshake", test="TestVerifC05HS", files=["mc/c05/hs/*.go"],
                 parts=["ref-vectors", "suites", "ku-derive", "retry-tag",
                        "keyupdate-v1", "keyupdate-v1-i2", "keyupdate-v1-late", "keyupdate-v1-i2-late", "keyupdate-v1-chacha", "keyupdate-v2"]),
            dict(name="quic", pkg=".", test="TestVerifC05Quic", files=["mc/c05/root/*.go"],
                 parts=["initial", "levels", "tamper"]),
            dict(name="ack", pkg="internal/ackhandler", test="TestVerifC05Ack", files=["mc/c05/ack/*.go"],
                 parts=["pn-codec", "pngen", "sph-pn", "sph-pn-server", "sph-pn-edge", "sph-pn-uquic"]),
        ],
        level_text="Bounded-exhaustive differential checking of the real packet protection code (handshake.NewInitialAEAD, the sealers/openers, the header protectors, packetPacker.encryptPacket + packetUnpacker, GetRetryIntegrityTag, protocol.DecodePacketNumber / PacketNumberLengthForHeader) against an independent RFC 9001 / 9369 / 9000-A implementation (mc/lib/ref5, validated against the RFC test vectors on every run), plus explicit-state BFS over two real updatableAEADs (key-update state machine with reordering, loss, ACKs, timer steps, an adversary holding the keys [premature key update, terminal] and an adversary without keys that may, in EVERY state and any number of times, hand a receiver a modified copy of any packet in flight [key phase bit or tag bit flipped] or a made-up packet [key phase bit of the receiver's current or next phase, packet number 0 or 2^30]; such packets must be rejected, the reference model ignores them, and every later genuine packet, key update and drop-timer expiry is judged as if they had never arrived - so a rejected packet arriving as the first packet of a key phase, right after a local update or before the peer's update must not change how authentic packets are opened) and over the real sentPacketHandler / packet number generators. Every transition runs the real code, so there is no model/code gap. Right level because the property quantifies over inputs (CIDs, sizes, packet numbers) and over histories (key updates, reordering), which are finite on the small windows chosen around the boundaries in the code.",
        level_note="Trusted: the independent reference ref5 (cross-checked against RFC 9001 App. A and RFC 9369 App. A vectors, AEAD-authenticated), the key-update reference model in mc/c05/hs (phase ledger), Go's crypto primitives (shared by both sides: AES, GCM, ChaCha20, Poly1305, HMAC, SHA-2). Three byte patterns per connection ID length instead of all 2^160 CIDs; single-bit flips and truncations only (no multi-bit tampering); in the key-update BFS the keyless adversary's packets are two modifications per packet in flight and four made-up headers per direction (key phase bit current|next x packet number 0|2^30), always with intact header protection so that the chosen header fields reach Open; the random skip distance of the packet number generator is replaced by an enumerated choice of its smallest values.",
        technique="bounded-exhaustive differential testing against an independent reference + explicit-state BFS over the real implementation",
        deadline=dict(quick=80, thorough=850),
        rule="case enumeration (RunCases) for the input-quantified parts, explicit-state BFS (fresh instance + replay of the shortest path + one op) for the history-quantified parts; in the key-update BFS the operations of the keyless adversary (adv-tamper, adv-inject) and the clock step are enabled in every state and are not terminal",
        assumptions=["packet number decoding is required only for num_unacked <= 2^31 (beyond that RFC 9000 offers no encoding)",
                     "uQUIC Initial packet-number-length overrides are checked for the configurations the in-tree parrots use and small variations of them (base <= 2); larger InitPacketNumber values with a 1-byte override belong to C10",
                     "old read keys may legitimately be gone once a further key update happened or 3*PTO after the first AUTHENTIC packet of the new phase was received; a packet that fails authentication neither starts that timer nor counts as the first packet of a phase",
                     "the AEAD invalid-packet limit (2^36 / 2^52 failed openings) is out of reach within the depth bound; updatableAEAD.invalidPacketCount is therefore not part of the BFS state key",
                     "a made-up packet is sealed with a key generation the receiver never holds (generation 15; the BFS stops sending at phase 13) and carries correct header protection: the worst case of what random bytes can unmask to"],
    )
