package quic

// C05, target "quic" (root package): the real packetPacker (appendLongHeaderPacket /
// appendShortHeaderPacket / encryptPacket) and the real packetUnpacker, joined back to
// back and compared with the independent reference ref5.
//
//	initial  NewInitialAEAD for every CID length x 3 patterns x {v1,v2} x both perspectives
//	levels   Handshake / 0-RTT / 1-RTT keys of all three cipher suites
//	tamper   every single-bit flip and every truncation of protected packets must be rejected

import (
	"bytes"
	"context"
	"encoding/json"
	"errors"
	"fmt"
	"testing"

	"github.com/refraction-networking/uquic/internal/ackhandler"
	"github.com/refraction-networking/uquic/internal/handshake"
	"github.com/refraction-networking/uquic/internal/protocol"
	"github.com/refraction-networking/uquic/internal/qerr"
	"github.com/refraction-networking/uquic/internal/verifmc/explore"
	"github.com/refraction-networking/uquic/internal/verifmc/ref5"
	"github.com/refraction-networking/uquic/internal/wire"
)

func TestVerifC05Quic(t *testing.T) {
	explore.Main("C05", []explore.Part{
		c05InitialPart(),
		c05LevelsPart(),
		c05TamperPart(),
	}, func(msg string) { t.Fatal(msg) })
}

func c05CasesPart(name string, mk func(e explore.Env) (n int, rule, bound string, run func(i int) explore.CaseResult)) explore.Part {
	return explore.Part{
		Name: name,
		Run: func(e explore.Env) *explore.Report {
			n, rule, bound, run := mk(e)
			rep := explore.RunCases(e, n, 0, true, run)
			rep.Rule = rule
			rep.Bound = bound
			if !rep.Exhaustive {
				rep.Bound += " (cut by the deadline)"
			}
			for _, i := range []int{0, n / 2, n - 1} {
				if i >= 0 && i < n {
					rep.Samples = append(rep.Samples, fmt.Sprintf("case %d: %s", i, run(i).Outcome))
				}
			}
			return rep
		},
		Replay: func(e explore.Env, raw json.RawMessage) *explore.Violation {
			_, _, _, run := mk(e)
			cr := run(explore.ReplayIndex(raw))
			if cr.Fail == nil {
				return nil
			}
			return &explore.Violation{Key: cr.Fail.Key, What: cr.Fail.What, Replay: raw, Human: cr.Human}
		},
	}
}

// ---------------------------------------------------------------------------------------
// plumbing around the real packer / unpacker

func c05Pattern(kind, n int) []byte {
	b := make([]byte, n)
	for i := range b {
		switch kind {
		case 0:
			b[i] = 0
		case 1:
			b[i] = 0xff
		default:
			b[i] = byte(0x83 + 37*i + 11*n)
		}
	}
	return b
}

func c05VName(v protocol.Version) string {
	if v == protocol.Version2 {
		return "v2"
	}
	return "v1"
}

func c05SuiteName(id uint16) string {
	switch id {
	case ref5.TLS_AES_128_GCM_SHA256:
		return "aes128gcm"
	case ref5.TLS_AES_256_GCM_SHA384:
		return "aes256gcm"
	case ref5.TLS_CHACHA20_POLY1305_SHA256:
		return "chacha20poly1305"
	}
	return fmt.Sprintf("suite%#x", id)
}

var (
	c05Suites   = []uint16{ref5.TLS_AES_128_GCM_SHA256, ref5.TLS_AES_256_GCM_SHA384, ref5.TLS_CHACHA20_POLY1305_SHA256}
	c05Versions = []protocol.Version{protocol.Version1, protocol.Version2}
)

func c05SecretLen(suite uint16) int {
	if suite == ref5.TLS_AES_256_GCM_SHA384 {
		return 48
	}
	return 32
}

// c05RawFrame is a frame whose wire image is a given byte string.
type c05RawFrame struct{ data []byte }

func (f *c05RawFrame) Append(b []byte, _ protocol.Version) ([]byte, error) {
	return append(b, f.data...), nil
}
func (f *c05RawFrame) Length(protocol.Version) protocol.ByteCount {
	return protocol.ByteCount(len(f.data))
}

// c05PNM hands the packer the packet number the harness chose.
type c05PNM struct {
	pn    protocol.PacketNumber
	pnLen protocol.PacketNumberLen
}

func (m *c05PNM) PeekPacketNumber(protocol.EncryptionLevel) (protocol.PacketNumber, protocol.PacketNumberLen) {
	return m.pn, m.pnLen
}
func (m *c05PNM) PopPacketNumber(protocol.EncryptionLevel) protocol.PacketNumber { return m.pn }

// c05CS is a CryptoSetup that only hands out the openers the harness installed.
type c05CS struct {
	initial, hs, zero handshake.LongHeaderOpener
	oneRTT            handshake.ShortHeaderOpener
}

var _ handshake.CryptoSetup = &c05CS{}

func (c *c05CS) StartHandshake(context.Context) error                 { return nil }
func (c *c05CS) Close() error                                         { return nil }
func (c *c05CS) ChangeConnectionID(protocol.ConnectionID)             {}
func (c *c05CS) GetSessionTicket() ([]byte, error)                    { return nil, nil }
func (c *c05CS) HandleMessage([]byte, protocol.EncryptionLevel) error { return nil }
func (c *c05CS) NextEvent() handshake.Event                           { return handshake.Event{Kind: handshake.EventNoEvent} }
func (c *c05CS) SetLargest1RTTAcked(protocol.PacketNumber) error      { return nil }
func (c *c05CS) DiscardInitialKeys()                                  {}
func (c *c05CS) SetHandshakeConfirmed()                               {}
func (c *c05CS) ConnectionState() handshake.ConnectionState           { return handshake.ConnectionState{} }
func (c *c05CS) GetInitialSealer() (handshake.LongHeaderSealer, error) {
	return nil, handshake.ErrKeysDropped
}
func (c *c05CS) GetHandshakeSealer() (handshake.LongHeaderSealer, error) {
	return nil, handshake.ErrKeysDropped
}
func (c *c05CS) Get0RTTSealer() (handshake.LongHeaderSealer, error) {
	return nil, handshake.ErrKeysDropped
}
func (c *c05CS) Get1RTTSealer() (handshake.ShortHeaderSealer, error) {
	return nil, handshake.ErrKeysDropped
}
func (c *c05CS) GetInitialOpener() (handshake.LongHeaderOpener, error) {
	if c.initial == nil {
		return nil, handshake.ErrKeysDropped
	}
	return c.initial, nil
}
func (c *c05CS) GetHandshakeOpener() (handshake.LongHeaderOpener, error) {
	if c.hs == nil {
		return nil, handshake.ErrKeysNotYetAvailable
	}
	return c.hs, nil
}
func (c *c05CS) Get0RTTOpener() (handshake.LongHeaderOpener, error) {
	if c.zero == nil {
		return nil, handshake.ErrKeysNotYetAvailable
	}
	return c.zero, nil
}
func (c *c05CS) Get1RTTOpener() (handshake.ShortHeaderOpener, error) {
	if c.oneRTT == nil {
		return nil, handshake.ErrKeysNotYetAvailable
	}
	return c.oneRTT, nil
}

// c05Payload returns the payload handed to the packer and the plaintext the packer must
// produce from it (PADDING in front when the payload is too short for a sample).
func c05Payload(plLen int, pnLen protocol.PacketNumberLen) (payload, []byte) {
	var pl payload
	data := c05Pattern(2, plLen)
	if plLen > 0 {
		data[0] |= 1 // never a PADDING byte in front: the plaintext is compared byte for byte anyway
		pl.frames = []ackhandler.Frame{{Frame: &c05RawFrame{data: data}}}
		pl.length = protocol.ByteCount(plLen)
	}
	pad := 0
	if plLen < 4-int(pnLen) {
		pad = 4 - int(pnLen) - plLen
	}
	return pl, append(make([]byte, pad), data...)
}

func c05EncLevel(t protocol.PacketType) protocol.EncryptionLevel {
	switch t {
	case protocol.PacketTypeInitial:
		return protocol.EncryptionInitial
	case protocol.PacketTypeHandshake:
		return protocol.EncryptionHandshake
	}
	return protocol.Encryption0RTT
}

// c05PackLong runs the real packer on one long header packet.
func c05PackLong(hdr *wire.ExtendedHeader, plLen int, s handshake.LongHeaderSealer, v protocol.Version) (raw, plain []byte, err error) {
	p := &packetPacker{pnManager: &c05PNM{pn: hdr.PacketNumber, pnLen: hdr.PacketNumberLen}}
	buf := &packetBuffer{Data: make([]byte, 0, protocol.MaxLargePacketBufferSize)}
	pl, plain := c05Payload(plLen, hdr.PacketNumberLen)
	if _, err := p.appendLongHeaderPacket(buf, hdr, pl, 0, c05EncLevel(hdr.Type), s, v); err != nil {
		return nil, nil, err
	}
	return buf.Data, plain, nil
}

func c05PackShort(connID protocol.ConnectionID, pn protocol.PacketNumber, pnLen protocol.PacketNumberLen, plLen int, s handshake.ShortHeaderSealer, v protocol.Version) (raw, plain []byte, kp protocol.KeyPhaseBit, err error) {
	p := &packetPacker{pnManager: &c05PNM{pn: pn, pnLen: pnLen}}
	buf := &packetBuffer{Data: make([]byte, 0, protocol.MaxLargePacketBufferSize)}
	pl, plain := c05Payload(plLen, pnLen)
	kp = s.KeyPhase()
	if _, err := p.appendShortHeaderPacket(buf, connID, pn, pnLen, kp, pl, 0, protocol.MaxLargePacketBufferSize, s, false, v); err != nil {
		return nil, nil, kp, err
	}
	return buf.Data, plain, kp, nil
}

// c05RefLongHeader builds the unprotected long header independently of internal/wire
// (RFC 9000 17.2; RFC 9369 3.2 for the v2 type codes). The Length field is written as a
// 2-byte varint like the implementation does (any varint size would be valid).
func c05RefLongHeader(v protocol.Version, typ int, dcid, scid, token []byte, pn uint64, pnLen, payloadLen int) []byte {
	code := typ // ref5.TypeInitial.. = v1 codes
	if v == protocol.Version2 {
		code = (typ + 1) & 3
	}
	b := []byte{0xc0 | byte(code)<<4 | byte(pnLen-1), byte(v >> 24), byte(v >> 16), byte(v >> 8), byte(v)}
	b = append(b, byte(len(dcid)))
	b = append(b, dcid...)
	b = append(b, byte(len(scid)))
	b = append(b, scid...)
	if typ == ref5.TypeInitial {
		b = ref5.AppendVarint(b, uint64(len(token)))
		b = append(b, token...)
	}
	l := pnLen + payloadLen + ref5.TagLen
	b = append(b, 0x40|byte(l>>8), byte(l))
	return append(b, ref5.EncodePacketNumber(pn, pnLen)...)
}

func c05RefType(t protocol.PacketType) int {
	switch t {
	case protocol.PacketTypeInitial:
		return ref5.TypeInitial
	case protocol.PacketTypeHandshake:
		return ref5.TypeHandshake
	}
	return ref5.TypeZeroRTT
}

// c05Receive does what Conn.handlePacketImpl does with a datagram containing one packet:
// long header packets are parsed by wire.ParsePacket and handed to UnpackLongHeader, short
// header packets go to UnpackShortHeader.
type c05Rcvd struct {
	long  *unpackedPacket
	pn    protocol.PacketNumber
	pnLen protocol.PacketNumberLen
	kp    protocol.KeyPhaseBit
	data  []byte
	stage string // where a rejection happened
}

func c05Receive(u *packetUnpacker, datagram []byte) (c05Rcvd, error) {
	data := append([]byte(nil), datagram...)
	if len(data) == 0 {
		return c05Rcvd{stage: "empty"}, errors.New("empty datagram")
	}
	if wire.IsLongHeaderPacket(data[0]) {
		hdr, pkt, _, err := wire.ParsePacket(data)
		if err != nil {
			return c05Rcvd{stage: "parse"}, err
		}
		up, err := u.UnpackLongHeader(hdr, pkt)
		if err != nil {
			return c05Rcvd{stage: "unpack"}, err
		}
		return c05Rcvd{long: up, pn: up.hdr.PacketNumber, pnLen: up.hdr.PacketNumberLen, data: up.data}, nil
	}
	pn, pnLen, kp, dec, err := u.UnpackShortHeader(1, data)
	if err != nil {
		return c05Rcvd{stage: "unpack"}, err
	}
	return c05Rcvd{pn: pn, pnLen: pnLen, kp: kp, data: dec}, nil
}

func c05ErrClass(err error) string {
	var te *qerr.TransportError
	var hp *headerParseError
	switch {
	case err == nil:
		return "ok"
	case err == handshake.ErrDecryptionFailed:
		return "decryption-failed"
	case err == handshake.ErrKeysDropped:
		return "keys-dropped"
	case err == handshake.ErrKeysNotYetAvailable:
		return "keys-not-available"
	case err == wire.ErrInvalidReservedBits:
		return "invalid-reserved-bits"
	case errors.Is(err, wire.ErrUnsupportedVersion):
		return "unsupported-version"
	case errors.As(err, &te):
		return "transport-error-" + te.ErrorCode.String()
	case errors.As(err, &hp):
		return "header-parse-error"
	}
	return "parse-error"
}

// c05CheckLong compares one long header packet produced by the real packer with the
// reference and pushes it through the real unpacker and the reference unprotector.
func c05CheckLong(tag string, hdr *wire.ExtendedHeader, plLen int, sealer handshake.LongHeaderSealer, u *packetUnpacker, keys ref5.Keys, v protocol.Version, largest int64) *explore.Fail {
	pn, pnLen := uint64(hdr.PacketNumber), int(hdr.PacketNumberLen)
	raw, plain, err := c05PackLong(hdr, plLen, sealer, v)
	desc := fmt.Sprintf("%s pn=%d pnLen=%d payload=%d token=%d", tag, pn, pnLen, plLen, len(hdr.Token))
	if err != nil {
		return explore.Failf("pack-error:"+tag, "%s: packer failed: %v", desc, err)
	}
	refHdr := c05RefLongHeader(v, c05RefType(hdr.Type), hdr.DestConnectionID.Bytes(), hdr.SrcConnectionID.Bytes(), hdr.Token, pn, pnLen, len(plain))
	want, err := ref5.Protect(refHdr, plain, pn, keys)
	explore.Must(err == nil, "ref5.Protect: %v", err)
	if !bytes.Equal(raw, want) {
		d := 0
		for d < len(raw) && d < len(want) && raw[d] == want[d] {
			d++
		}
		return explore.Failf("wire-mismatch:"+tag, "%s: packet built by the implementation (%d bytes) differs from the reference (%d bytes) at offset %d: %x vs %x", desc, len(raw), len(want), d, raw[d:min(len(raw), d+16)], want[d:min(len(want), d+16)])
	}
	// reference opens the implementation's packet
	rh, rpn, rpl, rlen, err := ref5.UnprotectLongFull(raw, keys, largest)
	if err != nil || rpn != pn || !bytes.Equal(rpl, plain) || !bytes.Equal(rh, refHdr) || rlen != len(raw) {
		return explore.Failf("ref-cannot-open:"+tag, "%s: reference unprotects the implementation's packet to pn=%d hdr=%x err=%v", desc, rpn, rh, err)
	}
	// implementation opens it (the bytes equal the reference's packet)
	got, err := c05Receive(u, raw)
	if len(plain) == 0 {
		var te *qerr.TransportError
		if errors.As(err, &te) && te.ErrorCode == qerr.ProtocolViolation {
			return nil // a packet without frames is a PROTOCOL_VIOLATION by design
		}
	}
	if err != nil {
		return explore.Failf("peer-cannot-open:"+tag, "%s: unpacker failed on the genuine packet: %v", desc, err)
	}
	h := got.long.hdr
	if h.PacketNumber != hdr.PacketNumber || h.PacketNumberLen != hdr.PacketNumberLen || h.Type != hdr.Type || h.Version != v ||
		h.DestConnectionID != hdr.DestConnectionID || h.SrcConnectionID != hdr.SrcConnectionID || !bytes.Equal(h.Token, hdr.Token) ||
		int(h.Length) != pnLen+len(plain)+16 || got.long.encryptionLevel != c05EncLevel(hdr.Type) {
		return explore.Failf("header-fields-differ:"+tag, "%s: unpacked header %+v differs from the packed header %+v", desc, h, hdr)
	}
	if !bytes.Equal(got.data, plain) {
		return explore.Failf("payload-differs:"+tag, "%s: unpacked payload differs from the packed one", desc)
	}
	return nil
}

func c05CheckShort(tag string, connID protocol.ConnectionID, pn uint64, pnLen, plLen int, sealer handshake.ShortHeaderSealer, u *packetUnpacker, keys ref5.Keys, v protocol.Version, largest int64) *explore.Fail {
	raw, plain, kp, err := c05PackShort(connID, protocol.PacketNumber(pn), protocol.PacketNumberLen(pnLen), plLen, sealer, v)
	desc := fmt.Sprintf("%s pn=%d pnLen=%d payload=%d cid=%d", tag, pn, pnLen, plLen, connID.Len())
	if err != nil {
		return explore.Failf("pack-error:"+tag, "%s: packer failed: %v", desc, err)
	}
	first := byte(0x40 | (pnLen - 1))
	if kp == protocol.KeyPhaseOne {
		first |= 4
	}
	refHdr := append(append([]byte{first}, connID.Bytes()...), ref5.EncodePacketNumber(pn, pnLen)...)
	want, err := ref5.Protect(refHdr, plain, pn, keys)
	explore.Must(err == nil, "ref5.Protect: %v", err)
	if !bytes.Equal(raw, want) {
		return explore.Failf("wire-mismatch:"+tag, "%s: packet built by the implementation %x... differs from the reference %x...", desc, raw[:min(len(raw), 32)], want[:min(len(want), 32)])
	}
	rh, rpn, rpl, err := ref5.UnprotectShortFull(raw, keys, largest, connID.Len())
	if err != nil || rpn != pn || !bytes.Equal(rpl, plain) || !bytes.Equal(rh, refHdr) {
		return explore.Failf("ref-cannot-open:"+tag, "%s: reference unprotects the implementation's packet to pn=%d hdr=%x err=%v", desc, rpn, rh, err)
	}
	got, err := c05Receive(u, raw)
	if len(plain) == 0 {
		var te *qerr.TransportError
		if errors.As(err, &te) && te.ErrorCode == qerr.ProtocolViolation {
			return nil
		}
	}
	if err != nil {
		return explore.Failf("peer-cannot-open:"+tag, "%s: unpacker failed on the genuine packet: %v", desc, err)
	}
	if got.pn != protocol.PacketNumber(pn) || int(got.pnLen) != pnLen || got.kp != kp {
		return explore.Failf("header-fields-differ:"+tag, "%s: unpacked pn=%d len=%d kp=%s", desc, got.pn, got.pnLen, got.kp)
	}
	if !bytes.Equal(got.data, plain) {
		return explore.Failf("payload-differs:"+tag, "%s: unpacked payload differs from the packed one", desc)
	}
	return nil
}

// c05Sizes lists payload lengths handed to the packer: from 0 (padded by the packer to the
// minimum that yields a header protection sample) upwards.
func c05Sizes(thorough bool) []int {
	var s []int
	if thorough {
		for i := 0; i <= 3*1200; i++ {
			s = append(s, i)
		}
		return s
	}
	for i := 0; i <= 24; i++ {
		s = append(s, i)
	}
	return append(s, 31, 32, 33, 63, 64, 65, 127, 128, 129, 255, 256, 257, 1161, 1162, 1163, 1199, 1200, 1201, 1251, 1252, 2400, 3599, 3600)
}

// ---------------------------------------------------------------------------------------
// part "initial"

func c05InitialCase(thorough bool) func(i int) explore.CaseResult {
	sizes := c05Sizes(thorough)
	return func(i int) explore.CaseResult {
		pers := protocol.PerspectiveClient
		if i%2 == 1 {
			pers = protocol.PerspectiveServer
		}
		v := c05Versions[i/2%2]
		pat := i / 4 % 3
		cl := i / 12
		dcid := c05Pattern(pat, cl)
		connID := protocol.ParseConnectionID(dcid)
		tag := fmt.Sprintf("initial:%s:%s", c05VName(v), pers)
		where := fmt.Sprintf("DCID %x", dcid)
		sealer, _ := handshake.NewInitialAEAD(connID, pers, v)
		_, opener := handshake.NewInitialAEAD(connID, pers.Opposite(), v)
		u := newPacketUnpacker(&c05CS{initial: opener}, 0)
		ck, sk := ref5.InitialKeys(uint32(v), dcid)
		keys := ck
		if pers == protocol.PerspectiveServer {
			keys = sk
		}
		tokens := []int{0, 1, 63, 64, 300}
		tokenSet := []int{tokens[i%5]}
		if thorough {
			tokenSet = []int{tokens[i%5], tokens[(i+2)%5]}
		}
		if pers == protocol.PerspectiveServer {
			tokenSet = []int{0} // servers do not send tokens in Initial packets
		}
		pn := []uint64{0, 0xf0, 0xffc0, 0xffffc0}[i/5%4]
		largest := int64(-1)
		var n int64
		for _, tl := range tokenSet {
			for pnLen := 4; pnLen >= 1; pnLen-- {
				for _, sz := range sizes {
					hdr := &wire.ExtendedHeader{
						Header: wire.Header{
							Type: protocol.PacketTypeInitial, Version: v,
							DestConnectionID: connID,
							SrcConnectionID:  protocol.ParseConnectionID(c05Pattern(2, (cl*7+3)%21)),
							Token:            c05Pattern(2, tl),
						},
						PacketNumber: protocol.PacketNumber(pn), PacketNumberLen: protocol.PacketNumberLen(pnLen),
					}
					if pers == protocol.PerspectiveServer { // the server addresses the client's source connection ID
						hdr.DestConnectionID, hdr.SrcConnectionID = hdr.SrcConnectionID, protocol.ParseConnectionID(c05Pattern(2, (cl*5+1)%21))
					}
					if fl := c05CheckLong(tag, hdr, sz, sealer, u, keys, v, largest); fl != nil {
						fl.What = where + ": " + fl.What
						return explore.CaseResult{Outcome: "FAIL " + fl.Key, Fail: fl, Replay: i}
					}
					largest = int64(pn)
					pn++
					n++
				}
			}
		}
		return explore.CaseResult{Outcome: fmt.Sprintf("%s/%s identical+opened", c05VName(v), pers), Trans: n}
	}
}

func c05InitialPart() explore.Part {
	return c05CasesPart("initial", func(e explore.Env) (int, string, string, func(int) explore.CaseResult) {
		return 21 * 12, fmt.Sprintf("DCID length 0..20 x 3 byte patterns x {v1,v2} x {client,server} sender; per case %d payload sizes (0 = padded by the packer to the minimum that yields a header protection sample .. 3x1200) x packet number length 4..1 x 1-2 token lengths, consecutive packet numbers starting at 0 / 0xf0 / 0xffc0 / 0xffffc0: packet built by packetPacker.appendLongHeaderPacket with handshake.NewInitialAEAD must equal ref5.Protect(InitialKeys) bit for bit, ref5 must unprotect it, and packetUnpacker with the peer's NewInitialAEAD opener must return the same header fields and payload", len(c05Sizes(e.Thorough()))),
			"all 252 cases", c05InitialCase(e.Thorough())
	})
}

// ---------------------------------------------------------------------------------------
// part "levels"

var c05LongCIDLens = []int{0, 1, 4, 8, 16, 19, 20}

func c05LevelsN() int { return 3 * 2 * (21 + 2*len(c05LongCIDLens)) }

func c05LevelsCase(thorough bool) func(i int) explore.CaseResult {
	sizes := c05Sizes(false)
	if thorough {
		sizes = nil
		for s := 0; s <= 1500; s++ {
			sizes = append(sizes, s)
		}
		sizes = append(sizes, 2400, 3599, 3600)
	}
	per := 21 + 2*len(c05LongCIDLens)
	return func(i int) explore.CaseResult {
		suite := c05Suites[i/per%3]
		v := c05Versions[i/(3*per)]
		k := i % per
		secret := c05Pattern(2, c05SecretLen(suite)+k)[k:]
		other := c05Pattern(1, c05SecretLen(suite))
		keys := ref5.KeysFromSecret(secret, uint32(v), suite)
		pn := []uint64{0, 0xf0, 0xffc0, 0xffffc0}[i%4]
		largest := int64(-1)
		var n int64
		if k < 21 { // 1-RTT, destination connection ID length k
			tag := fmt.Sprintf("1rtt:%s:%s", c05VName(v), c05SuiteName(suite))
			connID := protocol.ParseConnectionID(c05Pattern(2, k))
			snd := handshake.VerifC05New1RTT(suite, secret, other, v)
			rcv := handshake.VerifC05New1RTT(suite, other, secret, v)
			u := newPacketUnpacker(&c05CS{oneRTT: rcv}, k)
			for pnLen := 4; pnLen >= 1; pnLen-- {
				for _, sz := range sizes {
					if fl := c05CheckShort(tag, connID, pn, pnLen, sz, snd, u, keys, v, largest); fl != nil {
						return explore.CaseResult{Outcome: "FAIL " + fl.Key, Fail: fl, Replay: i}
					}
					largest = int64(pn)
					pn++
					n++
				}
			}
			return explore.CaseResult{Outcome: fmt.Sprintf("1rtt %s/%s identical+opened", c05VName(v), c05SuiteName(suite)), Trans: n}
		}
		k -= 21
		typ := protocol.PacketTypeHandshake
		if k >= len(c05LongCIDLens) {
			typ = protocol.PacketType0RTT
			k -= len(c05LongCIDLens)
		}
		cl := c05LongCIDLens[k]
		tag := fmt.Sprintf("%s:%s:%s", typ, c05VName(v), c05SuiteName(suite))
		sealer, opener := handshake.VerifC05NewLong(suite, secret, v)
		cs := &c05CS{hs: opener}
		if typ == protocol.PacketType0RTT {
			cs = &c05CS{zero: opener}
		}
		u := newPacketUnpacker(cs, 0)
		for pnLen := 4; pnLen >= 1; pnLen-- {
			for _, sz := range sizes {
				hdr := &wire.ExtendedHeader{
					Header: wire.Header{Type: typ, Version: v,
						DestConnectionID: protocol.ParseConnectionID(c05Pattern(2, cl)),
						SrcConnectionID:  protocol.ParseConnectionID(c05Pattern(1, 20-cl))},
					PacketNumber: protocol.PacketNumber(pn), PacketNumberLen: protocol.PacketNumberLen(pnLen),
				}
				if fl := c05CheckLong(tag, hdr, sz, sealer, u, keys, v, largest); fl != nil {
					return explore.CaseResult{Outcome: "FAIL " + fl.Key, Fail: fl, Replay: i}
				}
				largest = int64(pn)
				pn++
				n++
			}
		}
		return explore.CaseResult{Outcome: fmt.Sprintf("%s %s/%s identical+opened", typ, c05VName(v), c05SuiteName(suite)), Trans: n}
	}
}

func c05LevelsPart() explore.Part {
	return c05CasesPart("levels", func(e explore.Env) (int, string, string, func(int) explore.CaseResult) {
		n := c05LevelsN()
		return n, "3 cipher suites x {v1,v2} x (1-RTT packets for every destination CID length 0..20 + Handshake and 0-RTT packets for 7 CID lengths), keys built the way cryptoSetup installs them; per case payload sizes x packet number length 4..1, consecutive packet numbers: packetPacker output == ref5.Protect(KeysFromSecret), ref5 unprotects it, the peer's packetUnpacker returns the same header fields and payload",
			fmt.Sprintf("all %d cases", n), c05LevelsCase(e.Thorough())
	})
}
