package quic

// Part "tamper": every single-bit flip and every truncation (for 1-RTT packets also a
// one-byte extension) of genuine protected packets is fed to the real receive path
// (wire.ParsePacket + packetUnpacker) and must be rejected; afterwards the genuine packet
// must still open to the original content.

import (
	"bytes"
	"fmt"

	"github.com/refraction-networking/uquic/internal/handshake"
	"github.com/refraction-networking/uquic/internal/protocol"
	"github.com/refraction-networking/uquic/internal/verifmc/explore"
	"github.com/refraction-networking/uquic/internal/verifmc/ref5"
	"github.com/refraction-networking/uquic/internal/wire"
)

type c05TamperForm struct {
	name    string
	typ     protocol.PacketType // 0: 1-RTT
	short   bool
	v       protocol.Version
	suite   uint16
	dcidLen int
	scidLen int
	token   int
	server  bool
}

var c05TamperForms = []c05TamperForm{
	{name: "initial-client-v1", typ: protocol.PacketTypeInitial, v: protocol.Version1, dcidLen: 8, scidLen: 0},
	{name: "initial-server-v2", typ: protocol.PacketTypeInitial, v: protocol.Version2, dcidLen: 5, scidLen: 8, server: true},
	{name: "initial-client-v2-token", typ: protocol.PacketTypeInitial, v: protocol.Version2, dcidLen: 20, scidLen: 3, token: 16},
	{name: "handshake-v1-chacha", typ: protocol.PacketTypeHandshake, v: protocol.Version1, suite: ref5.TLS_CHACHA20_POLY1305_SHA256, dcidLen: 4, scidLen: 4},
	{name: "0rtt-v2-aes256", typ: protocol.PacketType0RTT, v: protocol.Version2, suite: ref5.TLS_AES_256_GCM_SHA384, dcidLen: 8, scidLen: 0},
	{name: "1rtt-v1-aes128", short: true, v: protocol.Version1, suite: ref5.TLS_AES_128_GCM_SHA256, dcidLen: 8},
	{name: "1rtt-v2-aes256", short: true, v: protocol.Version2, suite: ref5.TLS_AES_256_GCM_SHA384, dcidLen: 0},
	{name: "1rtt-v1-chacha", short: true, v: protocol.Version1, suite: ref5.TLS_CHACHA20_POLY1305_SHA256, dcidLen: 20},
}

// payload lengths handed to the packer: the three smallest packet sizes for the packet
// number length and a packet of about 1200 bytes
func c05TamperSizes(pnLen int) []int {
	m := max(4-pnLen, 1)
	return []int{m, m + 1, m + 2, 1150}
}

type c05TamperBase struct {
	form   c05TamperForm
	pnLen  int
	plLen  int
	raw    []byte
	plain  []byte
	pn     uint64
	hdrLen int // length of the header including the packet number
	mkUnp  func() *packetUnpacker
}

func c05TamperBuild(f c05TamperForm, pnLen, plLen int) (*c05TamperBase, error) {
	b := &c05TamperBase{form: f, pnLen: pnLen, plLen: plLen, pn: 1}
	dcid := protocol.ParseConnectionID(c05Pattern(2, f.dcidLen))
	scid := protocol.ParseConnectionID(c05Pattern(1, f.scidLen))
	if f.short {
		s1, s2 := c05Pattern(2, c05SecretLen(f.suite)), c05Pattern(1, c05SecretLen(f.suite))
		snd := handshake.VerifC05New1RTT(f.suite, s1, s2, f.v)
		raw, plain, _, err := c05PackShort(dcid, 1, protocol.PacketNumberLen(pnLen), plLen, snd, f.v)
		if err != nil {
			return nil, err
		}
		b.raw, b.plain, b.hdrLen = raw, plain, 1+f.dcidLen+pnLen
		b.mkUnp = func() *packetUnpacker {
			return newPacketUnpacker(&c05CS{oneRTT: handshake.VerifC05New1RTT(f.suite, s2, s1, f.v)}, f.dcidLen)
		}
		return b, nil
	}
	hdr := &wire.ExtendedHeader{
		Header:       wire.Header{Type: f.typ, Version: f.v, DestConnectionID: dcid, SrcConnectionID: scid, Token: c05Pattern(2, f.token)},
		PacketNumber: 1, PacketNumberLen: protocol.PacketNumberLen(pnLen),
	}
	var sealer handshake.LongHeaderSealer
	if f.typ == protocol.PacketTypeInitial {
		odcid := protocol.ParseConnectionID(c05Pattern(2, 8))
		pers := protocol.PerspectiveClient
		if f.server {
			pers = protocol.PerspectiveServer
		}
		sealer, _ = handshake.NewInitialAEAD(odcid, pers, f.v)
		b.mkUnp = func() *packetUnpacker {
			_, o := handshake.NewInitialAEAD(odcid, pers.Opposite(), f.v)
			return newPacketUnpacker(&c05CS{initial: o}, 0)
		}
	} else {
		secret := c05Pattern(2, c05SecretLen(f.suite))
		sealer, _ = handshake.VerifC05NewLong(f.suite, secret, f.v)
		b.mkUnp = func() *packetUnpacker {
			_, o := handshake.VerifC05NewLong(f.suite, secret, f.v)
			if f.typ == protocol.PacketType0RTT {
				return newPacketUnpacker(&c05CS{zero: o}, 0)
			}
			return newPacketUnpacker(&c05CS{hs: o}, 0)
		}
	}
	raw, plain, err := c05PackLong(hdr, plLen, sealer, f.v)
	if err != nil {
		return nil, err
	}
	b.raw, b.plain = raw, plain
	b.hdrLen = len(raw) - len(plain) - 16
	return b, nil
}

// region names the part of the packet a byte offset lies in (for the violation key).
func (b *c05TamperBase) region(off int) string {
	switch {
	case off == 0:
		return "first-byte"
	case off >= len(b.raw)-16:
		return "tag"
	case off >= b.hdrLen:
		return "payload"
	case off >= b.hdrLen-b.pnLen:
		return "packet-number"
	case !b.form.short && off < 5:
		return "version"
	}
	return "header"
}

func c05TamperCase(thorough bool) func(i int) explore.CaseResult {
	pnLens := []int{2}
	if thorough {
		pnLens = []int{1, 2, 3, 4}
	}
	return func(i int) explore.CaseResult {
		f := c05TamperForms[i/(4*len(pnLens))]
		pnLen := pnLens[i/4%len(pnLens)]
		plLen := c05TamperSizes(pnLen)[i%4]
		b, err := c05TamperBuild(f, pnLen, plLen)
		explore.Must(err == nil, "tamper: cannot build base packet: %v", err)
		u := b.mkUnp()
		got, err := c05Receive(u, b.raw)
		if err != nil || !bytes.Equal(got.data, b.plain) || got.pn != 1 {
			return explore.CaseResult{Outcome: "genuine rejected", Replay: i, Fail: explore.Failf("tamper-genuine-rejected:"+f.name, "the untampered %s packet (%d bytes) is not opened: %v", f.name, len(b.raw), err)}
		}
		u = b.mkUnp()
		classes := map[string]int{}
		var n int64
		try := func(kind string, off int, mut []byte) *explore.Fail {
			n++
			got, err := c05Receive(u, mut)
			if err == nil {
				return explore.Failf(fmt.Sprintf("tamper-accepted:%s:%s:%s", f.name, kind, b.region(off)),
					"%s packet of %d bytes (pnLen %d): %s at byte %d was ACCEPTED: pn=%d payload %x (genuine pn=1 payload %x)", f.name, len(b.raw), pnLen, kind, off, got.pn, got.data[:min(len(got.data), 16)], b.plain[:min(len(b.plain), 16)])
			}
			classes[kind+"->"+c05ErrClass(err)]++
			return nil
		}
		for off := 0; off < len(b.raw); off++ {
			for bit := 0; bit < 8; bit++ {
				mut := append([]byte(nil), b.raw...)
				mut[off] ^= 1 << bit
				if fl := try("bitflip", off, mut); fl != nil {
					return explore.CaseResult{Outcome: "ACCEPTED", Fail: fl, Replay: i}
				}
			}
		}
		for l := 0; l < len(b.raw); l++ {
			if fl := try("truncation", l, b.raw[:l]); fl != nil {
				return explore.CaseResult{Outcome: "ACCEPTED", Fail: fl, Replay: i}
			}
		}
		if f.short { // a 1-RTT packet extends to the end of the datagram
			for _, x := range []byte{0, 0xff} {
				if fl := try("extension", len(b.raw), append(append([]byte(nil), b.raw...), x)); fl != nil {
					return explore.CaseResult{Outcome: "ACCEPTED", Fail: fl, Replay: i}
				}
			}
		}
		// the receiver that saw all the forgeries still opens the genuine packet
		got, err = c05Receive(u, b.raw)
		if err != nil || !bytes.Equal(got.data, b.plain) || got.pn != 1 {
			return explore.CaseResult{Outcome: "genuine rejected after forgeries", Replay: i, Fail: explore.Failf("tamper-receiver-corrupted:"+f.name, "after %d rejected forgeries the genuine %s packet is not opened any more: %v", n, f.name, err)}
		}
		out := f.name + ":"
		for _, k := range explore.SortedKeys(classes) {
			out += " " + k
		}
		return explore.CaseResult{Outcome: out, Trans: n}
	}
}

func c05TamperPart() explore.Part {
	return c05CasesPart("tamper", func(e explore.Env) (int, string, string, func(int) explore.CaseResult) {
		pl := 1
		if e.Thorough() {
			pl = 4
		}
		n := len(c05TamperForms) * 4 * pl
		return n, fmt.Sprintf("%d packet forms (Initial client/server/with token, Handshake, 0-RTT, 1-RTT; v1 and v2; all three suites) x %d packet number length(s) x {three smallest packet sizes, one ~1200-byte packet}: every single-bit flip, every truncation (1-RTT: also a one-byte extension) goes through wire.ParsePacket + packetUnpacker and must be rejected; the genuine packet must open before and after", len(c05TamperForms), pl),
			fmt.Sprintf("all %d base packets, every bit and every length", n), c05TamperCase(e.Thorough())
	})
}
