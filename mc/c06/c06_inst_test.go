package ackhandler

// C06 harness: explicit-state search over the real sentPacketHandler (optionally behind the
// uQUIC wrapper uSentPacketHandler) driven through the SentPacketHandler API in the order
// connection.go / packet_packer.go use it, with recording FrameHandlers, a harness-owned
// clock and a ledger reference model.
//
// Oracle (only what the C06 statement says):
//   L  every frame handed in is reported (OnAcked | OnLost) at most once, and a frame whose
//      packet is no longer tracked by the handler has been reported exactly once -- unless
//      its packet-number space was discarded (DropPackets(Initial|Handshake); the 0-RTT
//      packets on DropPackets(0-RTT)),
//   B  bytesInFlight == sum of the sizes of the ack-eliciting packets that are still
//      outstanding (path-probe packets travel on another path, are tracked separately by the
//      code and are not part of this path's bytes in flight),
//   P  an ACK frame that covers a packet number that was never handed to SentPacket
//      (above the largest sent, skipped, below the first number) must be answered with a
//      PROTOCOL_VIOLATION transport error,
//   T  whenever an ack-eliciting Initial/Handshake packet, or (after DropPackets(Handshake) =
//      handshake confirmation) an ack-eliciting application-data packet is outstanding and
//      the handler is not amplification-blocked, GetLossDetectionTimeout() is non-zero,
//   Q  "reported exactly once" on a finite history: the operation `settle` closes the history the
//      way a live connection does -- the clock advances by one hour, one more ordinary
//      ack-eliciting packet is sent in every packet-number space that still holds unreported
//      frames and the peer acknowledges exactly that packet, then every loss-detection deadline
//      is served (OnLossDetectionTimeout at the deadline; a PTO probe is sent and acknowledged)
//      until no deadline is armed. In that quiescent state (nothing scheduled, every ACK
//      delivered) no frame of a packet sent an hour before an acknowledged packet of its space
//      may still be unreported: nothing is left that would ever report it,
//   S  "reported exactly once" on the history in which the peer falls silent: the operation
//      `silence` continues the history with timer expiries only -- no further ACK arrives; every
//      loss-detection deadline is served at its time (OnLossDetectionTimeout) and, while the
//      handler is in a PTO send mode, the connection's probe procedure runs (QueueProbePacket, one
//      ack-eliciting probe packet sent, never acknowledged). If this continuation returns to a
//      state it has been in before (same handler state relative to the clock, same ledger) while a
//      frame handed in before is still unreported, then repeating that cycle for ever is a history
//      of timer expiries in which the frame is never reported acked or lost: a violation. Nothing
//      is demanded of a continuation that does not cycle within c06SilenceRounds deadlines,
//   no panic.
//
// Path migration (MigratedPath, the call connection.go makes when the client switches to a
// validated path or the server follows the peer's new address) is one more operation of the
// alphabet. It gets no clause of its own: L and B above judge it -- whatever the handler stops
// tracking must have been reported, and bytesInFlight must still equal the ack-eliciting
// packets that are outstanding afterwards.

import (
	"errors"
	"fmt"
	"sort"
	"strings"
	"time"

	"github.com/refraction-networking/uquic/internal/monotime"
	"github.com/refraction-networking/uquic/internal/protocol"
	"github.com/refraction-networking/uquic/internal/qerr"
	"github.com/refraction-networking/uquic/internal/utils"
	"github.com/refraction-networking/uquic/internal/verifmc/canon"
	"github.com/refraction-networking/uquic/internal/verifmc/explore"
	"github.com/refraction-networking/uquic/internal/wire"
)

// encryption levels (op argument A of send) and packet kinds (argument B)
const (
	c06I = 0
	c06H = 1
	c06Z = 2 // 0-RTT
	c06A = 3 // 1-RTT

	c06Elic    = 0 // ack-eliciting, one control frame
	c06AckOnly = 1 // no retransmittable frame
	c06Multi   = 2 // ack-eliciting, one STREAM frame + one control frame
	c06MTU     = 3 // path MTU probe (1-RTT only)
	c06Path    = 4 // path probe (1-RTT only)

	c06Clock0 = monotime.Time(1000 * time.Second)
)

func c06Level(l int) protocol.EncryptionLevel {
	switch l {
	case c06I:
		return protocol.EncryptionInitial
	case c06H:
		return protocol.EncryptionHandshake
	case c06Z:
		return protocol.Encryption0RTT
	}
	return protocol.Encryption1RTT
}

func c06LevelName(l int) string { return [...]string{"I", "H", "0", "A"}[l] }
func c06KindName(k int) string  { return [...]string{"elic", "ackonly", "multi", "mtu", "pathprobe"}[k] }

// packet-number space index of a level
func c06Space(l int) int {
	if l >= c06Z {
		return 2
	}
	return l
}

// c06SpaceLevel is the encryption level ACKs for space s arrive at.
func c06SpaceLevel(s int) protocol.EncryptionLevel {
	if s < 2 {
		return c06Level(s)
	}
	return protocol.Encryption1RTT
}

func c06SpaceName(s int) string { return [...]string{"Initial", "Handshake", "AppData"}[s] }

// c06Cfg selects perspective, alphabet and bounds of one part.
type c06Cfg struct {
	pers          protocol.Perspective
	wrapper       bool // drive the handler through uSentPacketHandler (NewUAckHandler)
	initialPN     protocol.PacketNumber
	addrValidated bool // server: client address validated by a token
	skipOffset    protocol.PacketNumber
	prefix        []explore.Op // executed on the real code in New()

	sendKinds   [4][]int // per level: packet kinds that may be sent
	ackW        [3]int   // per space: ACK sets are the subsets of the last ackW numbers <= largest sent (0: no ACKs)
	ackUnsent   bool     // plus ACKs that reach one number beyond the largest sent
	ackCumul    bool     // plus the cumulative ACK [first number .. largest sent]
	ackLowW     int      // plus the subsets of the ackLowW lowest numbers of the space that the top window does not reach
	ackDelay    bool     // plus a 30 ms ack-delay variant of the single-number ACKs (1-RTT)
	ticks       []time.Duration
	timeout     bool
	probe       bool
	dropI       bool
	dropH       bool
	drop0       bool
	retry       bool
	migrate     bool // MigratedPath (only after handshake confirmation, as in connection.go)
	noSettle    bool // do not offer the closing operation `settle` (clause Q)
	noSilence   bool // do not offer the closing operation `silence` (clause S)
	recvBytes   []int
	recvPkt     bool
	maxSends    int
	maxAcks     int
	maxTicks    int
	maxTimeouts int
	maxMigr     int
	depth       int
}

type c06Frame struct {
	id          int
	acked, lost int
	wrong       int // callbacks that carried a different frame
}

// c06Handler is the recording FrameHandler; one per frame.
type c06Handler struct{ fr *c06Frame }

func (h *c06Handler) check(f wire.Frame) {
	switch x := f.(type) {
	case *wire.MaxDataFrame:
		if x == nil || int(x.MaximumData) != h.fr.id {
			h.fr.wrong++
		}
	case *wire.StreamFrame:
		if x == nil || int(x.Offset) != h.fr.id {
			h.fr.wrong++
		}
	case *wire.PathChallengeFrame:
		if x == nil || int(x.Data[0]) != h.fr.id&0xff {
			h.fr.wrong++
		}
	default:
		h.fr.wrong++
	}
}
func (h *c06Handler) OnAcked(f wire.Frame) { h.check(f); h.fr.acked++ }
func (h *c06Handler) OnLost(f wire.Frame)  { h.check(f); h.fr.lost++ }

const (
	c06Out    = 0 // outstanding
	c06Acked  = 1
	c06Lost   = 2
	c06Exempt = 3 // packet-number space (or the 0-RTT packets) discarded before the frames were resolved
)

type c06Pkt struct {
	level, kind int
	pn          protocol.PacketNumber
	size        protocol.ByteCount
	frames      []*c06Frame
	state       int
}

func (p *c06Pkt) ackEliciting() bool { return len(p.frames) > 0 }

type c06SpaceModel struct {
	dropped       bool
	sent          []protocol.PacketNumber // every number handed to SentPacket, ascending
	retryBoundary protocol.PacketNumber   // first number usable after a Retry (-1: no Retry)
}

func (s *c06SpaceModel) largest() protocol.PacketNumber {
	if len(s.sent) == 0 {
		return protocol.InvalidPacketNumber
	}
	return s.sent[len(s.sent)-1]
}

func (s *c06SpaceModel) wasSent(pn protocol.PacketNumber) bool {
	i := sort.Search(len(s.sent), func(i int) bool { return s.sent[i] >= pn })
	return i < len(s.sent) && s.sent[i] == pn
}

type c06Inst struct {
	cfg *c06Cfg
	api SentPacketHandler
	h   *sentPacketHandler
	now monotime.Time

	gen     *skippingPacketNumberGenerator
	genSkip protocol.PacketNumber

	pkts    []*c06Pkt
	nFrames int
	sp      [3]c06SpaceModel

	dropped0, retried, received, sent1RTT, sentH bool
	sent0RTT                                     int
	mSent, mRecv                                 protocol.ByteCount
	mValidated                                   bool

	nSends, nAcks, nTicks, nTimeouts int
	nMigr                            int
	dead                             bool
	prefixFail                       *explore.Fail
	outcome                          string
}

func newC06Inst(cfg *c06Cfg) *c06Inst {
	in := &c06Inst{cfg: cfg, now: c06Clock0}
	for i := range in.sp {
		in.sp[i].retryBoundary = protocol.InvalidPacketNumber
	}
	rtt := utils.NewRTTStats()
	stats := &utils.ConnectionStats{}
	ignore := func(protocol.PacketNumber) {}
	if cfg.wrapper {
		in.api = NewUAckHandler(cfg.initialPN, 1200, rtt, stats, cfg.addrValidated, false, ignore, cfg.pers, nil, utils.DefaultLogger)
		SetInitialPacketNumberLength(in.api, protocol.PacketNumberLen2)
		in.h = in.api.(*uSentPacketHandler).sentPacketHandler
	} else {
		in.api = NewSentPacketHandler(cfg.initialPN, 1200, rtt, stats, cfg.addrValidated, false, ignore, cfg.pers, nil, utils.DefaultLogger)
		in.h = in.api.(*sentPacketHandler)
	}
	in.mValidated = cfg.pers == protocol.PerspectiveClient || cfg.addrValidated
	in.fixGen()
	for _, op := range cfg.prefix {
		// an oracle failure (or a panic of the code under test) inside the prefix is a
		// verdict, not a harness error: it is reported by the single enabled operation "prefix"
		if f := in.applyPrefixOp(op); f != nil {
			in.prefixFail = &explore.Fail{Key: f.Key + ":in-prefix", What: fmt.Sprintf("in the part's prefix %v at %v: %s", cfg.prefix, op, f.What)}
			break
		}
	}
	in.nSends, in.nAcks, in.nTicks, in.nTimeouts, in.nMigr = 0, 0, 0, 0, 0
	in.outcome = ""
	return in
}

func (in *c06Inst) applyPrefixOp(op explore.Op) (f *explore.Fail) {
	defer func() {
		if x := recover(); x != nil {
			if _, isString := x.(string); !isString {
				panic(x) // explore.Must and runtime errors keep their meaning
			}
			f = explore.Failf("panic:"+c06StripDigits(fmt.Sprint(x)), "panic: %v", x)
			in.fixGen() // the aborted call may have left a fresh random draw behind
		}
	}()
	return in.Apply(op)
}

// fixGen resolves the generator's random draw: the real skippingPacketNumberGenerator picks
// nextToSkip = next + 3 + rand[0, 2*period); the harness replaces every fresh draw by the
// legal value next + 3 + skipOffset and pins period (which only scales the random range),
// so that skipped packet numbers are deterministic and occur inside the depth bound.
func (in *c06Inst) fixGen() {
	g, ok := in.h.appDataPackets.pns.(*skippingPacketNumberGenerator)
	explore.Must(ok, "application-data generator is %T", in.h.appDataPackets.pns)
	if g != in.gen || g.nextToSkip != in.genSkip {
		g.nextToSkip = g.next + 3 + in.cfg.skipOffset
		g.period, g.maxPeriod = 1, 1
		in.gen, in.genSkip = g, g.nextToSkip
	}
}

func (in *c06Inst) ampBlocked() bool {
	return !in.mValidated && in.mSent >= 3*in.mRecv
}

func (in *c06Inst) canSend(l int) bool {
	switch l {
	case c06I, c06H:
		return !in.sp[l].dropped
	case c06Z:
		return in.cfg.pers == protocol.PerspectiveClient && !in.sent1RTT && !in.dropped0 && !in.sp[c06H].dropped
	}
	return true
}

func (in *c06Inst) Ops() []explore.Op {
	if in.dead {
		return nil
	}
	if in.prefixFail != nil {
		return []explore.Op{{N: "prefix"}}
	}
	c := in.cfg
	var ops []explore.Op
	mode := in.api.SendMode(in.now)
	if mode != SendNone && (c.maxSends == 0 || in.nSends < c.maxSends) {
		for l := 0; l < 4; l++ {
			if !in.canSend(l) {
				continue
			}
			for _, k := range c.sendKinds[l] {
				ops = append(ops, explore.Op{N: "send", A: l, B: k})
			}
		}
	}
	if c.probe {
		switch mode {
		case SendPTOInitial:
			ops = append(ops, explore.Op{N: "probe", A: c06I})
		case SendPTOHandshake:
			ops = append(ops, explore.Op{N: "probe", A: c06H})
		case SendPTOAppData:
			ops = append(ops, explore.Op{N: "probe", A: c06A})
		}
	}
	if c.maxAcks == 0 || in.nAcks < c.maxAcks {
		for s := 0; s < 3; s++ {
			w := c.ackW[s]
			if w == 0 || in.sp[s].dropped {
				continue
			}
			top := in.ackTop(s)
			// bit i of the mask <-> packet number top-i; bit 0 is the first unsent number
			for m := 2; m < 1<<(w+1); m += 2 {
				if top-protocol.PacketNumber(c06HighBit(m)) < 0 {
					continue
				}
				ops = append(ops, explore.Op{N: "ack", A: s, B: m})
				if c.ackDelay && s == 2 && m&(m-1) == 0 {
					ops = append(ops, explore.Op{N: "ack", A: s, B: m, C: 1})
				}
			}
			if sent := in.sp[s].sent; c.ackCumul && len(sent) > 0 && top-1-sent[0] >= protocol.PacketNumber(w) {
				ops = append(ops, explore.Op{N: "ack", A: s, B: 2, C: 2})
			}
			// subsets of the lowest numbers of the space (bit i <-> first sent number + i), C=4
			if sent := in.sp[s].sent; c.ackLowW > 0 && len(sent) > 0 {
				for m := 1; m < 1<<c.ackLowW; m++ {
					if sent[0]+protocol.PacketNumber(c06HighBit(m)) > top-1-protocol.PacketNumber(w) {
						ops = append(ops, explore.Op{N: "ack", A: s, B: m, C: 4})
					}
				}
			}
			if c.ackUnsent {
				ops = append(ops, explore.Op{N: "ack", A: s, B: 1})
				if top >= 1 {
					ops = append(ops, explore.Op{N: "ack", A: s, B: 3})
				}
			}
		}
	}
	if c.timeout && !in.api.GetLossDetectionTimeout().IsZero() && (c.maxTimeouts == 0 || in.nTimeouts < c.maxTimeouts) {
		ops = append(ops, explore.Op{N: "timeout"})
	}
	if c.maxTicks == 0 || in.nTicks < c.maxTicks {
		for i := range c.ticks {
			ops = append(ops, explore.Op{N: "tick", A: i})
		}
	}
	if c.dropI && !in.sp[c06I].dropped {
		ops = append(ops, explore.Op{N: "dropI"})
	}
	if c.dropH && in.sp[c06I].dropped && !in.sp[c06H].dropped {
		ops = append(ops, explore.Op{N: "dropH"})
	}
	if c.drop0 && c.pers == protocol.PerspectiveClient && !in.dropped0 && !in.sent1RTT && in.sent0RTT > 0 {
		ops = append(ops, explore.Op{N: "drop0"})
	}
	if c.retry && c.pers == protocol.PerspectiveClient && !in.retried && !in.received && !in.sentH && !in.sent1RTT &&
		!in.sp[c06I].dropped && len(in.sp[c06I].sent) > 0 {
		ops = append(ops, explore.Op{N: "retry"})
	}
	if c.migrate && in.sp[c06H].dropped && (c.maxMigr == 0 || in.nMigr < c.maxMigr) {
		ops = append(ops, explore.Op{N: "migrate"})
	}
	if c.pers == protocol.PerspectiveServer && !in.mValidated {
		for _, n := range c.recvBytes {
			ops = append(ops, explore.Op{N: "recvBytes", A: n})
		}
		if c.recvPkt {
			ops = append(ops, explore.Op{N: "recvPkt", A: c06H})
		}
	}
	// close the history (clause Q); offered wherever a frame is still unreported and the
	// connection may send
	if !c.noSettle && mode != SendNone && in.anyPending() {
		ops = append(ops, explore.Op{N: "settle"})
	}
	// the peer falls silent (clause S); offered wherever a frame is still unreported and a
	// loss-detection deadline is armed
	if !c.noSilence && in.anyPending() && !in.api.GetLossDetectionTimeout().IsZero() {
		ops = append(ops, explore.Op{N: "silence"})
	}
	return ops
}

// pending: some frame of the packet has not been reported yet and its space was not discarded.
func (p *c06Pkt) pending() bool {
	if p.state != c06Out {
		return false
	}
	for _, fr := range p.frames {
		if fr.acked+fr.lost == 0 {
			return true
		}
	}
	return false
}

func (in *c06Inst) anyPending() bool {
	for _, p := range in.pkts {
		if p.pending() {
			return true
		}
	}
	return false
}

func c06HighBit(m int) int {
	h := 0
	for i := 0; m>>i != 0; i++ {
		h = i
	}
	return h
}

// ackTop is the first number above the largest number handed to SentPacket in space s
// (the first usable number of the space when nothing was sent yet).
func (in *c06Inst) ackTop(s int) protocol.PacketNumber {
	if l := in.sp[s].largest(); l != protocol.InvalidPacketNumber {
		return l + 1
	}
	if s == c06I {
		return in.cfg.initialPN
	}
	return 0
}

func (in *c06Inst) buildAck(op explore.Op) *wire.AckFrame {
	s := op.A
	top := in.ackTop(s)
	var nums []protocol.PacketNumber // descending
	if op.C&4 != 0 {
		for i := c06HighBit(op.B); i >= 0; i-- {
			if op.B&(1<<i) != 0 {
				nums = append(nums, in.sp[s].sent[0]+protocol.PacketNumber(i))
			}
		}
	} else {
		for i := 0; op.B>>i != 0; i++ {
			if op.B&(1<<i) != 0 {
				nums = append(nums, top-protocol.PacketNumber(i))
			}
		}
	}
	ack := &wire.AckFrame{}
	for _, n := range nums {
		if k := len(ack.AckRanges); k > 0 && ack.AckRanges[k-1].Smallest == n+1 {
			ack.AckRanges[k-1].Smallest = n
		} else {
			ack.AckRanges = append(ack.AckRanges, wire.AckRange{Smallest: n, Largest: n})
		}
	}
	if op.C&2 != 0 { // cumulative: extend the lowest range down to the first number of the space
		lo := protocol.PacketNumber(0)
		if len(in.sp[s].sent) > 0 {
			lo = in.sp[s].sent[0]
		}
		k := len(ack.AckRanges) - 1
		if lo < ack.AckRanges[k].Smallest {
			ack.AckRanges[k].Smallest = lo
		}
	}
	if op.C&1 != 0 {
		ack.DelayTime = 30 * time.Millisecond
	}
	return ack
}

// neverSent classifies the first number covered by ack that was never handed to SentPacket
// in space s ("" if every covered number was sent).
func (in *c06Inst) neverSent(s int, ack *wire.AckFrame) (string, protocol.PacketNumber) {
	m := &in.sp[s]
	largest := m.largest()
	for _, r := range ack.AckRanges {
		if r.Largest > largest {
			return "above-largest-sent", r.Largest
		}
	}
	for _, r := range ack.AckRanges {
		for n := r.Largest; n >= r.Smallest; n-- {
			if m.wasSent(n) {
				continue
			}
			if n < m.sent[0] {
				return "below-first-sent", n
			}
			if m.retryBoundary != protocol.InvalidPacketNumber && n < m.retryBoundary {
				return "skipped-before-retry", n
			}
			// a gap in the sent sequence: deliberately skipped (by the generator or by a PTO).
			// The key says whether the handler's bounded skipped-number history still holds it.
			if ps := in.h.getPacketNumberSpace(c06SpaceLevel(s)); ps != nil {
				for _, sk := range ps.history.skippedPackets {
					if sk == n {
						return "skipped", n
					}
				}
			}
			return "skipped-evicted-from-history", n
		}
	}
	return "", 0
}

func (in *c06Inst) mkFrame() (*c06Frame, *c06Handler) {
	in.nFrames++
	fr := &c06Frame{id: in.nFrames}
	return fr, &c06Handler{fr: fr}
}

func c06Size(l, kind int, pn protocol.PacketNumber) protocol.ByteCount {
	return protocol.ByteCount(300 + 100*l + 10*int(pn%10) + kind)
}

// send hands one packet of the given kind to the handler the way packet_packer.go / connection.go
// do (PeekPacketNumber, PopPacketNumber, SentPacket) and enters it into the ledger.
func (in *c06Inst) send(l, kind int) (p *c06Pkt, gap int, peekok bool, _ *explore.Fail) {
	lvl := c06Level(l)
	s := c06Space(l)
	peek, _ := in.api.PeekPacketNumber(lvl)
	pn := in.api.PopPacketNumber(lvl)
	size := c06Size(l, kind, pn)
	p = &c06Pkt{level: l, kind: kind, pn: pn, size: size}
	var frames []Frame
	var sframes []StreamFrame
	largestAcked := protocol.InvalidPacketNumber
	switch kind {
	case c06Elic, c06MTU:
		fr, hd := in.mkFrame()
		frames = []Frame{{Frame: &wire.MaxDataFrame{MaximumData: protocol.ByteCount(fr.id)}, Handler: hd}}
		p.frames = []*c06Frame{fr}
	case c06AckOnly:
		largestAcked = 1
	case c06Multi:
		largestAcked = 1
		fr1, hd1 := in.mkFrame()
		fr2, hd2 := in.mkFrame()
		sframes = []StreamFrame{{Frame: &wire.StreamFrame{StreamID: 4, Offset: protocol.ByteCount(fr1.id), Data: []byte{1}}, Handler: hd1}}
		frames = []Frame{{Frame: &wire.MaxDataFrame{MaximumData: protocol.ByteCount(fr2.id)}, Handler: hd2}}
		p.frames = []*c06Frame{fr1, fr2}
	case c06Path:
		fr, hd := in.mkFrame()
		frames = []Frame{{Frame: &wire.PathChallengeFrame{Data: [8]byte{byte(fr.id)}}, Handler: hd}}
		p.frames = []*c06Frame{fr}
	default:
		explore.Must(false, "bad kind %d", kind)
	}
	m := &in.sp[s]
	prevLargest := m.largest()
	if prevLargest != protocol.InvalidPacketNumber && pn <= prevLargest {
		return nil, 0, false, explore.Failf("pn-reused:"+c06SpaceName(s), "PopPacketNumber(%s) returned %d after %d was already sent", lvl, pn, prevLargest)
	}
	in.api.SentPacket(in.now, pn, largestAcked, sframes, frames, lvl, protocol.ECNNon, size, kind == c06MTU, kind == c06Path)
	m.sent = append(m.sent, pn)
	in.pkts = append(in.pkts, p)
	in.mSent += size
	in.nSends++
	switch l {
	case c06H:
		in.sentH = true
	case c06Z:
		in.sent0RTT++
	case c06A:
		in.sent1RTT = true
	}
	if prevLargest != protocol.InvalidPacketNumber {
		gap = int(pn - prevLargest - 1)
	}
	return p, gap, peek == pn, nil
}

func (in *c06Inst) Apply(op explore.Op) *explore.Fail {
	in.outcome = ""
	if in.prefixFail != nil {
		return in.prefixFail
	}
	var opErr error
	var settled *c06Settle
	var silenced *c06Silence
	switch op.N {
	case "send":
		p, gap, peekok, f := in.send(op.A, op.B)
		if f != nil {
			return f
		}
		in.outcome = fmt.Sprintf("send %s/%s gap=%d peekok=%v", c06LevelName(p.level), c06KindName(p.kind), gap, peekok)
	case "ack":
		s := op.A
		lvl := c06SpaceLevel(s)
		ack := in.buildAck(op)
		class, badPN := in.neverSent(s, ack)
		acked1RTT, err := in.api.ReceivedAck(ack, lvl, in.now)
		in.received = true
		in.nAcks++
		if class != "" {
			if err == nil {
				return explore.Failf("ack-never-sent-accepted:"+class+":"+c06SpaceName(s),
					"ReceivedAck(%v, %s) returned no error although packet number %d was never sent (%s; sent so far: %v)", ack.AckRanges, lvl, badPN, class, in.sp[s].sent)
			}
			var te *qerr.TransportError
			if !errors.As(err, &te) || te.ErrorCode != qerr.ProtocolViolation {
				return explore.Failf("ack-never-sent-wrong-error:"+class+":"+c06SpaceName(s),
					"ReceivedAck(%v, %s) covering never-sent packet number %d (%s) returned %q, not a PROTOCOL_VIOLATION", ack.AckRanges, lvl, badPN, class, err.Error())
			}
			in.outcome = "ack " + c06SpaceName(s) + " never-sent(" + class + ") -> PROTOCOL_VIOLATION"
		} else if err != nil {
			in.outcome = "ack " + c06SpaceName(s) + " of sent numbers -> error " + c06ErrClass(err)
		} else {
			in.outcome = fmt.Sprintf("ack %s ranges=%d delay=%v 1rtt=%v", c06SpaceName(s), len(ack.AckRanges), ack.DelayTime > 0, acked1RTT)
		}
		opErr = err
	case "timeout":
		t := in.api.GetLossDetectionTimeout()
		explore.Must(!t.IsZero(), "timeout without timer")
		if in.now.Before(t) {
			in.now = t
		}
		in.nTimeouts++
		typ := in.h.alarm.TimerType
		err := in.api.OnLossDetectionTimeout(in.now)
		if err != nil {
			in.outcome = "timeout -> error " + c06ErrClass(err)
		} else {
			in.outcome = fmt.Sprintf("timeout type=%v mode=%v probes=%d ptoCount=%d", typ, in.h.ptoMode, in.h.numProbesToSend, min(in.h.ptoCount, 3))
		}
		opErr = err
	case "tick":
		in.now = in.now.Add(in.cfg.ticks[op.A])
		in.nTicks++
		in.outcome = "tick"
	case "probe":
		q := in.api.QueueProbePacket(c06Level(op.A))
		in.outcome = fmt.Sprintf("probe %s queued=%v", c06LevelName(op.A), q)
	case "dropI", "dropH":
		s := c06I
		if op.N == "dropH" {
			s = c06H
		}
		in.api.DropPackets(c06Level(s), in.now)
		in.sp[s].dropped = true
		n := 0
		for _, p := range in.pkts {
			if c06Space(p.level) == s && p.state == c06Out {
				p.state = c06Exempt
				n++
			}
		}
		in.outcome = fmt.Sprintf("%s discarded=%d", op.N, min(n, 3))
	case "drop0":
		in.api.DropPackets(protocol.Encryption0RTT, in.now)
		in.dropped0 = true
		n := 0
		for _, p := range in.pkts {
			if p.level == c06Z && p.state == c06Out {
				p.state = c06Exempt
				n++
			}
		}
		in.outcome = fmt.Sprintf("drop0 discarded=%d", min(n, 3))
	case "retry":
		in.api.ResetForRetry(in.now)
		in.retried = true
		in.received = true
		for _, s := range []int{0, 2} {
			lvl := protocol.EncryptionLevel(protocol.EncryptionInitial)
			if s == 2 {
				lvl = protocol.Encryption0RTT
			}
			in.fixGen()
			pk, _ := in.api.PeekPacketNumber(lvl)
			in.sp[s].retryBoundary = pk
		}
		in.outcome = "retry"
	case "migrate":
		// what is in flight on the old path (classification only; the verdict comes from L and B)
		var n [5]int
		for _, p := range in.pkts {
			if p.state == c06Out && c06Space(p.level) == 2 && in.tracked(p) {
				n[p.kind]++
			}
		}
		in.api.MigratedPath(in.now, 1200)
		in.nMigr++
		in.outcome = fmt.Sprintf("migrate inflight elic=%d ackonly=%d multi=%d mtu=%d pathprobe=%d", min(n[c06Elic], 2), min(n[c06AckOnly], 2), min(n[c06Multi], 2), min(n[c06MTU], 2), min(n[c06Path], 2))
	case "recvBytes":
		in.api.ReceivedBytes(protocol.ByteCount(op.A), in.now)
		in.mRecv += protocol.ByteCount(op.A)
		in.outcome = fmt.Sprintf("recvBytes blocked=%v", in.ampBlocked())
	case "recvPkt":
		in.api.ReceivedPacket(c06Level(op.A), in.now)
		if in.cfg.pers == protocol.PerspectiveServer && op.A == c06H {
			in.mValidated = true
		}
		in.outcome = "recvPkt"
	case "settle":
		st, f, err := in.settle()
		if f != nil {
			return f
		}
		settled, opErr = st, err
		if err != nil {
			in.outcome = "settle -> error " + c06ErrClass(err)
		} else {
			in.outcome = "settle " + st.String()
		}
	case "silence":
		sl, f, err := in.silence(op)
		if f != nil {
			return f
		}
		silenced, opErr = sl, err
		if err != nil {
			in.outcome = "silence -> error " + c06ErrClass(err)
		} else {
			in.outcome = "silence " + sl.String()
		}
	default:
		explore.Must(false, "unknown op %v", op)
	}
	in.fixGen()
	if f := in.checkLedger(op); f != nil {
		return f
	}
	if opErr != nil {
		// the connection is closed with this error
		in.dead = true
		return nil
	}
	if settled != nil {
		// the history is closed: nothing is explored behind it
		in.dead = true
		if f := in.checkSettled(settled); f != nil {
			return f
		}
	}
	if silenced != nil {
		// the history is closed: nothing is explored behind it
		in.dead = true
		if f := in.checkSilenced(silenced); f != nil {
			return f
		}
	}
	return in.checkAccounts(op)
}

// c06SilenceRounds bounds the number of loss-detection deadlines served by one silence.
const c06SilenceRounds = 8

// c06Silence records what the continuation of one silence did.
type c06Silence struct {
	nBefore int    // ledger packets that existed before the continuation
	rounds  int    // loss-detection deadlines served
	probes  int    // probe packets sent
	end     string // resolved | no-deadline | bound | cycle
	// end == "cycle": the state after deadline `rounds` equals the state after deadline cycleFrom
	cycleFrom int
	timer     string // the deadline that is armed in the repeated state
	elapsed   bool   // ... and whether it has already elapsed there
}

func (sl *c06Silence) String() string {
	return fmt.Sprintf("deadlines=%d probes=%d end=%s", min(sl.rounds, 4), min(sl.probes, 4), sl.end)
}

// silence continues the history the way a connection does whose peer no longer answers: no ACK
// arrives any more; every loss-detection deadline the handler arms is served at its time
// (OnLossDetectionTimeout) and, while SendMode is a PTO mode, the connection's probe procedure
// runs (QueueProbePacket, then one ordinary ack-eliciting packet is sent at that level; it is never
// acknowledged). It ends when every frame handed in before has been reported, when no deadline is
// armed, after c06SilenceRounds deadlines, or when the state reached (handler relative to the
// clock + ledger) is one the continuation was in before.
// An error return of the handler closes the connection (no verdict).
func (in *c06Inst) silence(op explore.Op) (*c06Silence, *explore.Fail, error) {
	sl := &c06Silence{nBefore: len(in.pkts)}
	seen := map[string]int{in.stateKey(): 0}
	for {
		pending := false
		for _, p := range in.pkts[:sl.nBefore] {
			pending = pending || p.pending()
		}
		if !pending {
			sl.end = "resolved"
			return sl, nil, nil
		}
		t := in.api.GetLossDetectionTimeout()
		if t.IsZero() {
			sl.end = "no-deadline"
			return sl, nil, nil
		}
		if sl.rounds == c06SilenceRounds {
			sl.end = "bound"
			return sl, nil, nil
		}
		sl.rounds++
		if in.now.Before(t) {
			in.now = t
		}
		in.nTimeouts++
		err := in.api.OnLossDetectionTimeout(in.now)
		in.fixGen()
		if err != nil {
			return sl, nil, err
		}
		for i := 0; i < 4; i++ { // a PTO asks for at most two probe packets
			l := -1
			switch in.api.SendMode(in.now) {
			case SendPTOInitial:
				l = c06I
			case SendPTOHandshake:
				l = c06H
			case SendPTOAppData:
				l = c06A
			}
			if l < 0 || !in.canSend(l) {
				break
			}
			in.api.QueueProbePacket(c06Level(l))
			_, _, _, f := in.send(l, c06Elic)
			in.fixGen()
			if f != nil {
				return sl, f, nil
			}
			sl.probes++
		}
		if f := in.checkLedger(op); f != nil {
			return sl, f, nil
		}
		k := in.stateKey()
		if from, ok := seen[k]; ok {
			sl.end, sl.cycleFrom = "cycle", from
			sl.timer = fmt.Sprintf("%v@%v", in.h.alarm.TimerType, in.h.alarm.EncryptionLevel)
			sl.elapsed = !in.h.alarm.Time.IsZero() && !in.h.alarm.Time.After(in.now)
			return sl, nil, nil
		}
		seen[k] = sl.rounds
	}
}

// checkSilenced evaluates clause S after a silence (the ledger states are up to date).
func (in *c06Inst) checkSilenced(sl *c06Silence) *explore.Fail {
	if sl.end != "cycle" {
		return nil
	}
	for _, p := range in.pkts[:sl.nBefore] {
		if !p.pending() {
			continue
		}
		where := c06LevelName(p.level) + "/" + c06KindName(p.kind)
		return explore.Failf("frame-never-reported-peer-silent:"+where+":stuck-deadline="+sl.timer,
			"packet %d (%s, %d bytes) has a frame that is never reported acked or lost in the history in which no further ACK arrives and every loss-detection deadline is served at its time (PTO probes queued and sent as the connection does): after deadline %d the handler and the ledger are in exactly the state they were in after deadline %d (times relative to the clock), so serving deadlines for ever repeats that cycle; the armed deadline is %s, already elapsed: %v; %d probe packets were sent (bytesInFlight %d; %s)",
			p.pn, where, p.size, sl.rounds, sl.cycleFrom, sl.timer, sl.elapsed, sl.probes, in.h.bytesInFlight, in.ledgerString())
	}
	explore.Must(false, "silence ended in a cycle without an unreported frame")
	return nil
}

// c06SettleRounds bounds the number of loss-detection deadlines served by one settle.
const c06SettleRounds = 6

// c06Settle records what the closing sequence of one settle did.
type c06Settle struct {
	nBefore   int                      // ledger packets that existed before the closing sequence
	closed    [3]protocol.PacketNumber // per space: largest number sent and acknowledged by the closing sequence
	rounds    int                      // loss-detection deadlines served
	quiescent bool                     // no loss-detection deadline is armed at the end
}

func (st *c06Settle) String() string {
	var sb strings.Builder
	sb.WriteString("closed=")
	for s, pn := range st.closed {
		if pn != protocol.InvalidPacketNumber {
			sb.WriteString(c06SpaceName(s)[:1])
		}
	}
	fmt.Fprintf(&sb, " deadlines=%d quiescent=%v", min(st.rounds, 3), st.quiescent)
	return sb.String()
}

// settle closes the history the way a connection that stays alive does: an hour passes; in
// every packet-number space that still holds an unreported frame (and in which the connection
// may send data) one more ordinary ack-eliciting packet is sent and, 50 ms later, acknowledged
// on its own; then every loss-detection deadline the handler arms is served at its time
// (OnLossDetectionTimeout; in a PTO send mode QueueProbePacket + one probe packet, acknowledged
// 50 ms later) until no deadline is armed or c06SettleRounds deadlines were served.
// An error return of the handler closes the connection (no verdict).
func (in *c06Inst) settle() (*c06Settle, *explore.Fail, error) {
	st := &c06Settle{nBefore: len(in.pkts)}
	for s := range st.closed {
		st.closed[s] = protocol.InvalidPacketNumber
	}
	in.now = in.now.Add(time.Hour)
	var fail *explore.Fail
	exchange := func(l int) error {
		p, _, _, f := in.send(l, c06Elic)
		in.fixGen()
		if f != nil {
			fail = f
			return nil
		}
		in.now = in.now.Add(50 * time.Millisecond)
		s := c06Space(l)
		_, err := in.api.ReceivedAck(&wire.AckFrame{AckRanges: []wire.AckRange{{Smallest: p.pn, Largest: p.pn}}}, c06SpaceLevel(s), in.now)
		in.received = true
		in.nAcks++
		if err == nil {
			st.closed[s] = p.pn
		}
		return err
	}
	for {
		for s := 0; s < 3; s++ {
			if st.closed[s] != protocol.InvalidPacketNumber {
				continue
			}
			need := false
			for _, p := range in.pkts[:st.nBefore] {
				need = need || (c06Space(p.level) == s && p.pending())
			}
			l := s
			if s == 2 {
				l = c06A
			}
			if !need || !in.canSend(l) {
				continue
			}
			if m := in.api.SendMode(in.now); m == SendNone || m == SendAck {
				continue // amplification- or congestion-blocked: no data packet may be sent now
			}
			if err := exchange(l); err != nil || fail != nil {
				return st, fail, err
			}
		}
		t := in.api.GetLossDetectionTimeout()
		if t.IsZero() {
			st.quiescent = true
			return st, nil, nil
		}
		if st.rounds == c06SettleRounds {
			return st, nil, nil
		}
		st.rounds++
		if in.now.Before(t) {
			in.now = t
		}
		in.nTimeouts++
		err := in.api.OnLossDetectionTimeout(in.now)
		in.fixGen()
		if err != nil {
			return st, nil, err
		}
		l := -1
		switch in.api.SendMode(in.now) {
		case SendPTOInitial:
			l = c06I
		case SendPTOHandshake:
			l = c06H
		case SendPTOAppData:
			l = c06A
		}
		if l >= 0 && in.canSend(l) {
			in.api.QueueProbePacket(c06Level(l))
			if err := exchange(l); err != nil || fail != nil {
				return st, fail, err
			}
		}
	}
}

// checkSettled evaluates clause Q after a settle (the ledger states are up to date).
func (in *c06Inst) checkSettled(st *c06Settle) *explore.Fail {
	n := 0
	for _, p := range in.pkts[:st.nBefore] {
		s := c06Space(p.level)
		if p.state != c06Out || !p.ackEliciting() || st.closed[s] == protocol.InvalidPacketNumber || p.pn > st.closed[s] {
			continue
		}
		n++
		if st.quiescent {
			where := c06LevelName(p.level) + "/" + c06KindName(p.kind)
			return explore.Failf("frame-unreported-at-quiescence:"+where,
				"packet %d (%s, %d bytes) still has a frame that was reported neither acked nor lost although the history is closed: it was sent more than an hour before packet %d of its space, which the peer acknowledged; every loss-detection deadline was served (%d) and none is armed any more, so nothing is left that would report it (bytesInFlight %d; %s)",
				p.pn, where, p.size, st.closed[s], st.rounds, in.h.bytesInFlight, in.ledgerString())
		}
	}
	in.outcome += fmt.Sprintf(" unreported=%d", min(n, 2))
	return nil
}

func c06ErrClass(err error) string {
	var te *qerr.TransportError
	if errors.As(err, &te) {
		return fmt.Sprintf("transport %#x %s", uint64(te.ErrorCode), c06StripDigits(te.ErrorMessage))
	}
	return c06StripDigits(err.Error())
}

func c06StripDigits(s string) string {
	var sb strings.Builder
	for _, r := range s {
		if r >= '0' && r <= '9' {
			continue
		}
		sb.WriteRune(r)
	}
	return sb.String()
}

func c06OpClass(op explore.Op) string {
	switch op.N {
	case "send":
		return "send-" + c06LevelName(op.A) + "-" + c06KindName(op.B)
	case "ack":
		return "ack-" + c06SpaceName(op.A)
	case "probe":
		return "probe-" + c06LevelName(op.A)
	}
	return op.N
}

// tracked reports whether the handler still holds the packet.
func (in *c06Inst) tracked(p *c06Pkt) bool {
	ps := in.h.getPacketNumberSpace(c06Level(p.level))
	if ps == nil {
		return false
	}
	if p.kind == c06Path {
		for _, pp := range ps.history.pathProbePackets {
			if pp.PacketNumber == p.pn {
				return true
			}
		}
		return false
	}
	idx, ok := ps.history.getIndex(p.pn)
	return ok && ps.history.packets[idx] != nil
}

// checkLedger evaluates clause L after an operation.
func (in *c06Inst) checkLedger(op explore.Op) *explore.Fail {
	nAcked, nLost := 0, 0
	for _, p := range in.pkts {
		if !p.ackEliciting() {
			continue
		}
		reported := 0
		first := ""
		for _, fr := range p.frames {
			where := fmt.Sprintf("%s/%s", c06LevelName(p.level), c06KindName(p.kind))
			if fr.wrong > 0 {
				return explore.Failf("callback-wrong-frame:"+where+":op="+c06OpClass(op), "a callback for frame %d of packet %d (%s) carried a different frame", fr.id, p.pn, where)
			}
			if fr.acked+fr.lost > 1 {
				how := "acked-and-lost"
				if fr.acked > 1 {
					how = "acked-twice"
				} else if fr.lost > 1 {
					how = "lost-twice"
				}
				return explore.Failf("frame-reported-twice:"+how+":"+where+":op="+c06OpClass(op),
					"frame %d of packet %d (%s) was reported OnAcked x%d and OnLost x%d after %v", fr.id, p.pn, where, fr.acked, fr.lost, op)
			}
			if fr.acked+fr.lost == 1 {
				reported++
				if fr.acked == 1 {
					first = "acked"
				} else {
					first = "lost"
				}
			}
		}
		switch p.state {
		case c06Out:
			if reported == len(p.frames) {
				if first == "acked" {
					p.state = c06Acked
					nAcked++
				} else {
					p.state = c06Lost
					nLost++
				}
			} else if !in.tracked(p) {
				return explore.Failf("frame-never-reported:"+c06LevelName(p.level)+"/"+c06KindName(p.kind)+":op="+c06OpClass(op),
					"packet %d (%s/%s) is no longer tracked by the handler after %v, but %d of its %d frames were never reported as acked or lost (space not discarded)",
					p.pn, c06LevelName(p.level), c06KindName(p.kind), op, len(p.frames)-reported, len(p.frames))
			}
		}
	}
	if nAcked+nLost > 0 {
		in.outcome += fmt.Sprintf(" acked=%d lost=%d", min(nAcked, 3), min(nLost, 3))
	}
	return nil
}

// checkAccounts evaluates clauses B and T after an operation.
func (in *c06Inst) checkAccounts(op explore.Op) *explore.Fail {
	var want protocol.ByteCount
	dataOut := false
	for _, p := range in.pkts {
		if p.state != c06Out || !p.ackEliciting() {
			continue
		}
		if p.kind != c06Path {
			want += p.size
		}
		if p.kind == c06Elic || p.kind == c06Multi {
			s := c06Space(p.level)
			if s < 2 || in.sp[c06H].dropped {
				dataOut = true
			}
		}
	}
	if got := in.h.bytesInFlight; got != want {
		return explore.Failf("bytes-in-flight-mismatch:op="+c06OpClass(op),
			"after %v bytesInFlight is %d, but the ack-eliciting packets still outstanding total %d bytes (%s)", op, got, want, in.ledgerString())
	}
	blocked := in.ampBlocked()
	timer := in.api.GetLossDetectionTimeout()
	if dataOut && !blocked && timer.IsZero() {
		return explore.Failf("no-loss-timer:op="+c06OpClass(op)+":"+in.cfg.pers.String(),
			"after %v ack-eliciting data is outstanding (%s), the handler is not amplification-blocked, but GetLossDetectionTimeout() is zero", op, in.ledgerString())
	}
	in.outcome += fmt.Sprintf(" | data=%v blocked=%v timer=%v", dataOut, blocked, !timer.IsZero())
	return nil
}

func (in *c06Inst) ledgerString() string {
	var sb strings.Builder
	for _, p := range in.pkts {
		fmt.Fprintf(&sb, "%s%d/%s:%d=%s ", c06LevelName(p.level), p.pn, c06KindName(p.kind), p.size, [...]string{"out", "acked", "lost", "exempt"}[p.state])
	}
	return sb.String()
}

func (in *c06Inst) Outcome() string { return in.outcome }

func (in *c06Inst) Key() string {
	return fmt.Sprintf("n=%d,%d,%d,%d,%d|", in.nSends, in.nAcks, in.nTicks, in.nTimeouts, in.nMigr) + in.stateKey()
}

// stateKey is the canonical state without the operation counters of the bounds: the handler
// (times relative to the clock) and the ledger.
func (in *c06Inst) stateKey() string {
	var sb strings.Builder
	sb.WriteString(canon.Dump(in.h, canon.Options{
		TimeBase: int64(in.now),
		SkipField: func(typ, field string) bool {
			// the random source's scratch buffer: overwritten before every use, and the draw
			// itself is replaced by fixGen
			return typ == "ackhandler.skippingPacketNumberGenerator" && field == "rng"
		},
	}))
	fmt.Fprintf(&sb, "|dead=%v d0=%v rt=%v rc=%v s1=%v sH=%v s0=%d ms=%d mr=%d mv=%v|", in.dead, in.dropped0, in.retried, in.received,
		in.sent1RTT, in.sentH, in.sent0RTT, in.mSent, in.mRecv, in.mValidated)
	for i := range in.sp {
		fmt.Fprintf(&sb, "sp%d:%v,%d,%v|", i, in.sp[i].dropped, in.sp[i].retryBoundary, in.sp[i].sent)
	}
	for _, p := range in.pkts {
		fmt.Fprintf(&sb, "%d.%d.%d.%d.%d", p.level, p.kind, p.pn, p.size, p.state)
		for _, fr := range p.frames {
			fmt.Fprintf(&sb, ":%d+%d", fr.acked, fr.lost)
		}
		sb.WriteByte(' ')
	}
	return sb.String()
}
