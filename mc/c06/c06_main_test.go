package ackhandler

import (
	"fmt"
	"testing"
	"time"

	"github.com/refraction-networking/uquic/internal/protocol"
	"github.com/refraction-networking/uquic/internal/verifmc/explore"
)

const c06ms = time.Millisecond

// handshake already confirmed: DropPackets(Initial), DropPackets(Handshake)
var c06Confirmed = []explore.Op{{N: "dropI"}, {N: "dropH"}}

func c06Part(name string, mk func(thorough bool) *c06Cfg) explore.Part {
	return explore.BFSPart(name, func(e explore.Env) explore.BFSSpec {
		cfg := mk(e.Thorough())
		return explore.BFSSpec{
			New:              func() explore.Instance { return newC06Inst(cfg) },
			MaxDepth:         cfg.depth,
			PanicIsViolation: true,
			Rule: fmt.Sprintf("BFS depth %d over the real sentPacketHandler (%s%s, first Initial pn %d, prefix %v): send kinds per level I/H/0-RTT/1-RTT %v (<= %d packets), ACK sets = subsets of the last %v numbers per space%s, timeout=%v at GetLossDetectionTimeout, clock steps %v, QueueProbePacket=%v (when SendMode is a PTO mode), dropI=%v dropH=%v drop0RTT=%v retry=%v MigratedPath=%v (<= %d) recvBytes=%v recvPkt=%v, settle=%v (closing sequence of clause Q: +1 h, one more packet per space with unreported frames sent and acknowledged, deadlines served until none is armed; offered in every state with an unreported frame, ends the history), silence=%v (continuation of clause S: no further ACK; every deadline served at its time, PTO probes queued and sent, until every earlier frame is reported, no deadline is armed, %d deadlines were served or a state repeats; offered in every state with an unreported frame and an armed deadline, ends the history); state = canon(handler, times relative to the clock) + ledger",
				cfg.depth, cfg.pers, map[bool]string{true: " via uSentPacketHandler", false: ""}[cfg.wrapper], cfg.initialPN, cfg.prefix, cfg.sendKinds, cfg.maxSends, cfg.ackW,
				map[bool]string{true: " + one-beyond-largest", false: ""}[cfg.ackUnsent], cfg.timeout, cfg.ticks, cfg.probe, cfg.dropI, cfg.dropH, cfg.drop0, cfg.retry, cfg.migrate, cfg.maxMigr, cfg.recvBytes, cfg.recvPkt, !cfg.noSettle, !cfg.noSilence, c06SilenceRounds),
		}
	})
}

func pick(thorough bool, q, t int) int {
	if thorough {
		return t
	}
	return q
}

func TestVerifC06(t *testing.T) {
	cl, sv := protocol.PerspectiveClient, protocol.PerspectiveServer
	explore.Main("C06", []explore.Part{
		// 1-RTT space after handshake confirmation: ACK shapes, skipped numbers, PTO
		c06Part("app-ack", func(th bool) *c06Cfg {
			return &c06Cfg{pers: cl, prefix: c06Confirmed,
				sendKinds: [4][]int{c06A: {c06Elic, c06AckOnly}},
				ackW:      [3]int{2: pick(th, 3, 4)}, ackUnsent: true, ackCumul: true,
				ticks: []time.Duration{120 * c06ms}, timeout: true, probe: true,
				maxSends: pick(th, 4, 5), maxTicks: 2, depth: pick(th, 7, 8)}
		}),
		// 1-RTT space: timing (time threshold, loss timer, PTO backoff, ack delay)
		c06Part("app-time", func(th bool) *c06Cfg {
			return &c06Cfg{pers: sv, addrValidated: true, prefix: c06Confirmed,
				sendKinds: [4][]int{c06A: {c06Multi}},
				ackW:      [3]int{2: 2}, ackDelay: true,
				ticks: []time.Duration{c06ms, 30 * c06ms, 120 * c06ms, 500 * c06ms}, timeout: true, probe: true,
				maxSends: pick(th, 3, 4), depth: pick(th, 7, 8)}
		}),
		// 1-RTT space: MTU probes and path probes
		c06Part("app-probes", func(th bool) *c06Cfg {
			return &c06Cfg{pers: cl, prefix: c06Confirmed,
				sendKinds: [4][]int{c06A: {c06Elic, c06MTU, c06Path}},
				ackW:      [3]int{2: pick(th, 3, 4)},
				ticks:     []time.Duration{120 * c06ms, 1100 * c06ms}, timeout: true, probe: true,
				maxSends: pick(th, 4, 5), maxTicks: 2, depth: pick(th, 6, 7)}
		}),
		// 1-RTT space: path migration (MigratedPath) with every packet kind in flight on the old path --
		// ordinary, ack-only, MTU-probe and path-probe packets -- followed by traffic, late ACKs
		// and timeouts on the new path, and a second migration
		c06Part("app-migrate", func(th bool) *c06Cfg {
			return &c06Cfg{pers: cl, prefix: c06Confirmed,
				sendKinds: [4][]int{c06A: {c06Elic, c06AckOnly, c06MTU, c06Path}},
				ackW:      [3]int{2: 2},
				ticks:     []time.Duration{120 * c06ms}, timeout: true, probe: true, migrate: true,
				maxSends: pick(th, 4, 5), maxTicks: 1, maxMigr: 2, depth: pick(th, 6, 7)}
		}),
		// the same on the server (it follows the peer's new address) with STREAM + control frames
		// per packet, and migration interleaved with the timing operations
		c06Part("app-migrate-sv", func(th bool) *c06Cfg {
			return &c06Cfg{pers: sv, addrValidated: true, prefix: c06Confirmed,
				sendKinds: [4][]int{c06A: {c06Multi, c06MTU}},
				ackW:      [3]int{2: 2},
				ticks:     []time.Duration{30 * c06ms, 500 * c06ms}, timeout: true, probe: true, migrate: true,
				maxSends: 3, maxMigr: 2, depth: pick(th, 6, 7)}
		}),
		// skipped packet numbers older than the skipped-number history (prefix: 4 PTOs = 5 skipped numbers)
		c06Part("app-skip-history", func(th bool) *c06Cfg {
			return &c06Cfg{pers: cl,
				prefix:    []explore.Op{{N: "dropI"}, {N: "dropH"}, {N: "send", A: c06A, B: c06Elic}, {N: "timeout"}, {N: "timeout"}, {N: "timeout"}, {N: "timeout"}},
				sendKinds: [4][]int{c06A: {c06Elic}},
				ackW:      [3]int{2: 2}, ackLowW: 3, ackCumul: true,
				ticks: []time.Duration{120 * c06ms}, timeout: true, probe: true,
				maxSends: 3, maxTicks: 1, depth: pick(th, 5, 6)}
		}),
		// client handshake: Initial + Handshake + first 1-RTT packets, key drops
		c06Part("hs-client", func(th bool) *c06Cfg {
			return &c06Cfg{pers: cl,
				sendKinds: [4][]int{c06I: {c06Elic, c06AckOnly}, c06H: {c06Elic}, c06A: {c06Elic}},
				ackW:      [3]int{2, 2, 1}, ackUnsent: true,
				ticks: []time.Duration{120 * c06ms}, timeout: true, probe: true, dropI: true, dropH: true,
				maxSends: pick(th, 4, 5), maxTicks: 1, depth: pick(th, 6, 7)}
		}),
		// server handshake with the amplification limit
		c06Part("hs-server", func(th bool) *c06Cfg {
			return &c06Cfg{pers: sv,
				sendKinds: [4][]int{c06I: {c06Elic, c06AckOnly}, c06H: {c06Elic}, c06A: {c06Elic}},
				ackW:      [3]int{1, 1, 1},
				ticks:     []time.Duration{120 * c06ms}, timeout: true, probe: true, dropI: true, dropH: true,
				recvBytes: []int{150, 1200}, recvPkt: true,
				maxSends: pick(th, 4, 5), maxTicks: 1, depth: pick(th, 6, 7)}
		}),
		// client 0-RTT: Retry and 0-RTT rejection
		c06Part("zero-rtt-retry", func(th bool) *c06Cfg {
			return &c06Cfg{pers: cl,
				sendKinds: [4][]int{c06I: {c06Elic}, c06Z: {c06Elic, c06Multi}, c06H: {c06Elic}, c06A: {c06Elic}},
				ackW:      [3]int{1, 0, pick(th, 2, 3)},
				ticks:     []time.Duration{120 * c06ms}, timeout: true, probe: true, dropI: true, dropH: true, drop0: true, retry: true,
				maxSends: pick(th, 4, 5), maxTicks: 1, depth: pick(th, 6, 7)}
		}),
		// Retry while the generator is about to skip a number (prefix: Initial + three 0-RTT packets)
		c06Part("retry-skip", func(th bool) *c06Cfg {
			return &c06Cfg{pers: cl,
				prefix:    []explore.Op{{N: "send", A: c06I, B: c06Elic}, {N: "send", A: c06Z, B: c06Elic}, {N: "send", A: c06Z, B: c06Elic}, {N: "send", A: c06Z, B: c06Multi}},
				sendKinds: [4][]int{c06I: {c06Elic}, c06Z: {c06Elic}, c06A: {c06Elic}},
				ackW:      [3]int{1, 0, 3}, ackCumul: true,
				ticks: []time.Duration{120 * c06ms}, timeout: true, probe: true, dropI: true, dropH: true, drop0: true, retry: true,
				maxSends: 3, maxTicks: 1, depth: pick(th, 4, 6)}
		}),
		// the uQUIC wrapper with a non-zero first Initial packet number (Chrome parrots start at 1)
		c06Part("u-wrapper", func(th bool) *c06Cfg {
			return &c06Cfg{pers: cl, wrapper: true, initialPN: 1,
				sendKinds: [4][]int{c06I: {c06Elic}, c06H: {c06Elic}, c06A: {c06Elic}},
				ackW:      [3]int{2, 1, 1}, ackUnsent: true,
				ticks: []time.Duration{120 * c06ms}, timeout: true, probe: true, dropI: true, dropH: true, retry: true,
				maxSends: pick(th, 4, 5), maxTicks: 1, depth: pick(th, 6, 7)}
		}),
	}, func(msg string) { t.Fatal(msg) })
}
