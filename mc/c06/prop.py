# ./check configuration for C06 (merged by mc/props.py)
PROP = dict(
        pkg="internal/ackhandler", test="TestVerifC06", files=["mc/c06/*.go"], libs=["explore", "canon"],
        level="model_checking", shards=1,
        level_text="Explicit-state model checking of the real sentPacketHandler (client and server perspective, and behind the uQUIC wrapper uSentPacketHandler) against a ledger reference model: every sequence of API calls up to a depth bound -- sends in the three packet-number spaces with packet numbers taken from Peek/PopPacketNumber (so skipped numbers occur), ack-only / MTU-probe / path-probe packets, ACK frames over every subset of the most recent packet numbers (including skipped, never-sent and not-yet-sent ones), loss-detection timeouts, clock steps, QueueProbePacket, key drops, Retry and 0-RTT rejection -- is executed on the real code; after every call the ledger (each frame reported acked xor lost at most once, never forgotten), bytesInFlight, the PROTOCOL_VIOLATION rule and the loss-timer rule are evaluated. Right level because the property is an invariant over whole histories of a deterministic single-threaded state machine whose inputs can be enumerated on a small alphabet.",
        level_note="Trusted: the ledger model and the canonicaliser (times are dumped relative to the harness clock: the handler, RTT statistics, pacer and cubic only use time differences and zero tests); the random draw of the skipping packet number generator is replaced by the legal value next+3 (every 4th application-data packet number is skipped) so that skips occur inside the bound; sizes 300-700 bytes; at most 4-6 packets per history, ECN disabled, no path migration (MigratedPath), no qlog.",
        technique="explicit-state BFS over the real implementation with ledger reference-model oracle",
        deadline=dict(quick=170, thorough=900),
        rule="explicit-state BFS over the real sentPacketHandler API; successor = fresh handler + replay of the shortest path + one call; oracle evaluated after every call",
        assumptions=["path-probe packets are not part of bytes in flight (they travel on another path and the code tracks them separately); MTU-probe packets are",
                     "an MTU probe or path probe alone is not 'application data' for the loss-timer clause",
                     "DropPackets(0-RTT) is treated like a discarded packet-number space for the 0-RTT packets (PLAN.md interpretation)",
                     "a packet number is 'never sent' if it was never handed to SentPacket: above the largest sent, a gap in the sent sequence (skipped by the generator or by a PTO), or below the first number sent",
                     "operations are only issued in states where connection.go could issue them (no sends on dropped spaces or while SendMode is SendNone, Handshake dropped after Initial, 0-RTT drop and Retry only on the client before any 1-RTT packet, QueueProbePacket only in the PTO send mode)"],
    )
