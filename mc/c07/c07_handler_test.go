package ackhandler

// C07 parts over the real ReceivedPacketHandler (three packet number spaces).
//
// The harness plays connection.go: for every arriving packet it first asks the real
// IsPotentiallyDuplicate and drops the packet if it says so; otherwise the packet's frames
// are "handled" (an ACK of one of our ACK-carrying packets raises the forget-below threshold
// through IgnorePacketsBelow, a CRYPTO frame may drop the Handshake space) and then the real
// ReceivedPacket is called. ACK retrieval plays the packet packer. The harness owns the clock.

import (
	"fmt"
	"strconv"
	"strings"
	"time"

	"github.com/refraction-networking/uquic/internal/monotime"
	"github.com/refraction-networking/uquic/internal/protocol"
	"github.com/refraction-networking/uquic/internal/utils"
	"github.com/refraction-networking/uquic/internal/verifmc/canon"
	"github.com/refraction-networking/uquic/internal/verifmc/explore"
	"github.com/refraction-networking/uquic/internal/wire"
)

const (
	c07Initial   = 0
	c07Handshake = 1
	c07App       = 2
	c07ZeroRTT   = 3 // op argument only: a 0-RTT packet of the application-data space

	c07ClockBase = monotime.Time(1_000_000_000_000)
	c07HalfDelay = protocol.MaxAckDelay / 2
)

var c07Enc = [4]protocol.EncryptionLevel{protocol.EncryptionInitial, protocol.EncryptionHandshake, protocol.Encryption1RTT, protocol.Encryption0RTT}
var c07SpaceName = [3]string{"initial", "handshake", "appdata"}

type c07Cfg struct {
	U         [3]int         // packet number universe per space (0: space not exercised)
	ecn       []protocol.ECN // ECN marks on arriving packets
	zeroRTT   bool           // application-data packets may also arrive as 0-RTT
	forget    bool           // packets may carry an ACK that raises the forget-below threshold
	forgetOld bool           // ... the acknowledged ACK may be any earlier one, not just the most recent
	dishonest bool           // ... also in a packet numbered below the new threshold
	drops     bool           // Initial / Handshake spaces may be dropped
	ticks     bool           // the clock may advance by max_ack_delay/2 and max_ack_delay
}

type c07Inst struct {
	cfg     *c07Cfg
	h       *ReceivedPacketHandler
	parser  *wire.FrameParser
	sp      [3]*c07Space
	now     monotime.Time
	dead    bool
	outcome string
	scratch c07Scratch
	lastLA  int          // largest acknowledged of the ACK the last getAck returned (-1: none)
	wired   *c07WiredInst // set in the "wired" part: a real sentPacketHandler derives the threshold
}

func newC07Inst(cfg *c07Cfg) *c07Inst {
	in := &c07Inst{cfg: cfg, h: NewReceivedPacketHandler(utils.DefaultLogger), parser: wire.NewFrameParser(false, false, false), now: c07ClockBase}
	for i := range in.sp {
		in.sp[i] = newC07Space(c07SpaceName[i], cfg.U[i])
		in.sp[i].keepAcked = cfg.forgetOld
	}
	return in
}

func c07Flags(ae bool, ecn protocol.ECN) int {
	f := int(ecn) << 1
	if ae {
		f |= 1
	}
	return f
}

// forgetCandidates lists the thresholds the peer can legitimately allow: LargestAcked+1 of
// an ACK this endpoint generated (sent_packet_handler.go: ignorePacketsBelow(p.LargestAcked+1)).
func (in *c07Inst) forgetCandidates() []int {
	s := in.sp[c07App]
	var c []int
	if !in.cfg.forgetOld {
		if s.hasLA && len(s.la) > 0 && int(s.la[0].Largest)+1 > s.T {
			c = append(c, int(s.la[0].Largest)+1)
		}
		return c
	}
	for l := 0; l < s.U; l++ {
		if s.acked[l] && l+1 > s.T {
			c = append(c, l+1)
		}
	}
	return c
}

func (in *c07Inst) Ops() []explore.Op {
	if in.dead {
		return nil
	}
	var ops []explore.Op
	for si, s := range in.sp {
		if s.U == 0 {
			continue
		}
		ops = append(ops, explore.Op{N: "ack", A: si, B: 1})
		if si == c07App {
			ops = append(ops, explore.Op{N: "ack", A: si, B: 0})
		}
	}
	if in.cfg.ticks {
		if n, oldest, _ := in.sp[c07App].pending(); n > 0 && in.now < oldest.Add(protocol.MaxAckDelay) {
			ops = append(ops, explore.Op{N: "tick", A: 1}, explore.Op{N: "tick", A: 2})
		}
	}
	for si, s := range in.sp {
		if s.dropped {
			continue
		}
		var fc []int
		if si == c07App && in.cfg.forget {
			fc = in.forgetCandidates()
		}
		for pn := 0; pn < s.U; pn++ {
			if s.modelDup(pn) {
				// all variants of a packet the model knows to be a duplicate are the same step
				ops = append(ops, explore.Op{N: "recv", A: si, B: pn})
				continue
			}
			for _, ae := range []bool{false, true} {
				for _, ecn := range in.cfg.ecn {
					ops = append(ops, explore.Op{N: "recv", A: si, B: pn, C: c07Flags(ae, ecn)})
					for _, p := range fc {
						if p <= pn || in.cfg.dishonest {
							ops = append(ops, explore.Op{N: "recv", A: si, B: pn, C: c07Flags(ae, ecn), D: p})
						}
					}
					if si == c07App && in.cfg.zeroRTT {
						ops = append(ops, explore.Op{N: "recv", A: c07ZeroRTT, B: pn, C: c07Flags(ae, ecn)})
					}
					if si == c07Handshake && in.cfg.drops {
						// the packet's CRYPTO frame completes the handshake: the space is dropped
						// while the packet is being processed (see the comment in ReceivedPacket)
						ops = append(ops, explore.Op{N: "recv", A: si, B: pn, C: c07Flags(ae, ecn), D: -1})
					}
				}
			}
		}
	}
	if in.cfg.drops {
		for si := c07Initial; si <= c07Handshake; si++ {
			if in.sp[si].U > 0 && !in.sp[si].dropped {
				ops = append(ops, explore.Op{N: "drop", A: si})
			}
		}
	}
	return ops
}

func (in *c07Inst) Outcome() string { return in.outcome }

func (in *c07Inst) Apply(op explore.Op) *explore.Fail {
	in.outcome = ""
	switch op.N {
	case "recv":
		if f := in.recv(op); f != nil {
			return f
		}
	case "ack":
		if f := in.getAck(op.A, op.B == 1); f != nil {
			return f
		}
	case "tick":
		in.now = in.now.Add(time.Duration(op.A) * c07HalfDelay)
		in.outcome = "tick"
	case "sweep":
		// no false negative of the duplicate test anywhere in the universe (straight-line parts)
		s := in.sp[op.A]
		for pn := 0; pn < s.U && !s.dropped; pn++ {
			if s.modelDup(pn) && !in.h.IsPotentiallyDuplicate(protocol.PacketNumber(pn), c07Enc[op.A]) {
				where := "tracked"
				if pn < s.T {
					where = "below-threshold"
				}
				return explore.Failf("duplicate-missed/"+s.name+"/"+where, "packet %d was received before and lies inside the tracked history (threshold %d) but IsPotentiallyDuplicate says false", pn, s.T)
			}
		}
		in.outcome = "sweep"
	case "drop":
		in.h.DropPackets(c07Enc[op.A])
		in.sp[op.A].dropped = true
		in.outcome = "drop/" + c07SpaceName[op.A]
	default:
		explore.Must(false, "unknown op %v", op)
	}
	if in.dead {
		return nil
	}
	st, f := in.checkDue()
	if f != nil {
		return f
	}
	in.outcome += " -> " + st
	return nil
}

func (in *c07Inst) recv(op explore.Op) *explore.Fail {
	si := op.A
	if si == c07ZeroRTT {
		si = c07App
	}
	enc := c07Enc[op.A]
	s := in.sp[si]
	pn := op.B
	ae := op.C&1 == 1
	ecn := protocol.ECN(op.C >> 1)
	explore.Must(!s.dropped && pn < s.U, "recv on dropped space / outside universe: %v", op)
	tag := "recv/" + enc.String()

	// connection.go:1221 / :1367 - duplicate test before anything of the packet is processed
	dup := in.h.IsPotentiallyDuplicate(protocol.PacketNumber(pn), enc)
	if !dup {
		switch {
		case s.trk.has(pn):
			return explore.Failf("duplicate-missed/"+s.name+"/tracked", "packet %d was received before and lies inside the tracked history (%s, threshold %d) but IsPotentiallyDuplicate says false: its frames would be processed a second time", pn, s.trk, s.T)
		case pn < s.T:
			return explore.Failf("duplicate-missed/"+s.name+"/below-threshold", "packet %d is below the forget-below threshold %d but IsPotentiallyDuplicate says false", pn, s.T)
		}
	}
	if dup {
		switch {
		case s.modelDup(pn):
			in.outcome = tag + "/duplicate-dropped"
		case s.all.has(pn):
			in.outcome = tag + "/duplicate-dropped(pruned)"
		default:
			in.outcome = tag + "/dropped-as-potential-duplicate(never received)" // allowed: "potentially"
		}
		return nil
	}

	// the packet's frames are handled before ReceivedPacket is called
	fresh := !s.all.has(pn)
	switch {
	case op.D >= c07PeerAckBase:
		// the packet carries an ACK frame of the peer: the real sentPacketHandler processes it
		// and raises the threshold through its ignorePacketsBelow callback (c07_wired_test.go)
		if dead := in.wired.peerAck(op.D - c07PeerAckBase); dead {
			in.dead = true
			in.outcome = tag + "+peer-ack/error(ReceivedAck failed)"
			return nil
		}
		tag += in.wired.ackTag
	case op.D > 0:
		in.h.IgnorePacketsBelow(protocol.PacketNumber(op.D))
		s.forget(op.D)
		tag += "+forget"
	case op.D == -1:
		in.h.DropPackets(enc)
		s.dropped = true
		tag += "+drop"
	}

	trig := uint8(c07TrigNone)
	if si == c07App && ae {
		trig = s.trigger(pn)
	}
	err := in.h.ReceivedPacket(protocol.PacketNumber(pn), ecn, enc, in.now, ae)
	if err != nil {
		// the connection is closed with this error; no ACK will be generated any more
		in.dead = true
		switch {
		case pn < s.T:
			in.outcome = tag + "/error(packet below the threshold its own ACK frame raised)"
		case op.A == c07ZeroRTT:
			in.outcome = tag + "/error(0-RTT)"
		case !fresh:
			in.outcome = tag + "/error(re-received after pruning)"
		default:
			return explore.Failf("fresh-packet-rejected/"+s.name, "packet %d was never received, IsPotentiallyDuplicate said false, but ReceivedPacket failed: %v", pn, err)
		}
		return nil
	}
	if s.dropped {
		in.outcome = tag + "/ignored(space dropped)"
		return nil
	}
	s.record(pn, ae, trig, in.now)
	kind := "nae"
	if ae {
		kind = "ae"
		if ecn == protocol.ECNCE {
			kind = "ae-ce"
		}
		switch trig {
		case c07TrigFills:
			kind += "+fills-gap"
		case c07TrigReveals:
			kind += "+reveals-gap"
		}
	}
	if !fresh {
		kind += "(again after pruning)"
	}
	in.outcome = tag + "/" + kind
	return nil
}

func (in *c07Inst) getAck(si int, onlyIfQueued bool) *explore.Fail {
	s := in.sp[si]
	enc := c07Enc[si]
	must, why := in.mustHaveAck(si)
	f := in.h.GetAckFrame(enc, in.now, onlyIfQueued)
	tag := "ack/" + s.name + "/q=" + strconv.FormatBool(onlyIfQueued)
	in.lastLA = -1
	if f == nil {
		if must {
			return explore.Failf("ack-not-returned/"+s.name+"/"+why, "GetAckFrame(%s, onlyIfQueued=%v) returned nil although an ACK is due (%s)", enc, onlyIfQueued, why)
		}
		in.outcome = tag + "/nil"
		return nil
	}
	ranges := append([]wire.AckRange(nil), f.AckRanges...)
	if fl := c07CheckAck(s, ranges, "GetAckFrame("+enc.String()+")"); fl != nil {
		return fl
	}
	if fl := c07WireRoundTrip(in.parser, f, enc, s.name); fl != nil {
		return fl
	}
	n, _, _ := s.pending()
	switch {
	case must:
		why = "due:" + why
	case n > 0:
		why = "early"
	default:
		why = "nothing-pending"
	}
	s.ackGenerated(ranges)
	in.lastLA = int(ranges[0].Largest)
	nr := len(ranges)
	if nr > 3 {
		nr = 3
	}
	plus := ""
	if len(ranges) > 3 {
		plus = "+"
	}
	in.outcome = tag + "/ranges=" + strconv.Itoa(nr) + plus + "/" + why
	return nil
}

// mustHaveAck says whether the property text requires an ACK to be available right now.
func (in *c07Inst) mustHaveAck(si int) (bool, string) {
	s := in.sp[si]
	if s.dropped {
		return false, ""
	}
	n, oldest, trig := s.pending()
	if n == 0 {
		return false, ""
	}
	if si != c07App {
		return true, "immediate"
	}
	switch {
	case trig == c07TrigFills:
		return true, "fills-gap"
	case trig == c07TrigReveals:
		return true, "reveals-gap"
	case n >= 2:
		return true, "second-ack-eliciting"
	case in.now >= oldest.Add(protocol.MaxAckDelay):
		return true, "max-ack-delay-elapsed"
	}
	return false, ""
}

// checkDue is the state invariant of the timing clause, evaluated after every step on a
// deep copy of the handler: while an ack-eliciting packet of the tracked history is not
// covered by a generated ACK, either GetAckFrame(now, onlyIfQueued=true) would return an ACK
// (required when the text says "immediately"), or the alarm is set no later than the oldest
// such packet's arrival + max_ack_delay and GetAckFrame returns an ACK when the alarm fires.
func (in *c07Inst) checkDue() (string, *explore.Fail) {
	var status []string
	for si, s := range in.sp {
		if s.U == 0 || s.dropped {
			continue
		}
		n, oldest, _ := s.pending()
		if n == 0 {
			if si == c07App {
				if a := in.h.GetAlarmTimeout(); !a.IsZero() {
					status = append(status, "alarm-without-pending")
				}
			}
			continue
		}
		enc := c07Enc[si]
		must, why := in.mustHaveAck(si)
		probe := c07CloneHandler(&in.scratch, in.h).GetAckFrame(enc, in.now, true)
		if probe != nil {
			if fl := c07CheckAck(s, probe.AckRanges, "queued ACK ("+enc.String()+")"); fl != nil {
				return "", fl
			}
			if must {
				status = append(status, s.name+":queued("+why+")")
			} else {
				status = append(status, s.name+":queued(early)")
			}
			continue
		}
		if must {
			return "", explore.Failf("ack-not-due/"+s.name+"/"+why, "%d ack-eliciting packet(s) pending, an ACK must be available now (%s) but GetAckFrame(%s, onlyIfQueued=true) would return nil", n, why, enc)
		}
		// only the application-data space may delay
		alarm := in.h.GetAlarmTimeout()
		limit := oldest.Add(protocol.MaxAckDelay)
		if alarm.IsZero() {
			return "", explore.Failf("ack-never-due/no-alarm", "ack-eliciting packet pending since %v before now, no ACK queued and no alarm set", in.now.Sub(oldest))
		}
		if alarm.After(limit) {
			return "", explore.Failf("ack-alarm-late", "ACK alarm is %v after the arrival of the oldest pending ack-eliciting packet (max_ack_delay %v)", alarm.Sub(oldest), protocol.MaxAckDelay)
		}
		at := alarm
		if in.now.After(at) {
			at = in.now
		}
		fired := c07CloneHandler(&in.scratch, in.h).GetAckFrame(enc, at, true)
		if fired == nil {
			return "", explore.Failf("ack-alarm-without-ack", "the ACK alarm fires %v after arrival but GetAckFrame(onlyIfQueued=true) returns nil at that time", at.Sub(oldest))
		}
		if fl := c07CheckAck(s, fired.AckRanges, "ACK at alarm time"); fl != nil {
			return "", fl
		}
		status = append(status, s.name+":alarm(+"+alarm.Sub(in.now).String()+")")
	}
	if len(status) == 0 {
		return "idle", nil
	}
	return strings.Join(status, ","), nil
}

func (in *c07Inst) Key() string {
	var sb strings.Builder
	sb.WriteString(canon.Dump(in.h, canon.Options{
		TimeBase: int64(in.now),
		SkipField: func(typ, field string) bool {
			// arrival time of the largest packet and the delay field of the reused ACK frame
			// only feed AckFrame.DelayTime, which this oracle does not observe
			return (typ == "ackhandler.appDataReceivedPacketTracker" && field == "largestObservedRcvdTime") ||
				(typ == "wire.AckFrame" && field == "DelayTime")
		},
	}))
	sb.WriteString("|dead=" + strconv.FormatBool(in.dead) + "|")
	for _, s := range in.sp {
		if s.U > 0 {
			sb.WriteString(s.key(in.now))
		}
	}
	return sb.String()
}

func c07HandlerPart(name string, mk func(e explore.Env) *c07Cfg, what string) explore.Part {
	return explore.BFSPart(name, func(e explore.Env) explore.BFSSpec {
		cfg := mk(e)
		return explore.BFSSpec{
			New:              func() explore.Instance { return newC07Inst(cfg) },
			PanicIsViolation: true,
			Rule: fmt.Sprintf("BFS to closure over the real ReceivedPacketHandler (%s); universes initial/handshake/appdata = %d/%d/%d packet numbers, ECN marks %v, 0-RTT=%v, forget-below carried by packets=%v (of any earlier ACK=%v, dishonest numbering=%v), drops=%v, clock steps max_ack_delay/2 and max_ack_delay=%v; every arrival is guarded by the real IsPotentiallyDuplicate as in connection.go; state = canon(handler, times relative to the harness clock) + model",
				what, cfg.U[0], cfg.U[1], cfg.U[2], cfg.ecn, cfg.zeroRTT, cfg.forget, cfg.forgetOld, cfg.dishonest, cfg.drops, cfg.ticks),
		}
	})
}
