package ackhandler

// C07 part "history": explicit-state search over the bare receivedPacketHistory (interval
// list: extend / merge / insert / prune, DeleteBelow, IsPotentiallyDuplicate) against a set
// model. DeleteBelow is a free-standing operation here (any value, any time).

import (
	"fmt"

	"github.com/refraction-networking/uquic/internal/protocol"
	"github.com/refraction-networking/uquic/internal/verifmc/canon"
	"github.com/refraction-networking/uquic/internal/verifmc/explore"
	"github.com/refraction-networking/uquic/internal/wire"
)

type c07HistInst struct {
	h       *receivedPacketHistory
	s       *c07Space
	outcome string
}

func newC07HistInst(u int) *c07HistInst {
	return &c07HistInst{h: newReceivedPacketHistory(), s: newC07Space("history", u)}
}

func (in *c07HistInst) Ops() []explore.Op {
	var ops []explore.Op
	for p := 0; p < in.s.U; p++ {
		ops = append(ops, explore.Op{N: "recv", B: p})
	}
	for p := 0; p <= in.s.U; p++ {
		ops = append(ops, explore.Op{N: "del", B: p})
	}
	return ops
}

func (in *c07HistInst) Outcome() string { return in.outcome }

func (in *c07HistInst) ranges() []wire.AckRange {
	var rs []wire.AckRange
	for r := range in.h.Backward() {
		rs = append(rs, wire.AckRange{Smallest: r.Start, Largest: r.End})
	}
	return rs
}

func (in *c07HistInst) Apply(op explore.Op) *explore.Fail {
	s := in.s
	switch op.N {
	case "recv":
		pn := op.B
		dup := in.h.IsPotentiallyDuplicate(protocol.PacketNumber(pn))
		switch {
		case dup && s.modelDup(pn):
			in.outcome = "recv/duplicate"
		case dup && s.all.has(pn):
			in.outcome = "recv/duplicate(pruned)"
		case dup:
			in.outcome = "recv/potential-duplicate(never received)"
		case s.trk.has(pn):
			return explore.Failf("duplicate-missed/history/tracked", "packet %d lies inside the tracked history %s but IsPotentiallyDuplicate says false", pn, s.trk)
		case pn < s.T:
			return explore.Failf("duplicate-missed/history/below-threshold", "packet %d is below DeleteBelow(%d) but IsPotentiallyDuplicate says false", pn, s.T)
		default:
			fresh := !s.all.has(pn)
			before := len(in.h.ranges)
			isNew := in.h.ReceivedPacket(protocol.PacketNumber(pn))
			if !isNew && fresh {
				return explore.Failf("fresh-packet-rejected/history", "packet %d was never received and is not a duplicate, but ReceivedPacket reports it as old", pn)
			}
			s.record(pn, false, c07TrigNone, 0)
			d := len(in.h.ranges) - before
			in.outcome = fmt.Sprintf("recv/new ranges%+d", d)
			if !s.trk.has(pn) {
				in.outcome += "(pruned at once)"
			} else if !fresh {
				in.outcome += "(again after pruning)"
			}
		}
	case "del":
		before := len(in.h.ranges)
		in.h.DeleteBelow(protocol.PacketNumber(op.B))
		old := s.T
		s.forget(op.B)
		in.outcome = fmt.Sprintf("del/raised=%v ranges%+d", s.T > old, len(in.h.ranges)-before)
	case "sweep":
		in.outcome = "sweep"
	default:
		explore.Must(false, "unknown op %v", op)
	}
	return in.check()
}

// check is the state invariant: the ranges an ACK would be built from are well-formed and
// sound, include the largest received number, and duplicate detection has no false negative
// inside the tracked history or below the threshold.
func (in *c07HistInst) check() *explore.Fail {
	s := in.s
	rs := in.ranges()
	if len(rs) > 0 || !s.trk.empty() {
		if fl := c07CheckAck(s, rs, "ranges of the history"); fl != nil {
			return fl
		}
	}
	for pn := 0; pn < s.U; pn++ {
		if !s.modelDup(pn) || in.h.IsPotentiallyDuplicate(protocol.PacketNumber(pn)) {
			continue
		}
		if pn < s.T {
			return explore.Failf("duplicate-missed/history/below-threshold", "packet %d is below DeleteBelow(%d) but IsPotentiallyDuplicate says false", pn, s.T)
		}
		return explore.Failf("duplicate-missed/history/tracked", "packet %d lies inside the tracked history %s (threshold %d) but IsPotentiallyDuplicate says false; ranges %s", pn, s.trk, s.T, c07Fmt(rs))
	}
	return nil
}

func (in *c07HistInst) Key() string {
	return canon.Dump(in.h, canon.Options{}) + "|" + in.s.key(0)
}

func c07HistoryPart(name string) explore.Part {
	return explore.BFSPart(name, func(e explore.Env) explore.BFSSpec {
		u := 11
		if e.Thorough() {
			u = 14
		}
		return explore.BFSSpec{
			New:              func() explore.Instance { return newC07HistInst(u) },
			PanicIsViolation: true,
			Rule:             fmt.Sprintf("BFS to closure over the real receivedPacketHistory; alphabet: arrival of each packet number 0..%d (guarded by the real IsPotentiallyDuplicate), DeleteBelow(0..%d); after every step the ranges and IsPotentiallyDuplicate of every number are compared with the set model", u-1, u),
		}
	})
}
