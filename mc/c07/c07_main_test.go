package ackhandler

import (
	"testing"

	"github.com/refraction-networking/uquic/internal/protocol"
	"github.com/refraction-networking/uquic/internal/verifmc/explore"
)

func c07Pick(e explore.Env, quick, thorough int) int {
	if e.Thorough() {
		return thorough
	}
	return quick
}

func TestVerifC07(t *testing.T) {
	func() {
		defer func() {
			if x := recover(); x != nil {
				t.Fatalf("%v", x)
			}
		}()
		c07CheckCloneShape()
	}()
	none := []protocol.ECN{protocol.ECNNon}
	explore.Main("C07", []explore.Part{
		// cheap parts first: the run-wide deadline can then only cut the largest part
		c07HistoryPart("history"),
		c07PrunePart("prune"),
		// Initial + Handshake spaces, drops (also while a Handshake packet is being processed)
		c07HandlerPart("initial-handshake", func(e explore.Env) *c07Cfg {
			u := c07Pick(e, 3, 4)
			return &c07Cfg{U: [3]int{u, u, 0}, ecn: none, drops: true}
		}, "Initial and Handshake spaces"),
		// application data with ECN marks, 0-RTT packets and dishonest packet numbering
		c07HandlerPart("appdata-ecn-0rtt", func(e explore.Env) *c07Cfg {
			return &c07Cfg{U: [3]int{0, 0, c07Pick(e, 3, 4)}, ecn: []protocol.ECN{protocol.ECNNon, protocol.ECT0, protocol.ECNCE}, zeroRTT: true, forget: true, forgetOld: true, dishonest: true, ticks: true}
		}, "application-data space with ECN marks and 0-RTT"),
		// all three spaces together (dispatch between the trackers)
		c07HandlerPart("three-spaces", func(e explore.Env) *c07Cfg {
			if e.Thorough() {
				return &c07Cfg{U: [3]int{2, 1, 3}, ecn: none, forget: true, forgetOld: true, drops: true, ticks: true}
			}
			return &c07Cfg{U: [3]int{1, 1, 3}, ecn: none, forget: true, forgetOld: true, drops: true, ticks: true}
		}, "all three spaces"),
		// the threshold is derived by a real sentPacketHandler from the peer's ACK frames (with gaps)
		c07WiredPart("wired"),
		// application data: arrival orders x ack-eliciting x forget-below x clock x ACK retrieval
		c07HandlerPart("appdata", func(e explore.Env) *c07Cfg {
			return &c07Cfg{U: [3]int{0, 0, c07Pick(e, 6, 7)}, ecn: none, forget: true, forgetOld: e.Thorough(), ticks: true}
		}, "application-data space"),
	}, func(msg string) { t.Fatal(msg) })
}
