package ackhandler

// C07 shared pieces: the reference model of one packet number space (a set of received
// packet numbers, the forget-below threshold, the ack-eliciting packets not yet covered by
// a generated ACK with their arrival times, the last ACK the peer was told), the ACK content
// oracle (in memory and after a wire encode/parse round trip) and a reflective deep copy of
// the real handler used for non-destructive "would GetAckFrame return an ACK now?" probes.

import (
	"fmt"
	"reflect"
	"sort"
	"strconv"
	"strings"

	"github.com/refraction-networking/uquic/internal/monotime"
	"github.com/refraction-networking/uquic/internal/protocol"
	"github.com/refraction-networking/uquic/internal/verifmc/explore"
	"github.com/refraction-networking/uquic/internal/wire"
)

// ---------------------------------------------------------------- sets of packet numbers

type c07Set []bool

func (s c07Set) has(p int) bool { return p >= 0 && p < len(s) && s[p] }

func (s c07Set) max() int {
	for p := len(s) - 1; p >= 0; p-- {
		if s[p] {
			return p
		}
	}
	return -1
}

func (s c07Set) empty() bool { return s.max() < 0 }

func (s c07Set) String() string {
	var sb strings.Builder
	for _, b := range s {
		if b {
			sb.WriteByte('1')
		} else {
			sb.WriteByte('0')
		}
	}
	return sb.String()
}

// c07PruneTracked keeps only the highest protocol.MaxNumAckRanges maximal runs of the
// model's tracked history ("the tracked number of ranges" of the property text; the bound is
// the one documented on receivedPacketHistory.ranges).
func c07PruneTracked(trk c07Set) {
	runs := 0
	for p := len(trk) - 1; p >= 0; p-- {
		if !trk[p] {
			continue
		}
		if p == len(trk)-1 || !trk[p+1] {
			runs++
		}
		if runs > protocol.MaxNumAckRanges {
			trk[p] = false
		}
	}
}

// ---------------------------------------------------------------- model of one space

const (
	c07TrigNone    = 0
	c07TrigFills   = 1 // the packet was reported missing in the last ACK that was generated
	c07TrigReveals = 2 // the packet is the new largest and leaves a hole above the last ACK's largest
)

type c07Space struct {
	name string
	U    int
	all  c07Set // every packet number the real code accepted (ReceivedPacket returned nil)
	trk  c07Set // model of the tracked history: received, >= T, within the highest 64 runs
	T    int    // forget-below threshold the peer allowed (0: none)

	pendT    []monotime.Time // arrival time of ack-eliciting packets not yet covered by an ACK (0: not pending)
	pendTrig []uint8

	hasLA bool
	la    []wire.AckRange // ranges of the most recently generated ACK (what the peer was told)
	acked c07Set          // set of LargestAcked values of all generated ACKs (legal forget-below values - 1)

	keepAcked bool // the set `acked` is part of the state (older ACKs may still be acknowledged)

	dropped bool
	timed   bool // arrival times matter (application data only)
}

func newC07Space(name string, u int) *c07Space {
	return &c07Space{
		name: name, U: u, timed: name == "appdata",
		all: make(c07Set, u), trk: make(c07Set, u),
		pendT: make([]monotime.Time, u), pendTrig: make([]uint8, u),
		acked: make(c07Set, u),
	}
}

func (s *c07Space) modelDup(pn int) bool { return pn < s.T || s.trk.has(pn) }

func (s *c07Space) forget(p int) {
	if p <= s.T {
		return
	}
	s.T = p
	for i := 0; i < p && i < s.U; i++ {
		s.trk[i] = false
	}
}

func (s *c07Space) laAcks(pn int) bool {
	for _, r := range s.la {
		if protocol.PacketNumber(pn) >= r.Smallest && protocol.PacketNumber(pn) <= r.Largest {
			return true
		}
	}
	return false
}

// trigger classifies an arriving ack-eliciting application-data packet (before it is added
// to the model). Gaps are taken relative to the last generated ACK, i.e. to what the peer has
// been told; before the first ACK nothing was reported and no demand is made.
func (s *c07Space) trigger(pn int) uint8 {
	if !s.hasLA || len(s.la) == 0 {
		return c07TrigNone
	}
	lg := int(s.la[0].Largest)
	if pn < lg && pn >= s.T && !s.laAcks(pn) {
		return c07TrigFills
	}
	if pn >= 1 && pn > s.trk.max() && !s.trk.has(pn-1) && pn-1 > lg && pn-1 >= s.T {
		return c07TrigReveals
	}
	// RFC 9000 13.2.1: "... larger than the highest-numbered ack-eliciting packet that has been
	// received and there are missing packets between that packet and this packet". The packet
	// need not be the largest received: a non-ack-eliciting packet above it (which cannot cause
	// an ACK itself) may have opened the gap. With this packet counted, a number above
	// everything the last ACK reported and below the largest received is missing, and no
	// ack-eliciting packet has arrived above the last ACK's largest before (it would have
	// revealed the gap already).
	if pn > lg && pn < s.trk.max() {
		for x := pn - 1; x > lg && x >= s.T; x-- {
			if !s.trk.has(x) {
				for y := lg + 1; y < s.U; y++ {
					if s.pendT[y] != 0 && s.trk[y] {
						return c07TrigNone // an earlier ack-eliciting packet above the last ACK: already judged there
					}
				}
				return c07TrigReveals
			}
		}
	}
	return c07TrigNone
}

// record adds an accepted packet to the model.
func (s *c07Space) record(pn int, ackEliciting bool, trig uint8, now monotime.Time) {
	s.all[pn] = true
	if pn < s.T {
		return
	}
	s.trk[pn] = true
	c07PruneTracked(s.trk)
	if ackEliciting {
		s.pendT[pn] = now
		s.pendTrig[pn] = trig
	}
}

// pending returns the ack-eliciting packets still inside the tracked history that no ACK
// has covered yet: their number, the oldest arrival time and the strongest trigger.
func (s *c07Space) pending() (n int, oldest monotime.Time, trig uint8) {
	for pn := 0; pn < s.U; pn++ {
		if s.pendT[pn] == 0 || !s.trk[pn] {
			continue
		}
		n++
		if oldest == 0 || s.pendT[pn] < oldest {
			oldest = s.pendT[pn]
		}
		if s.pendTrig[pn] != c07TrigNone && (trig == c07TrigNone || s.pendTrig[pn] < trig) {
			trig = s.pendTrig[pn]
		}
	}
	return
}

// ackGenerated updates the model after the real code produced an ACK with these ranges.
func (s *c07Space) ackGenerated(ranges []wire.AckRange) {
	s.hasLA = true
	s.la = append([]wire.AckRange(nil), ranges...)
	if len(ranges) > 0 {
		if l := int(ranges[0].Largest); l >= 0 && l < s.U {
			s.acked[l] = true
		}
	}
	for pn := range s.pendT {
		s.pendT[pn] = 0
		s.pendTrig[pn] = c07TrigNone
	}
}

func (s *c07Space) key(now monotime.Time) string {
	b := make([]byte, 0, 96+2*s.U)
	b = append(b, s.name...)
	b = append(b, "{T="...)
	b = strconv.AppendInt(b, int64(s.T), 10)
	b = append(b, " trk="...)
	for _, x := range s.trk {
		if x {
			b = append(b, '1')
		} else {
			b = append(b, '0')
		}
	}
	b = append(b, " drop="...)
	b = strconv.AppendBool(b, s.dropped)
	b = append(b, " la="...)
	b = strconv.AppendBool(b, s.hasLA)
	for _, r := range s.la {
		b = append(b, '[')
		b = strconv.AppendInt(b, int64(r.Smallest), 10)
		b = append(b, '-')
		b = strconv.AppendInt(b, int64(r.Largest), 10)
		b = append(b, ']')
	}
	b = append(b, " pend="...)
	for pn := 0; pn < s.U; pn++ {
		if s.pendT[pn] != 0 && s.trk[pn] {
			b = strconv.AppendInt(b, int64(pn), 10)
			if s.timed {
				b = append(b, '@')
				b = strconv.AppendInt(b, int64(s.pendT[pn]-now), 10)
				b = append(b, '/')
				b = strconv.AppendInt(b, int64(s.pendTrig[pn]), 10)
			}
			b = append(b, ',')
		}
	}
	// only largest-acked values that can still raise the threshold matter
	b = append(b, " fb="...)
	for l := 0; l < s.U; l++ {
		if s.keepAcked && s.acked[l] && l+1 > s.T {
			b = strconv.AppendInt(b, int64(l+1), 10)
			b = append(b, ',')
		}
	}
	b = append(b, '}')
	return string(b)
}

// c07Fmt prints ACK ranges, at most the first 8 of them.
func c07Fmt(rs []wire.AckRange) string {
	var sb strings.Builder
	sb.WriteByte('[')
	for i, r := range rs {
		if i == 8 {
			fmt.Fprintf(&sb, " ... %d ranges, lowest [%d,%d]", len(rs), rs[len(rs)-1].Smallest, rs[len(rs)-1].Largest)
			break
		}
		if i > 0 {
			sb.WriteByte(' ')
		}
		fmt.Fprintf(&sb, "[%d,%d]", r.Smallest, r.Largest)
	}
	sb.WriteByte(']')
	return sb.String()
}

// ---------------------------------------------------------------- ACK content oracle

// c07CheckAck checks one generated ACK against the model of its space:
// ranges well-formed (Smallest <= Largest, strictly descending, disjoint, not adjacent - the
// wire format cannot express adjacent ranges), every acknowledged number was received in this
// space and is not below the forget-below threshold, the largest received number is included,
// and every pending ack-eliciting packet of the tracked history is covered.
func c07CheckAck(s *c07Space, ranges []wire.AckRange, what string) *explore.Fail {
	sp := s.name
	if len(ranges) == 0 {
		return explore.Failf("ack-no-ranges/"+sp, "%s: ACK frame without any range (received %s, threshold %d)", what, s.all, s.T)
	}
	for i, r := range ranges {
		if r.Smallest > r.Largest || r.Smallest < 0 {
			return explore.Failf("ack-range-inverted/"+sp, "%s: range %d is [%d,%d]", what, i, r.Smallest, r.Largest)
		}
		if i > 0 {
			prev := ranges[i-1]
			if prev.Smallest <= r.Largest {
				return explore.Failf("ack-ranges-not-descending-disjoint/"+sp, "%s: range %d [%d,%d] is not below range %d [%d,%d]", what, i, r.Smallest, r.Largest, i-1, prev.Smallest, prev.Largest)
			}
			if prev.Smallest == r.Largest+1 {
				return explore.Failf("ack-ranges-adjacent/"+sp, "%s: ranges %d [%d,%d] and %d [%d,%d] are adjacent (unmerged; not encodable)", what, i-1, prev.Smallest, prev.Largest, i, r.Smallest, r.Largest)
			}
		}
		for pn := r.Smallest; pn <= r.Largest; pn++ {
			if !s.all.has(int(pn)) {
				return explore.Failf("ack-covers-unreceived/"+sp, "%s: ACK %s acknowledges packet %d which was never received in this space (received %s)", what, c07Fmt(ranges), pn, s.all)
			}
			if int(pn) < s.T {
				return explore.Failf("ack-below-threshold/"+sp, "%s: ACK %s acknowledges packet %d below the forget-below threshold %d", what, c07Fmt(ranges), pn, s.T)
			}
		}
	}
	if m := s.all.max(); m >= s.T && int(ranges[0].Largest) != m {
		return explore.Failf("ack-misses-largest/"+sp, "%s: ACK %s does not include the largest received packet %d", what, c07Fmt(ranges), m)
	}
	for pn := 0; pn < s.U; pn++ {
		if s.pendT[pn] == 0 || !s.trk[pn] {
			continue
		}
		ok := false
		for _, r := range ranges {
			if protocol.PacketNumber(pn) >= r.Smallest && protocol.PacketNumber(pn) <= r.Largest {
				ok = true
			}
		}
		if !ok {
			return explore.Failf("ack-misses-pending/"+sp, "%s: ACK %s does not cover the pending ack-eliciting packet %d", what, c07Fmt(ranges), pn)
		}
	}
	return nil
}

// c07WireRoundTrip encodes the frame with the real wire code and parses it back: what the
// peer decodes must be exactly the ranges checked above (at most MaxNumAckRanges of them).
func c07WireRoundTrip(parser *wire.FrameParser, f *wire.AckFrame, enc protocol.EncryptionLevel, sp string) *explore.Fail {
	b, err := f.Append(nil, protocol.Version1)
	if err != nil {
		return explore.Failf("ack-wire-encode/"+sp, "Append failed: %v", err)
	}
	ft, l, err := parser.ParseType(b, enc)
	if err != nil {
		return explore.Failf("ack-wire-type/"+sp, "generated ACK %s does not parse: %v", c07Fmt(f.AckRanges), err)
	}
	pf, _, err := parser.ParseAckFrame(ft, b[l:], enc, protocol.Version1)
	if err != nil {
		return explore.Failf("ack-wire-parse/"+sp, "generated ACK %s does not parse: %v", c07Fmt(f.AckRanges), err)
	}
	want := f.AckRanges
	if len(want) > protocol.MaxNumAckRanges {
		want = want[:protocol.MaxNumAckRanges]
	}
	if len(pf.AckRanges) != len(want) {
		return explore.Failf("ack-wire-differs/"+sp, "peer decodes %s from generated ACK %s", c07Fmt(pf.AckRanges), c07Fmt(f.AckRanges))
	}
	for i := range want {
		if pf.AckRanges[i] != want[i] {
			return explore.Failf("ack-wire-differs/"+sp, "peer decodes %s from generated ACK %s", c07Fmt(pf.AckRanges), c07Fmt(f.AckRanges))
		}
	}
	return nil
}

// ---------------------------------------------------------------- deep copy of the handler

// c07CloneHandler returns an independent copy of the real handler (fresh memory for the
// trackers, the interval lists and the reused ACK frames; the logger is shared). It is used
// for the non-destructive probes "would GetAckFrame return an ACK now / at alarm time?".
// It is written out by hand because it runs on every step; c07CheckCloneShape verifies by
// reflection that it follows every reference the handler's types contain.
func c07CloneHandler(sc *c07Scratch, h *ReceivedPacketHandler) *ReceivedPacketHandler {
	sc.h = *h
	sc.h.initialPackets = sc.cloneTracker(0, &sc.trk[0], h.initialPackets)
	sc.h.handshakePackets = sc.cloneTracker(1, &sc.trk[1], h.handshakePackets)
	sc.cloneTracker(2, &sc.h.appDataPackets.receivedPacketTracker, &h.appDataPackets.receivedPacketTracker)
	return &sc.h
}

// c07Scratch is the per-instance memory the copies live in (reused by every probe; a probe's
// result is only looked at before the next probe).
type c07Scratch struct {
	h      ReceivedPacketHandler
	trk    [2]receivedPacketTracker
	la     [3]wire.AckFrame
	ranges [3][]interval
	acks   [3][]wire.AckRange
}

func (sc *c07Scratch) cloneTracker(i int, dst, src *receivedPacketTracker) *receivedPacketTracker {
	if src == nil {
		return nil
	}
	*dst = *src
	sc.ranges[i] = append(sc.ranges[i][:0], src.packetHistory.ranges...)
	dst.packetHistory.ranges = sc.ranges[i]
	if src.lastAck != nil {
		sc.la[i] = *src.lastAck
		sc.acks[i] = append(sc.acks[i][:0], src.lastAck.AckRanges...)
		sc.la[i].AckRanges = sc.acks[i]
		dst.lastAck = &sc.la[i]
	}
	return dst
}

// c07CheckCloneShape lists every reference-like field reachable from ReceivedPacketHandler
// and compares the list with what c07CloneHandler handles (harness error otherwise).
func c07CheckCloneShape() {
	var got []string
	seen := map[reflect.Type]bool{}
	var walk func(t reflect.Type)
	walk = func(t reflect.Type) {
		switch t.Kind() {
		case reflect.Pointer, reflect.Slice, reflect.Array:
			walk(t.Elem())
		case reflect.Struct:
			if seen[t] {
				return
			}
			seen[t] = true
			for i := 0; i < t.NumField(); i++ {
				f := t.Field(i)
				switch f.Type.Kind() {
				case reflect.Pointer, reflect.Slice, reflect.Map, reflect.Interface, reflect.Chan, reflect.Func, reflect.UnsafePointer:
					got = append(got, t.String()+"."+f.Name+":"+f.Type.Kind().String())
				}
				walk(f.Type)
			}
		}
	}
	walk(reflect.TypeOf(ReceivedPacketHandler{}))
	sort.Strings(got)
	want := []string{
		"ackhandler.ReceivedPacketHandler.handshakePackets:ptr",
		"ackhandler.ReceivedPacketHandler.initialPackets:ptr",
		"ackhandler.appDataReceivedPacketTracker.logger:interface", // shared
		"ackhandler.receivedPacketHistory.ranges:slice",
		"ackhandler.receivedPacketTracker.lastAck:ptr",
		"wire.AckFrame.AckRanges:slice",
	}
	explore.Must(strings.Join(got, " ") == strings.Join(want, " "), "the handler's types changed shape; c07CloneHandler must be adapted:\n got  %v\n want %v", got, want)
}
