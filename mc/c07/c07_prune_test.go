package ackhandler

// C07 part "prune": straight-line histories that cross the protocol.MaxNumAckRanges pruning
// path of receivedPacketHistory.ReceivedPacket (more than 64 disjoint ranges), which the small
// universes of the BFS parts cannot reach. Every step runs through the same instances and
// oracles as the BFS parts; the case list (space x arrival order x ack-eliciting pattern x
// ACK retrieval pattern x forget-below pattern) is enumerated completely.

import (
	"encoding/json"
	"fmt"
	"strings"

	"github.com/refraction-networking/uquic/internal/protocol"
	"github.com/refraction-networking/uquic/internal/verifmc/explore"
)

const c07PruneTop = 2*protocol.MaxNumAckRanges + 3 // highest odd number received: 66 isolated ranges
const c07PruneU = c07PruneTop + 2

var c07Orders = []string{"ascending", "descending", "zigzag", "blocks-reversed"}

// c07Order lists the odd numbers 1..c07PruneTop in the given arrival order.
func c07Order(kind int) []int {
	var odd []int
	for p := 1; p <= c07PruneTop; p += 2 {
		odd = append(odd, p)
	}
	n := len(odd)
	out := make([]int, 0, n)
	switch kind {
	case 0:
		out = append(out, odd...)
	case 1:
		for i := n - 1; i >= 0; i-- {
			out = append(out, odd[i])
		}
	case 2:
		for i, j := 0, n-1; i <= j; i, j = i+1, j-1 {
			out = append(out, odd[i])
			if i != j {
				out = append(out, odd[j])
			}
		}
	case 3:
		for b := 0; b < n; b += 4 {
			for i := min(b+3, n-1); i >= b; i-- {
				out = append(out, odd[i])
			}
		}
	}
	return out
}

// c07ApplySafe turns a panic of the code under test into a violation (also on replay).
func c07ApplySafe(in explore.Instance, op explore.Op) (f *explore.Fail) {
	defer func() {
		if x := recover(); x != nil {
			if fmt.Sprintf("%T", x) == "explore.harnessErr" {
				panic(x)
			}
			f = explore.Failf("panic:"+op.N+":"+fmt.Sprint(x), "panic in %v: %v", op, x)
		}
	}()
	return in.Apply(op)
}

type c07PruneCase struct {
	space, order, aeMode, ackMode, forget int
}

func c07PruneCases() []c07PruneCase {
	var cs []c07PruneCase
	for space := 0; space < 3; space++ {
		for order := range c07Orders {
			for aeMode := 0; aeMode < 3; aeMode++ {
				for ackMode := 0; ackMode < 3; ackMode++ {
					for forget := 0; forget < 2; forget++ {
						if forget == 1 && space != c07App {
							continue
						}
						cs = append(cs, c07PruneCase{space, order, aeMode, ackMode, forget})
					}
				}
			}
		}
	}
	return cs
}

func (c c07PruneCase) String() string {
	return fmt.Sprintf("%s/%s/ae=%s/ack=%s/forget=%v", c07SpaceName[c.space], c07Orders[c.order],
		[]string{"all", "alternate", "every-third"}[c.aeMode], []string{"after-each", "every-5th", "at-end"}[c.ackMode], c.forget == 1)
}

// c07RunPruneCase drives one straight-line history through a fresh handler instance.
func c07RunPruneCase(c c07PruneCase) explore.CaseResult {
	cfg := &c07Cfg{ecn: []protocol.ECN{protocol.ECNNon}, forget: true, forgetOld: true, ticks: true}
	cfg.U[c.space] = c07PruneU
	in := newC07Inst(cfg)
	s := in.sp[c.space]
	var res explore.CaseResult
	var trace []explore.Op
	maxRanges, acks, prunedAtOnce, again := 0, 0, 0, 0
	step := func(op explore.Op) bool {
		if in.dead {
			return false
		}
		trace = append(trace, op)
		res.Trans++
		if f := c07ApplySafe(in, op); f != nil {
			res.Fail = f
			n := len(trace)
			for _, o := range trace[max(0, n-12):] {
				res.Human = append(res.Human, o.String())
			}
			res.Human = append([]string{fmt.Sprintf("case %s, failing at step %d; last steps:", c, n)}, res.Human...)
			return false
		}
		return true
	}
	ae := func(k int) bool {
		switch c.aeMode {
		case 0:
			return true
		case 1:
			return k%2 == 0
		}
		return k%3 == 2
	}
	getAck := func(q int) bool {
		if !step(explore.Op{N: "ack", A: c.space, B: q}) {
			return false
		}
		if strings.Contains(in.outcome, "/ranges=") {
			acks++
			maxRanges = max(maxRanges, len(s.la))
		}
		return true
	}
	recv := func(k, pn int) bool {
		op := explore.Op{N: "recv", A: c.space, B: pn, C: c07Flags(ae(k), protocol.ECNNon)}
		if c.forget == 1 && k%4 == 3 {
			// the packet carries the peer's ACK of our most recent ACK-carrying packet
			for _, p := range in.forgetCandidates() {
				if p <= pn {
					op.D = p
				}
			}
		}
		if !step(op) {
			return false
		}
		if strings.Contains(in.outcome, "recv/") && !strings.Contains(in.outcome, "dropped") && !s.trk.has(pn) && pn >= s.T {
			prunedAtOnce++ // accepted, but outside the highest 64 ranges
		}
		if strings.Contains(in.outcome, "again after pruning") && s.trk.has(pn) {
			again++
		}
		if !step(explore.Op{N: "sweep", A: c.space}) {
			return false
		}
		switch c.ackMode {
		case 0:
			return getAck(1)
		case 1:
			if k%5 == 4 {
				return getAck(k % 2)
			}
		}
		return true
	}
	finish := func() bool {
		// let max_ack_delay pass: whatever is still pending must now be acknowledged
		if n, _, _ := s.pending(); n > 0 && c.space == c07App {
			if !step(explore.Op{N: "tick", A: 2}) {
				return false
			}
		}
		return getAck(1) && getAck(0)
	}

	k := 0
	ok := true
	// phase 1: 66 isolated packets -> more than MaxNumAckRanges ranges
	for _, pn := range c07Order(c.order) {
		if ok = recv(k, pn); !ok {
			break
		}
		k++
	}
	ok = ok && finish()
	// phase 2: the lowest numbers arrive again (pruned ones are not duplicates any more and
	// are pruned again at once)
	for pn := 1; ok && pn <= 9; pn += 2 {
		ok = recv(k, pn)
		k++
	}
	// phase 3: the even numbers fill the holes from the top down, merging the ranges; half
	// way the lowest numbers arrive once more (now there is room to track them again)
	for pn := c07PruneTop - 1; ok && pn >= 0; pn -= 2 {
		ok = recv(k, pn)
		k++
		if pn == c07PruneTop/2+1 || pn == c07PruneTop/2 {
			for q := 1; ok && q <= 9; q += 2 {
				ok = recv(k, q)
				k++
			}
		}
	}
	ok = ok && finish()
	if res.Fail != nil {
		res.Replay = nil
		return res
	}
	res.Execs = 1
	res.Outcome = fmt.Sprintf("%s: acks=%d max-ranges=%d pruned-at-once=%d re-received=%d final-tracked-runs=%d dead=%v",
		c, acks, maxRanges, prunedAtOnce, again, c07Runs(s.trk), in.dead)
	return res
}

func c07Runs(s c07Set) int {
	n := 0
	for p := range s {
		if s[p] && (p == 0 || !s[p-1]) {
			n++
		}
	}
	return n
}

// bare history: the same arrival orders with DeleteBelow interleaved
func c07RunHistPruneCase(order, delMode int) explore.CaseResult {
	in := newC07HistInst(c07PruneU)
	var res explore.CaseResult
	name := fmt.Sprintf("history/%s/del=%s", c07Orders[order], []string{"never", "every-10th", "at-end"}[delMode])
	n := 0
	step := func(op explore.Op) bool {
		n++
		res.Trans++
		if f := c07ApplySafe(in, op); f != nil {
			res.Fail = f
			res.Human = []string{fmt.Sprintf("case %s, failing at step %d: %v", name, n, op)}
			return false
		}
		return true
	}
	maxRanges := 0
	k := 0
	seq := c07Order(order)
	for pn := 1; pn <= 9; pn += 2 {
		seq = append(seq, pn)
	}
	for pn := c07PruneTop - 1; pn >= 0; pn -= 2 {
		seq = append(seq, pn)
		if pn == c07PruneTop/2+1 || pn == c07PruneTop/2 {
			seq = append(seq, 1, 3, 5, 7, 9)
		}
	}
	for _, pn := range seq {
		if !step(explore.Op{N: "recv", B: pn}) {
			return res
		}
		maxRanges = max(maxRanges, len(in.h.ranges))
		if delMode == 1 && k%10 == 9 {
			if !step(explore.Op{N: "del", B: (k * 7) % c07PruneU}) {
				return res
			}
		}
		k++
	}
	if delMode == 2 {
		for _, p := range []int{0, 40, 41, c07PruneTop, c07PruneU} {
			if !step(explore.Op{N: "del", B: p}) {
				return res
			}
		}
	}
	res.Execs = 1
	res.Outcome = fmt.Sprintf("%s: max-ranges=%d final-runs=%d threshold=%d", name, maxRanges, c07Runs(in.s.trk), in.s.T)
	return res
}

func c07PrunePart(name string) explore.Part {
	cases := c07PruneCases()
	nh := len(c07Orders) * 3
	run := func(i int) explore.CaseResult {
		if i < len(cases) {
			return c07RunPruneCase(cases[i])
		}
		j := i - len(cases)
		return c07RunHistPruneCase(j/3, j%3)
	}
	return explore.Part{
		Name: name,
		Run: func(e explore.Env) *explore.Report {
			rep := explore.RunCases(e, len(cases)+nh, 0, true, run)
			rep.Rule = fmt.Sprintf("complete list of %d straight-line histories: 66 isolated packet numbers (odd 1..%d, crossing MaxNumAckRanges=%d) in 4 arrival orders x 3 spaces x 3 ack-eliciting patterns x 3 ACK retrieval patterns x forget-below on/off, then the pruned numbers again, then the even numbers merging all ranges; %d of them on the bare history with DeleteBelow; same oracles as the BFS parts plus a duplicate sweep over all %d numbers after every arrival",
				len(cases)+nh, c07PruneTop, protocol.MaxNumAckRanges, nh, c07PruneU)
			rep.Bound = "all listed histories"
			rep.Samples = append(rep.Samples, cases[0].String(), cases[len(cases)-1].String())
			return rep
		},
		Replay: func(e explore.Env, raw json.RawMessage) *explore.Violation {
			cr := run(explore.ReplayIndex(raw))
			if cr.Fail == nil {
				return nil
			}
			return &explore.Violation{Key: cr.Fail.Key, What: cr.Fail.What, Replay: raw, Human: cr.Human}
		},
	}
}
