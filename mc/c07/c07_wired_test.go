package ackhandler

// C07 part "wired": the forget-below threshold is NOT chosen by the harness. A real
// sentPacketHandler is wired to the real ReceivedPacketHandler exactly as connection.go wires
// them (ignorePacketsBelow = receivedPacketHandler.IgnorePacketsBelow), the harness plays the
// packet packer (our packets carry the ACK frame the real GetAckFrame returned, or none) and the
// peer: an arriving 1-RTT packet may carry an ACK frame that acknowledges ANY subset of the
// packets we sent (our ACK-carrying packets may be lost or unacknowledged while later ones are
// acknowledged, so the peer's ACK has gaps).
//
// "The threshold the peer allowed it to forget" (RFC 9000 13.2.4) is modelled from the peer's
// ACK frames alone: LargestAcked+1 of the ACK frames carried by those of our packets that an
// ACK frame of the peer covered. The model's threshold is the one the real handler was given,
// capped by that bound; everything else is judged by the oracle the other parts use (pending
// ack-eliciting packets covered by a due ACK, ACK contents, duplicate detection). A handler pair
// that forgets more than the peer allowed therefore shows up as an ack-eliciting packet that is
// never acknowledged / an ACK that omits the largest received packet.

import (
	"fmt"
	"strconv"
	"strings"

	"github.com/refraction-networking/uquic/internal/protocol"
	"github.com/refraction-networking/uquic/internal/utils"
	"github.com/refraction-networking/uquic/internal/verifmc/explore"
	"github.com/refraction-networking/uquic/internal/wire"
)

// Op.D of a recv op >= c07PeerAckBase: the packet carries a peer ACK for the set of our packets
// given by the bit mask D - c07PeerAckBase.
const c07PeerAckBase = 1000

type c07NopFrameHandler struct{}

func (c07NopFrameHandler) OnAcked(wire.Frame) {}
func (c07NopFrameHandler) OnLost(wire.Frame)  {}

type c07WiredCfg struct {
	U         int  // universe of the peer's packet numbers
	N         int  // number of packets we send at most
	dishonest bool // the peer's ACK may also arrive in a packet numbered below the threshold it allows
}

type c07WiredInst struct {
	*c07Inst
	wcfg *c07WiredCfg
	sph  *sentPacketHandler

	sentLA  []int // per packet we sent: largest acknowledged of the ACK frame it carries (-1: none)
	allowed int   // highest threshold the peer's ACK frames allowed so far
	given   int   // highest threshold the real sentPacketHandler passed to the callback so far
	ackTag  string
}

func newC07WiredInst(w *c07WiredCfg) *c07WiredInst {
	base := newC07Inst(&c07Cfg{U: [3]int{0, 0, w.U}, ecn: []protocol.ECN{protocol.ECNNon}})
	in := &c07WiredInst{c07Inst: base, wcfg: w}
	base.wired = in
	in.sph = NewSentPacketHandler(0, 1200, utils.NewRTTStats(), &utils.ConnectionStats{}, true, false,
		func(pn protocol.PacketNumber) {
			// connection.go: ignorePacketsBelow = s.receivedPacketHandler.IgnorePacketsBelow
			base.h.IgnorePacketsBelow(pn)
			if int(pn) > in.given {
				in.given = int(pn)
			}
		},
		protocol.PerspectiveServer, nil, utils.DefaultLogger).(*sentPacketHandler)
	in.sph.DropPackets(protocol.EncryptionInitial, base.now)
	in.sph.DropPackets(protocol.EncryptionHandshake, base.now)
	return in
}

// tracked returns the bit mask of our packets the real sentPacketHandler still tracks
// (neither acknowledged nor declared lost).
func (in *c07WiredInst) tracked() int {
	m := 0
	for pn := range in.sph.appDataPackets.history.Packets() {
		m |= 1 << uint(pn)
	}
	return m
}

// allowedBy is the threshold a peer ACK for the packets in mask allows.
func (in *c07WiredInst) allowedBy(mask int) int {
	a := 0
	for pn, la := range in.sentLA {
		if mask&(1<<uint(pn)) != 0 && la+1 > a {
			a = la + 1
		}
	}
	return a
}

func (in *c07WiredInst) Ops() []explore.Op {
	if in.dead {
		return nil
	}
	ops := in.c07Inst.Ops() // ack retrieval and plain arrivals
	if len(in.sentLA) < in.wcfg.N {
		ops = append(ops,
			explore.Op{N: "send", A: 0}, // ack-eliciting packet without an ACK frame (e.g. a probe packet)
			explore.Op{N: "send", A: 1}, // ack-eliciting packet, GetAckFrame(onlyIfQueued=false) as with data to send
			explore.Op{N: "send", A: 2}) // ACK-only packet, GetAckFrame(onlyIfQueued=true); nothing is sent without an ACK
	}
	s := in.sp[c07App]
	trk := in.tracked()
	for pn := 0; pn < s.U && trk != 0; pn++ {
		if s.modelDup(pn) {
			continue // dropped before its frames are looked at: same as the plain arrival
		}
		for mask := 1; mask < 1<<uint(len(in.sentLA)); mask++ {
			if mask&trk == 0 {
				continue // acknowledges nothing the sentPacketHandler still tracks: same as the plain arrival
			}
			if in.allowedBy(mask) > pn && !in.wcfg.dishonest {
				continue
			}
			for _, ae := range []bool{false, true} {
				ops = append(ops, explore.Op{N: "recv", A: c07App, B: pn, C: c07Flags(ae, protocol.ECNNon), D: c07PeerAckBase + mask})
			}
		}
	}
	return ops
}

func (in *c07WiredInst) Apply(op explore.Op) *explore.Fail {
	if op.N != "send" {
		return in.c07Inst.Apply(op)
	}
	in.outcome = ""
	la := -1
	tag := "send/probe"
	if op.A != 0 {
		tag = "send/data"
		if op.A == 2 {
			tag = "send/ack-only"
		}
		if f := in.getAck(c07App, op.A == 2); f != nil {
			return f
		}
		la = in.lastLA
		tag += "[" + in.outcome + "]"
	}
	if op.A == 2 && la < 0 {
		in.outcome = tag + "/nothing-sent"
	} else {
		var frames []Frame
		if op.A != 2 {
			frames = []Frame{{Frame: &wire.PingFrame{}, Handler: c07NopFrameHandler{}}}
		}
		pn := protocol.PacketNumber(len(in.sentLA))
		lap := protocol.InvalidPacketNumber
		if la >= 0 {
			lap = protocol.PacketNumber(la)
		}
		in.sph.SentPacket(in.now, pn, lap, nil, frames, protocol.Encryption1RTT, protocol.ECNNon, 1200, false, false)
		in.sentLA = append(in.sentLA, la)
		in.outcome = tag
	}
	st, f := in.checkDue()
	if f != nil {
		return f
	}
	in.outcome += " -> " + st
	return nil
}

// peerAck feeds an ACK frame of the peer for the packets in mask to the real sentPacketHandler
// (called by recv while the carrying packet's frames are handled) and updates the model.
func (in *c07WiredInst) peerAck(mask int) (dead bool) {
	var ranges []wire.AckRange // descending
	for pn := len(in.sentLA) - 1; pn >= 0; pn-- {
		if mask&(1<<uint(pn)) == 0 {
			continue
		}
		if n := len(ranges); n > 0 && ranges[n-1].Smallest == protocol.PacketNumber(pn+1) {
			ranges[n-1].Smallest = protocol.PacketNumber(pn)
		} else {
			ranges = append(ranges, wire.AckRange{Smallest: protocol.PacketNumber(pn), Largest: protocol.PacketNumber(pn)})
		}
	}
	explore.Must(len(ranges) > 0, "empty peer ACK")
	before := in.given
	if _, err := in.sph.ReceivedAck(&wire.AckFrame{AckRanges: ranges}, protocol.Encryption1RTT, in.now); err != nil {
		return true
	}
	if a := in.allowedBy(mask); a > in.allowed {
		in.allowed = a
	}
	s := in.sp[c07App]
	old := s.T
	s.forget(min(in.given, in.allowed))
	in.ackTag = "+peer-ack(ranges=" + strconv.Itoa(min(len(ranges), 2)) + ")"
	switch {
	case in.given > before && s.T > old:
		in.ackTag += "+forget"
	case in.given > before:
		in.ackTag += "+forget(beyond what the peer allowed)"
	}
	return false
}

func (in *c07WiredInst) Key() string {
	var sb strings.Builder
	sb.WriteString(in.c07Inst.Key())
	// Of the sentPacketHandler only what can influence a later callback value is kept: which of
	// our packets it still tracks (with the ACK they carry) and its largest acknowledged (packet
	// threshold loss detection). The clock does not move in this part, so no packet is lost by time.
	sb.WriteString("|sent=")
	trk := in.tracked()
	for pn, la := range in.sentLA {
		sb.WriteString(strconv.Itoa(la))
		if trk&(1<<uint(pn)) == 0 {
			sb.WriteByte('x')
		}
		sb.WriteByte(',')
	}
	fmt.Fprintf(&sb, "|lgAcked=%d|allowed=%d|given=%d", in.sph.appDataPackets.largestAcked, in.allowed, in.given)
	return sb.String()
}

func c07WiredPart(name string) explore.Part {
	return explore.BFSPart(name, func(e explore.Env) explore.BFSSpec {
		w := &c07WiredCfg{U: 4, N: 3, dishonest: true}
		if e.Thorough() {
			w = &c07WiredCfg{U: 5, N: 4, dishonest: true}
		}
		return explore.BFSSpec{
			New:              func() explore.Instance { return newC07WiredInst(w) },
			PanicIsViolation: true,
			Rule: fmt.Sprintf("BFS to closure over the real ReceivedPacketHandler wired to a real sentPacketHandler through ignorePacketsBelow as in connection.go; peer packet numbers 0..%d, we send at most %d 1-RTT packets (probe without ACK / data with GetAckFrame(false) / ACK-only with GetAckFrame(true)); an arriving packet may carry a peer ACK for any subset of our packets the sentPacketHandler still tracks (dishonest numbering=%v); fixed clock; state = canon(receive handler) + model + tracked sent packets",
				w.U-1, w.N, w.dishonest),
		}
	})
}
