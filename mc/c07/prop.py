# ./check configuration for C07 (merged by mc/props.py)
PROP = dict(
        pkg="internal/ackhandler", test="TestVerifC07", files=["mc/c07/*.go"], libs=["explore", "canon"],
        level="model_checking", shards=1,
        level_text="TODO",
        level_note="TODO",
        technique="explicit-state BFS over the real implementation with reference-model oracle",
        deadline=dict(quick=90, thorough=900),
        rule="TODO",
        assumptions=[],
    )
