package handshake

// C08 (handshake target): address validation tokens (TokenGenerator) and session tickets
// (sessionTicket.Marshal / Unmarshal). Separate target because internal/handshake imports
// internal/wire.

import (
	"fmt"
	"math"
	"net"
	"reflect"
	"testing"
	"time"

	"github.com/refraction-networking/uquic/internal/protocol"
	"github.com/refraction-networking/uquic/internal/verifmc/explore"
	"github.com/refraction-networking/uquic/internal/wire"
)

func TestVerifC08Handshake(t *testing.T) {
	explore.Main("C08", []explore.Part{
		c08Part("tokens", "structured lattice over retry tokens (4 address forms x connection ID lengths {0,1,8,20}^2) and NEW_TOKEN tokens (4 address forms x RTT boundary set): NewRetryToken/NewToken -> DecodeToken -> re-encode -> DecodeToken; every prefix and single-byte substitution of every token; exhaustive: every byte string of length <= 2 (thorough: <= 3) as token, as ciphertext after a fixed nonce, and sealed as token plaintext", c08TokensPart),
		c08Part("tickets", "structured lattice over the transport parameters a session ticket stores (every alternative alone and every pair), sessionTicket.Marshal -> Unmarshal -> Marshal -> Unmarshal; every prefix and single-byte substitution of every ticket; exhaustive: every byte string of length <= 2 (thorough: <= 3), bare and after the valid revision/version prefix", c08TicketsPart),
	}, func(msg string) { t.Fatal(msg) })
}

func c08MaxLen(thorough bool) int {
	if thorough {
		return 3
	}
	return 2
}

func c08ShortStrings(b0 byte, maxLen int, f func(b []byte)) {
	if b0 == 0 {
		f(nil)
	}
	buf := make([]byte, 3)
	buf[0] = b0
	f(buf[:1])
	if maxLen < 2 {
		return
	}
	for b1 := 0; b1 < 256; b1++ {
		buf[1] = byte(b1)
		f(buf[:2])
		if maxLen < 3 {
			continue
		}
		for b2 := 0; b2 < 256; b2++ {
			buf[2] = byte(b2)
			f(buf[:3])
		}
	}
}

// ---- tokens ------------------------------------------------------------------------------------

var c08TokenKey = TokenProtectorKey{1, 2, 3, 4, 5, 6, 7, 8, 9, 10, 11, 12, 13, 14, 15, 16, 17, 18, 19, 20, 21, 22, 23, 24, 25, 26, 27, 28, 29, 30, 31, 32}

type c08Addr struct {
	name  string
	addr  net.Addr
	other net.Addr
}

func c08Addrs() []c08Addr {
	return []c08Addr{
		{"udp4", &net.UDPAddr{IP: net.IP{192, 0, 2, 1}, Port: 1337}, &net.UDPAddr{IP: net.IP{192, 0, 2, 2}, Port: 1337}},
		{"udp6", &net.UDPAddr{IP: net.ParseIP("2001:db8::68"), Port: 443}, &net.UDPAddr{IP: net.ParseIP("2001:db8::69"), Port: 443}},
		{"udp-noip", &net.UDPAddr{Port: 1}, &net.UDPAddr{IP: net.IP{0, 0, 0, 0}, Port: 1}},
		{"tcp", &net.TCPAddr{IP: net.IP{192, 0, 2, 1}, Port: 1337}, &net.TCPAddr{IP: net.IP{192, 0, 2, 1}, Port: 1338}},
	}
}

func c08ConnID(n int, seed byte) protocol.ConnectionID {
	return protocol.ParseConnectionID(c08Data(n, seed))
}

// decodeToken runs DecodeToken under the panic guard.
func (c *c08Ctx) decodeToken(g *TokenGenerator, b []byte) (t *Token, err error, ok bool) {
	c.execs++
	ok = c.guard("TokenGenerator.DecodeToken", b, func() {
		c.trans++
		t, err = g.DecodeToken(b)
	})
	switch {
	case !ok:
	case err != nil:
		c.outcome("token|err:" + c08ErrClass(err))
	case t == nil:
		c.outcome("token|no-token")
	case t.IsRetryToken:
		c.outcome("token|retry-token")
	default:
		c.outcome("token|new-token")
	}
	return t, err, ok
}

// mutateToken: every prefix and the four substitutions at every position. Tokens contain a
// random nonce, so (unlike c08MutationsLimit) substitutions that coincide with the original
// byte or with each other are not skipped: the number of executions must not depend on the
// random bytes.
func (c *c08Ctx) mutateToken(g *TokenGenerator, tok []byte) {
	for l := 0; l < len(tok); l++ {
		c.decodeToken(g, tok[:l])
	}
	buf := append([]byte(nil), tok...)
	for pos := range tok {
		o := tok[pos]
		for _, s := range [4]byte{0x00, 0xff, o ^ 0x80, o + 1} {
			buf[pos] = s
			c.decodeToken(g, buf)
		}
		buf[pos] = o
	}
}

func (c *c08Ctx) checkRetryToken(g *TokenGenerator, a c08Addr, odcid, rscid protocol.ConnectionID, depth int) {
	var tok []byte
	var err error
	if !c.guard("TokenGenerator.NewRetryToken", nil, func() {
		c.trans++
		tok, err = g.NewRetryToken(a.addr, odcid, rscid)
	}) {
		return
	}
	if err != nil {
		c.outcome("token|encode-refused")
		return
	}
	t, derr, ok := c.decodeToken(g, tok)
	if !ok {
		return
	}
	what := fmt.Sprintf("retry token for %s, ODCID %s, RSCID %s", a.name, odcid, rscid)
	switch {
	case derr != nil || t == nil:
		c.fail("roundtrip-reject:token", "%s does not decode: %v", what, derr)
		return
	case !t.IsRetryToken:
		c.fail("roundtrip-differs:token.IsRetryToken", "%s decodes as a non-retry token", what)
	case t.OriginalDestConnectionID != odcid:
		c.fail("roundtrip-differs:token.OriginalDestConnectionID", "%s decodes with ODCID %s", what, t.OriginalDestConnectionID)
	case t.RetrySrcConnectionID != rscid:
		c.fail("roundtrip-differs:token.RetrySrcConnectionID", "%s decodes with RSCID %s", what, t.RetrySrcConnectionID)
	case !t.ValidateRemoteAddr(a.addr) || t.ValidateRemoteAddr(a.other):
		c.fail("roundtrip-differs:token.RemoteAddr", "%s: ValidateRemoteAddr(own)=%v ValidateRemoteAddr(other)=%v", what, t.ValidateRemoteAddr(a.addr), t.ValidateRemoteAddr(a.other))
	case t.RTT != 0:
		c.fail("roundtrip-differs:token.RTT", "%s decodes with RTT %s", what, t.RTT)
	}
	if depth == 0 {
		c.sample("%s: %d bytes", what, len(tok))
		// re-encode what was parsed, parse again
		c.checkRetryToken(g, a, t.OriginalDestConnectionID, t.RetrySrcConnectionID, 1)
		c.mutateToken(g, tok)
	}
}

func (c *c08Ctx) checkNewToken(g *TokenGenerator, a c08Addr, rtt time.Duration, valid bool, depth int) {
	var tok []byte
	var err error
	if !c.guard("TokenGenerator.NewToken", nil, func() {
		c.trans++
		tok, err = g.NewToken(a.addr, rtt)
	}) {
		return
	}
	if err != nil {
		c.outcome("token|encode-refused")
		return
	}
	t, derr, ok := c.decodeToken(g, tok)
	if !ok {
		return
	}
	what := fmt.Sprintf("NEW_TOKEN token for %s, RTT %d ns", a.name, rtt)
	switch {
	case derr != nil || t == nil:
		c.fail("roundtrip-reject:token", "%s does not decode: %v", what, derr)
		return
	case t.IsRetryToken:
		c.fail("roundtrip-differs:token.IsRetryToken", "%s decodes as a retry token", what)
	case valid && t.RTT != rtt:
		c.fail("roundtrip-differs:token.RTT", "%s decodes with RTT %d ns", what, t.RTT)
	case !t.ValidateRemoteAddr(a.addr) || t.ValidateRemoteAddr(a.other):
		c.fail("roundtrip-differs:token.RemoteAddr", "%s: ValidateRemoteAddr(own)=%v ValidateRemoteAddr(other)=%v", what, t.ValidateRemoteAddr(a.addr), t.ValidateRemoteAddr(a.other))
	case t.OriginalDestConnectionID.Len() != 0 || t.RetrySrcConnectionID.Len() != 0:
		c.fail("roundtrip-differs:token.connID", "%s decodes with connection IDs", what)
	}
	if depth == 0 {
		// whatever was parsed re-encodes to the same value (now exactly)
		c.checkNewToken(g, a, t.RTT, true, 1)
		c.mutateToken(g, tok)
	}
}

func c08TokensPart(thorough bool) c08PartSpec {
	var chunks []c08Chunk
	rtts := []struct {
		d     time.Duration
		valid bool
	}{}
	for _, v := range c08Bnd {
		if v <= uint64(math.MaxInt64)/1000 {
			rtts = append(rtts, struct {
				d     time.Duration
				valid bool
			}{time.Duration(v) * time.Microsecond, true})
		}
	}
	rtts = append(rtts, struct {
		d     time.Duration
		valid bool
	}{time.Duration(math.MaxInt64), false}, struct {
		d     time.Duration
		valid bool
	}{1500 * time.Nanosecond, false}, struct {
		d     time.Duration
		valid bool
	}{time.Duration(math.MaxInt64/1000) * time.Microsecond, true})
	for _, a := range c08Addrs() {
		a := a
		chunks = append(chunks, func(c *c08Ctx) {
			g := NewTokenGenerator(c08TokenKey)
			for _, ol := range []int{0, 1, 8, 20} {
				for _, rl := range []int{0, 1, 8, 20} {
					c.checkRetryToken(g, a, c08ConnID(ol, 0xd0), c08ConnID(rl, 0x50), 0)
				}
			}
		})
		chunks = append(chunks, func(c *c08Ctx) {
			g := NewTokenGenerator(c08TokenKey)
			for _, r := range rtts {
				c.checkNewToken(g, a, r.d, r.valid, 0)
			}
		})
	}
	// raw byte strings
	nonce := c08Data(tokenNonceSize, 0x3c)
	for i := 0; i < 256; i++ {
		b0 := byte(i)
		chunks = append(chunks, func(c *c08Ctx) {
			g := NewTokenGenerator(c08TokenKey)
			buf := append([]byte(nil), nonce...)
			c08ShortStrings(b0, c08MaxLen(c.thorough), func(b []byte) {
				c.decodeToken(g, b)
				if len(b) <= 2 {
					c.decodeToken(g, append(buf[:tokenNonceSize], b...))
				}
				// b as the plaintext of an authentic token (3-byte plaintexts: only those
				// starting with the ASN.1 SEQUENCE tag)
				if len(b) == 3 && b[0] != 0x30 {
					return
				}
				var sealed []byte
				var err error
				if c.guard("tokenProtector.NewToken", b, func() { sealed, err = g.tokenProtector.NewToken(b) }) && err == nil {
					c.decodeToken(g, sealed)
				}
			})
		})
	}
	return c08PartSpec{chunks: chunks, bound: fmt.Sprintf("%d chunks: 4 address forms x 16 connection ID length pairs (retry), 4 x %d RTTs (NEW_TOKEN), prefixes+substitutions of all tokens; all byte strings of length <= %d raw / after a nonce (<= 2) / sealed as plaintext (length 3: first byte 0x30 only)", len(chunks), len(rtts), c08MaxLen(thorough))}
}

// ---- session tickets -----------------------------------------------------------------------------

var c08Bnd60 = []uint64{0, 1, 63, 64, 16383, 16384, 1<<30 - 1, 1 << 30, 1<<60 - 1, 1 << 60, 1<<60 + 1, 1<<62 - 1}

// c08TicketFields are the parameters a session ticket stores (what MarshalForSessionTicket
// writes). sessionTicket.Unmarshal shares the lenient parser of the handshake parameters and
// also fills fields the ticket format does not have; those are not part of a ticket's value.
var c08TicketFields = []string{"InitialMaxStreamDataBidiLocal", "InitialMaxStreamDataBidiRemote", "InitialMaxStreamDataUni", "InitialMaxData",
	"MaxUniStreamNum", "MaxBidiStreamNum", "ActiveConnectionIDLimit", "MaxDatagramFrameSize", "EnableResetStreamAt"}

func c08TPDiffReflect(a, b *wire.TransportParameters) string {
	va, vb := reflect.ValueOf(*a), reflect.ValueOf(*b)
	for _, name := range c08TicketFields {
		fa, fb := va.FieldByName(name), vb.FieldByName(name)
		explore.Must(fa.IsValid() && fb.IsValid(), "TransportParameters has no field %s", name)
		if !reflect.DeepEqual(fa.Interface(), fb.Interface()) {
			return name
		}
	}
	return ""
}

func (c *c08Ctx) checkTicketBytes(b []byte) string {
	c.execs++
	out := "PANIC"
	c.guard("sessionTicket.Unmarshal", b, func() {
		var t sessionTicket
		c.trans++
		if err := t.Unmarshal(b); err != nil {
			out = "err:" + c08ErrClass(err)
			return
		}
		out = "parsed"
		if t.Parameters == nil {
			c.fail("nil-parameters:ticket", "sessionTicket.Unmarshal(%s) succeeded without parameters", c08Hex(b))
			return
		}
		var enc []byte
		okEnc := func() (ok bool) {
			defer func() {
				if x := recover(); x != nil {
					site, real := c08PanicSite()
					if !real {
						panic(x)
					}
					c.fail("reencode-panic:ticket:"+site, "re-encoding the ticket parsed from %s panicked: %v", c08Hex(b), x)
				}
			}()
			c.trans++
			enc = t.Marshal()
			return true
		}()
		if !okEnc {
			return
		}
		var t2 sessionTicket
		c.trans++
		if err := t2.Unmarshal(enc); err != nil {
			c.fail("reparse-reject:ticket", "ticket parsed from %s = %s; re-encoding %x does not parse: %v", c08Hex(b), t.Parameters, enc, err)
		} else if d := c08TPDiffReflect(t.Parameters, t2.Parameters); d != "" {
			c.fail("reparse-differs:ticket."+d, "ticket parsed from %s = %s; re-encoding %x parses to %s", c08Hex(b), t.Parameters, enc, t2.Parameters)
		}
	})
	c.outcome("ticket|" + out)
	return out
}

func c08TicketBase() *wire.TransportParameters {
	return &wire.TransportParameters{
		AckDelayExponent:        protocol.DefaultAckDelayExponent,
		MaxAckDelay:             protocol.DefaultMaxAckDelay,
		MaxDatagramFrameSize:    protocol.InvalidByteCount,
		ActiveConnectionIDLimit: protocol.DefaultActiveConnectionIDLimit,
	}
}

func (c *c08Ctx) checkTicketValue(x *wire.TransportParameters, valid bool, reject string) []byte {
	c.execs++
	var enc []byte
	c.guard("sessionTicket.Marshal/Unmarshal", nil, func() {
		c.trans += 2
		enc = (&sessionTicket{Parameters: x}).Marshal()
		var t sessionTicket
		err := t.Unmarshal(enc)
		switch {
		case reject != "":
			if err == nil {
				c.fail("accepts-invalid:ticket:"+reject, "sessionTicket.Unmarshal accepted %s with %s", x, reject)
			}
			c.outcome("ticket|value-rejected-listed:" + reject)
		case err != nil:
			if valid {
				c.fail("roundtrip-reject:ticket", "ticket for %s marshalled as %x does not parse: %v", x, enc, err)
			}
			c.outcome("ticket|value-not-parsed:" + c08ErrClass(err))
		default:
			if valid {
				if d := c08TPDiffReflect(x, t.Parameters); d != "" {
					c.fail("roundtrip-differs:ticket."+d, "ticket for %s marshalled as %x parses to %s (field %s)", x, enc, t.Parameters, d)
				}
			}
			c.outcome("ticket|roundtrip")
		}
	})
	return enc
}

func c08TicketsPart(thorough bool) c08PartSpec {
	type tf struct {
		n   int
		set func(p *wire.TransportParameters, i int) (bool, string)
	}
	// active_connection_id_limit (rule: >= 2): also 2^w and 2^w + 1 for w in {8,16,32}, legal
	// values that alias 0 and 1 when the rule is evaluated on a narrowed value
	acl := []uint64{2, 3, 63, 64, 16383, 16384, 1 << 30, 1<<62 - 1, 1 << 8, 1<<8 + 1, 1 << 16, 1<<16 + 1, 1 << 32, 1<<32 + 1}
	dgs := []int64{-1, 0, 1, 63, 64, 16383, 16384, 1<<62 - 1}
	bc := func(get func(p *wire.TransportParameters) *protocol.ByteCount) tf {
		return tf{len(c08Bnd), func(p *wire.TransportParameters, i int) (bool, string) {
			*get(p) = protocol.ByteCount(c08Bnd[i])
			return true, ""
		}}
	}
	sn := func(get func(p *wire.TransportParameters) *protocol.StreamNum) tf {
		return tf{len(c08Bnd60), func(p *wire.TransportParameters, i int) (bool, string) {
			*get(p) = protocol.StreamNum(c08Bnd60[i])
			if c08Bnd60[i] > 1<<60 {
				return false, "stream count > 2^60"
			}
			return true, ""
		}}
	}
	tfs := []tf{
		bc(func(p *wire.TransportParameters) *protocol.ByteCount { return &p.InitialMaxStreamDataBidiLocal }),
		bc(func(p *wire.TransportParameters) *protocol.ByteCount { return &p.InitialMaxStreamDataBidiRemote }),
		bc(func(p *wire.TransportParameters) *protocol.ByteCount { return &p.InitialMaxStreamDataUni }),
		bc(func(p *wire.TransportParameters) *protocol.ByteCount { return &p.InitialMaxData }),
		sn(func(p *wire.TransportParameters) *protocol.StreamNum { return &p.MaxBidiStreamNum }),
		sn(func(p *wire.TransportParameters) *protocol.StreamNum { return &p.MaxUniStreamNum }),
		{len(acl), func(p *wire.TransportParameters, i int) (bool, string) {
			p.ActiveConnectionIDLimit = acl[i]
			return true, ""
		}},
		{len(dgs), func(p *wire.TransportParameters, i int) (bool, string) {
			p.MaxDatagramFrameSize = protocol.ByteCount(dgs[i])
			return true, ""
		}},
		{2, func(p *wire.TransportParameters, i int) (bool, string) {
			p.EnableResetStreamAt = i == 1
			return true, ""
		}},
	}
	var chunks []c08Chunk
	for a := range tfs {
		a := a
		chunks = append(chunks, func(c *c08Ctx) {
			for i := 0; i < tfs[a].n; i++ {
				p := c08TicketBase()
				valid, rej := tfs[a].set(p, i)
				enc := c.checkTicketValue(p, valid, rej)
				c.sample("ticket for %s -> %x", p, enc)
				c08MutationsLimit(enc, len(enc), func(m []byte, _ int) { c.checkTicketBytes(m) })
				for b := a + 1; b < len(tfs); b++ {
					for j := 0; j < tfs[b].n; j++ {
						q := c08TicketBase()
						v1, r1 := tfs[a].set(q, i)
						v2, r2 := tfs[b].set(q, j)
						if r1 == "" {
							r1 = r2
						}
						enc := c.checkTicketValue(q, v1 && v2, r1)
						if c.thorough {
							c08MutationsLimit(enc, len(enc), func(m []byte, _ int) { c.checkTicketBytes(m) })
						}
					}
				}
			}
		})
	}
	prefix := []byte{sessionTicketRevision, 1} // revision, transport parameter marshaling version
	for i := 0; i < 256; i++ {
		b0 := byte(i)
		chunks = append(chunks, func(c *c08Ctx) {
			buf := append(make([]byte, 0, 8), prefix...)
			c08ShortStrings(b0, c08MaxLen(c.thorough), func(b []byte) {
				c.checkTicketBytes(b)
				c.checkTicketBytes(append(buf[:len(prefix)], b...))
			})
		})
	}
	return c08PartSpec{chunks: chunks, bound: fmt.Sprintf("%d chunks: 9 stored fields, every alternative alone and every pair; mutations of single-alternative tickets (thorough: all); all byte strings of length <= %d bare and after the revision/version prefix", len(chunks), c08MaxLen(thorough))}
}
