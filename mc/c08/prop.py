# ./check configuration for C08 (merged by mc/props.py)
PROP = dict(
        libs=["explore", "canon"],
        level="model_checking", shards=1,
        targets=[
            dict(name="wire", pkg="internal/wire", test="TestVerifC08Wire", files=["mc/c08/wire/*.go"],
                 parts=["varint", "frame-types", "bytes-frames", "bytes-headers", "lattice-frames", "lattice-headers", "frame-history",
                        "tparams-values", "tparams-table", "tparams-narrowing"]),
            dict(name="hs", pkg="internal/handshake", test="TestVerifC08Handshake", files=["mc/c08/hs/*.go"],
                 parts=["tokens", "tickets"]),
        ],
        level_text="Bounded-exhaustive input enumeration against the real codecs of internal/wire, quicvarint and internal/handshake (in-package harness, no model/code gap): every byte string up to a length bound, a structured lattice of every frame type / header form / transport parameter with every field on the varint width boundaries, the narrowing aliases of every field that has a range rule or is a length (v + k*2^w for w in {8,16,32} and the in-range values v next to the rule's edge, so that a range check evaluated after a conversion to uint8/uint16/uint32 is decided wrongly: transport parameters stream counts, ack_delay_exponent, max_ack_delay, active_connection_id_limit, max_udp_payload_size, connection ID parameter lengths; MAX_STREAMS/STREAMS_BLOCKED counts, RESET_STREAM_AT sizes, data/token/reason lengths 257 and 65537, raw length fields claiming 2^w + v), and every prefix and single-byte substitution of every encoding produced. The oracle is the property statement itself evaluated per input (no panic, reported length exact, Append == Length, decode(encode(x)) == x, decode(encode(decode(b))) == decode(b), listed RFC 9000 range violations rejected). Right level because the property quantifies over inputs, not over interleavings: the input space is enumerated, not sampled.",
        level_note="Trusted: the harness' field-by-field equality on parsed values, its reference varint codec and the reference model that says which raw inputs contain a listed range violation. Not covered: byte strings longer than 3 that are not within one truncation/substitution of an encoding of a lattice value; numeric values other than the varint width boundaries, the edges of the range rules and their aliases modulo 2^8 / 2^16 / 2^32 (a check narrowed to another width, e.g. 24 bits, is not exercised); ACK frames with more than 3 ranges; long-header payloads other than {0,1,63,64,16383-pnlen} bytes.",
        technique="bounded-exhaustive input enumeration (explore.RunCases, one case = one chunk of the enumerated space) with a per-input reference oracle",
        deadline=dict(quick=90, thorough=1000),
        rule="every input of the stated finite spaces is executed on the real parsers/encoders; evaluations = inputs (byte strings or structured values) evaluated, transitions = calls into the real codecs, states = distinct outcome classes",
        assumptions=["re-encoding refusals that are explicit error returns (e.g. an empty STREAM frame without FIN) are not violations: the statement is silent about what the encoders may refuse",
                     "GetLength is not a length prediction for Retry packets (they have no Length/packet number fields); it is not checked for them",
                     "decode(encode(x)) == x is demanded only for x inside the wire-representable domain (durations in whole wire units, offset+length <= 2^62-1, values the RFC allows)",
                     "transport parameter values outside an RFC 9000 range that the statement does not list (max_ack_delay >= 2^14, active_connection_id_limit < 2, max_udp_payload_size < 1200) may be refused or accepted; if Unmarshal accepts the encoding Marshal produced for such a value, the result has to equal that value (second sentence of the statement) - acceptance as a different, e.g. narrowed, value is a violation",
                     "rejection is demanded only for the listed rules: stream count > 2^60, ack_delay_exponent > 20, connection ID length > 20, duplicate / perspective-forbidden parameters, reliable size > final size; a STREAM frame longer than one packet buffer (1452 bytes) may be refused by the parser"],
    )
