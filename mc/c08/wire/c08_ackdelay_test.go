package wire

// C08 part "ack-delay": the ACK Delay field under every ack delay exponent a peer may negotiate.
//
// The ACK Delay field is the only frame field whose decoding depends on a negotiated
// setting: the parser scales it with the exponent from the PEER's transport parameters
// (every value 0..20 is legal; this implementation itself always advertises 3 and its
// encoder always scales with 3), and the product has to fit a time.Duration. The other
// parts parse ACK frames with exponents other than 3 only with a handful of small delays, so
// the region where field << exponent leaves the Duration range (a different field value for
// every exponent) was parsed with exponent 3 only.
//
// Input space: raw ACK / ACK_ECN frames (largest acknowledged 100, one range, in the ECN form
// three counts) whose ACK Delay field takes every value of c08AckDelayFields (the varint
// width boundaries, 2^k-1 / 2^k / 2^k+1 / 3*2^(k-1) for every bit position k, and the
// neighbours of (MaxInt64 ns in microseconds) >> k for every k, i.e. of the largest field
// whose product is representable under exponent k), encoded in minimal and in 8-byte varint
// width, parsed by a FrameParser with SetAckDelayExponent(e) for EVERY e in 0..20 at every
// encryption level (1-RTT: the exponent applies; Initial / Handshake: 3 applies whatever
// was set; 0-RTT: ACK is refused).
//
// Oracle: the statement, via checkFrameBytes / checkParsedFrame: no panic, reported lengths
// exact, the parsed frame re-encodes without panic to exactly Length() bytes, the re-encoding
// parses completely on the parser that produced it to the same frame up to the delay, and
// on a parser with the encoder's exponent in force to the same frame including the delay (in
// whole 8-microsecond units). Nothing is demanded about WHICH duration a field value decodes
// to (the statement does not define the scaling, nor what happens beyond the Duration range).

import (
	"fmt"
	"math"
	"sort"
	"time"

	"github.com/refraction-networking/uquic/internal/protocol"
)

// c08AckDelayFields: the values of the ACK Delay field, ascending, without duplicates.
func c08AckDelayFields() []uint64 {
	set := map[uint64]struct{}{}
	add := func(v uint64) {
		if v <= c08MaxVarint {
			set[v] = struct{}{}
		}
	}
	for _, v := range c08Bnd {
		add(v)
	}
	for k := uint(0); k <= 62; k++ {
		p := uint64(1) << k
		add(p - 1)
		add(p)
		add(p + 1)
		if k > 0 {
			add(3 << (k - 1))
		}
	}
	// the largest number of microseconds a time.Duration holds, shifted right by every k: for
	// k <= 20 the largest field value whose product with 2^k microseconds is representable
	maxMicros := uint64(math.MaxInt64 / int64(time.Microsecond))
	for k := uint(0); k <= 62; k++ {
		t := maxMicros >> k
		if t == 0 {
			break
		}
		add(t - 1)
		add(t)
		add(t + 1)
		add(t + t/2)
		add(2*t + 1)
		add(3 * t)
	}
	out := make([]uint64, 0, len(set))
	for v := range set {
		out = append(out, v)
	}
	sort.Slice(out, func(i, j int) bool { return out[i] < out[j] })
	return out
}

// c08AckDelayClass classifies what the real parser made of field under exponent exp (for
// the vacuity accounting only, nothing here is judged).
func c08AckDelayClass(field uint64, exp uint8, d time.Duration) string {
	maxMicros := uint64(math.MaxInt64 / int64(time.Microsecond))
	switch {
	case d < 0:
		return "NEGATIVE"
	case d == 0 && field == 0:
		return "zero"
	case field <= maxMicros>>exp && d == time.Duration(field<<exp)*time.Microsecond:
		if d%(time.Microsecond<<protocol.AckDelayExponent) != 0 {
			return "field*2^exp-us,sub-unit-of-the-encoder"
		}
		return "field*2^exp-us"
	case field > maxMicros>>exp:
		return "beyond-the-duration-range"
	}
	return "other"
}

func c08AckDelayPart(thorough bool) c08PartSpec {
	fields := c08AckDelayFields()
	var chunks []c08Chunk
	for e := uint8(0); e <= protocol.MaxAckDelayExponent; e++ {
		e := e
		chunks = append(chunks, func(c *c08Ctx) {
			var cfgs []c08FrameCfg
			for _, lvl := range c08Levels {
				for fl := 0; fl < 8; fl++ {
					if !c.thorough && fl != 0 && fl != 7 {
						continue
					}
					cfgs = append(cfgs, c08FrameCfg{lvl: lvl, dg: fl&1 != 0, rsa: fl&2 != 0, af: fl&4 != 0, exp: e})
				}
			}
			for _, field := range fields {
				for _, ecn := range []bool{false, true} {
					for _, wide := range []bool{false, true} {
						b := []byte{byte(FrameTypeAck)}
						if ecn {
							b[0] = byte(FrameTypeAckECN)
						}
						b = c08RefAppendVarint(b, 100) // largest acknowledged
						if wide {
							b = c08RefAppendVarintN(b, field, 8)
						} else {
							b = c08RefAppendVarint(b, field)
						}
						b = append(b, 0x00, 0x00) // no further ranges; first range 100..100
						if ecn {
							b = append(b, 0x01, 0x02, 0x03)
						}
						for ci, g := range cfgs {
							v := c08Versions[ci%2]
							o := c.checkFrameBytes(g, b, v)
							// classification of the parsed delay (one more parse of the same input)
							c.guard("FrameParser["+g.String()+"]", b, func() {
								_, f, _, _, err := c.c08ParseOne(c.parser(g), g, b, v)
								if a, ok := f.(*AckFrame); ok && err == nil {
									cl := c08AckDelayClass(field, g.effExp(), a.DelayTime)
									c.outcome(fmt.Sprintf("ack-delay|%s|exp=%d|%s", g.lvl, g.effExp(), cl))
									if !wide && !ecn && ci == len(cfgs)-1 && (field == 1000 || field > 1<<61) {
										c.sample("ACK delay field %d @%s -> %s: %s (%s)", field, g, o, c08FrameString(a), cl)
									}
								}
							})
						}
					}
				}
			}
		})
	}
	return c08PartSpec{chunks: chunks, bound: fmt.Sprintf("%d chunks (one per ack delay exponent 0..20): %d ACK Delay field values (varint width boundaries; 2^k-1, 2^k, 2^k+1, 3*2^(k-1) for every k <= 62; t-1, t, t+1, 1.5t, 2t+1, 3t for t = (MaxInt64 ns in us) >> k, every k) x {ACK, ACK_ECN} x {minimal, 8-byte} varint width x 4 encryption levels x {no, all} extensions (thorough: 8 flag combinations), versions 1 and 2 alternating over the configurations", len(chunks), len(fields))}
}
