package wire

// C08 admission model: at which (encryption level, negotiated extensions) a frame type the
// encoders produce HAS to get through FrameParser.ParseType.
//
// The statement says "every value the encoders can produce parses back to an equal value"
// and quantifies over every frame type and every encryption level. Parsing is level- and
// negotiation-dependent (ParseType's allow-list), so the round trip is demanded exactly
// where the frame may be sent and the receiver is not allowed to refuse it:
//
//   * RFC 9000, section 12.4, Table 3 (the "Pkts" column: I, H, 0, 1), minus the frames of
//     section 12.5 that "it is not possible to send in 0-RTT packets" and that a server MAY
//     treat as a connection error there (ACK, CRYPTO, HANDSHAKE_DONE, NEW_TOKEN,
//     PATH_RESPONSE, RETIRE_CONNECTION_ID);
//   * RFC 9221, section 3: DATAGRAM in 0-RTT and 1-RTT packets (the client remembers
//     max_datagram_frame_size) when the receiver advertised datagram support;
//   * draft-ietf-quic-reliable-stream-reset: RESET_STREAM_AT like RESET_STREAM (0-RTT and
//     1-RTT; both endpoints remember the transport parameter for 0-RTT) when negotiated;
//   * draft-ietf-quic-ack-frequency: ACK_FREQUENCY and IMMEDIATE_ACK in 1-RTT packets when
//     negotiated (min_ack_delay is not remembered, so they cannot be sent in 0-RTT packets:
//     nothing is demanded there).
//
// Everywhere else the model is silent: the parser may accept or refuse (level refusals are
// not among the rejections the statement lists). A frame type written in a longer varint
// than necessary may be refused (RFC 9000, section 12.4), so only minimal encodings are
// judged. The extension flags of a parser that do not belong to the frame's own extension
// must not matter.

import (
	"fmt"

	"github.com/refraction-networking/uquic/internal/protocol"
)

// c08TypeName names a frame type value in violation keys ("" = not a type the encoders
// produce).
func c08TypeName(typ uint64) string {
	switch {
	case typ >= 0x08 && typ <= 0x0f:
		return "STREAM"
	case typ == 0x02 || typ == 0x03:
		return "ACK"
	case typ == 0x12 || typ == 0x13:
		return "MAX_STREAMS"
	case typ == 0x16 || typ == 0x17:
		return "STREAMS_BLOCKED"
	case typ == 0x30 || typ == 0x31:
		return "DATAGRAM"
	}
	switch typ {
	case 0x01:
		return "PING"
	case 0x04:
		return "RESET_STREAM"
	case 0x05:
		return "STOP_SENDING"
	case 0x06:
		return "CRYPTO"
	case 0x07:
		return "NEW_TOKEN"
	case 0x10:
		return "MAX_DATA"
	case 0x11:
		return "MAX_STREAM_DATA"
	case 0x14:
		return "DATA_BLOCKED"
	case 0x15:
		return "STREAM_DATA_BLOCKED"
	case 0x18:
		return "NEW_CONNECTION_ID"
	case 0x19:
		return "RETIRE_CONNECTION_ID"
	case 0x1a:
		return "PATH_CHALLENGE"
	case 0x1b:
		return "PATH_RESPONSE"
	case 0x1c:
		return "CONNECTION_CLOSE(0x1c)"
	case 0x1d:
		return "CONNECTION_CLOSE(0x1d)"
	case 0x1e:
		return "HANDSHAKE_DONE"
	case 0x1f:
		return "IMMEDIATE_ACK"
	case 0x24:
		return "RESET_STREAM_AT"
	case 0xaf:
		return "ACK_FREQUENCY"
	}
	return ""
}

// c08MustAdmit: a frame of type typ (minimally encoded) arriving in a packet of level g.lvl
// on a connection that negotiated the extensions of g has to be let through by ParseType.
func c08MustAdmit(typ uint64, g c08FrameCfg) bool {
	const (
		lI = 1 << iota
		lH
		l0
		l1
	)
	var at int
	switch g.lvl {
	case protocol.EncryptionInitial:
		at = lI
	case protocol.EncryptionHandshake:
		at = lH
	case protocol.Encryption0RTT:
		at = l0
	case protocol.Encryption1RTT:
		at = l1
	default:
		return false
	}
	var where int
	switch {
	case typ == 0x01: // PING: IH01
		where = lI | lH | l0 | l1
	case typ == 0x02 || typ == 0x03, typ == 0x06: // ACK, CRYPTO: IH_1
		where = lI | lH | l1
	case typ == 0x04 || typ == 0x05, // RESET_STREAM, STOP_SENDING: __01
		typ >= 0x08 && typ <= 0x0f, // STREAM: __01
		typ >= 0x10 && typ <= 0x17, // MAX_DATA .. STREAMS_BLOCKED: __01
		typ == 0x18, typ == 0x1a:   // NEW_CONNECTION_ID, PATH_CHALLENGE: __01
		where = l0 | l1
	case typ == 0x07, typ == 0x1b, typ == 0x1e: // NEW_TOKEN, PATH_RESPONSE, HANDSHAKE_DONE: ___1
		where = l1
	case typ == 0x19: // RETIRE_CONNECTION_ID: __01 in Table 3, refusable in 0-RTT (section 12.5)
		where = l1
	case typ == 0x1c: // CONNECTION_CLOSE (transport): ih01
		where = lI | lH | l0 | l1
	case typ == 0x1d: // CONNECTION_CLOSE (application): __01
		where = l0 | l1
	case typ == 0x30 || typ == 0x31: // DATAGRAM, RFC 9221
		if g.dg {
			where = l0 | l1
		}
	case typ == 0x24: // RESET_STREAM_AT
		if g.rsa {
			where = l0 | l1
		}
	case typ == 0xaf || typ == 0x1f: // ACK_FREQUENCY, IMMEDIATE_ACK
		if g.af {
			where = l1
		}
	}
	return where&at != 0
}

// c08RefFirstType is the reference reading of the first frame type of a payload: PADDING
// (type 0 in any width) is skipped. width is the number of bytes the type occupies.
func c08RefFirstType(data []byte) (typ uint64, width int, ok bool) {
	for len(data) > 0 {
		v, n, good := c08RefVarint(data)
		if !good {
			return 0, 0, false
		}
		if v != 0 {
			return v, n, true
		}
		data = data[n:]
	}
	return 0, 0, false
}

// checkAdmission is called for every ParseType call of the whole check that returned an
// error: when the model says the (minimally encoded) type has to be admitted under g, the
// refusal is a violation, keyed by frame type and level. It reports whether it failed.
func (c *c08Ctx) checkAdmission(g c08FrameCfg, data []byte, err error) bool {
	typ, width, ok := c08RefFirstType(data)
	if !ok || width != c08RefVarintLen(typ) || !c08MustAdmit(typ, g) {
		return false
	}
	c.fail(fmt.Sprintf("refused-admissible:%s@%s", c08TypeName(typ), g.lvl),
		"%s: ParseType refuses frame type %#x (%s), which may be sent in %s packets with these extensions negotiated and which the encoders produce: %v; input %s",
		g, typ, c08TypeName(typ), g.lvl, err, c08Hex(data))
	return true
}
