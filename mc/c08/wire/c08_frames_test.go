package wire

// C08 frame oracle: one byte string (or one structured frame value) against the real
// FrameParser / Append / Length.

import (
	"bytes"
	"fmt"
	"io"
	"time"

	"github.com/refraction-networking/uquic/internal/protocol"
	"github.com/refraction-networking/uquic/internal/verifmc/explore"
)

type c08FrameCfg struct {
	lvl         protocol.EncryptionLevel
	dg, rsa, af bool  // supportsDatagrams, supportsResetStreamAt, supportsAckFrequency
	exp         uint8 // ack delay exponent configured on the parser (applies at 1-RTT)
}

func (g c08FrameCfg) String() string {
	f := func(b bool) byte {
		if b {
			return '1'
		}
		return '0'
	}
	return fmt.Sprintf("%s/dg%c,rsa%c,af%c,exp%d", g.lvl, f(g.dg), f(g.rsa), f(g.af), g.exp)
}

// effective ACK delay exponent the parser applies at this level
func (g c08FrameCfg) effExp() uint8 {
	if g.lvl != protocol.Encryption1RTT {
		return protocol.DefaultAckDelayExponent
	}
	return g.exp
}

var c08Levels = []protocol.EncryptionLevel{protocol.EncryptionInitial, protocol.EncryptionHandshake, protocol.Encryption0RTT, protocol.Encryption1RTT}

var c08Versions = []protocol.Version{protocol.Version1, protocol.Version2}

// c08AllCfgs: 4 encryption levels x 8 feature flag combinations, ack delay exponent 3
// (the exponent this implementation's encoder uses).
func c08AllCfgs() []c08FrameCfg {
	var l []c08FrameCfg
	for _, lvl := range c08Levels {
		for fl := 0; fl < 8; fl++ {
			l = append(l, c08FrameCfg{lvl: lvl, dg: fl&1 != 0, rsa: fl&2 != 0, af: fl&4 != 0, exp: protocol.AckDelayExponent})
		}
	}
	return l
}

func c08FullCfg(lvl protocol.EncryptionLevel) c08FrameCfg {
	return c08FrameCfg{lvl: lvl, dg: true, rsa: true, af: true, exp: protocol.AckDelayExponent}
}

// c08FrameRunner caches one real FrameParser per configuration (as a connection does). A
// parser is replaced after c08ParserUses requests: the systematic histories are the business
// of the part frame-history, and a parser that (wrongly) accumulated state over hundreds of
// thousands of frames would make a chunk quadratically slow instead of producing a verdict.
type c08FrameRunner struct {
	parsers map[c08FrameCfg]*FrameParser
	uses    map[c08FrameCfg]int
}

const c08ParserUses = 256

func (c *c08Ctx) parser(g c08FrameCfg) *FrameParser {
	if c.fr == nil {
		c.fr = &c08FrameRunner{parsers: map[c08FrameCfg]*FrameParser{}, uses: map[c08FrameCfg]int{}}
	}
	p := c.fr.parsers[g]
	if p == nil || c.fr.uses[g] >= c08ParserUses {
		p = NewFrameParser(g.dg, g.rsa, g.af)
		p.SetAckDelayExponent(g.exp)
		c.fr.parsers[g] = p
		c.fr.uses[g] = 0
	}
	c.fr.uses[g]++
	return p
}

func c08FrameKind(f Frame) string {
	switch f.(type) {
	case *StreamFrame:
		return "STREAM"
	case *AckFrame:
		return "ACK"
	case *DatagramFrame:
		return "DATAGRAM"
	case *PingFrame:
		return "PING"
	case *ResetStreamFrame:
		return "RESET_STREAM"
	case *StopSendingFrame:
		return "STOP_SENDING"
	case *CryptoFrame:
		return "CRYPTO"
	case *NewTokenFrame:
		return "NEW_TOKEN"
	case *MaxDataFrame:
		return "MAX_DATA"
	case *MaxStreamDataFrame:
		return "MAX_STREAM_DATA"
	case *MaxStreamsFrame:
		return "MAX_STREAMS"
	case *DataBlockedFrame:
		return "DATA_BLOCKED"
	case *StreamDataBlockedFrame:
		return "STREAM_DATA_BLOCKED"
	case *StreamsBlockedFrame:
		return "STREAMS_BLOCKED"
	case *NewConnectionIDFrame:
		return "NEW_CONNECTION_ID"
	case *RetireConnectionIDFrame:
		return "RETIRE_CONNECTION_ID"
	case *PathChallengeFrame:
		return "PATH_CHALLENGE"
	case *PathResponseFrame:
		return "PATH_RESPONSE"
	case *ConnectionCloseFrame:
		return "CONNECTION_CLOSE"
	case *HandshakeDoneFrame:
		return "HANDSHAKE_DONE"
	case *AckFrequencyFrame:
		return "ACK_FREQUENCY"
	case *ImmediateAckFrame:
		return "IMMEDIATE_ACK"
	case nil:
		return "nil"
	}
	return fmt.Sprintf("%T", f)
}

// c08FrameDiff compares two frame values field by field (nil and empty byte slices are the
// same value; the StreamFrame pool flag is not part of the value). It returns "" when they
// are equal, else the name of the first differing field (plus a value class where one root
// cause must be told from another).
func c08FrameDiff(a, b Frame) string {
	switch x := a.(type) {
	case *StreamFrame:
		y, ok := b.(*StreamFrame)
		switch {
		case !ok:
			return "type"
		case x.StreamID != y.StreamID:
			return "StreamID"
		case x.Offset != y.Offset:
			return "Offset"
		case x.Fin != y.Fin:
			return "Fin"
		case x.DataLenPresent != y.DataLenPresent:
			return "DataLenPresent"
		case !bytes.Equal(x.Data, y.Data):
			return "Data"
		}
	case *AckFrame:
		y, ok := b.(*AckFrame)
		switch {
		case !ok:
			return "type"
		case x.DelayTime != y.DelayTime:
			return "DelayTime" + c08DurClass(x.DelayTime)
		case x.ECT0 != y.ECT0 || x.ECT1 != y.ECT1 || x.ECNCE != y.ECNCE:
			return "ECN"
		case len(x.AckRanges) != len(y.AckRanges):
			return "AckRanges.len"
		}
		for i := range x.AckRanges {
			if x.AckRanges[i] != y.AckRanges[i] {
				return "AckRanges"
			}
		}
	case *DatagramFrame:
		y, ok := b.(*DatagramFrame)
		switch {
		case !ok:
			return "type"
		case x.DataLenPresent != y.DataLenPresent:
			return "DataLenPresent"
		case !bytes.Equal(x.Data, y.Data):
			return "Data"
		}
	case *PingFrame:
		if _, ok := b.(*PingFrame); !ok {
			return "type"
		}
	case *HandshakeDoneFrame:
		if _, ok := b.(*HandshakeDoneFrame); !ok {
			return "type"
		}
	case *ImmediateAckFrame:
		if _, ok := b.(*ImmediateAckFrame); !ok {
			return "type"
		}
	case *ResetStreamFrame:
		y, ok := b.(*ResetStreamFrame)
		switch {
		case !ok:
			return "type"
		case x.StreamID != y.StreamID:
			return "StreamID"
		case x.ErrorCode != y.ErrorCode:
			return "ErrorCode"
		case x.FinalSize != y.FinalSize:
			return "FinalSize"
		case x.ReliableSize != y.ReliableSize:
			return "ReliableSize"
		}
	case *StopSendingFrame:
		y, ok := b.(*StopSendingFrame)
		switch {
		case !ok:
			return "type"
		case x.StreamID != y.StreamID:
			return "StreamID"
		case x.ErrorCode != y.ErrorCode:
			return "ErrorCode"
		}
	case *CryptoFrame:
		y, ok := b.(*CryptoFrame)
		switch {
		case !ok:
			return "type"
		case x.Offset != y.Offset:
			return "Offset"
		case !bytes.Equal(x.Data, y.Data):
			return "Data"
		}
	case *NewTokenFrame:
		y, ok := b.(*NewTokenFrame)
		switch {
		case !ok:
			return "type"
		case !bytes.Equal(x.Token, y.Token):
			return "Token"
		}
	case *MaxDataFrame:
		y, ok := b.(*MaxDataFrame)
		switch {
		case !ok:
			return "type"
		case x.MaximumData != y.MaximumData:
			return "MaximumData"
		}
	case *MaxStreamDataFrame:
		y, ok := b.(*MaxStreamDataFrame)
		switch {
		case !ok:
			return "type"
		case x.StreamID != y.StreamID:
			return "StreamID"
		case x.MaximumStreamData != y.MaximumStreamData:
			return "MaximumStreamData"
		}
	case *MaxStreamsFrame:
		y, ok := b.(*MaxStreamsFrame)
		switch {
		case !ok:
			return "type"
		case x.Type != y.Type:
			return "Type"
		case x.MaxStreamNum != y.MaxStreamNum:
			return "MaxStreamNum"
		}
	case *DataBlockedFrame:
		y, ok := b.(*DataBlockedFrame)
		switch {
		case !ok:
			return "type"
		case x.MaximumData != y.MaximumData:
			return "MaximumData"
		}
	case *StreamDataBlockedFrame:
		y, ok := b.(*StreamDataBlockedFrame)
		switch {
		case !ok:
			return "type"
		case x.StreamID != y.StreamID:
			return "StreamID"
		case x.MaximumStreamData != y.MaximumStreamData:
			return "MaximumStreamData"
		}
	case *StreamsBlockedFrame:
		y, ok := b.(*StreamsBlockedFrame)
		switch {
		case !ok:
			return "type"
		case x.Type != y.Type:
			return "Type"
		case x.StreamLimit != y.StreamLimit:
			return "StreamLimit"
		}
	case *NewConnectionIDFrame:
		y, ok := b.(*NewConnectionIDFrame)
		switch {
		case !ok:
			return "type"
		case x.SequenceNumber != y.SequenceNumber:
			return "SequenceNumber"
		case x.RetirePriorTo != y.RetirePriorTo:
			return "RetirePriorTo"
		case x.ConnectionID != y.ConnectionID:
			return "ConnectionID"
		case x.StatelessResetToken != y.StatelessResetToken:
			return "StatelessResetToken"
		}
	case *RetireConnectionIDFrame:
		y, ok := b.(*RetireConnectionIDFrame)
		switch {
		case !ok:
			return "type"
		case x.SequenceNumber != y.SequenceNumber:
			return "SequenceNumber"
		}
	case *PathChallengeFrame:
		y, ok := b.(*PathChallengeFrame)
		switch {
		case !ok:
			return "type"
		case x.Data != y.Data:
			return "Data"
		}
	case *PathResponseFrame:
		y, ok := b.(*PathResponseFrame)
		switch {
		case !ok:
			return "type"
		case x.Data != y.Data:
			return "Data"
		}
	case *ConnectionCloseFrame:
		y, ok := b.(*ConnectionCloseFrame)
		switch {
		case !ok:
			return "type"
		case x.IsApplicationError != y.IsApplicationError:
			return "IsApplicationError"
		case x.ErrorCode != y.ErrorCode:
			return "ErrorCode"
		case x.FrameType != y.FrameType:
			return "FrameType"
		case x.ReasonPhrase != y.ReasonPhrase:
			return "ReasonPhrase"
		}
	case *AckFrequencyFrame:
		y, ok := b.(*AckFrequencyFrame)
		switch {
		case !ok:
			return "type"
		case x.SequenceNumber != y.SequenceNumber:
			return "SequenceNumber"
		case x.AckElicitingThreshold != y.AckElicitingThreshold:
			return "AckElicitingThreshold"
		case x.RequestMaxAckDelay != y.RequestMaxAckDelay:
			return "RequestMaxAckDelay" + c08DurClass(x.RequestMaxAckDelay)
		case x.ReorderingThreshold != y.ReorderingThreshold:
			return "ReorderingThreshold"
		}
	default:
		explore.Must(false, "c08FrameDiff: unknown frame type %T", a)
	}
	return ""
}

// c08DurClass tells the durations the parsers produce by saturation / wrap-around from
// ordinary ones (part of the violation key, so that one root cause = one key).
func c08DurClass(d time.Duration) string {
	switch {
	case d == time.Duration(1<<63-1):
		return "[first=saturated MaxInt64]"
	case d < 0:
		return "[first=negative]"
	case d%time.Microsecond != 0:
		return "[first=not a whole microsecond]"
	}
	return ""
}

func c08FrameString(f Frame) string {
	switch x := f.(type) {
	case *StreamFrame:
		return fmt.Sprintf("STREAM{ID:%d Off:%d Fin:%v LenPresent:%v len(Data):%d}", x.StreamID, x.Offset, x.Fin, x.DataLenPresent, len(x.Data))
	case *AckFrame:
		return fmt.Sprintf("ACK{Ranges:%v Delay:%d ECN:%d,%d,%d}", x.AckRanges, x.DelayTime, x.ECT0, x.ECT1, x.ECNCE)
	case *CryptoFrame:
		return fmt.Sprintf("CRYPTO{Off:%d len(Data):%d}", x.Offset, len(x.Data))
	case *DatagramFrame:
		return fmt.Sprintf("DATAGRAM{LenPresent:%v len(Data):%d}", x.DataLenPresent, len(x.Data))
	case *NewTokenFrame:
		return fmt.Sprintf("NEW_TOKEN{len:%d}", len(x.Token))
	case *ConnectionCloseFrame:
		return fmt.Sprintf("CONNECTION_CLOSE{App:%v Code:%d FT:%d len(Reason):%d}", x.IsApplicationError, x.ErrorCode, x.FrameType, len(x.ReasonPhrase))
	case nil:
		return "nil"
	}
	return fmt.Sprintf("%s%+v", c08FrameKind(f), f)
}

// c08Snap returns a value that stays valid after the parser is used again (the parser
// recycles its single AckFrame).
func c08Snap(f Frame) Frame {
	if a, ok := f.(*AckFrame); ok {
		cp := *a
		cp.AckRanges = append([]AckRange(nil), a.AckRanges...)
		return &cp
	}
	return f
}

func c08Release(f Frame) {
	if s, ok := f.(*StreamFrame); ok && s != nil {
		s.PutBack()
	}
}

// c08ParseOne runs the real parser exactly as Conn.handleFrames does for one frame:
// ParseType, then the parse function for that type. tl and n are the reported lengths.
func (c *c08Ctx) c08ParseOne(p *FrameParser, g c08FrameCfg, data []byte, v protocol.Version) (ft FrameType, f Frame, tl, n int, err error) {
	c.trans++
	c.admitFail = false
	ft, tl, err = p.ParseType(data, g.lvl)
	if err != nil {
		// the admission model judges every refusal of ParseType in the whole check
		c.admitFail = c.checkAdmission(g, data, err)
		return ft, nil, tl, 0, err
	}
	if tl < 0 || tl > len(data) {
		return ft, nil, tl, 0, nil
	}
	rest := data[tl:]
	c.trans++
	switch {
	case ft.IsStreamFrameType():
		var sf *StreamFrame
		sf, n, err = p.ParseStreamFrame(ft, rest, v)
		if sf != nil {
			f = sf
		}
	case ft.IsAckFrameType():
		var af *AckFrame
		af, n, err = p.ParseAckFrame(ft, rest, g.lvl, v)
		if af != nil {
			f = af
		}
	case ft.IsDatagramFrameType():
		var df *DatagramFrame
		df, n, err = p.ParseDatagramFrame(ft, rest, v)
		if df != nil {
			f = df
		}
	default:
		f, n, err = p.ParseLessCommonFrame(ft, rest, v)
	}
	return ft, f, tl, n, err
}

// c08RefTypeLen is the reference model for ParseType's consumption: PADDING frames (type
// value 0, in any varint width) are skipped, then one varint is the type.
func c08RefTypeLen(data []byte) (consumed int, typ uint64, ok bool) {
	for {
		v, n, good := c08RefVarint(data[consumed:])
		if !good {
			return consumed, 0, false
		}
		consumed += n
		if v != 0 {
			return consumed, v, true
		}
		if consumed == len(data) {
			return consumed, 0, false
		}
	}
}

const c08MaxFramesPerInput = 6

// checkFrameBytes parses b as a packet payload under configuration g (frame after frame,
// like the connection does) and checks, for everything that parses: reported lengths stay
// inside the input and are exact (the same frame and length come out when the input is cut
// at the reported end), Append length == Length(), and the re-encoding parses to the same
// frame consuming exactly its length. It returns the outcome class.
func (c *c08Ctx) checkFrameBytes(g c08FrameCfg, b []byte, v protocol.Version) string {
	c.execs++
	out := ""
	c.guard("FrameParser["+g.String()+"]", b, func() { out = c.frameBytes(g, b, v) })
	if out == "" {
		out = "PANIC"
	}
	o := g.lvl.String() + "|" + out
	c.outcome(o)
	return o
}

func (c *c08Ctx) frameBytes(g c08FrameCfg, b []byte, v protocol.Version) string {
	p := c.parser(g)
	data := b
	first := ""
	for i := 0; i < c08MaxFramesPerInput && len(data) > 0; i++ {
		ft, f, tl, n, err := c.c08ParseOne(p, g, data, v)
		if tl < 0 || tl > len(data) {
			c.fail("consumed-range:ParseType", "%s: ParseType reported %d consumed bytes of %d; input %s", g, tl, len(data), c08Hex(b))
			return "bad-length"
		}
		if err == nil {
			if rl, _, ok := c08RefTypeLen(data); !ok || rl != tl {
				c.fail("consumed:ParseType", "%s: ParseType consumed %d bytes, the type (after PADDING) ends at %d; input %s", g, tl, rl, c08Hex(b))
			}
		}
		if err == io.EOF {
			// only PADDING up to the end of the payload
			if tl != len(data) {
				c.fail("consumed:ParseType", "%s: ParseType reports the end of the payload after %d of %d bytes; input %s", g, tl, len(data), c08Hex(b))
			}
			if first == "" {
				return "padding-only"
			}
			return first + "+padding"
		}
		if err != nil {
			if first == "" {
				first = "err:" + c.errClass(err)
			} else {
				first += "+err"
			}
			if f != nil {
				c08Release(f)
			}
			return first
		}
		if f == nil {
			c.fail("nil-frame", "%s: frame type %#x parsed without error but no frame was returned; input %s", g, uint64(ft), c08Hex(b))
			return "nil-frame"
		}
		kind := c08FrameKind(f)
		if n < 0 || tl+n > len(data) {
			c.fail("consumed-range:"+kind, "%s: %s reported %d+%d consumed bytes, only %d available; input %s", g, kind, tl, n, len(data), c08Hex(b))
			return "bad-length"
		}
		f = c08Snap(f)
		c.checkParsedFrame(p, g, f, data[:tl+n], tl, n, v, b)
		c08Release(f)
		if first == "" {
			first = kind
		} else if i == 1 {
			first += "+more"
		}
		data = data[tl+n:]
	}
	if first == "" {
		first = "empty"
	}
	return first
}

// checkParsedFrame: f was parsed from exact (= the input cut at the reported end).
func (c *c08Ctx) checkParsedFrame(p *FrameParser, g c08FrameCfg, f Frame, exact []byte, tl, n int, v protocol.Version, orig []byte) {
	kind := c08FrameKind(f)
	// (1) the reported length is exact: the cut input yields the same frame and length
	_, f1, tl1, n1, err1 := c.c08ParseOne(p, g, exact, v)
	if err1 != nil || f1 == nil {
		c.fail("consumed-exact:"+kind, "%s: %s reported %d consumed bytes, but the input cut there does not parse (%v); input %s", g, kind, tl+n, err1, c08Hex(orig))
	} else {
		if tl1 != tl || n1 != n {
			c.fail("consumed-exact:"+kind, "%s: %s reported %d+%d consumed bytes, on the input cut there it reports %d+%d; input %s", g, kind, tl, n, tl1, n1, c08Hex(orig))
		} else if d := c08FrameDiff(f, f1); d != "" {
			c.fail("consumed-exact:"+kind+"."+d, "%s: %s parsed from the input cut at the reported end (%d) differs in %s: %s vs %s; input %s", g, kind, tl+n, d, c08FrameString(f), c08FrameString(f1), c08Hex(orig))
		}
		if f1 != f {
			c08Release(f1)
		}
	}
	// (2) re-encode
	var enc []byte
	var aerr error
	var predicted protocol.ByteCount
	ok := c.guardReencode(kind, orig, func() {
		c.trans++
		enc, aerr = f.Append(nil, v)
		if aerr == nil {
			predicted = f.Length(v)
		}
	})
	if !ok {
		return
	}
	if aerr != nil {
		// the encoder refuses this value (e.g. an empty STREAM frame without FIN): the
		// statement is silent about refusals
		c.outcome(g.lvl.String() + "|reencode-refused:" + kind)
		return
	}
	if int(predicted) != len(enc) {
		c.fail("length:"+kind, "%s.Length() = %d but Append wrote %d bytes for %s (parsed from %s)", kind, predicted, len(enc), c08FrameString(f), c08Hex(orig))
	}
	// (3) the re-encoding parses to the same result, consuming exactly its length
	_, f2, tl2, n2, err2 := c.c08ParseOne(p, g, enc, v)
	switch {
	case err2 != nil || f2 == nil:
		c.fail("reparse-reject:"+kind, "%s: re-encoding %x of %s (parsed from %s) does not parse: %v", g, enc, c08FrameString(f), c08Hex(orig), err2)
	case tl2+n2 != len(enc):
		c.fail("reparse-consumed:"+kind, "%s: re-encoding %x of %s is %d bytes long, parsing it consumed %d+%d (original input %s)", g, enc, c08FrameString(f), len(enc), tl2, n2, c08Hex(orig))
	default:
		want := f
		if a, isAck := f.(*AckFrame); isAck && g.effExp() != protocol.AckDelayExponent {
			// This parser scales the ACK delay with the peer's exponent, the encoder with its
			// own (3): on this parser the delay is not expected back (every other field is).
			// "Re-encoding anything that parsed successfully parses to the same result again"
			// is demanded from a parser on which the encoder's exponent is in force.
			if a2, ok := f2.(*AckFrame); ok {
				cp := *a
				cp.DelayTime = a2.DelayTime
				want = &cp
			}
			c.checkAckReparseOwnExponent(g, a, enc, v, orig)
		}
		if d := c08FrameDiff(want, f2); d != "" {
			c.fail("reparse-differs:"+kind+"."+d, "%s: parse(%s) = %s, its re-encoding %x parses to %s (field %s)", g, c08Hex(orig), c08FrameString(f), enc, c08FrameString(f2), d)
		}
	}
	if f2 != nil && f2 != f {
		c08Release(f2)
	}
}

// checkAckReparseOwnExponent: a was parsed (from orig) by a parser with configuration g, on
// which an ack delay exponent other than the encoder's is in force; enc is its re-encoding.
// A parser with the same flags at the same level on which the encoder's exponent (3) is in
// force has to parse enc completely, to a again; the delay comes back in whole wire units of
// the encoder (8 microseconds, rounded towards zero: sub-unit precision is outside the
// wire-representable domain).
func (c *c08Ctx) checkAckReparseOwnExponent(g c08FrameCfg, a *AckFrame, enc []byte, v protocol.Version, orig []byte) {
	g3 := g
	g3.exp = protocol.AckDelayExponent
	key := fmt.Sprintf("ACK[parsed-with-exponent-%s-3]", map[bool]string{true: "above", false: "below"}[g.effExp() > protocol.AckDelayExponent])
	_, f3, tl3, n3, err3 := c.c08ParseOne(c.parser(g3), g3, enc, v)
	a3, ok := f3.(*AckFrame)
	switch {
	case err3 != nil || !ok:
		c.fail("reparse-reject:"+key, "%s: parse(%s) = %s, its re-encoding %x does not parse with the encoder's exponent in force: %v", g, c08Hex(orig), c08FrameString(a), enc, err3)
	case tl3+n3 != len(enc):
		c.fail("reparse-consumed:"+key, "%s: parse(%s) = %s, its re-encoding %x is %d bytes long, parsing it with the encoder's exponent in force consumed %d+%d", g, c08Hex(orig), c08FrameString(a), enc, len(enc), tl3, n3)
	default:
		const unit = time.Microsecond << protocol.AckDelayExponent
		want := *a
		want.DelayTime = a.DelayTime / unit * unit
		if d := c08FrameDiff(&want, a3); d != "" {
			c.fail("reparse-differs:"+key+"."+d, "%s: parse(%s) = %s, its re-encoding %x parses with the encoder's exponent in force to %s, expected %s (field %s)", g, c08Hex(orig), c08FrameString(a), enc, c08FrameString(a3), c08FrameString(&want), d)
		}
	}
}

func (c *c08Ctx) guardReencode(kind string, orig []byte, fn func()) (ok bool) {
	defer func() {
		if x := recover(); x != nil {
			site, real := c08PanicSite()
			if !real {
				panic(x)
			}
			c.fail("reencode-panic:"+kind+":"+site, "re-encoding the %s parsed from %s panicked: %v", kind, c08Hex(orig), x)
			ok = false
		}
	}()
	fn()
	return true
}

// c08FrameValue is one structured frame value of the lattice.
type c08FrameValue struct {
	f Frame
	// valid: inside the domain on which decode(encode(x)) == x is demanded.
	valid bool
	// light: mutations of the encoding are parsed at 1-RTT only (except the type byte), also
	// in the thorough tier (used for the 3-range ACK frames, the bulk of the lattice)
	light bool
	// mutHead > 0: only the first mutHead bytes of the encoding are mutated (values with a
	// long data field; the data bytes themselves are not interpreted by the parser)
	mutHead int
	// reject: the value is outside a range the statement lists, every parser configuration
	// has to reject its encoding (reason names the rule).
	reject string
}

// checkFrameValue: Append, Length prediction, round trip under every level and flag
// combination (success is demanded wherever the admission model c08MustAdmit says the frame
// may be sent: level admits the type, the type's own extension negotiated; wherever else it
// parses, it must parse to the same value), demanded rejections. Returns the encoding (nil
// when the encoder refused).
func (c *c08Ctx) checkFrameValue(x c08FrameValue, cfgs []c08FrameCfg) []byte {
	c.execs++
	kind := c08FrameKind(x.f)
	var enc []byte
	for vi, v := range c08Versions {
		var e []byte
		var aerr error
		var predicted protocol.ByteCount
		ok := c.guard("Append/Length of "+c08FrameString(x.f), nil, func() {
			c.trans++
			e, aerr = x.f.Append(nil, v)
			if aerr == nil {
				predicted = x.f.Length(v)
			}
		})
		if !ok {
			return nil
		}
		if aerr != nil {
			c.outcome("encode-refused:" + kind)
			return nil
		}
		if int(predicted) != len(e) {
			c.fail("length:"+kind, "%s.Length(%s) = %d but Append wrote %d bytes (%x) for %s", kind, v, predicted, len(e), e, c08FrameString(x.f))
		}
		if vi == 0 {
			enc = e
		} else if !bytes.Equal(enc, e) {
			c.outcome("encoding-depends-on-version:" + kind)
		}
		for _, g := range cfgs {
			c.guard("FrameParser["+g.String()+"]", e, func() {
				p := c.parser(g)
				_, f, tl, n, err := c.c08ParseOne(p, g, e, v)
				// demanded wherever the admission model says the frame may be sent (its own
				// extension negotiated, the other flags arbitrary); e is the encoder's output,
				// so its first varint is the (minimally encoded) frame type
				typ, _, _ := c08RefFirstType(e)
				must := x.valid && c08MustAdmit(typ, g)
				switch {
				case x.reject != "":
					if err == nil {
						c.fail("accepts-invalid:"+kind+":"+x.reject, "%s: %s (%s) encoded as %x was accepted as %s", g, c08FrameString(x.f), x.reject, e, c08FrameString(f))
					}
					c.outcome(g.lvl.String() + "|rejected-invalid:" + kind)
				case err != nil || f == nil:
					if must && !c.admitFail { // a refusal by ParseType is already reported as refused-admissible:<type>@<level>
						c.fail("roundtrip-reject:"+kind, "%s: %s encoded as %x does not parse: %v", g, c08FrameString(x.f), e, err)
					}
					if must {
						c.outcome(g.lvl.String() + "|REFUSED-ADMISSIBLE:" + kind)
					}
					c.outcome(g.lvl.String() + "|value-not-parsed:" + kind + ":" + c.errClass(err))
				case tl+n != len(e):
					c.fail("roundtrip-consumed:"+kind, "%s: %s encoded as %x (%d bytes), parsing consumed %d+%d", g, c08FrameString(x.f), e, len(e), tl, n)
				default:
					if x.valid && g.effExp() == protocol.AckDelayExponent {
						if d := c08FrameDiff(x.f, f); d != "" {
							c.fail("roundtrip-differs:"+kind+"."+d, "%s: %s encoded as %x parses to %s (field %s)", g, c08FrameString(x.f), e, c08FrameString(f), d)
						}
					}
					c.outcome(g.lvl.String() + "|roundtrip:" + kind)
				}
				if f != nil {
					c08Release(f)
				}
			})
		}
	}
	return enc
}
