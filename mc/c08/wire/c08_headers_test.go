package wire

// C08 header oracles: long header (ParsePacket + ParseExtended / ExtendedHeader.Append /
// GetLength), short header, version negotiation, connection ID helpers.

import (
	"bytes"
	"errors"
	"fmt"

	"github.com/refraction-networking/uquic/internal/protocol"
)

func c08BytesEq(a, b []byte) bool { return bytes.Equal(a, b) }

// c08ExtDiff compares the value fields of two parsed long headers (not the raw first byte,
// and not the parsed length, which legitimately differs for non-minimal length encodings).
func c08ExtDiff(a, b *ExtendedHeader) string {
	switch {
	case a.Type != b.Type:
		return "Type"
	case a.Version != b.Version:
		return "Version"
	case a.DestConnectionID != b.DestConnectionID:
		return "DestConnectionID"
	case a.SrcConnectionID != b.SrcConnectionID:
		return "SrcConnectionID"
	case a.Length != b.Length:
		return "Length"
	case !c08BytesEq(a.Token, b.Token):
		return "Token"
	case a.PacketNumberLen != b.PacketNumberLen:
		return "PacketNumberLen"
	case a.PacketNumber != b.PacketNumber:
		return "PacketNumber"
	case a.KeyPhase != b.KeyPhase:
		return "KeyPhase"
	}
	return ""
}

func c08ExtString(h *ExtendedHeader) string {
	return fmt.Sprintf("LongHeader{Type:%d Version:%#x DCID:%s SCID:%s Length:%d len(Token):%d PN:%d PNLen:%d}", h.Type, uint32(h.Version), h.DestConnectionID, h.SrcConnectionID, h.Length, len(h.Token), h.PacketNumber, h.PacketNumberLen)
}

// c08ParseLong runs ParsePacket and, for non-Retry packets of a supported version,
// ParseExtended on the cut packet (as the unpacker does). ext is nil when only the
// version-independent part was parsed or parsing failed.
func (c *c08Ctx) c08ParseLong(b []byte) (hdr *Header, ext *ExtendedHeader, pdata, rest []byte, err error) {
	c.trans++
	hdr, pdata, rest, err = ParsePacket(b)
	if err != nil {
		return hdr, nil, nil, nil, err
	}
	if hdr.Type == protocol.PacketTypeRetry {
		return hdr, &ExtendedHeader{Header: *hdr}, pdata, rest, nil
	}
	c.trans++
	ext, err = hdr.ParseExtended(pdata)
	if err != nil && !errors.Is(err, ErrInvalidReservedBits) {
		return hdr, nil, pdata, rest, err
	}
	return hdr, ext, pdata, rest, err
}

// checkLongHeaderBytes feeds b to ParsePacket (+ParseExtended) and checks totality, the
// reported lengths, re-encoding, and the connection ID length limit of RFC 9000 versions.
func (c *c08Ctx) checkLongHeaderBytes(b []byte) string {
	c.execs++
	out := "PANIC"
	c.guard("ParsePacket/ParseExtended", b, func() { out = c.longHeaderBytes(b) })
	c.outcome("long|" + out)
	return out
}

func c08SupportedVersion(v protocol.Version) bool {
	return v == protocol.Version1 || v == protocol.Version2
}

func (c *c08Ctx) longHeaderBytes(b []byte) string {
	hdr, ext, pdata, rest, err := c.c08ParseLong(b)
	// demanded rejection: connection IDs longer than 20 bytes in a v1/v2 long header
	if len(b) >= 6 && b[0]&0x80 != 0 {
		v := protocol.Version(uint32(b[1])<<24 | uint32(b[2])<<16 | uint32(b[3])<<8 | uint32(b[4]))
		if c08SupportedVersion(v) && b[0]&0x40 != 0 {
			dl := int(b[5])
			tooLong := dl > 20
			if !tooLong && len(b) >= 7+dl && int(b[6+dl]) > 20 {
				tooLong = true
			}
			if tooLong && (err == nil || errors.Is(err, ErrInvalidReservedBits)) {
				c.fail("accepts-invalid:long-header:connection ID length > 20", "ParsePacket accepted a %s long header with a connection ID longer than 20 bytes: %s", v, c08Hex(b))
			}
		}
	}
	if err != nil && !errors.Is(err, ErrInvalidReservedBits) {
		if errors.Is(err, ErrUnsupportedVersion) {
			if hdr == nil {
				return "unsupported-version-nil"
			}
			if hdr.ParsedLen() < 0 || int(hdr.ParsedLen()) > len(b) {
				c.fail("consumed-range:long-header", "unsupported-version header reports %d parsed bytes of %d: %s", hdr.ParsedLen(), len(b), c08Hex(b))
			}
			return "unsupported-version"
		}
		return "err:" + c08ErrClass(err)
	}
	// parsed
	if len(pdata)+len(rest) != len(b) || len(pdata) > len(b) || !c08BytesEq(pdata, b[:len(pdata)]) {
		c.fail("consumed-range:ParsePacket", "ParsePacket returned %d+%d bytes for a %d byte input %s", len(pdata), len(rest), len(b), c08Hex(b))
		return "bad-length"
	}
	if hdr.ParsedLen() < 0 || hdr.Length < 0 || int(hdr.ParsedLen()+hdr.Length) != len(pdata) {
		c.fail("consumed:ParsePacket", "ParsePacket cut the packet at %d but reports ParsedLen %d + Length %d; input %s", len(pdata), hdr.ParsedLen(), hdr.Length, c08Hex(b))
		return "bad-length"
	}
	retry := hdr.Type == protocol.PacketTypeRetry
	if !retry {
		if ext.ParsedLen() != hdr.ParsedLen()+protocol.ByteCount(ext.PacketNumberLen) || int(ext.ParsedLen()) > len(pdata) {
			c.fail("consumed:ParseExtended", "ParseExtended reports %d parsed bytes (header %d, packet number length %d, packet %d bytes); input %s", ext.ParsedLen(), hdr.ParsedLen(), ext.PacketNumberLen, len(pdata), c08Hex(b))
			return "bad-length"
		}
	}
	// exactness: the packet cut at the reported end parses to the same header, nothing left
	if len(rest) > 0 {
		_, ext1, pdata1, rest1, err1 := c.c08ParseLong(pdata)
		if (err1 != nil && !errors.Is(err1, ErrInvalidReservedBits)) || ext1 == nil {
			c.fail("consumed-exact:long-header", "packet cut at the reported end (%d) does not parse: %v; input %s", len(pdata), err1, c08Hex(b))
		} else if len(rest1) != 0 || len(pdata1) != len(pdata) {
			c.fail("consumed-exact:long-header", "packet cut at the reported end (%d) reports %d+%d; input %s", len(pdata), len(pdata1), len(rest1), c08Hex(b))
		} else if d := c08ExtDiff(ext, ext1); d != "" {
			c.fail("consumed-exact:long-header."+d, "packet cut at the reported end parses differently (%s): %s vs %s; input %s", d, c08ExtString(ext), c08ExtString(ext1), c08Hex(b))
		}
	}
	// re-encode
	var enc []byte
	var aerr error
	var predicted protocol.ByteCount
	okEnc := c.guardReencode("long-header", b, func() {
		c.trans++
		enc, aerr = ext.Append(nil, hdr.Version)
		if aerr == nil && !retry {
			predicted = ext.GetLength(hdr.Version)
		}
	})
	if !okEnc {
		return "reencode-panic"
	}
	if aerr != nil {
		c.outcome("long|reencode-refused")
		return "parsed-" + hdr.Type.String()
	}
	if !retry && int(predicted) != len(enc) {
		c.fail("length:long-header", "GetLength = %d but Append wrote %d bytes (%x) for %s parsed from %s", predicted, len(enc), enc, c08ExtString(ext), c08Hex(b))
	}
	var pkt []byte
	if retry {
		pkt = append(append([]byte(nil), enc...), pdata[len(pdata)-16:]...) // integrity tag
	} else {
		pkt = append(append([]byte(nil), enc...), pdata[ext.ParsedLen():]...) // payload after the packet number
	}
	_, ext2, pdata2, rest2, err2 := c.c08ParseLong(pkt)
	switch {
	case err2 != nil || ext2 == nil:
		c.fail("reparse-reject:long-header", "re-encoding %x of %s (parsed from %s) does not parse: %v", pkt, c08ExtString(ext), c08Hex(b), err2)
	case len(rest2) != 0 || len(pdata2) != len(pkt):
		c.fail("reparse-consumed:long-header", "re-encoding %x of %s: parsing it returns %d+%d bytes", pkt, c08ExtString(ext), len(pdata2), len(rest2))
	case !retry && int(ext2.ParsedLen()) != len(enc):
		c.fail("reparse-consumed:long-header", "re-encoded header %x is %d bytes, parsing it consumed %d", enc, len(enc), ext2.ParsedLen())
	default:
		if d := c08ExtDiff(ext, ext2); d != "" {
			c.fail("reparse-differs:long-header."+d, "parse(%s) = %s, its re-encoding %x parses to %s", c08Hex(b), c08ExtString(ext), pkt, c08ExtString(ext2))
		}
	}
	res := "parsed-" + hdr.Type.String()
	if errors.Is(err, ErrInvalidReservedBits) {
		res += "-reserved-bits"
	}
	return res
}

// c08LongValue is a structured long header plus the payload length that follows the
// packet number.
type c08LongValue struct {
	h       *ExtendedHeader
	payload int
}

// checkLongHeaderValue: Append, GetLength prediction, parse back to an equal header.
// Returns the full packet (header + payload [+ retry tag]).
func (c *c08Ctx) checkLongHeaderValue(x c08LongValue) []byte {
	c.execs++
	h := x.h
	var enc []byte
	var aerr error
	var predicted protocol.ByteCount
	retry := h.Type == protocol.PacketTypeRetry
	if !c.guard("ExtendedHeader.Append/GetLength of "+c08ExtString(h), nil, func() {
		c.trans++
		enc, aerr = h.Append(nil, h.Version)
		if aerr == nil && !retry {
			predicted = h.GetLength(h.Version)
		}
	}) {
		return nil
	}
	if aerr != nil {
		c.outcome("long|encode-refused")
		return nil
	}
	if !retry && int(predicted) != len(enc) {
		c.fail("length:long-header", "GetLength = %d but Append wrote %d bytes (%x) for %s", predicted, len(enc), enc, c08ExtString(h))
	}
	pkt := append([]byte(nil), enc...)
	if retry {
		pkt = append(pkt, c08Data(16, 0x77)...)
	} else {
		pkt = append(pkt, c08Data(x.payload, 0x55)...)
	}
	c.guard("ParsePacket/ParseExtended", pkt, func() {
		_, ext, pdata, rest, err := c.c08ParseLong(pkt)
		switch {
		case err != nil || ext == nil:
			c.fail("roundtrip-reject:long-header", "%s encoded as %x does not parse: %v", c08ExtString(h), pkt, err)
		case len(rest) != 0 || len(pdata) != len(pkt):
			c.fail("roundtrip-consumed:long-header", "%s encoded as %x (%d bytes): ParsePacket returned %d+%d", c08ExtString(h), pkt, len(pkt), len(pdata), len(rest))
		case !retry && int(ext.ParsedLen()) != len(enc):
			c.fail("roundtrip-consumed:long-header", "%s: header %x is %d bytes, parsing consumed %d", c08ExtString(h), enc, len(enc), ext.ParsedLen())
		case retry && int(ext.Header.ParsedLen()) != len(pkt):
			c.fail("roundtrip-consumed:long-header", "%s: retry packet %x is %d bytes, parsing consumed %d", c08ExtString(h), pkt, len(pkt), ext.Header.ParsedLen())
		default:
			if d := c08ExtDiff(h, ext); d != "" {
				c.fail("roundtrip-differs:long-header."+d, "%s encoded as %x parses to %s", c08ExtString(h), pkt, c08ExtString(ext))
			}
			c.outcome("long|roundtrip-" + h.Type.String() + "-" + h.Version.String())
		}
	})
	return pkt
}

var c08PNBounds = map[protocol.PacketNumberLen][]uint64{
	1: {0, 1, 0x7f, 0x80, 0xff},
	2: {0, 0xff, 0x100, 0x7fff, 0x8000, 0xffff},
	3: {0, 0xffff, 0x10000, 0x7fffff, 0x800000, 0xffffff},
	4: {0, 0xffffff, 0x1000000, 0x7fffffff, 0x80000000, 0xffffffff},
}

var c08CIDLens = []int{0, 1, 8, 20}

// c08LongGens: Type x Version x DCID length x SCID length x token length x packet number
// length x packet number x payload length.
func c08LongGens() []func(emit func(x c08LongValue)) {
	var gens []func(emit func(x c08LongValue))
	types := []protocol.PacketType{protocol.PacketTypeInitial, protocol.PacketType0RTT, protocol.PacketTypeHandshake, protocol.PacketTypeRetry}
	for _, typ := range types {
		for _, v := range c08Versions {
			for _, dl := range c08CIDLens {
				typ, v, dl := typ, v, dl
				gens = append(gens, func(emit func(x c08LongValue)) {
					for _, sl := range c08CIDLens {
						tokLens := []int{0}
						if typ == protocol.PacketTypeInitial {
							tokLens = []int{0, 1, 63, 64, 257} // 257 = 1 + 2^8: aliases 1 when the length is narrowed to 8 bits
						} else if typ == protocol.PacketTypeRetry {
							tokLens = []int{1, 63, 64}
						}
						for _, tl := range tokLens {
							base := Header{Type: typ, Version: v, DestConnectionID: c08ConnID(dl, 0xd0), SrcConnectionID: c08ConnID(sl, 0x50), Token: c08Data(tl, 0x70)}
							if typ == protocol.PacketTypeRetry {
								emit(c08LongValue{h: &ExtendedHeader{Header: base}})
								continue
							}
							for pnl := protocol.PacketNumberLen(1); pnl <= 4; pnl++ {
								for _, pn := range c08PNBounds[pnl] {
									for _, pl := range []int{0, 1, 63, 64, 16383 - int(pnl)} {
										if tl > 64 && (pl != 1 || pn != c08PNBounds[pnl][0]) {
											continue // the long token: one packet number and payload per packet number length
										}
										hh := base
										hh.Length = protocol.ByteCount(int(pnl) + pl)
										emit(c08LongValue{h: &ExtendedHeader{Header: hh, PacketNumberLen: pnl, PacketNumber: protocol.PacketNumber(pn)}, payload: pl})
									}
								}
							}
						}
					}
				})
			}
		}
	}
	return gens
}

// c08RefLongHeader builds long header bytes from raw field values with the reference
// encoder: any first byte, version, connection ID length bytes (with that many bytes
// following, capped by what is given), token length / Length as varints of chosen width.
func c08RefLongHeader(first byte, version uint32, dcidLen, scidLen int, tokenLen uint64, hasToken bool, length uint64, widths int, tail int) []byte {
	b := []byte{first, byte(version >> 24), byte(version >> 16), byte(version >> 8), byte(version)}
	b = append(b, byte(dcidLen))
	b = append(b, c08Data(dcidLen, 0xd0)...)
	b = append(b, byte(scidLen))
	b = append(b, c08Data(scidLen, 0x50)...)
	w := func(v uint64) int {
		if widths == 0 {
			return c08RefVarintLen(v)
		}
		return 8
	}
	if hasToken {
		b = c08RefAppendVarintN(b, tokenLen, w(tokenLen))
		n := tokenLen
		if n > 64 {
			n = 64
		}
		b = append(b, c08Data(int(n), 0x70)...)
	}
	b = c08RefAppendVarintN(b, length, w(length))
	return append(b, c08Data(tail, 0x55)...)
}

// checkShortHeaderBytes: ParseShortHeader with the given connection ID length.
func (c *c08Ctx) checkShortHeaderBytes(b []byte, connIDLen int) string {
	c.execs++
	out := "PANIC"
	c.guard(fmt.Sprintf("ParseShortHeader(connIDLen=%d)", connIDLen), b, func() { out = c.shortHeaderBytes(b, connIDLen) })
	c.outcome("short|" + out)
	return out
}

func (c *c08Ctx) shortHeaderBytes(b []byte, connIDLen int) string {
	c.trans++
	l, pn, pnLen, kp, err := ParseShortHeader(b, connIDLen)
	if err != nil && !errors.Is(err, ErrInvalidReservedBits) {
		return "err:" + c08ErrClass(err)
	}
	if l != 1+connIDLen+int(pnLen) || l > len(b) || pnLen < 1 || pnLen > 4 {
		c.fail("consumed:short-header", "ParseShortHeader(connIDLen %d) reports length %d, packet number length %d, input %s", connIDLen, l, pnLen, c08Hex(b))
		return "bad-length"
	}
	// exactness
	l1, pn1, pnLen1, kp1, err1 := ParseShortHeader(b[:l], connIDLen)
	if (err1 != nil && !errors.Is(err1, ErrInvalidReservedBits)) || l1 != l || pn1 != pn || pnLen1 != pnLen || kp1 != kp {
		c.fail("consumed-exact:short-header", "short header cut at the reported end (%d) parses differently: (%d,%d,%d,%v,%v); input %s", l, l1, pn1, pnLen1, kp1, err1, c08Hex(b))
	}
	connID := protocol.ParseConnectionID(b[1 : 1+connIDLen])
	var enc []byte
	var aerr error
	var predicted protocol.ByteCount
	if !c.guardReencode("short-header", b, func() {
		c.trans++
		enc, aerr = AppendShortHeader(nil, connID, pn, pnLen, kp)
		predicted = ShortHeaderLen(connID, pnLen)
	}) {
		return "reencode-panic"
	}
	if aerr != nil {
		return "reencode-refused"
	}
	if int(predicted) != len(enc) {
		c.fail("length:short-header", "ShortHeaderLen = %d but AppendShortHeader wrote %d bytes (%x); parsed from %s", predicted, len(enc), enc, c08Hex(b))
	}
	c.trans++
	l2, pn2, pnLen2, kp2, err2 := ParseShortHeader(enc, connIDLen)
	switch {
	case err2 != nil:
		c.fail("reparse-reject:short-header", "re-encoding %x (parsed from %s) does not parse: %v", enc, c08Hex(b), err2)
	case l2 != len(enc):
		c.fail("reparse-consumed:short-header", "re-encoding %x is %d bytes, parsing consumed %d", enc, len(enc), l2)
	case pn2 != pn || pnLen2 != pnLen || kp2 != kp:
		c.fail("reparse-differs:short-header", "parse(%s) = (pn %d, len %d, kp %v), re-encoding %x parses to (pn %d, len %d, kp %v)", c08Hex(b), pn, pnLen, kp, enc, pn2, pnLen2, kp2)
	case !c08BytesEq(enc[1:1+connIDLen], b[1:1+connIDLen]):
		c.fail("reparse-differs:short-header.connID", "re-encoding %x of %s changed the connection ID", enc, c08Hex(b))
	}
	if errors.Is(err, ErrInvalidReservedBits) {
		return "parsed-reserved-bits"
	}
	return fmt.Sprintf("parsed-pnlen%d", pnLen)
}

// checkShortHeaderValue: encoder -> predicted length -> parser.
func (c *c08Ctx) checkShortHeaderValue(connID protocol.ConnectionID, pn protocol.PacketNumber, pnLen protocol.PacketNumberLen, kp protocol.KeyPhaseBit) []byte {
	c.execs++
	var enc []byte
	c.guard("AppendShortHeader/ParseShortHeader", nil, func() {
		c.trans += 2
		e, err := AppendShortHeader(nil, connID, pn, pnLen, kp)
		if err != nil {
			c.outcome("short|encode-refused")
			return
		}
		enc = e
		if int(ShortHeaderLen(connID, pnLen)) != len(e) {
			c.fail("length:short-header", "ShortHeaderLen = %d but AppendShortHeader wrote %d bytes (%x)", ShortHeaderLen(connID, pnLen), len(e), e)
		}
		l, pn2, pnLen2, kp2, err := ParseShortHeader(e, connID.Len())
		switch {
		case err != nil:
			c.fail("roundtrip-reject:short-header", "short header (pn %d, len %d, kp %v, cid %s) encoded as %x does not parse: %v", pn, pnLen, kp, connID, e, err)
		case l != len(e):
			c.fail("roundtrip-consumed:short-header", "short header %x is %d bytes, parsing consumed %d", e, len(e), l)
		case pn2 != pn || pnLen2 != pnLen || kp2 != kp:
			c.fail("roundtrip-differs:short-header", "short header (pn %d, len %d, kp %v) encoded as %x parses to (pn %d, len %d, kp %v)", pn, pnLen, kp, e, pn2, pnLen2, kp2)
		default:
			c.outcome(fmt.Sprintf("short|roundtrip-pnlen%d", pnLen))
		}
	})
	return enc
}

func c08IsReservedVersion(v protocol.Version) bool { return uint32(v)&0x0f0f0f0f == 0x0a0a0a0a }

// checkVNBytes: ParseVersionNegotiationPacket and ParseArbitraryLenConnectionIDs.
func (c *c08Ctx) checkVNBytes(b []byte) string {
	c.execs++
	out := "PANIC"
	c.guard("ParseVersionNegotiationPacket", b, func() { out = c.vnBytes(b) })
	c.outcome("vn|" + out)
	return out
}

func (c *c08Ctx) vnBytes(b []byte) string {
	c.trans += 2
	n, d0, s0, err0 := ParseArbitraryLenConnectionIDs(b)
	if err0 == nil {
		if n != 7+len(d0)+len(s0) || n > len(b) {
			c.fail("consumed:ParseArbitraryLenConnectionIDs", "ParseArbitraryLenConnectionIDs reports %d parsed bytes for connection IDs of %d and %d bytes; input %s", n, len(d0), len(s0), c08Hex(b))
		} else if n1, d1, s1, err1 := ParseArbitraryLenConnectionIDs(b[:n]); err1 != nil || n1 != n || !c08BytesEq(d0, d1) || !c08BytesEq(s0, s1) {
			c.fail("consumed-exact:ParseArbitraryLenConnectionIDs", "input cut at the reported end (%d) parses differently (%v); input %s", n, err1, c08Hex(b))
		}
	}
	dest, src, versions, err := ParseVersionNegotiationPacket(b)
	if err != nil {
		return "err:" + c08ErrClass(err)
	}
	if 7+len(dest)+len(src)+4*len(versions) != len(b) {
		c.fail("consumed:version-negotiation", "VN packet of %d bytes parsed into connection IDs of %d and %d bytes and %d versions; input %s", len(b), len(dest), len(src), len(versions), c08Hex(b))
		return "bad-length"
	}
	var enc []byte
	if !c.guardReencode("version-negotiation", b, func() {
		c.trans++
		enc = ComposeVersionNegotiation(dest, src, versions)
	}) {
		return "reencode-panic"
	}
	// the composer predicts (and allocates) exactly one more version: the greased one
	if want := len(b) + 4; len(enc) != want {
		c.fail("length:version-negotiation", "re-composed VN packet is %d bytes, predicted %d; parsed from %s", len(enc), want, c08Hex(b))
	}
	c.trans++
	dest2, src2, versions2, err2 := ParseVersionNegotiationPacket(enc)
	switch {
	case err2 != nil:
		c.fail("reparse-reject:version-negotiation", "re-composed VN packet %x (from %s) does not parse: %v", enc, c08Hex(b), err2)
	case !c08BytesEq(dest, dest2) || !c08BytesEq(src, src2):
		c.fail("reparse-differs:version-negotiation.connID", "re-composed VN packet %x (from %s) has other connection IDs", enc, c08Hex(b))
	default:
		if !c08VersionsMatch(versions, versions2) {
			c.fail("reparse-differs:version-negotiation.versions", "VN versions %v re-composed and parsed are %v (expected the same list plus one reserved version)", versions, versions2)
		}
	}
	return fmt.Sprintf("parsed-%d-versions", min(len(versions), 4))
}

// c08VersionsMatch: got == want with exactly one reserved (greased) version inserted.
func c08VersionsMatch(want, got []protocol.Version) bool {
	if len(got) != len(want)+1 {
		return false
	}
	for skip := range got {
		if !c08IsReservedVersion(got[skip]) {
			continue
		}
		ok := true
		for i, j := 0, 0; i < len(got); i++ {
			if i == skip {
				continue
			}
			if got[i] != want[j] {
				ok = false
				break
			}
			j++
		}
		if ok {
			return true
		}
	}
	return false
}

// checkVNValue: ComposeVersionNegotiation -> parser. Returns a deterministic encoding of
// the same packet (the composer randomises the first byte and the greased version).
func (c *c08Ctx) checkVNValue(dest, src protocol.ArbitraryLenConnectionID, versions []protocol.Version) []byte {
	c.execs++
	c.guard("ComposeVersionNegotiation/ParseVersionNegotiationPacket", nil, func() {
		c.trans += 2
		enc := ComposeVersionNegotiation(dest, src, versions)
		if want := 7 + len(dest) + len(src) + 4*(len(versions)+1); len(enc) != want {
			c.fail("length:version-negotiation", "VN packet for connection IDs of %d/%d bytes and %d versions is %d bytes, predicted %d", len(dest), len(src), len(versions), len(enc), want)
		}
		if !IsVersionNegotiationPacket(enc) {
			c.fail("roundtrip-differs:version-negotiation.kind", "composed VN packet is not recognised by IsVersionNegotiationPacket (connection IDs %d/%d bytes)", len(dest), len(src))
		}
		d2, s2, v2, err := ParseVersionNegotiationPacket(enc)
		switch {
		case err != nil:
			c.fail("roundtrip-reject:version-negotiation", "composed VN packet (connection IDs %d/%d bytes, versions %v) does not parse: %v", len(dest), len(src), versions, err)
		case !c08BytesEq(dest, d2) || !c08BytesEq(src, s2):
			c.fail("roundtrip-differs:version-negotiation.connID", "composed VN packet (connection IDs %x/%x) parses to %x/%x", []byte(dest), []byte(src), []byte(d2), []byte(s2))
		case !c08VersionsMatch(versions, v2):
			c.fail("roundtrip-differs:version-negotiation.versions", "composed VN packet for versions %v parses to %v", versions, v2)
		default:
			c.outcome(fmt.Sprintf("vn|roundtrip-%d-versions", len(versions)))
		}
	})
	// deterministic twin for the mutation stage
	b := []byte{0xc0, 0, 0, 0, 0, byte(len(dest))}
	b = append(b, dest...)
	b = append(b, byte(len(src)))
	b = append(b, src...)
	for _, v := range versions {
		b = append(b, byte(v>>24), byte(v>>16), byte(v>>8), byte(v))
	}
	return b
}

// checkConnIDHelpers: the stand-alone helpers that look at raw packets.
func (c *c08Ctx) checkConnIDHelpers(b []byte, shortLen int) {
	c.execs++
	c.guard("ParseConnectionID/ParseVersion/Is0RTTPacket/IsVersionNegotiationPacket", b, func() {
		c.trans += 4
		id, err := ParseConnectionID(b, shortLen)
		if err == nil && len(b) >= 6 && b[0]&0x80 != 0 && b[5] > 20 {
			c.fail("accepts-invalid:ParseConnectionID:connection ID length > 20", "ParseConnectionID accepted a long header with destination connection ID length %d (returned %s): %s", b[5], id, c08Hex(b))
		}
		_, verr := ParseVersion(b)
		z := Is0RTTPacket(b)
		vn := IsVersionNegotiationPacket(b)
		c.outcome(fmt.Sprintf("helpers|cid:%s,version:%s,0rtt:%v,vn:%v", c08ErrClass(err), c08ErrClass(verr), z, vn))
	})
}
