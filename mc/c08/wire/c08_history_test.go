package wire

// C08 part "frame-history": one FrameParser, several frames (history independence).
//
// A connection owns ONE FrameParser for its whole life. The parser keeps state between
// calls: the peer's ack delay exponent (zero until SetAckDelayExponent is called with the
// peer's transport parameters, i.e. after Initial / Handshake frames have already gone
// through the same parser), the single AckFrame value it hands out over and over again, the
// three supported-extension flags; STREAM frames come from a pool. The statement talks about
// parsing a byte string (a function of the bytes and of the negotiated settings): "every
// value the encoders can produce parses back to an equal value", "re-encoding anything that
// parsed successfully parses to the same result again". So the result of parsing a frame
// must not depend on which frames the same parser has parsed before.
//
// Alphabet (operations on ONE fresh parser built with one of the 8 flag combinations):
//   Parse(item)               item = (one frame as bytes, encryption level), see c08HistItems
//   SetAckDelayExponent(e)    once per history, before the first frame or between two frames
// Model state: the exponent in force (0 until the Set). Oracle for every Parse step:
//   * accept/reject, both reported lengths and every field of the parsed value equal what a
//     FRESH parser with the same flags and the exponent in force returns for that frame alone;
//   * the value re-encodes (Append length == Length()), and the SAME parser parses the
//     re-encoding completely to the same value again (an ACK delay is compared only where the
//     parser applies the exponent the encoder uses, 3; elsewhere it must equal what a fresh
//     parser with the same settings makes of the re-encoding).

import (
	"fmt"
	"strings"

	"github.com/refraction-networking/uquic/internal/protocol"
	"github.com/refraction-networking/uquic/internal/verifmc/explore"
)

// c08HistItem is one letter of the alphabet: one frame (possibly one the parser has to
// refuse) at one encryption level.
type c08HistItem struct {
	label string // names the frame in violation keys (no spaces)
	lvl   protocol.EncryptionLevel
	b     []byte
}

func (it c08HistItem) String() string { return it.label + "@" + it.lvl.String() }

// keyName is the coarse name used in violation keys: variants of one frame type share it,
// so that one root cause gives a handful of keys rather than one per pair of variants.
func (it c08HistItem) keyName() string {
	n := it.label
	if i := strings.IndexByte(n, '('); i > 0 {
		n = n[:i]
		if strings.Contains(it.label, "(truncated)") || strings.Contains(it.label, "(invalid") {
			n += "(refused)"
		}
	}
	if n == "ACK_ECN" || n == "ACK_ECN(refused)" {
		n = "ACK" + n[len("ACK_ECN"):]
	}
	return n + "@" + it.lvl.String()
}

func c08HistItems() []c08HistItem {
	const (
		ini = protocol.EncryptionInitial
		hsk = protocol.EncryptionHandshake
		zer = protocol.Encryption0RTT
		one = protocol.Encryption1RTT
	)
	var items []c08HistItem
	add := func(label, hexBytes string, lvls ...protocol.EncryptionLevel) {
		for _, l := range lvls {
			items = append(items, c08HistItem{label: label, lvl: l, b: c08Unhex(hexBytes)})
		}
	}
	// ACK family: non-zero delays, so that the exponent in force is visible in the result
	add("ACK", "02"+"05"+"43e8"+"00"+"02", ini, hsk, one)                               // largest 5, delay 1000, range 3..5
	add("ACK(3-ranges)", "02"+"4064"+"01"+"02"+"05"+"03"+"04"+"00"+"01", ini, hsk, one) // 95..100, 86..90, 83..84; delay 1
	add("ACK_ECN", "03"+"0a"+"19"+"00"+"00"+"01"+"02"+"03", ini, hsk, one)              // largest 10, delay 25, ECN 1,2,3
	add("ACK(delay-2^43)", "02"+"05"+"c000080000000000"+"00"+"02", hsk, one)            // saturates for exponent 20 only
	add("ACK_ECN(truncated)", "03"+"0a"+"19"+"01"+"00"+"00"+"01"+"07", ini, one)        // two ranges and one ECN count, then the end
	add("ACK(invalid-range)", "02"+"01"+"05"+"00"+"02", hsk, one)                       // first range longer than largest acknowledged
	// other frame types, with the levels that admit them and one that does not
	add("PING", "01", ini, one)
	add("PADDING+PING", "000001", hsk)
	add("CRYPTO", "06"+"00"+"03"+"aabbcc", ini, hsk, zer)
	add("STREAM", "0f"+"04"+"10"+"03"+"616263", ini, zer, one)
	add("STREAM(130-bytes)", "0b"+"08"+"4082"+fmt.Sprintf("%x", c08Data(130, 0x41)), one) // pooled frame, FIN
	add("STREAM(140-bytes)", "0c"+"08"+"07"+fmt.Sprintf("%x", c08Data(140, 0x17)), one)   // pooled frame, offset, no length, no FIN
	add("DATAGRAM", "31"+"02"+"aabb", zer, one)
	add("RESET_STREAM_AT", "24"+"04"+"07"+"0a"+"05", zer, one)
	add("ACK_FREQUENCY", "40af"+"01"+"02"+"19"+"03", one)
	add("IMMEDIATE_ACK", "1f", one)
	add("CONNECTION_CLOSE", "1c"+"0a"+"02"+"03"+"616263", ini, one)
	add("HANDSHAKE_DONE", "1e", hsk, one)
	add("MAX_STREAMS", "12"+"4064", one)
	add("NEW_CONNECTION_ID", "18"+"02"+"01"+"04"+"c1c2c3c4"+"000102030405060708090a0b0c0d0e0f", one)
	add("unknown-type-0x21", "21"+"00", one)
	return items
}

var c08HistExps = []uint8{0, 3, 10, 20}
var c08HistExpsThorough = []uint8{0, 1, 3, 4, 10, 20}

// c08HistRef is what a fresh parser makes of one item alone.
type c08HistRef struct {
	f      Frame // private copy; nil when the parser refuses the input
	tl, n  int
	reject bool
	out    string
}

// c08Hist is the per-chunk context of the history part (never shared between goroutines).
type c08Hist struct {
	items       []c08HistItem
	dg, rsa, af bool
	exps        []uint8
	refs        [][]c08HistRef // [item][index into exps]
}

func (h *c08Hist) cfg(lvl protocol.EncryptionLevel, exp uint8) c08FrameCfg {
	return c08FrameCfg{lvl: lvl, dg: h.dg, rsa: h.rsa, af: h.af, exp: exp}
}

func (h *c08Hist) fresh(exp uint8) *FrameParser {
	p := NewFrameParser(h.dg, h.rsa, h.af)
	p.SetAckDelayExponent(exp)
	return p
}

// c08HistCopy returns a value that no later use of any parser or of the STREAM frame pool
// can change.
func c08HistCopy(f Frame) Frame {
	switch x := f.(type) {
	case *AckFrame:
		return c08Snap(x)
	case *StreamFrame:
		return &StreamFrame{StreamID: x.StreamID, Offset: x.Offset, Fin: x.Fin, DataLenPresent: x.DataLenPresent, Data: append([]byte(nil), x.Data...)}
	}
	return f
}

func (c *c08Ctx) newHist(dg, rsa, af bool, exps []uint8) *c08Hist {
	h := &c08Hist{items: c08HistItems(), dg: dg, rsa: rsa, af: af, exps: exps}
	explore.Must(exps[0] == 0, "the first exponent has to be the parser's initial one")
	h.refs = make([][]c08HistRef, len(h.items))
	for i, it := range h.items {
		h.refs[i] = make([]c08HistRef, len(exps))
		for ei, e := range exps {
			r := &h.refs[i][ei]
			g := h.cfg(it.lvl, e)
			c.guard("fresh FrameParser["+g.String()+"]", it.b, func() {
				_, f, tl, n, err := c.c08ParseOne(h.fresh(e), g, it.b, protocol.Version1)
				r.tl, r.n = tl, n
				if err != nil || f == nil {
					r.reject = true
					r.out = "history|" + it.String() + "|rejected"
				} else {
					r.f = c08HistCopy(f)
					r.out = "history|" + it.String() + "|" + c08FrameKind(f)
				}
				c08Release(f)
			})
			if r.out == "" { // panicked: reported by guard; nothing to compare against
				r.reject = true
				r.out = "history|" + it.String() + "|PANIC"
			}
		}
	}
	return h
}

// diff compares one parse result of the shared parser with the fresh parser's.
func (r *c08HistRef) diff(f Frame, tl, n int, err error) string {
	rejected := err != nil || f == nil
	switch {
	case rejected != r.reject:
		if rejected {
			return "rejected-instead-of-accepted"
		}
		return "accepted-instead-of-rejected"
	case rejected:
		return ""
	case tl != r.tl || n != r.n:
		return "consumed"
	}
	return c08FrameDiff(r.f, f)
}

// step parses item it with p (exponent index ei in force) and returns the difference to
// the fresh parser's result ("" = none) together with the parsed frame.
func (c *c08Ctx) histStep(h *c08Hist, p *FrameParser, it, ei int) (d string, f Frame, err error) {
	item := &h.items[it]
	_, f, tl, n, err := c.c08ParseOne(p, h.cfg(item.lvl, h.exps[ei]), item.b, protocol.Version1)
	return h.refs[it][ei].diff(f, tl, n, err), f, err
}

// histSeq runs one history: a fresh parser, SetAckDelayExponent(exps[ei]) before step
// setPos, the items of seq in order.
func (c *c08Ctx) histSeq(h *c08Hist, seq []int, ei, setPos int) {
	c.execs++
	p := NewFrameParser(h.dg, h.rsa, h.af)
	cur := 0
	for k, it := range seq {
		if k == setPos {
			p.SetAckDelayExponent(h.exps[ei])
			cur = ei
		}
		d, f, _ := c.histStep(h, p, it, cur)
		if d != "" {
			c.histFail(h, seq, k, ei, setPos, d, f)
			c08Release(f)
			return // the parser's state is not the model's any more
		}
		ref := &h.refs[it][cur]
		c.outcome(ref.out)
		if ref.reject {
			continue
		}
		own := c08HistCopy(f)
		c08Release(f)
		c.histRoundTrip(h, p, seq, k, ei, setPos, cur, own)
	}
}

// histRoundTrip: f was parsed by p (step k of the history) and equals the fresh parser's
// result. Its re-encoding has to have the predicted length and p has to parse it back.
func (c *c08Ctx) histRoundTrip(h *c08Hist, p *FrameParser, seq []int, k, ei, setPos, cur int, f Frame) {
	item := &h.items[seq[k]]
	g := h.cfg(item.lvl, h.exps[cur])
	kind := c08FrameKind(f)
	where := kind + "@" + item.lvl.String()
	var enc []byte
	var aerr error
	var predicted protocol.ByteCount
	if !c.guardReencode(kind, item.b, func() {
		c.trans++
		enc, aerr = f.Append(nil, protocol.Version1)
		if aerr == nil {
			predicted = f.Length(protocol.Version1)
		}
	}) {
		return
	}
	if aerr != nil {
		c.outcome("history|reencode-refused:" + kind)
		return
	}
	if int(predicted) != len(enc) {
		c.fail("length:"+kind, "%s.Length() = %d but Append wrote %d bytes for %s (%s)", kind, predicted, len(enc), c08FrameString(f), c.histDescribe(h, seq, k, ei, setPos))
	}
	_, f2, tl2, n2, err2 := c.c08ParseOne(p, g, enc, protocol.Version1)
	defer c08Release(f2)
	switch {
	case err2 != nil || f2 == nil:
		c.fail("reparse-reject:"+where+"[same-parser]", "%s: the re-encoding %x of %s does not parse on the parser that produced it: %v", c.histDescribe(h, seq, k, ei, setPos), enc, c08FrameString(f), err2)
		return
	case tl2+n2 != len(enc):
		c.fail("reparse-consumed:"+where+"[same-parser]", "%s: the re-encoding %x of %s is %d bytes long, parsing it consumed %d+%d", c.histDescribe(h, seq, k, ei, setPos), enc, c08FrameString(f), len(enc), tl2, n2)
		return
	}
	want := f
	if a, ok := f.(*AckFrame); ok && g.effExp() != protocol.AckDelayExponent {
		// the encoder scales the delay with its own exponent (3), this parser with the
		// peer's: the delay is not expected back. It still has to be what a fresh parser with
		// the same settings makes of the same bytes.
		_, f3, _, _, err3 := c.c08ParseOne(h.fresh(h.exps[cur]), g, enc, protocol.Version1)
		a3, ok := f3.(*AckFrame)
		if err3 != nil || !ok {
			c.fail("history-dependent:"+where+".accepted-instead-of-rejected[re-encoding]", "%s: the re-encoding %x of %s parses on the parser that produced it, a fresh parser with the same settings refuses it: %v", c.histDescribe(h, seq, k, ei, setPos), enc, c08FrameString(f), err3)
			return
		}
		cp := *a
		cp.DelayTime = a3.DelayTime
		want = &cp
	}
	if d := c08FrameDiff(want, f2); d != "" {
		c.fail("reparse-differs:"+where+"."+d+"[same-parser]", "%s: parsed %s, its re-encoding %x parses on the same parser to %s (field %s)", c.histDescribe(h, seq, k, ei, setPos), c08FrameString(f), enc, c08FrameString(f2), d)
	}
}

// histDescribe writes the history seq[0..k] as a call sequence.
func (c *c08Ctx) histDescribe(h *c08Hist, seq []int, k, ei, setPos int) string {
	var sb strings.Builder
	fmt.Fprintf(&sb, "NewFrameParser(datagrams=%v,resetStreamAt=%v,ackFrequency=%v)", h.dg, h.rsa, h.af)
	for i := 0; i <= k; i++ {
		if i == setPos {
			fmt.Fprintf(&sb, "; SetAckDelayExponent(%d)", h.exps[ei])
		}
		it := h.items[seq[i]]
		fmt.Fprintf(&sb, "; parse %s %x", it, it.b[:min(len(it.b), 24)])
	}
	return sb.String()
}

// histFail reports a history-dependent result at step k. The key names the frame, the
// differing field and the smallest part of the history that is needed: every single earlier
// frame is tried alone first (on a fresh parser, with the Set at the same relative
// position); when one of them suffices, that two-frame history is the one reported.
func (c *c08Ctx) histFail(h *c08Hist, seq []int, k, ei, setPos int, d string, got Frame) {
	got = c08HistCopy(got)
	rseq, rk, rset := seq, k, setPos
	for j := 0; j < k; j++ {
		sub := []int{seq[j], seq[k]}
		subSet := 0 // the Set happens before the first kept step whose original position is >= setPos
		if setPos > j {
			subSet = 1
		}
		if setPos > k {
			subSet = 2 // not inside this history
		}
		found := false
		c.guard("FrameParser history", h.items[seq[j]].b, func() {
			p := NewFrameParser(h.dg, h.rsa, h.af)
			cur := 0
			for i, it := range sub {
				if i == subSet {
					p.SetAckDelayExponent(h.exps[ei])
					cur = ei
				}
				di, fi, _ := c.histStep(h, p, it, cur)
				if i == 1 && di != "" {
					found, d, got = true, di, c08HistCopy(fi)
				}
				c08Release(fi)
				if di != "" {
					return
				}
			}
		})
		if found {
			rseq, rk, rset = sub, 1, subSet
			break
		}
	}
	var hist []string
	for j := 0; j < rk; j++ {
		hist = append(hist, h.items[rseq[j]].keyName())
	}
	after := strings.Join(hist, ",")
	if after == "" {
		after = "nothing"
	}
	cur := 0
	if rset <= rk {
		cur = ei
	}
	item := h.items[rseq[rk]]
	ref := &h.refs[rseq[rk]][cur]
	key := fmt.Sprintf("history-dependent:%s.%s[after=%s]", item.keyName(), d, after)
	c.fail(key, "%s -> %s; a fresh parser with the same settings (exponent %d in force) returns %s for that frame alone (difference: %s)",
		c.histDescribe(h, rseq, rk, ei, rset), c08HistResult(got), h.exps[cur], c08HistResult(ref.f), d)
	c.outcome("history|DEPENDS-ON-HISTORY")
}

func c08HistResult(f Frame) string {
	if f == nil {
		return "an error"
	}
	return c08FrameString(f)
}

// c08FrameHistoryPart: one chunk per (first item, flag combination).
func c08FrameHistoryPart(thorough bool) c08PartSpec {
	items := c08HistItems()
	exps := c08HistExps
	if thorough {
		exps = c08HistExpsThorough
	}
	var chunks []c08Chunk
	for first := range items {
		for fl := 0; fl < 8; fl++ {
			first, fl := first, fl
			chunks = append(chunks, func(c *c08Ctx) {
				h := c.newHist(fl&1 != 0, fl&2 != 0, fl&4 != 0, exps)
				maxLen := 3
				if c.thorough && (fl == 0 || fl == 7) {
					maxLen = 4
				}
				seq := make([]int, 0, maxLen)
				var rec func()
				rec = func() {
					for ei := range h.exps {
						for setPos := 0; setPos < len(seq); setPos++ {
							s, e, sp := seq, ei, setPos
							c.guard("FrameParser history", h.items[s[len(s)-1]].b, func() { c.histSeq(h, s, e, sp) })
						}
					}
					if len(seq) == 2 && fl == 7 && seq[1] == 2 {
						c.sample("%s", c.histDescribe(h, seq, 1, 2, 0)+" -> "+h.refs[seq[1]][2].out)
					}
					if len(seq) == maxLen {
						return
					}
					for it := range h.items {
						seq = append(seq, it)
						rec()
						seq = seq[:len(seq)-1]
					}
				}
				seq = append(seq, first)
				rec()
			})
		}
	}
	n := len(items)
	return c08PartSpec{chunks: chunks, bound: fmt.Sprintf("%d chunks: alphabet of %d (frame, level) letters = ACK / 3-range ACK / ACK_ECN / ACK with delay 2^43 / truncated ACK_ECN / ACK with an invalid range at Initial, Handshake, 1-RTT + 15 other frame kinds incl. pooled STREAM frames, extension frames, a frame refused at its level and an unknown type; every sequence of <= 3 letters (%d) x 8 flag combinations x SetAckDelayExponent(e), e in %v, before any step of the sequence (thorough: sequences of 4 for all / no extensions)", len(chunks), n, n+n*n+n*n*n, exps)}
}
