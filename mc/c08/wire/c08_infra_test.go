package wire

// C08 harness infrastructure (wire target): chunked bounded-exhaustive input enumeration on
// top of explore.RunCases. One case index = one chunk of the enumerated space; every single
// input inside a chunk runs under its own recover. Violations are collected per distinct
// Key (several keys per chunk are possible, which RunCases' one-Fail-per-case cannot
// express, so the part keeps its own recorder).

import (
	"encoding/hex"
	"encoding/json"
	"fmt"
	"runtime/debug"
	"sort"
	"strings"
	"sync"

	"github.com/refraction-networking/uquic/internal/qerr"
	"github.com/refraction-networking/uquic/internal/verifmc/explore"
)

// c08Chunk enumerates one chunk of a part's input space.
type c08Chunk func(c *c08Ctx)

type c08Fail struct{ key, what string }

// c08Ctx is the per-chunk context (never shared between goroutines).
type c08Ctx struct {
	thorough bool
	caseIdx  int
	outcomes map[string]struct{}
	fails    []c08Fail
	failKeys map[string]bool
	execs    int64 // inputs / values evaluated
	trans    int64 // calls into the real codecs
	samples  []string
	fr       *c08FrameRunner
	errCache map[string]string
	// admitFail: the last c08ParseOne call ended in a ParseType refusal that the admission
	// model (c08_admit_test.go) reported as a violation
	admitFail bool
}

func (c *c08Ctx) outcome(s string) {
	if _, ok := c.outcomes[s]; !ok {
		c.outcomes[s] = struct{}{}
	}
}

func (c *c08Ctx) fail(key, format string, a ...any) {
	if c.failKeys[key] {
		return
	}
	c.failKeys[key] = true
	c.fails = append(c.fails, c08Fail{key, fmt.Sprintf(format, a...)})
}

func (c *c08Ctx) sample(format string, a ...any) {
	if c.caseIdx == 0 && len(c.samples) < 4 {
		c.samples = append(c.samples, fmt.Sprintf(format, a...))
	}
}

// guard runs fn (which calls the real code) and converts a panic raised by the real code
// into a violation keyed by the panic site. A panic raised by the harness itself is a
// harness error (exit 2), never a verdict.
func (c *c08Ctx) guard(what string, in []byte, fn func()) (ok bool) {
	defer func() {
		if x := recover(); x != nil {
			site, real := c08PanicSite()
			if !real {
				explore.Must(false, "harness panic (%s, input %s): %v\n%s", what, c08Hex(in), x, debug.Stack())
			}
			c.fail("panic:"+site, "%s panicked on input %s: %v", what, c08Hex(in), x)
			c.outcome("PANIC:" + site)
			ok = false
		}
	}()
	fn()
	return true
}

// c08PanicSite returns the innermost repository function on the panicking stack. real is
// false when that function belongs to the harness (a harness bug).
func c08PanicSite() (site string, real bool) {
	lines := strings.Split(string(debug.Stack()), "\n")
	seenPanic := false
	first := ""
	for i := 0; i < len(lines); i++ {
		l := lines[i]
		if strings.HasPrefix(l, "panic(") {
			seenPanic = true
			first = ""
			continue
		}
		if !seenPanic || strings.HasPrefix(l, "\t") || l == "" {
			continue
		}
		if strings.HasPrefix(l, "runtime.") || strings.HasPrefix(l, "runtime/") {
			continue
		}
		name := l
		if j := strings.LastIndex(name, "("); j > 0 {
			name = name[:j]
		}
		short := name
		if j := strings.LastIndex(short, "/"); j >= 0 {
			short = short[j+1:]
		}
		if first == "" {
			first = short
		}
		if !strings.Contains(name, "refraction-networking/uquic") {
			continue
		}
		if strings.Contains(name, "verifmc") {
			return short, false
		}
		if strings.Contains(short, "c08") || strings.Contains(short, "C08") {
			return short, false
		}
		return short, true
	}
	return first, first != ""
}

func c08Hex(b []byte) string {
	if len(b) <= 96 {
		return fmt.Sprintf("%x(len %d)", b, len(b))
	}
	return fmt.Sprintf("%x..%x(len %d)", b[:64], b[len(b)-16:], len(b))
}

func c08Unhex(s string) []byte {
	b, err := hex.DecodeString(s)
	explore.Must(err == nil, "bad hex %q", s)
	return b
}

// c08ErrClass maps an error to a coarse class: digits and hex payloads are dropped so that
// the number of outcome classes stays bounded.
func c08ErrClass(err error) string {
	if err == nil {
		return "ok"
	}
	return c08StripDigits(err.Error())
}

// errClass is c08ErrClass with a per-chunk cache keyed by the message of transport errors
// (formatting a TransportError is the dominant cost of a rejected input otherwise).
func (c *c08Ctx) errClass(err error) string {
	te, ok := err.(*qerr.TransportError)
	if !ok {
		return c08ErrClass(err)
	}
	if cl, ok := c.errCache[te.ErrorMessage]; ok {
		return cl
	}
	if c.errCache == nil {
		c.errCache = map[string]string{}
	}
	cl := c08StripDigits(te.ErrorCode.String() + ": " + te.ErrorMessage)
	if len(c.errCache) < 4096 {
		c.errCache[te.ErrorMessage] = cl
	}
	return cl
}

func c08StripDigits(s string) string {
	var sb strings.Builder
	lastHash := false
	for _, r := range s {
		if (r >= '0' && r <= '9') || (lastHash && ((r >= 'a' && r <= 'f') || r == 'x')) {
			if !lastHash {
				sb.WriteByte('#')
				lastHash = true
			}
			continue
		}
		lastHash = false
		sb.WriteRune(r)
	}
	out := sb.String()
	if len(out) > 90 {
		out = out[:90]
	}
	return out
}

type c08Replay struct {
	Case int    `json:"case"`
	Key  string `json:"key"`
}

type c08PartSpec struct {
	chunks []c08Chunk
	bound  string
}

// c08Part wraps a chunk list into an explore.Part.
func c08Part(name, rule string, mk func(thorough bool) c08PartSpec) explore.Part {
	runChunk := func(thorough bool, spec c08PartSpec, i int) *c08Ctx {
		c := &c08Ctx{thorough: thorough, caseIdx: i, outcomes: map[string]struct{}{}, failKeys: map[string]bool{}}
		spec.chunks[i](c)
		return c
	}
	return explore.Part{
		Name: name,
		Run: func(e explore.Env) *explore.Report {
			spec := mk(e.Thorough())
			outcomes := explore.NewOutcomeSet()
			var mu sync.Mutex
			vios := map[string]explore.Violation{}
			var samples []string
			rep := explore.RunCases(e, len(spec.chunks), 0, false, func(i int) explore.CaseResult {
				c := runChunk(e.Thorough(), spec, i)
				for o := range c.outcomes {
					outcomes.Add(o)
				}
				if len(c.fails) > 0 || len(c.samples) > 0 {
					mu.Lock()
					for _, f := range c.fails {
						if old, ok := vios[f.key]; ok {
							// keep the violation of the lowest case index: deterministic
							var r c08Replay
							_ = json.Unmarshal(old.Replay, &r)
							if r.Case <= i {
								continue
							}
						}
						vios[f.key] = explore.Violation{Key: f.key, What: f.what, Replay: explore.JSON(c08Replay{Case: i, Key: f.key})}
					}
					samples = append(samples, c.samples...)
					mu.Unlock()
				}
				return explore.CaseResult{Execs: c.execs, Trans: c.trans}
			})
			rep.Rule = rule
			rep.Bound = spec.bound
			rep.Outcomes = outcomes.List()
			rep.OutcomesN = int64(len(rep.Outcomes))
			rep.States = rep.OutcomesN
			keys := make([]string, 0, len(vios))
			for k := range vios {
				keys = append(keys, k)
			}
			sort.Strings(keys)
			for _, k := range keys {
				if len(rep.Violations) < 40 {
					rep.Violations = append(rep.Violations, vios[k])
				}
			}
			for _, s := range samples {
				rep.Samples = append(rep.Samples, s)
			}
			return rep
		},
		Replay: func(e explore.Env, raw json.RawMessage) *explore.Violation {
			var r c08Replay
			if err := json.Unmarshal(raw, &r); err != nil {
				explore.Must(false, "bad replay: %v", err)
			}
			spec := mk(e.Thorough())
			explore.Must(r.Case >= 0 && r.Case < len(spec.chunks), "replay case %d out of range (%d chunks)", r.Case, len(spec.chunks))
			c := runChunk(e.Thorough(), spec, r.Case)
			for _, f := range c.fails {
				if f.key == r.Key {
					return &explore.Violation{Key: f.key, What: f.what}
				}
			}
			return nil
		},
	}
}

// ---- value sets -------------------------------------------------------------------------

// c08Bnd is the varint width boundary set of the plan.
var c08Bnd = []uint64{0, 1, 63, 64, 16383, 16384, 1<<30 - 1, 1 << 30, 1<<62 - 1}

// c08BndSmall is the reduced set used where the full cross product is too large for the
// quick tier (one value per varint width plus the extremes).
var c08BndSmall = []uint64{0, 63, 64, 16384, 1 << 30, 1<<62 - 1}

var c08DataLens = []int{0, 1, 63, 64}

func c08Data(n int, seed byte) []byte {
	if n == 0 {
		return nil
	}
	b := make([]byte, n)
	for i := range b {
		b[i] = seed + byte(i)*7
	}
	return b
}

// ---- reference varint codec (independent of quicvarint) -----------------------------------

func c08RefVarint(b []byte) (v uint64, n int, ok bool) {
	if len(b) == 0 {
		return 0, 0, false
	}
	n = 1 << (b[0] >> 6)
	if len(b) < n {
		return 0, 0, false
	}
	v = uint64(b[0] & 0x3f)
	for i := 1; i < n; i++ {
		v = v<<8 | uint64(b[i])
	}
	return v, n, true
}

func c08RefVarintLen(v uint64) int {
	switch {
	case v < 1<<6:
		return 1
	case v < 1<<14:
		return 2
	case v < 1<<30:
		return 4
	default:
		return 8
	}
}

// c08RefAppendVarint appends v using exactly n bytes (n in 1,2,4,8; v must fit).
func c08RefAppendVarintN(b []byte, v uint64, n int) []byte {
	var tag byte
	switch n {
	case 1:
		tag = 0x00
	case 2:
		tag = 0x40
	case 4:
		tag = 0x80
	case 8:
		tag = 0xc0
	default:
		explore.Must(false, "bad varint length %d", n)
	}
	for i := n - 1; i >= 0; i-- {
		x := byte(v >> (8 * uint(i)))
		if i == n-1 {
			x |= tag
		}
		b = append(b, x)
	}
	return b
}

func c08RefAppendVarint(b []byte, v uint64) []byte {
	return c08RefAppendVarintN(b, v, c08RefVarintLen(v))
}

// c08MutationsLimit is c08Mutations restricted to the first `limit` positions (prefix
// lengths < limit plus the one-byte-short prefix; substitutions at positions < limit).
func c08MutationsLimit(enc []byte, limit int, f func(m []byte, pos int)) {
	if limit > len(enc) {
		limit = len(enc)
	}
	for l := 0; l < limit; l++ {
		f(enc[:l], l)
	}
	if len(enc) > 0 && len(enc)-1 >= limit {
		f(enc[:len(enc)-1], len(enc)-1)
	}
	buf := append([]byte(nil), enc...)
	for pos := 0; pos < limit; pos++ {
		o := enc[pos]
		subs := [4]byte{0x00, 0xff, o ^ 0x80, o + 1}
		for i, s := range subs {
			if s == o {
				continue
			}
			dup := false
			for j := 0; j < i; j++ {
				if subs[j] == s {
					dup = true
				}
			}
			if dup {
				continue
			}
			buf[pos] = s
			f(buf, pos)
		}
		buf[pos] = o
	}
}
