package wire

// C08 structured lattice over every frame type: spaces (b) and (c) of the plan.

import (
	"fmt"
	"math"
	"time"

	"github.com/refraction-networking/uquic/internal/protocol"
	"github.com/refraction-networking/uquic/internal/qerr"
)

const c08MaxVarint = uint64(1<<62 - 1)

type c08Emit func(x c08FrameValue)

// c08Gen enumerates the frame values of one chunk.
type c08Gen func(thorough bool, emit c08Emit)

func c08Product(sets [][]uint64, f func(v []uint64)) {
	v := make([]uint64, len(sets))
	var rec func(i int)
	rec = func(i int) {
		if i == len(sets) {
			f(v)
			return
		}
		for _, x := range sets[i] {
			v[i] = x
			rec(i + 1)
		}
	}
	rec(0)
}

var c08StreamDataLens = []int{0, 1, 63, 64, 127, 128} // 128 = MinStreamFrameBufferSize (pool path)

var c08StreamCounts = []uint64{0, 1, 63, 64, 16383, 16384, 1<<30 - 1, 1 << 30, 1<<60 - 1, 1 << 60, 1<<60 + 1, 1<<62 - 1}

func c08ConnID(n int, seed byte) protocol.ConnectionID {
	return protocol.ParseConnectionID(c08Data(n, seed))
}

// c08FrameGens lists the chunks of the frame lattice (every frame type).
func c08FrameGens() []c08Gen {
	var gens []c08Gen
	B := c08Bnd

	// STREAM: StreamID x Offset x data length x FIN x DataLenPresent
	for _, sid := range B {
		for fl := 0; fl < 4; fl++ {
			sid, fin, lp := sid, fl&1 != 0, fl&2 != 0
			gens = append(gens, func(_ bool, emit c08Emit) {
				for _, off := range B {
					for _, dl := range c08StreamDataLens {
						f := &StreamFrame{StreamID: protocol.StreamID(sid), Offset: protocol.ByteCount(off), Data: c08Data(dl, byte(off)), Fin: fin, DataLenPresent: lp}
						valid := off+uint64(dl) <= c08MaxVarint && (dl > 0 || fin)
						emit(c08FrameValue{f: f, valid: valid})
					}
				}
			})
		}
	}
	// CRYPTO, NEW_TOKEN, DATAGRAM
	gens = append(gens, func(_ bool, emit c08Emit) {
		for _, off := range B {
			for _, dl := range c08DataLens {
				emit(c08FrameValue{f: &CryptoFrame{Offset: protocol.ByteCount(off), Data: c08Data(dl, 3)}, valid: true})
			}
		}
		for _, dl := range c08DataLens {
			emit(c08FrameValue{f: &NewTokenFrame{Token: c08Data(dl, 5)}, valid: dl > 0})
			emit(c08FrameValue{f: &DatagramFrame{Data: c08Data(dl, 9), DataLenPresent: true}, valid: true})
			emit(c08FrameValue{f: &DatagramFrame{Data: c08Data(dl, 9), DataLenPresent: false}, valid: true})
		}
	})
	// single-varint and two-varint frames, frames without fields, PATH_*
	gens = append(gens, func(_ bool, emit c08Emit) {
		emit(c08FrameValue{f: &PingFrame{}, valid: true})
		emit(c08FrameValue{f: &HandshakeDoneFrame{}, valid: true})
		emit(c08FrameValue{f: &ImmediateAckFrame{}, valid: true})
		for _, a := range B {
			emit(c08FrameValue{f: &MaxDataFrame{MaximumData: protocol.ByteCount(a)}, valid: true})
			emit(c08FrameValue{f: &DataBlockedFrame{MaximumData: protocol.ByteCount(a)}, valid: true})
			emit(c08FrameValue{f: &RetireConnectionIDFrame{SequenceNumber: a}, valid: true})
			for _, b := range B {
				emit(c08FrameValue{f: &MaxStreamDataFrame{StreamID: protocol.StreamID(a), MaximumStreamData: protocol.ByteCount(b)}, valid: true})
				emit(c08FrameValue{f: &StreamDataBlockedFrame{StreamID: protocol.StreamID(a), MaximumStreamData: protocol.ByteCount(b)}, valid: true})
				emit(c08FrameValue{f: &StopSendingFrame{StreamID: protocol.StreamID(a), ErrorCode: qerr.StreamErrorCode(b)}, valid: true})
			}
		}
		for _, n := range c08StreamCountsNarrow {
			for _, t := range []protocol.StreamType{protocol.StreamTypeBidi, protocol.StreamTypeUni} {
				rej := ""
				if n > 1<<60 {
					rej = "stream count > 2^60"
				}
				emit(c08FrameValue{f: &MaxStreamsFrame{Type: t, MaxStreamNum: protocol.StreamNum(n)}, valid: rej == "", reject: rej})
				emit(c08FrameValue{f: &StreamsBlockedFrame{Type: t, StreamLimit: protocol.StreamNum(n)}, valid: rej == "", reject: rej})
			}
		}
		for _, pat := range [][8]byte{{}, {0xff, 0xff, 0xff, 0xff, 0xff, 0xff, 0xff, 0xff}, {1, 2, 3, 4, 5, 6, 7, 8}, {0x40, 0x80, 0xc0, 0, 0x3f, 0x7f, 0xbf, 0xff}} {
			emit(c08FrameValue{f: &PathChallengeFrame{Data: pat}, valid: true})
			emit(c08FrameValue{f: &PathResponseFrame{Data: pat}, valid: true})
		}
	})
	// RESET_STREAM / RESET_STREAM_AT: StreamID x ErrorCode x FinalSize x ReliableSize
	for _, sid := range B {
		sid := sid
		gens = append(gens, func(_ bool, emit c08Emit) {
			c08Product([][]uint64{B, c08SizesNarrow, c08SizesNarrow}, func(v []uint64) {
				rej := ""
				if v[2] > v[1] {
					rej = "final size below reliable size"
				}
				emit(c08FrameValue{f: &ResetStreamFrame{StreamID: protocol.StreamID(sid), ErrorCode: qerr.StreamErrorCode(v[0]), FinalSize: protocol.ByteCount(v[1]), ReliableSize: protocol.ByteCount(v[2])}, valid: rej == "", reject: rej})
			})
		})
	}
	// NEW_CONNECTION_ID: Sequence x RetirePriorTo x connection ID length
	gens = append(gens, func(_ bool, emit c08Emit) {
		for _, seq := range B {
			for _, ret := range B {
				for _, cl := range []int{0, 1, 8, 20} {
					f := &NewConnectionIDFrame{SequenceNumber: seq, RetirePriorTo: ret, ConnectionID: c08ConnID(cl, 0x11)}
					copy(f.StatelessResetToken[:], c08Data(16, 0x21))
					emit(c08FrameValue{f: f, valid: ret <= seq && cl > 0})
				}
			}
		}
	})
	// CONNECTION_CLOSE: ErrorCode x FrameType x reason length, transport and application
	gens = append(gens, func(_ bool, emit c08Emit) {
		for _, ec := range B {
			for _, rl := range c08DataLens {
				reason := string(c08Data(rl, 'a'))
				emit(c08FrameValue{f: &ConnectionCloseFrame{IsApplicationError: true, ErrorCode: ec, ReasonPhrase: reason}, valid: true})
				for _, ft := range B {
					emit(c08FrameValue{f: &ConnectionCloseFrame{ErrorCode: ec, FrameType: ft, ReasonPhrase: reason}, valid: true})
					// an application close carrying a frame type is not encodable as such
					emit(c08FrameValue{f: &ConnectionCloseFrame{IsApplicationError: true, ErrorCode: ec, FrameType: ft, ReasonPhrase: reason}, valid: ft == 0})
				}
			}
		}
	})
	// ACK_FREQUENCY: 4 varints; the delay is a time.Duration in whole microseconds
	for _, seq := range B {
		seq := seq
		gens = append(gens, func(_ bool, emit c08Emit) {
			c08Product([][]uint64{B, B, B}, func(v []uint64) {
				d, ok := c08Micros(v[1], 1)
				emit(c08FrameValue{f: &AckFrequencyFrame{SequenceNumber: seq, AckElicitingThreshold: v[0], RequestMaxAckDelay: d, ReorderingThreshold: protocol.PacketNumber(v[2])}, valid: ok})
			})
		})
	}
	gens = append(gens, c08AckGens()...)
	gens = append(gens, c08NarrowFrameGens()...)
	return gens
}

// c08Micros converts a wire value in units of `unit` microseconds into a Duration; ok is
// false when the value is not representable (then the largest Duration is used, which the
// encoders accept but which does not round-trip by construction).
func c08Micros(v uint64, unit uint64) (time.Duration, bool) {
	if v > uint64(math.MaxInt64)/(1000*unit) {
		return time.Duration(math.MaxInt64), false
	}
	return time.Duration(v*unit) * time.Microsecond, true
}

// c08AckGens: ACK frames with up to 3 ranges. Every field (largest acknowledged, ack
// delay, first range, gaps, range lengths, ECN counts) is drawn from the boundary set; only
// combinations that denote a valid frame (no packet number below 0) can be built as values.
func c08AckGens() []c08Gen {
	var gens []c08Gen
	type ecn struct{ a, b, c uint64 }
	build := func(L uint64, fields []uint64, d time.Duration, e ecn) (*AckFrame, bool) {
		// fields: first range, then (gap, length) pairs
		if fields[0] > L {
			return nil, false
		}
		f := &AckFrame{DelayTime: d, ECT0: e.a, ECT1: e.b, ECNCE: e.c}
		smallest := L - fields[0]
		f.AckRanges = append(f.AckRanges, AckRange{Smallest: protocol.PacketNumber(smallest), Largest: protocol.PacketNumber(L)})
		for i := 1; i+1 < len(fields); i += 2 {
			gap, l := fields[i], fields[i+1]
			if smallest < gap+2 {
				return nil, false
			}
			largest := smallest - gap - 2
			if l > largest {
				return nil, false
			}
			smallest = largest - l
			f.AckRanges = append(f.AckRanges, AckRange{Smallest: protocol.PacketNumber(smallest), Largest: protocol.PacketNumber(largest)})
		}
		return f, true
	}
	for _, L := range c08Bnd {
		L := L
		// one range: all delays, and all ECN count triples
		gens = append(gens, func(_ bool, emit c08Emit) {
			for _, a0 := range c08Bnd {
				for _, dv := range c08Bnd {
					d, ok := c08Micros(dv, 8)
					if f, good := build(L, []uint64{a0}, d, ecn{}); good {
						emit(c08FrameValue{f: f, valid: ok})
					}
				}
			}
			c08Product([][]uint64{c08Bnd, c08Bnd, c08Bnd}, func(v []uint64) {
				if f, good := build(L, []uint64{0}, 8*time.Microsecond, ecn{v[0], v[1], v[2]}); good {
					emit(c08FrameValue{f: f, valid: true})
				}
			})
		})
		// two ranges: full set for every field, all delays, with and without ECN
		for _, dv := range c08Bnd {
			dv := dv
			gens = append(gens, func(_ bool, emit c08Emit) {
				d, ok := c08Micros(dv, 8)
				c08Product([][]uint64{c08Bnd, c08Bnd, c08Bnd}, func(v []uint64) {
					for _, e := range []ecn{{}, {1, 64, 16384}} {
						if f, good := build(L, v, d, e); good {
							emit(c08FrameValue{f: f, valid: ok})
						}
					}
				})
			})
		}
		// three ranges: reduced set in the quick tier, full set in the thorough tier
		for _, dv := range []uint64{0, 16384} {
			dv := dv
			gens = append(gens, func(thorough bool, emit c08Emit) {
				set := c08BndSmall
				if thorough {
					set = c08Bnd
				}
				d, _ := c08Micros(dv, 8)
				c08Product([][]uint64{set, set, set, set, set}, func(v []uint64) {
					for _, e := range []ecn{{}, {1, 64, 16384}} {
						if f, good := build(L, v, d, e); good {
							emit(c08FrameValue{f: f, valid: true, light: true})
						}
					}
				})
			})
		}
	}
	return gens
}

// c08Widen re-encodes every varint field of a canonical frame encoding with 8 bytes (a
// legitimate non-minimal encoding). It returns nil for frame types without varint fields.
func c08Widen(enc []byte) []byte {
	t, tn, ok := c08RefVarint(enc)
	if !ok {
		return nil
	}
	k := 0
	switch {
	case t == 0x02 || t == 0x03:
		k = -1 // everything is varints
	case t >= 0x08 && t <= 0x0f:
		k = 1
		if t&0x4 != 0 {
			k++
		}
		if t&0x2 != 0 {
			k++
		}
	default:
		switch t {
		case 0x04, 0x1c:
			k = 3
		case 0x24, 0xaf:
			k = 4
		case 0x05, 0x06, 0x11, 0x15, 0x18, 0x1d:
			k = 2
		case 0x07, 0x10, 0x12, 0x13, 0x14, 0x16, 0x17, 0x19, 0x31:
			k = 1
		default:
			return nil
		}
	}
	out := append([]byte(nil), enc[:tn]...)
	rest := enc[tn:]
	for i := 0; k < 0 || i < k; i++ {
		v, n, ok := c08RefVarint(rest)
		if !ok {
			if k < 0 && len(rest) == 0 {
				break
			}
			return nil
		}
		out = c08RefAppendVarintN(out, v, 8)
		rest = rest[n:]
	}
	return append(out, rest...)
}

func c08FrameLatticePart() c08PartSpec {
	gens := c08FrameGens()
	chunks := make([]c08Chunk, len(gens))
	for i, g := range gens {
		g := g
		chunks[i] = func(c *c08Ctx) {
			// every value is parsed back under all 4 levels x 8 extension flag combinations
			// (both tiers): the admission model demands acceptance wherever the frame may be
			// sent, whatever the flags of the other extensions are
			valueCfgs := c08AllCfgs()
			full := make([]c08FrameCfg, len(c08Levels))
			for i, lvl := range c08Levels {
				full[i] = c08FullCfg(lvl)
			}
			oneRTT := c08FullCfg(protocol.Encryption1RTT)
			g(c.thorough, func(x c08FrameValue) {
				enc := c.checkFrameValue(x, valueCfgs)
				if enc == nil {
					return
				}
				c.sample("%s -> %x", c08FrameString(x.f), enc)
				_, typeLen, _ := c08RefVarint(enc)
				mutLimit := len(enc)
				if x.mutHead > 0 {
					mutLimit = x.mutHead
				}
				c08MutationsLimit(enc, mutLimit, func(m []byte, pos int) {
					v := c08Versions[pos%2]
					if (c.thorough && !x.light) || pos < typeLen {
						for _, g := range full {
							c.checkFrameBytes(g, m, v)
						}
					} else {
						c.checkFrameBytes(oneRTT, m, v)
					}
				})
				if w := c08Widen(enc); w != nil {
					for _, g := range full {
						c.checkFrameBytes(g, w, protocol.Version1)
					}
					if c.thorough && !x.light && x.mutHead == 0 {
						c08MutationsLimit(w, len(w), func(m []byte, pos int) {
							c.checkFrameBytes(oneRTT, m, c08Versions[pos%2])
						})
					}
				}
			})
		}
	}
	// raw frames whose length / count field aliases a small value after narrowing
	chunks = append(chunks, func(c *c08Ctx) {
		full := make([]c08FrameCfg, len(c08Levels))
		for i, lvl := range c08Levels {
			full[i] = c08FullCfg(lvl)
		}
		c08RawLengthAliases(func(b []byte) {
			for i, g := range full {
				c.checkFrameBytes(g, b, c08Versions[i%2])
			}
		})
	})
	return c08PartSpec{chunks: chunks, bound: fmt.Sprintf("%d chunks: every frame type, every field from {0,1,63,64,16383,16384,2^30-1,2^30,2^62-1} (stream counts also 2^60-1,2^60,2^60+1,2^60+2^8,2^60+2^16+1,2^60+2^31,2^60+2^32,2^61,2^62-1; RESET_STREAM_AT sizes also 2^8,2^16,2^32; data lengths {0,1,63,64}, STREAM also 127,128; data lengths 257 and 65537 for one value per data-carrying frame type), ACK <= 3 ranges; every value parsed back under 4 levels x 8 extension flag combinations x 2 versions, judged by the admission model; every prefix and every single-byte substitution {00,ff,b^80,b+1} of every encoding (first 24 bytes for the 257/65537 byte values); all-varints-widened-to-8-bytes variant of every encoding; raw STREAM/CRYPTO/NEW_TOKEN/DATAGRAM/CONNECTION_CLOSE/ACK frames whose length or range count claims v + k*2^w (v in {0,1,5}, w in {8,16,32}, k in {1,2}) with v, v+1, v+9 bytes following", len(chunks))}
}
