package wire

// C08 narrowing aliases. The parsers read every numeric field as a 62-bit varint and many of
// them store it in a smaller integer type (uint8 ack delay exponent, int lengths, uint32
// versions ...). A range rule that is evaluated on the converted value instead of the wire
// value accepts v + k*2^w for every in-range v (w = width of the smaller type). The varint
// boundary set {0,1,63,64,16383,16384,2^30-1,2^30,2^62-1} holds no such value for a rule whose
// edge is small, so this file adds, for every numeric field that has a range rule or that is
// a length:
//
//   * c08Aliases: v + 2^8, v + 2^16, v + 2^32 for the values v next to the rule's edge (used by
//     the transport parameter value lattice, the RESET_STREAM_AT sizes, the stream counts);
//   * the part tparams-narrowing: every numeric transport parameter (raw bytes, so that the
//     uint8 ack_delay_exponent can carry a wide value) with every alias v + k*2^w, k in {1,2},
//     plus the values that become negative in a signed type of that width, in minimal and in
//     8-byte varint width; connection ID parameters whose length is 256 + n / 65536 + n;
//   * c08NarrowFrameGens: frames whose data length is 257 / 65537 (a length narrowed to
//     8 / 16 bits aliases 1) and raw frames whose length field claims 2^w + v with v bytes
//     following.
//
// The oracle is unchanged: listed range violations have to be refused, legal values have to
// round-trip, whatever is accepted has to re-encode to something that parses to the same
// value, nothing panics.

import (
	"fmt"
	"sort"

	"github.com/refraction-networking/uquic/internal/protocol"
	"github.com/refraction-networking/uquic/internal/qerr"
)

// c08NarrowWidths: bit widths of the integer types a 62-bit wire value can be narrowed to.
var c08NarrowWidths = []uint{8, 16, 32}

// c08Aliases returns v + 2^w for every given v and every narrowing width, ascending, without
// duplicates.
func c08Aliases(vs ...uint64) []uint64 { return c08AliasesK(1, vs...) }

// c08AliasesK returns v + k*2^w for k = 1..maxK.
func c08AliasesK(maxK uint64, vs ...uint64) []uint64 {
	seen := map[uint64]bool{}
	var out []uint64
	for _, v := range vs {
		for _, w := range c08NarrowWidths {
			for k := uint64(1); k <= maxK; k++ {
				x := v + k<<w
				if x <= c08MaxVarint && !seen[x] {
					seen[x] = true
					out = append(out, x)
				}
			}
		}
	}
	sort.Slice(out, func(i, j int) bool { return out[i] < out[j] })
	return out
}

// c08SignEdges: the values that turn negative (2^(w-1): most negative, 2^w-1: minus one) when
// narrowed to a signed type of width w.
func c08SignEdges() []uint64 {
	var out []uint64
	for _, w := range c08NarrowWidths {
		out = append(out, 1<<(w-1), 1<<w-1)
	}
	return out
}

// c08ACLValues: active_connection_id_limit (rule: >= 2). 0 and 1 are out of range (not
// listed in the statement: refusal is not demanded); their aliases are legal values.
var c08ACLValues = append([]uint64{0, 1, 2, 3, 63, 64, 16383, 16384, 1 << 30, 1<<62 - 1}, c08Aliases(0, 1)...)

// c08SizesNarrow: RESET_STREAM_AT final size / reliable size. Rule (listed): reliable size
// <= final size. 2^w aliases 0, so (reliable 2^w, final v < 2^w) is a violation that a
// comparison of narrowed values accepts, and (reliable v, final 2^w) is a legal frame that it
// refuses.
var c08SizesNarrow = append(append([]uint64(nil), c08Bnd...), c08Aliases(0)...)

// c08StreamCountsNarrow: stream counts for MAX_STREAMS / STREAMS_BLOCKED (rule, listed:
// <= 2^60): additionally the out-of-range values whose low 8 / 16 / 32 bits are zero or a
// small in-range value.
var c08StreamCountsNarrow = append(append([]uint64(nil), c08StreamCounts...), 1<<60+1<<8, 1<<60+1<<16+1, 1<<60+1<<32, 1<<60+1<<31, 1<<61)

// ---- part tparams-narrowing ---------------------------------------------------------------------

// c08NumParam is the reference model of one numeric transport parameter's range rule.
type c08NumParam struct {
	name string
	id   uint64
	// edge: values next to the rule's edge on either side (and a typical value)
	edge []uint64
	// listed: non-empty when the statement lists the rule "value <= max"; then every value
	// above max has to be refused.
	max    uint64
	listed string
}

func c08NumParams() []c08NumParam {
	return []c08NumParam{
		{name: "max_idle_timeout", id: 0x1, edge: []uint64{0, 1, 5000}},
		{name: "max_udp_payload_size", id: 0x3, edge: []uint64{0, 1199, 1200, 1452}},
		{name: "initial_max_data", id: 0x4, edge: []uint64{0, 1}},
		{name: "initial_max_stream_data_bidi_local", id: 0x5, edge: []uint64{0, 1}},
		{name: "initial_max_stream_data_bidi_remote", id: 0x6, edge: []uint64{0, 1}},
		{name: "initial_max_stream_data_uni", id: 0x7, edge: []uint64{0, 1}},
		{name: "initial_max_streams_bidi", id: 0x8, edge: []uint64{0, 1, 100}, max: 1 << 60, listed: "stream count > 2^60"},
		{name: "initial_max_streams_uni", id: 0x9, edge: []uint64{0, 1, 100}, max: 1 << 60, listed: "stream count > 2^60"},
		{name: "ack_delay_exponent", id: 0xa, edge: []uint64{0, 3, 20, 21}, max: 20, listed: "ack_delay_exponent > 20"},
		{name: "max_ack_delay", id: 0xb, edge: []uint64{0, 25, 16383, 16384}},
		{name: "active_connection_id_limit", id: 0xe, edge: []uint64{0, 1, 2, 4}},
		{name: "max_datagram_frame_size", id: 0x20, edge: []uint64{0, 1, 1200}},
		{name: "min_ack_delay", id: 0xff04de1b, edge: []uint64{0, 1, 25000}},
	}
}

// values: the edge values, their aliases v + k*2^w (k = 1, 2), the sign edges; for a rule
// "<= max" with a large max also max + (all of those), which are out of range but narrow to
// the same small values.
func (np c08NumParam) values() []uint64 {
	seen := map[uint64]bool{}
	var out []uint64
	add := func(x uint64) {
		if x <= c08MaxVarint && !seen[x] {
			seen[x] = true
			out = append(out, x)
		}
	}
	base := append(append([]uint64(nil), np.edge...), c08AliasesK(2, np.edge...)...)
	base = append(base, c08SignEdges()...)
	for _, x := range base {
		add(x)
	}
	if np.listed != "" && np.max >= 1<<32 {
		for _, x := range base {
			add(np.max + x)
		}
		add(2 * np.max)
	}
	add(c08MaxVarint)
	sort.Slice(out, func(i, j int) bool { return out[i] < out[j] })
	return out
}

// c08AliasClass names the smallest narrowing under which an out-of-range value passes the
// rule "<= max" (part of the violation key: one root cause = one key).
func c08AliasClass(v, max uint64) string {
	if max >= 1<<32 {
		return "" // every larger value is in range modulo 2^32
	}
	for _, w := range c08NarrowWidths {
		if v&(1<<w-1) <= max {
			return fmt.Sprintf(" (in range modulo 2^%d)", w)
		}
	}
	return ""
}

func c08RawParam(id, claimedLen uint64, body []byte) []byte {
	b := c08RefAppendVarint(nil, id)
	b = c08RefAppendVarint(b, claimedLen)
	return append(b, body...)
}

func c08TPNarrowPart(thorough bool) c08PartSpec {
	iscid := c08TPEntry{name: "initial_source_connection_id(base)", id: 0xf, body: c08Data(4, 0x54)}.bytes()
	odcid := c08TPEntry{name: "original_destination_connection_id(base)", id: 0x0, body: c08Data(4, 0xd4), client: true}.bytes()
	// run parses one raw parameter alone, and before / after the parameters the sender has
	// to send, for both perspectives. clientForbidden: RFC 9000 18.2 forbids a client to send it.
	run := func(c *c08Ctx, raw []byte, reject string, clientForbidden bool, note string) {
		for _, pers := range c08Perspectives {
			rej := reject
			if clientForbidden && pers == protocol.PerspectiveClient {
				rej = "parameter forbidden for a client"
			}
			mand := iscid
			if pers == protocol.PerspectiveServer {
				mand = append(append([]byte(nil), iscid...), odcid...)
			}
			o1 := c.checkTPBytes(raw, pers, c08TPFacts{reject: rej})
			o2 := c.checkTPBytes(append(append([]byte(nil), raw...), mand...), pers, c08TPFacts{reject: rej})
			c.checkTPBytes(append(append([]byte(nil), mand...), raw...), pers, c08TPFacts{reject: rej})
			if note != "" {
				c.sample("%s sent by %s -> %s / followed by the mandatory parameters -> %s", note, pers, o1, o2)
			}
		}
		c.checkTicketTPBytes(raw)
	}
	var chunks []c08Chunk
	nvals := 0
	for _, np := range c08NumParams() {
		np := np
		nvals += len(np.values())
		chunks = append(chunks, func(c *c08Ctx) {
			for _, v := range np.values() {
				rej := ""
				if np.listed != "" && v > np.max {
					rej = np.listed + c08AliasClass(v, np.max)
				}
				for _, w := range []int{1, 2, 4, 8} {
					if w < c08RefVarintLen(v) {
						continue
					}
					if w != c08RefVarintLen(v) && w != 8 && !c.thorough {
						continue // quick: minimal and 8-byte width
					}
					body := c08RefAppendVarintN(nil, v, w)
					note := ""
					if v == np.edge[len(np.edge)-1]+256 && w == 2 {
						note = fmt.Sprintf("%s=%d", np.name, v)
					}
					run(c, c08RawParam(np.id, uint64(len(body)), body), rej, false, note)
				}
			}
		})
	}
	// connection ID parameters: length 256 + n, 65536 + n (with that many bytes following), and
	// a claimed length of 2^32 + n with n bytes following
	cidParams := []struct {
		name   string
		id     uint64
		client bool
	}{{"original_destination_connection_id", 0x0, true}, {"initial_source_connection_id", 0xf, false}, {"retry_source_connection_id", 0x10, true}}
	for _, cp := range cidParams {
		cp := cp
		chunks = append(chunks, func(c *c08Ctx) {
			for _, n := range []int{0, 1, 8, 20} {
				for _, w := range c08NarrowWidths {
					claimed := uint64(n) + 1<<w
					rej := "connection ID length > 20" + c08AliasClass(claimed, 20)
					if w <= 16 {
						run(c, c08RawParam(cp.id, claimed, c08Data(int(claimed), 0xd3)), rej, cp.client, "")
					}
					run(c, c08RawParam(cp.id, claimed, c08Data(n, 0xd3)), rej, cp.client, "")
				}
				// in range: the same bytes with the true length
				if n > 0 {
					run(c, c08RawParam(cp.id, uint64(n), c08Data(n, 0xd3)), "", cp.client, "")
				}
			}
		})
	}
	return c08PartSpec{chunks: chunks, bound: fmt.Sprintf("%d chunks: 13 numeric parameters x (edge values of the range rule, v + k*2^w for w in {8,16,32}, k in {1,2}, 2^(w-1), 2^w-1, for stream counts also 2^60 + those; %d values) x {minimal, 8-byte} varint width (thorough: every width); 3 connection ID parameters x lengths n + 2^w, n in {0,1,8,20}; each alone / before / after the mandatory parameters x 2 perspectives, and as session ticket parameters", len(chunks), nvals)}
}

// ---- frames ------------------------------------------------------------------------------------

// c08NarrowDataLens: 257 = 1 + 2^8, 65537 = 1 + 2^16.
var c08NarrowDataLens = []int{257, 65537}

// c08NarrowFrameGens: frames with a data length that aliases 1 after narrowing.
func c08NarrowFrameGens() []c08Gen {
	var gens []c08Gen
	for _, dl := range c08NarrowDataLens {
		dl := dl
		gens = append(gens, func(_ bool, emit c08Emit) {
			for _, sid := range []uint64{0, 16384} {
				for _, off := range []uint64{0, 1 << 30} {
					for fl := 0; fl < 4; fl++ {
						f := &StreamFrame{StreamID: protocol.StreamID(sid), Offset: protocol.ByteCount(off), Data: c08Data(dl, byte(off)), Fin: fl&1 != 0, DataLenPresent: fl&2 != 0}
						// a STREAM frame never carries more than one packet buffer: longer ones are refused
						emit(c08FrameValue{f: f, valid: protocol.ByteCount(dl) <= protocol.MaxPacketBufferSize, mutHead: 24})
					}
				}
			}
			for _, off := range []uint64{0, 16384} {
				emit(c08FrameValue{f: &CryptoFrame{Offset: protocol.ByteCount(off), Data: c08Data(dl, 3)}, valid: true, mutHead: 24})
			}
			emit(c08FrameValue{f: &NewTokenFrame{Token: c08Data(dl, 5)}, valid: true, mutHead: 24})
			emit(c08FrameValue{f: &DatagramFrame{Data: c08Data(dl, 9), DataLenPresent: true}, valid: true, mutHead: 24})
			emit(c08FrameValue{f: &DatagramFrame{Data: c08Data(dl, 9), DataLenPresent: false}, valid: true, mutHead: 24})
			reason := string(c08Data(dl, 'a'))
			emit(c08FrameValue{f: &ConnectionCloseFrame{IsApplicationError: true, ErrorCode: 64, ReasonPhrase: reason}, valid: true, mutHead: 24})
			emit(c08FrameValue{f: &ConnectionCloseFrame{ErrorCode: uint64(qerr.ProtocolViolation), FrameType: 0x08, ReasonPhrase: reason}, valid: true, mutHead: 24})
		})
	}
	return gens
}

// c08RawLengthAliases: raw frames whose length (or count) field claims 2^w + v while only v
// (and v+1) bytes follow; the frame header fields are minimal.
func c08RawLengthAliases(f func(b []byte)) {
	heads := [][]byte{
		{0x0a, 0x04},             // STREAM, LEN
		{0x0e, 0x04, 0x40, 0x40}, // STREAM, OFF|LEN
		{0x0b, 0x04},             // STREAM, LEN|FIN
		{0x06, 0x00},             // CRYPTO
		{0x07},                   // NEW_TOKEN
		{0x31},                   // DATAGRAM with length
		{0x1c, 0x0a, 0x00},       // CONNECTION_CLOSE (transport)
		{0x1d, 0x0a},             // CONNECTION_CLOSE (application)
		{0x02, 0x05, 0x00},       // ACK: range count
		{0x03, 0x05, 0x00},       // ACK_ECN: range count
	}
	for _, h := range heads {
		for _, v := range []uint64{0, 1, 5} {
			for _, claimed := range c08AliasesK(2, v) {
				for _, wide := range []bool{false, true} {
					b := append([]byte(nil), h...)
					if wide {
						b = c08RefAppendVarintN(b, claimed, 8)
					} else {
						b = c08RefAppendVarint(b, claimed)
					}
					for _, have := range []int{int(v), int(v) + 1, int(v) + 9} {
						f(append(append([]byte(nil), b...), c08Data(have, 0x00)...))
						f(append(append([]byte(nil), b...), c08Data(have, 0x41)...))
					}
				}
			}
		}
	}
}
