package wire

// C08 (wire target): the parts and their enumerated spaces.

import (
	"bytes"
	"fmt"
	"testing"

	"github.com/refraction-networking/uquic/internal/protocol"
	"github.com/refraction-networking/uquic/internal/verifmc/explore"
	"github.com/refraction-networking/uquic/quicvarint"
)

func TestVerifC08Wire(t *testing.T) {
	explore.Main("C08", []explore.Part{
		c08Part("varint", "exhaustive: every 1- and 2-byte varint encoding and (thorough: every 3-byte string) through quicvarint.Parse/Read/Append/AppendWithLen/Len against a reference codec; 4- and 8-byte encodings with every byte position swept over 0..255 around the width boundaries", c08VarintPart),
		c08Part("frame-types", "exhaustive: all 256 one-byte and all 2-byte-varint frame types 0..16383, each followed by 7 constant-filled bodies, at 4 encryption levels x 8 feature-flag combinations (1-RTT also with ack delay exponents 0 and 20); every refusal of a minimally encoded type is judged by the admission model (RFC 9000 Table 3 / section 12.5, negotiated extension frames)", c08FrameTypesPart),
		c08Part("bytes-frames", "exhaustive: every byte string of length <= 2 as packet payload through FrameParser at 4 encryption levels x 8 feature-flag combinations (thorough: also every 3-byte string at 4 levels x {all extensions negotiated, none})", c08BytesFramesPart),
		c08Part("bytes-headers", "exhaustive: every byte string of length <= 2 (thorough: <= 3) through ParsePacket/ParseExtended, ParseShortHeader (connection ID lengths 0,1,2), ParseVersionNegotiationPacket, ParseConnectionID, TransportParameters.Unmarshal (both perspectives), UnmarshalFromSessionTicket", c08BytesHeadersPart),
		c08Part("lattice-frames", "structured lattice: one case per (frame type, leading field) chunk; every value is encoded, length-checked, parsed back under all 4 levels x 8 extension flag combinations (equal value demanded wherever the admission model says the frame may be sent), then every prefix and single-byte substitution of the encoding is parsed", func(bool) c08PartSpec { return c08FrameLatticePart() }),
		c08Part("lattice-headers", "structured lattice over long headers (type x version x connection ID lengths x token length x packet number length/value x payload length), short headers, version negotiation packets, plus raw long headers built by a reference encoder (any first byte/version/connection ID length byte/token length/Length); every prefix and single-byte substitution of every header encoding", c08HeaderLatticePart),
		c08Part("tparams-values", "structured lattice over TransportParameters: every single field alternative and every pair of alternatives of two fields, both perspectives, Marshal -> Unmarshal; prefixes and single-byte substitutions of the encodings; session-ticket form likewise", c08TPValuesPart),
		c08Part("tparams-table", "exhaustive: every sequence of <= 3 entries (with repetition = duplicates) from a table of raw parameters incl. perspective-forbidden and out-of-range ones, alone and followed by the mandatory parameters, for both perspectives", c08TPTablePart),
		c08Part("frame-history", "history independence: ONE FrameParser per history, every sequence of <= 3 (frame, encryption level) letters x 8 flag combinations x SetAckDelayExponent(e) before any step; every parse result (accept/reject, lengths, every field) has to equal what a fresh parser with the same settings returns for that frame alone, and has to re-encode to the predicted length and parse back on the same parser", c08FrameHistoryPart),
		c08Part("ack-delay", "exhaustive over the stated lattice of ACK Delay field values x every legal peer ack delay exponent 0..20: raw ACK / ACK_ECN frames parsed by a FrameParser after SetAckDelayExponent(e) at every encryption level; everything that parses has to re-encode (no panic, Append == Length) and the re-encoding has to parse again, on the same parser up to the delay and with the encoder's exponent in force including the delay", c08AckDelayPart),
		c08Part("tparams-narrowing", "exhaustive over the narrowing lattice: every numeric transport parameter as raw bytes with the values next to its range rule's edge, every v + k*2^w (w in {8,16,32}) of them and the values that turn negative in a signed w-bit type, in minimal and 8-byte varint width; connection ID parameters of length n + 2^w; alone / before / after the mandatory parameters, both perspectives, and as session ticket parameters", c08TPNarrowPart),
	}, func(msg string) { t.Fatal(msg) })
}

// c08ShortStrings calls f for every byte string with first byte b0 and total length <= maxLen
// (and for the empty string when b0 == 0). The buffer is reused.
func c08ShortStrings(b0 byte, maxLen int, f func(b []byte)) {
	if b0 == 0 {
		f(nil)
	}
	buf := make([]byte, 3)
	buf[0] = b0
	f(buf[:1])
	if maxLen < 2 {
		return
	}
	for b1 := 0; b1 < 256; b1++ {
		buf[1] = byte(b1)
		f(buf[:2])
		if maxLen < 3 {
			continue
		}
		for b2 := 0; b2 < 256; b2++ {
			buf[2] = byte(b2)
			f(buf[:3])
		}
	}
}

func c08MaxLen(thorough bool) int {
	if thorough {
		return 3
	}
	return 2
}

func c08BytesFramesPart(thorough bool) c08PartSpec {
	cfgs := c08AllCfgs()
	chunks := make([]c08Chunk, 256)
	for i := range chunks {
		b0 := byte(i)
		chunks[i] = func(c *c08Ctx) {
			c08ShortStrings(b0, c08MaxLen(c.thorough), func(b []byte) {
				for ci, g := range cfgs {
					if len(b) == 3 && (g.dg != g.rsa || g.dg != g.af) {
						continue // 3-byte strings: all extensions on / all off only
					}
					o := c.checkFrameBytes(g, b, c08Versions[ci%2])
					if len(b) == 2 && b[1] == 0x01 {
						c.sample("%x @%s -> %s", b, g, o)
					}
				}
			})
		}
	}
	return c08PartSpec{chunks: chunks, bound: fmt.Sprintf("all byte strings of length <= 2 x 32 parser configurations%s (256 chunks by first byte)", map[bool]string{false: "", true: ", all byte strings of length 3 x 4 levels x {all extensions, none}"}[thorough])}
}

func c08BytesHeadersPart(thorough bool) c08PartSpec {
	chunks := make([]c08Chunk, 256)
	for i := range chunks {
		b0 := byte(i)
		chunks[i] = func(c *c08Ctx) {
			c08ShortStrings(b0, c08MaxLen(c.thorough), func(b []byte) {
				o := c.checkLongHeaderBytes(b)
				for _, cl := range []int{0, 1, 2} {
					o2 := c.checkShortHeaderBytes(b, cl)
					if len(b) == 2 && b[1] == 0x07 && cl == 0 {
						c.sample("%x -> long: %s, short(cid 0): %s", b, o, o2)
					}
					if len(b) < 3 || cl == 1 {
						c.checkConnIDHelpers(b, cl)
					}
				}
				c.checkVNBytes(b)
				for _, pers := range c08Perspectives {
					c.checkTPBytes(b, pers, c08TPFacts{})
				}
				c.checkTicketTPBytes(b)
			})
		}
	}
	return c08PartSpec{chunks: chunks, bound: fmt.Sprintf("all byte strings of length <= %d into 10 parser entry points (256 chunks by first byte)", c08MaxLen(thorough))}
}

// ---- varints ----------------------------------------------------------------------------------

// checkVarintBytes: quicvarint.Parse and quicvarint.Read against the reference decoder,
// then Append/Len/AppendWithLen on the decoded value.
func (c *c08Ctx) checkVarintBytes(b []byte) {
	c.execs++
	c.guard("quicvarint.Parse/Read/Append/AppendWithLen/Len", b, func() {
		c.trans += 2
		v, n, err := quicvarint.Parse(b)
		rv, rn, rok := c08RefVarint(b)
		r := bytes.NewReader(b)
		v2, err2 := quicvarint.Read(r)
		if err == nil {
			if n < 1 || n > len(b) {
				c.fail("consumed-range:varint", "quicvarint.Parse(%x) reports %d consumed bytes", b, n)
				return
			}
			if !rok || n != rn {
				c.fail("consumed:varint", "quicvarint.Parse(%x) consumed %d bytes, the encoding is %d bytes long", b, n, rn)
			}
			if v != rv {
				c.fail("value:varint", "quicvarint.Parse(%x) = %d, the encoding denotes %d", b, v, rv)
			}
			if v > quicvarint.Max {
				c.fail("value:varint", "quicvarint.Parse(%x) = %d exceeds 2^62-1", b, v)
				return
			}
			if err2 != nil || v2 != v || len(b)-r.Len() != n {
				c.fail("consumed:varint-read", "quicvarint.Read(%x) = (%d, %v) after %d bytes; Parse = %d after %d bytes", b, v2, err2, len(b)-r.Len(), v, n)
			}
			// re-encode
			c.trans += 3
			enc := quicvarint.Append(nil, v)
			if quicvarint.Len(v) != len(enc) {
				c.fail("length:varint", "quicvarint.Len(%d) = %d but Append wrote %d bytes (%x)", v, quicvarint.Len(v), len(enc), enc)
			}
			if len(enc) > n {
				c.fail("length:varint-minimal", "quicvarint.Append(%d) wrote %d bytes, a %d byte encoding exists", v, len(enc), n)
			}
			if v3, n3, err3 := quicvarint.Parse(enc); err3 != nil || v3 != v || n3 != len(enc) {
				c.fail("reparse-differs:varint", "quicvarint.Parse(Append(%d) = %x) = (%d, %d, %v)", v, enc, v3, n3, err3)
			}
			for _, w := range []int{1, 2, 4, 8} {
				if w < len(enc) {
					continue
				}
				e := quicvarint.AppendWithLen(nil, v, w)
				if len(e) != w {
					c.fail("length:varint-withlen", "quicvarint.AppendWithLen(%d, %d) wrote %d bytes (%x)", v, w, len(e), e)
				}
				if v4, n4, err4 := quicvarint.Parse(e); err4 != nil || v4 != v || n4 != len(e) {
					c.fail("reparse-differs:varint-withlen", "quicvarint.Parse(AppendWithLen(%d, %d) = %x) = (%d, %d, %v)", v, w, e, v4, n4, err4)
				}
			}
			c.outcome(fmt.Sprintf("varint|parsed-width%d-minimal%d", n, len(enc)))
		} else {
			if n != 0 {
				c.outcome("varint|error-with-length")
			}
			if rok {
				c.fail("reject:varint", "quicvarint.Parse(%x) failed (%v) although the input holds a complete %d byte varint", b, err, rn)
			}
			if err2 == nil {
				c.fail("consumed:varint-read", "quicvarint.Read(%x) = %d although Parse fails with %v", b, v2, err)
			}
			c.outcome("varint|err:" + c08ErrClass(err) + "/read:" + c08ErrClass(err2))
		}
	})
}

func c08VarintPart(thorough bool) c08PartSpec {
	chunks := make([]c08Chunk, 0, 256+2*12)
	for i := 0; i < 256; i++ {
		b0 := byte(i)
		chunks = append(chunks, func(c *c08Ctx) {
			c08ShortStrings(b0, c08MaxLen(c.thorough), func(b []byte) {
				c.checkVarintBytes(b)
				if len(b) == 2 {
					// the same two bytes followed by more input
					c.checkVarintBytes(append(append(make([]byte, 0, 10), b...), 0xa5, 0x5a, 0xff, 0x00, 0x01, 0x80, 0x7f, 0xc3))
				}
				if len(b) == 2 && b[1] == 0x25 {
					c.sample("varint %x", b)
				}
			})
		})
	}
	// 4- and 8-byte encodings: tag x background x every position swept over 0..255
	for _, w := range []int{4, 8} {
		for pos := 0; pos < w; pos++ {
			w, pos := w, pos
			chunks = append(chunks, func(c *c08Ctx) {
				for _, bg := range []byte{0x00, 0xff, 0x3f, 0x40, 0x80} {
					for x := 0; x < 256; x++ {
						b := bytes.Repeat([]byte{bg}, w+2)
						b[0] = b[0]&0x3f | byte(map[int]int{4: 0x80, 8: 0xc0}[w])
						if pos == 0 {
							b[0] = byte(x)&0x3f | b[0]&0xc0
						} else {
							b[pos] = byte(x)
						}
						for l := 0; l <= len(b); l++ {
							c.checkVarintBytes(b[:l])
						}
					}
				}
			})
		}
	}
	// boundary values and neighbours through the encoders
	chunks = append(chunks, func(c *c08Ctx) {
		for _, v := range c08Bnd {
			for _, d := range []int64{-2, -1, 0, 1, 2} {
				x := uint64(int64(v) + d)
				if x > 1<<62-1 {
					continue
				}
				c.checkVarintBytes(c08RefAppendVarint(nil, x))
				for _, w := range []int{1, 2, 4, 8} {
					if w >= c08RefVarintLen(x) {
						c.checkVarintBytes(c08RefAppendVarintN(nil, x, w))
					}
				}
			}
		}
	})
	return c08PartSpec{chunks: chunks, bound: fmt.Sprintf("all byte strings of length <= %d (+ 2-byte prefixes with trailing input), 4/8-byte encodings with one swept byte x 5 backgrounds x every truncation, boundary set +-2 in every admissible width", c08MaxLen(thorough))}
}

// ---- all frame type bytes ------------------------------------------------------------------------

func c08FrameTypesPart(thorough bool) c08PartSpec {
	cfgs := c08AllCfgs()
	for _, exp := range []uint8{0, 20} {
		g := c08FullCfg(protocol.Encryption1RTT)
		g.exp = exp
		cfgs = append(cfgs, g)
	}
	fills := []byte{0x00, 0x01, 0x02, 0x08, 0x14, 0x3f, 0x40}
	var chunks []c08Chunk
	run := func(c *c08Ctx, typ []byte) {
		for _, fill := range fills {
			b := append(append([]byte(nil), typ...), bytes.Repeat([]byte{fill}, 40)...)
			for ci, g := range cfgs {
				o := c.checkFrameBytes(g, b, c08Versions[ci%2])
				if fill == 0x01 && ci == len(cfgs)-2 {
					c.sample("type %x + 40 x %02x @%s -> %s", typ, fill, g, o)
				}
			}
		}
	}
	// one-byte types: 16 chunks of 16
	for hi := 0; hi < 16; hi++ {
		hi := hi
		chunks = append(chunks, func(c *c08Ctx) {
			for lo := 0; lo < 16; lo++ {
				run(c, []byte{byte(hi<<4 | lo)})
			}
		})
	}
	// two-byte varint types 0x4000..0x7fff (values 0..16383): 64 chunks of 256
	for hi := 0x40; hi < 0x80; hi++ {
		hi := hi
		chunks = append(chunks, func(c *c08Ctx) {
			for lo := 0; lo < 256; lo++ {
				run(c, []byte{byte(hi), byte(lo)})
			}
		})
	}
	// the known types in 4- and 8-byte width
	chunks = append(chunks, func(c *c08Ctx) {
		for t := uint64(0); t <= 0xff; t++ {
			run(c, c08RefAppendVarintN(nil, t, 4))
			run(c, c08RefAppendVarintN(nil, t, 8))
		}
	})
	return c08PartSpec{chunks: chunks, bound: "256 one-byte types, 16384 two-byte types, types 0..255 in 4- and 8-byte width; x 7 body fills x 34 configurations (32 level/flag combinations at exponent 3, 1-RTT also at exponents 0 and 20)"}
}

// ---- header lattice ------------------------------------------------------------------------------

func c08HeaderLatticePart(thorough bool) c08PartSpec {
	var chunks []c08Chunk
	// (1) structured long headers
	for _, g := range c08LongGens() {
		g := g
		chunks = append(chunks, func(c *c08Ctx) {
			g(func(x c08LongValue) {
				pkt := c.checkLongHeaderValue(x)
				if pkt == nil {
					return
				}
				c.sample("%s -> %x", c08ExtString(x.h), pkt[:min(len(pkt), 80)])
				hdrLen := len(pkt) - x.payload
				if x.h.Type == protocol.PacketTypeRetry {
					hdrLen = len(pkt)
				}
				if x.payload > 64 && (x.h.PacketNumber != 0) {
					return // the 16 KiB packets are mutated for one packet number only
				}
				c08MutationsLimit(pkt, hdrLen+1, func(m []byte, pos int) {
					c.checkLongHeaderBytes(m)
					if pos < 7 {
						c.checkConnIDHelpers(m, 8)
					}
				})
			})
		})
	}
	// (2) raw long headers from the reference encoder
	firsts := []byte{}
	for t := 0; t < 4; t++ {
		for pnl := 0; pnl < 4; pnl++ {
			firsts = append(firsts, byte(0xc0|t<<4|pnl))
		}
	}
	firsts = append(firsts, 0x80, 0x8f, 0xcc, 0xff, 0xbf)
	versions := []uint32{1, 0x6b3343cf, 0, 0xff00001d, 0x1a2a3a4a, 0xffffffff}
	rawLens := []int{0, 1, 20, 21, 255}
	for _, first := range firsts {
		for _, ver := range versions {
			first, ver := first, ver
			chunks = append(chunks, func(c *c08Ctx) {
				for _, dl := range rawLens {
					for _, sl := range rawLens {
						tails, tokLens := []int{0, 68}, c08BndSmall
						if c.thorough {
							tails, tokLens = []int{0, 4, 68}, c08Bnd
						}
						for _, length := range c08Bnd {
							for _, widths := range []int{0, 1} {
								for _, tail := range tails {
									c.checkLongHeaderBytes(c08RefLongHeader(first, ver, dl, sl, 0, false, length, widths, tail))
									for _, tl := range tokLens {
										c.checkLongHeaderBytes(c08RefLongHeader(first, ver, dl, sl, tl, true, length, widths, tail))
									}
								}
							}
						}
						h := c08RefLongHeader(first, ver, dl, sl, 0, false, 0, 0, 0)
						c.checkConnIDHelpers(h, 8)
						c.checkVNBytes(h)
					}
				}
			})
		}
	}
	// (3) short headers: values and every first byte x connection ID length x input length
	chunks = append(chunks, func(c *c08Ctx) {
		for _, cl := range c08CIDLens {
			id := c08ConnID(cl, 0xd5)
			for pnl := protocol.PacketNumberLen(1); pnl <= 4; pnl++ {
				for _, pn := range c08PNBounds[pnl] {
					for _, kp := range []protocol.KeyPhaseBit{protocol.KeyPhaseZero, protocol.KeyPhaseOne} {
						enc := c.checkShortHeaderValue(id, protocol.PacketNumber(pn), pnl, kp)
						if enc == nil {
							continue
						}
						withPayload := append(append([]byte(nil), enc...), c08Data(5, 0x99)...)
						c08MutationsLimit(withPayload, len(withPayload), func(m []byte, _ int) {
							c.checkShortHeaderBytes(m, cl)
							c.checkConnIDHelpers(m, cl)
						})
					}
				}
			}
			for first := 0; first < 256; first++ {
				for n := 1; n <= cl+6; n++ {
					b := c08Data(n, 0x33)
					b[0] = byte(first)
					c.checkShortHeaderBytes(b, cl)
				}
			}
		}
	})
	// (4) version negotiation packets
	vlists := [][]protocol.Version{nil, {protocol.Version1}, {protocol.Version2, protocol.Version1}, {0x1a2a3a4a}, {protocol.Version1, 0x0a0a0a0a, 0xffffffff}}
	for _, dl := range rawLens {
		dl := dl
		chunks = append(chunks, func(c *c08Ctx) {
			for _, sl := range rawLens {
				for _, vl := range vlists {
					twin := c.checkVNValue(protocol.ArbitraryLenConnectionID(c08Data(dl, 0xd7)), protocol.ArbitraryLenConnectionID(c08Data(sl, 0x57)), vl)
					c.checkVNBytes(twin)
					c.checkLongHeaderBytes(twin)
					c08MutationsLimit(twin, len(twin), func(m []byte, _ int) {
						c.checkVNBytes(m)
					})
				}
			}
		})
	}
	return c08PartSpec{chunks: chunks, bound: fmt.Sprintf("%d chunks: long header values 4 types x 2 versions x CID lengths {0,1,8,20}^2 x token lengths {0,1,63,64} x 4 packet number lengths x boundary packet numbers x payload {0,1,63,64,16383-pnlen}, Initial also token length 257 x 4 packet number lengths (one packet number, payload 1); raw long headers 21 first bytes x 6 versions x CID length bytes {0,1,20,21,255}^2 x Length from the boundary set, token length from {0,63,64,16384,2^30,2^62-1} (thorough: boundary set) x {minimal, 8-byte} varints x tails {0,68} (thorough: {0,4,68}); short headers CID {0,1,8,20} x 4 pn lengths x boundary pns x key phase, all 256 first bytes; VN packets CID {0,1,20,21,255}^2 x 5 version lists; prefixes+substitutions of all value encodings", len(chunks))}
}

// ---- transport parameter parts ----------------------------------------------------------------------

func c08TPValuesPart(thorough bool) c08PartSpec {
	var chunks []c08Chunk
	for _, g := range c08TPValueChunks() {
		g := g
		chunks = append(chunks, func(c *c08Ctx) {
			g(func(v c08TPValue) {
				enc := c.checkTPValue(v.p, v.pers, v.valid, v.reject)
				if enc == nil {
					return
				}
				if v.single {
					c.sample("%s by %s -> %x", c08TPString(v.p), v.pers, enc)
				}
				if !v.single && !c.thorough {
					return
				}
				c08MutationsLimit(enc, len(enc), func(m []byte, _ int) {
					c.checkTPBytes(m, v.pers, c08TPFacts{})
					if v.single {
						c.checkTPBytes(m, v.pers.Opposite(), c08TPFacts{})
					}
				})
			})
		})
	}
	// session ticket form: single alternatives and pairs over the fields a ticket stores
	type tf struct {
		n   int
		set func(p *TransportParameters, i int) (bool, string)
	}
	acl := c08ACLValues
	dgs := []int64{-1, 0, 1, 63, 64, 16383, 16384, 1<<62 - 1}
	bc := func(get func(p *TransportParameters) *protocol.ByteCount) tf {
		return tf{len(c08Bnd), func(p *TransportParameters, i int) (bool, string) {
			*get(p) = protocol.ByteCount(c08Bnd[i])
			return true, ""
		}}
	}
	sn := func(get func(p *TransportParameters) *protocol.StreamNum) tf {
		return tf{len(c08StreamCounts), func(p *TransportParameters, i int) (bool, string) {
			*get(p) = protocol.StreamNum(c08StreamCounts[i])
			if c08StreamCounts[i] > 1<<60 {
				return false, "stream count > 2^60"
			}
			return true, ""
		}}
	}
	tfs := []tf{
		bc(func(p *TransportParameters) *protocol.ByteCount { return &p.InitialMaxStreamDataBidiLocal }),
		bc(func(p *TransportParameters) *protocol.ByteCount { return &p.InitialMaxStreamDataBidiRemote }),
		bc(func(p *TransportParameters) *protocol.ByteCount { return &p.InitialMaxStreamDataUni }),
		bc(func(p *TransportParameters) *protocol.ByteCount { return &p.InitialMaxData }),
		sn(func(p *TransportParameters) *protocol.StreamNum { return &p.MaxBidiStreamNum }),
		sn(func(p *TransportParameters) *protocol.StreamNum { return &p.MaxUniStreamNum }),
		{len(acl), func(p *TransportParameters, i int) (bool, string) {
			p.ActiveConnectionIDLimit = acl[i]
			return acl[i] >= 2, ""
		}},
		{len(dgs), func(p *TransportParameters, i int) (bool, string) {
			p.MaxDatagramFrameSize = protocol.ByteCount(dgs[i])
			return true, ""
		}},
		{2, func(p *TransportParameters, i int) (bool, string) { p.EnableResetStreamAt = i == 1; return true, "" }},
	}
	for a := range tfs {
		a := a
		chunks = append(chunks, func(c *c08Ctx) {
			for i := 0; i < tfs[a].n; i++ {
				p := c08TicketBase()
				valid, rej := tfs[a].set(p, i)
				enc := c.checkTicketTPValue(p, valid, rej)
				c08MutationsLimit(enc, len(enc), func(m []byte, _ int) { c.checkTicketTPBytes(m) })
				for b := a + 1; b < len(tfs); b++ {
					for j := 0; j < tfs[b].n; j++ {
						q := c08TicketBase()
						v1, r1 := tfs[a].set(q, i)
						v2, r2 := tfs[b].set(q, j)
						if r1 == "" {
							r1 = r2
						}
						enc := c.checkTicketTPValue(q, v1 && v2, r1)
						if c.thorough {
							c08MutationsLimit(enc, len(enc), func(m []byte, _ int) { c.checkTicketTPBytes(m) })
						}
					}
				}
			}
		})
	}
	return c08PartSpec{chunks: chunks, bound: fmt.Sprintf("%d chunks: 20 fields (9 for tickets), every alternative alone and every pair of alternatives, 2 perspectives; fields with a range rule (max_udp_payload_size, max_ack_delay, active_connection_id_limit) also take v + 2^8, v + 2^16, v + 2^32 for the values v next to the rule's edge; mutations of single-alternative encodings (thorough: of all)", len(chunks))}
}

func c08TPTablePart(thorough bool) c08PartSpec {
	table := c08TPTable()
	mandatory := []c08TPEntry{
		{name: "initial_source_connection_id(base)", id: 0xf, body: c08Data(4, 0x54)},
		{name: "original_destination_connection_id(base)", id: 0x0, body: c08Data(4, 0xd4), client: true},
	}
	var chunks []c08Chunk
	run := func(c *c08Ctx, seq []c08TPEntry) {
		var raw []byte
		for _, e := range seq {
			raw = append(raw, e.bytes()...)
		}
		for _, pers := range c08Perspectives {
			// alone
			o := c.checkTPBytes(raw, pers, c08TPSeqFacts(seq, pers))
			// followed by the parameters this perspective has to send
			full := append([]c08TPEntry(nil), seq...)
			full = append(full, mandatory[0])
			if pers == protocol.PerspectiveServer {
				full = append(full, mandatory[1])
			}
			var raw2 []byte
			for _, e := range full {
				raw2 = append(raw2, e.bytes()...)
			}
			o2 := c.checkTPBytes(raw2, pers, c08TPSeqFacts(full, pers))
			if len(seq) == 2 && seq[1].id == 0xa {
				c.sample("[%s, %s] sent by %s -> %s / with mandatory parameters -> %s", seq[0].name, seq[1].name, pers, o, o2)
			}
		}
	}
	chunks = append(chunks, func(c *c08Ctx) {
		run(c, nil)
		for _, e := range table {
			run(c, []c08TPEntry{e})
		}
	})
	for i := range table {
		i := i
		chunks = append(chunks, func(c *c08Ctx) {
			for j := range table {
				run(c, []c08TPEntry{table[i], table[j]})
				for k := range table {
					run(c, []c08TPEntry{table[i], table[j], table[k]})
				}
			}
		})
	}
	n := len(table)
	return c08PartSpec{chunks: chunks, bound: fmt.Sprintf("table of %d raw parameters: all %d sequences of <= 3 entries x 2 perspectives x {alone, + mandatory parameters}", n, 1+n+n*n+n*n*n)}
}
