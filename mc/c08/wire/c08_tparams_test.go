package wire

// C08 transport parameter oracles: Unmarshal (both perspectives), Marshal, session ticket
// form (MarshalForSessionTicket / UnmarshalFromSessionTicket).

import (
	"fmt"
	"math"
	"net/netip"
	"time"

	"github.com/refraction-networking/uquic/internal/protocol"
)

var c08Perspectives = []protocol.Perspective{protocol.PerspectiveClient, protocol.PerspectiveServer}

// c08TPDiff compares two parsed parameter sets field by field.
func c08TPDiff(a, b *TransportParameters) string {
	switch {
	case a.InitialMaxStreamDataBidiLocal != b.InitialMaxStreamDataBidiLocal:
		return "InitialMaxStreamDataBidiLocal"
	case a.InitialMaxStreamDataBidiRemote != b.InitialMaxStreamDataBidiRemote:
		return "InitialMaxStreamDataBidiRemote"
	case a.InitialMaxStreamDataUni != b.InitialMaxStreamDataUni:
		return "InitialMaxStreamDataUni"
	case a.InitialMaxData != b.InitialMaxData:
		return "InitialMaxData"
	case a.MaxAckDelay != b.MaxAckDelay:
		return "MaxAckDelay"
	case a.AckDelayExponent != b.AckDelayExponent:
		return "AckDelayExponent"
	case a.DisableActiveMigration != b.DisableActiveMigration:
		return "DisableActiveMigration"
	case a.MaxUDPPayloadSize != b.MaxUDPPayloadSize:
		return "MaxUDPPayloadSize"
	case a.MaxUniStreamNum != b.MaxUniStreamNum:
		return "MaxUniStreamNum"
	case a.MaxBidiStreamNum != b.MaxBidiStreamNum:
		return "MaxBidiStreamNum"
	case a.MaxIdleTimeout != b.MaxIdleTimeout:
		return "MaxIdleTimeout" + c08IdleClass(a.MaxIdleTimeout)
	case (a.PreferredAddress == nil) != (b.PreferredAddress == nil):
		return "PreferredAddress"
	case a.PreferredAddress != nil && *a.PreferredAddress != *b.PreferredAddress:
		return "PreferredAddress"
	case a.OriginalDestinationConnectionID != b.OriginalDestinationConnectionID:
		return "OriginalDestinationConnectionID"
	case a.InitialSourceConnectionID != b.InitialSourceConnectionID:
		return "InitialSourceConnectionID"
	case (a.RetrySourceConnectionID == nil) != (b.RetrySourceConnectionID == nil):
		return "RetrySourceConnectionID"
	case a.RetrySourceConnectionID != nil && *a.RetrySourceConnectionID != *b.RetrySourceConnectionID:
		return "RetrySourceConnectionID"
	case (a.StatelessResetToken == nil) != (b.StatelessResetToken == nil):
		return "StatelessResetToken"
	case a.StatelessResetToken != nil && *a.StatelessResetToken != *b.StatelessResetToken:
		return "StatelessResetToken"
	case a.ActiveConnectionIDLimit != b.ActiveConnectionIDLimit:
		return "ActiveConnectionIDLimit"
	case a.MaxDatagramFrameSize != b.MaxDatagramFrameSize:
		return "MaxDatagramFrameSize"
	case a.EnableResetStreamAt != b.EnableResetStreamAt:
		return "EnableResetStreamAt"
	case (a.MinAckDelay == nil) != (b.MinAckDelay == nil):
		return "MinAckDelay"
	case a.MinAckDelay != nil && *a.MinAckDelay != *b.MinAckDelay:
		return "MinAckDelay" + c08DurClass(*a.MinAckDelay)
	}
	return ""
}

func c08IdleClass(d time.Duration) string {
	switch {
	case d == 0:
		return "[first=0 (parameter absent)]"
	case d%time.Millisecond != 0:
		return "[first=not a whole millisecond]"
	case d < protocol.MinRemoteIdleTimeout:
		return "[first<MinRemoteIdleTimeout]"
	}
	return ""
}

func c08TPString(p *TransportParameters) string {
	s := p.String()
	if len(s) > 700 {
		s = s[:700] + "..."
	}
	return s
}

// c08TPFacts is what the reference model knows about a parameter block: which of the
// statement's listed violations it contains.
type c08TPFacts struct {
	reject string // non-empty: Unmarshal must return an error
}

// checkTPBytes: Unmarshal b as sent by `sentBy`; on success Marshal/Unmarshal again.
func (c *c08Ctx) checkTPBytes(b []byte, sentBy protocol.Perspective, facts c08TPFacts) string {
	c.execs++
	out := "PANIC"
	c.guard("TransportParameters.Unmarshal(sentBy "+sentBy.String()+")", b, func() { out = c.tpBytes(b, sentBy, facts) })
	o := "tp-" + sentBy.String() + "|" + out
	c.outcome(o)
	return o
}

func (c *c08Ctx) tpBytes(b []byte, sentBy protocol.Perspective, facts c08TPFacts) string {
	p := &TransportParameters{}
	c.trans++
	err := p.Unmarshal(b, sentBy)
	if facts.reject != "" {
		if err == nil {
			c.fail("accepts-invalid:transport-parameters:"+facts.reject, "Unmarshal(sent by %s) accepted parameters with %s: %s -> %s", sentBy, facts.reject, c08Hex(b), c08TPString(p))
			return "accepted-invalid"
		}
		return "rejected-listed:" + facts.reject
	}
	if err != nil {
		return "err:" + c08ErrClass(err)
	}
	var enc []byte
	if !c.guardReencode("transport-parameters", b, func() {
		c.trans++
		enc = p.Marshal(sentBy)
	}) {
		return "reencode-panic"
	}
	p2 := &TransportParameters{}
	c.trans++
	if err2 := p2.Unmarshal(enc, sentBy); err2 != nil {
		c.fail("reparse-reject:transport-parameters", "parse(%s) (sent by %s) = %s; its re-encoding %x does not parse: %v", c08Hex(b), sentBy, c08TPString(p), enc, err2)
	} else if d := c08TPDiff(p, p2); d != "" {
		c.fail("reparse-differs:transport-parameters."+d, "parse(%s) (sent by %s) = %s; its re-encoding parses to %s (field %s)", c08Hex(b), sentBy, c08TPString(p), c08TPString(p2), d)
	}
	return "parsed"
}

// c08StripGrease removes the leading greased parameter Marshal emits (the only random part
// of its output), so that the mutation stage works on deterministic bytes.
func c08StripGrease(enc []byte) []byte {
	_, n1, ok := c08RefVarint(enc)
	if !ok {
		return enc
	}
	l, n2, ok := c08RefVarint(enc[n1:])
	if !ok || uint64(len(enc)-n1-n2) < l {
		return enc
	}
	return enc[n1+n2+int(l):]
}

// checkTPValue: Marshal -> Unmarshal == x. valid: x lies in the domain where equality is
// demanded; reject: x violates one of the listed ranges and has to be refused.
func (c *c08Ctx) checkTPValue(x *TransportParameters, pers protocol.Perspective, valid bool, reject string) []byte {
	c.execs++
	var enc []byte
	c.guard("TransportParameters.Marshal/Unmarshal("+pers.String()+")", nil, func() {
		c.trans += 2
		enc = x.Marshal(pers)
		p := &TransportParameters{}
		err := p.Unmarshal(enc, pers)
		switch {
		case reject != "":
			if err == nil {
				c.fail("accepts-invalid:transport-parameters:"+reject, "Unmarshal(sent by %s) accepted %s with %s", pers, c08TPString(x), reject)
			}
			c.outcome("tp-" + pers.String() + "|value-rejected-listed:" + reject)
		case err != nil:
			if valid {
				c.fail("roundtrip-reject:transport-parameters", "%s marshalled by the %s as %x does not parse: %v", c08TPString(x), pers, enc, err)
			}
			c.outcome("tp-" + pers.String() + "|value-not-parsed:" + c08ErrClass(err))
		default:
			// every lattice value is wire-representable (whole wire units), so whatever the
			// parser accepts has to be the value that was encoded. For a value outside an RFC
			// range that the statement does not list (valid == false, reject == ""), refusing
			// it is fine, accepting it as a different (e.g. narrowed) value is not.
			if d := c08TPDiff(x, p); d != "" {
				c.fail("roundtrip-differs:transport-parameters."+d, "%s marshalled by the %s parses to %s (field %s)", c08TPString(x), pers, c08TPString(p), d)
			}
			if valid {
				c.outcome("tp-" + pers.String() + "|roundtrip")
			} else {
				c.outcome("tp-" + pers.String() + "|roundtrip-of-unlisted-out-of-range-value")
			}
		}
	})
	return c08StripGrease(enc)
}

// ---- structured value lattice --------------------------------------------------------------

// c08TPField is one axis of the value lattice: a list of alternative settings.
type c08TPField struct {
	name       string
	serverOnly bool
	n          int
	// set applies alternative i; it returns whether the value is inside the round-trip
	// domain and, if it violates a listed range, which one.
	set func(p *TransportParameters, i int) (valid bool, reject string)
}

func c08TPBase(pers protocol.Perspective) *TransportParameters {
	p := &TransportParameters{
		AckDelayExponent:          protocol.DefaultAckDelayExponent,
		MaxAckDelay:               protocol.DefaultMaxAckDelay,
		MaxDatagramFrameSize:      protocol.InvalidByteCount,
		ActiveConnectionIDLimit:   protocol.DefaultActiveConnectionIDLimit,
		MaxUDPPayloadSize:         1452,
		MaxIdleTimeout:            30 * time.Second,
		InitialSourceConnectionID: c08ConnID(8, 0x51),
	}
	if pers == protocol.PerspectiveServer {
		p.OriginalDestinationConnectionID = c08ConnID(8, 0xd1)
	}
	return p
}

func c08TPFields() []c08TPField {
	bc := func(name string, get func(p *TransportParameters) *protocol.ByteCount) c08TPField {
		return c08TPField{name: name, n: len(c08Bnd), set: func(p *TransportParameters, i int) (bool, string) {
			*get(p) = protocol.ByteCount(c08Bnd[i])
			return true, ""
		}}
	}
	sn := func(name string, get func(p *TransportParameters) *protocol.StreamNum) c08TPField {
		return c08TPField{name: name, n: len(c08StreamCounts), set: func(p *TransportParameters, i int) (bool, string) {
			*get(p) = protocol.StreamNum(c08StreamCounts[i])
			if c08StreamCounts[i] > 1<<60 {
				return false, "stream count > 2^60"
			}
			return true, ""
		}}
	}
	idle := []uint64{5000, 16383, 16384, 1<<30 - 1, 1 << 30, uint64(math.MaxInt64) / 1000000}
	// Fields with a range rule also take the narrowing aliases of the values next to the
	// rule's edge (v + 2^8, v + 2^16, v + 2^32, see c08Aliases): a range check evaluated on
	// a value that was converted to a smaller integer type decides them wrongly.
	//   max_udp_payload_size >= 1200: the aliases of 0 and 1199 are legal values;
	//   max_ack_delay < 2^14: the aliases of 0 and 25 are out of range (rule not listed in the
	//     statement: refusing is not demanded, but acceptance as another value is a failure);
	//   active_connection_id_limit >= 2: the aliases of 0 and 1 are legal values.
	udp := append([]uint64{1199, 1200, 16383, 16384, 1 << 30, 1<<62 - 1}, c08Aliases(0, 1199)...)
	mad := append([]uint64{0, 1, 25, 63, 64, 16383, 16384, 1 << 30, 1 << 40}, c08Aliases(0, 25)...)
	exps := []uint8{0, 1, 3, 20, 21, 63, 64, 255}
	acl := c08ACLValues
	dgs := []int64{-1, 0, 1, 63, 64, 16383, 16384, 1<<62 - 1}
	mins := []int64{-1, 0, 1, 63, 64, 16383, 25000}
	cidLens := c08CIDLens
	return []c08TPField{
		bc("InitialMaxStreamDataBidiLocal", func(p *TransportParameters) *protocol.ByteCount { return &p.InitialMaxStreamDataBidiLocal }),
		bc("InitialMaxStreamDataBidiRemote", func(p *TransportParameters) *protocol.ByteCount { return &p.InitialMaxStreamDataBidiRemote }),
		bc("InitialMaxStreamDataUni", func(p *TransportParameters) *protocol.ByteCount { return &p.InitialMaxStreamDataUni }),
		bc("InitialMaxData", func(p *TransportParameters) *protocol.ByteCount { return &p.InitialMaxData }),
		sn("MaxBidiStreamNum", func(p *TransportParameters) *protocol.StreamNum { return &p.MaxBidiStreamNum }),
		sn("MaxUniStreamNum", func(p *TransportParameters) *protocol.StreamNum { return &p.MaxUniStreamNum }),
		{name: "MaxIdleTimeout", n: len(idle), set: func(p *TransportParameters, i int) (bool, string) {
			p.MaxIdleTimeout = time.Duration(idle[i]) * time.Millisecond
			return true, ""
		}},
		{name: "MaxUDPPayloadSize", n: len(udp), set: func(p *TransportParameters, i int) (bool, string) {
			p.MaxUDPPayloadSize = protocol.ByteCount(udp[i])
			return udp[i] >= 1200, ""
		}},
		{name: "MaxAckDelay", n: len(mad), set: func(p *TransportParameters, i int) (bool, string) {
			p.MaxAckDelay = time.Duration(mad[i]) * time.Millisecond
			// stays valid only while any min_ack_delay is <= max_ack_delay (checked by caller)
			return mad[i] < 1<<14, ""
		}},
		{name: "AckDelayExponent", n: len(exps), set: func(p *TransportParameters, i int) (bool, string) {
			p.AckDelayExponent = exps[i]
			if exps[i] > 20 {
				return false, "ack_delay_exponent > 20"
			}
			return true, ""
		}},
		{name: "DisableActiveMigration", n: 2, set: func(p *TransportParameters, i int) (bool, string) {
			p.DisableActiveMigration = i == 1
			return true, ""
		}},
		{name: "EnableResetStreamAt", n: 2, set: func(p *TransportParameters, i int) (bool, string) {
			p.EnableResetStreamAt = i == 1
			return true, ""
		}},
		{name: "ActiveConnectionIDLimit", n: len(acl), set: func(p *TransportParameters, i int) (bool, string) {
			p.ActiveConnectionIDLimit = acl[i]
			return acl[i] >= 2, ""
		}},
		{name: "MaxDatagramFrameSize", n: len(dgs), set: func(p *TransportParameters, i int) (bool, string) {
			p.MaxDatagramFrameSize = protocol.ByteCount(dgs[i])
			return true, ""
		}},
		{name: "MinAckDelay", n: len(mins), set: func(p *TransportParameters, i int) (bool, string) {
			if mins[i] < 0 {
				p.MinAckDelay = nil
			} else {
				d := time.Duration(mins[i]) * time.Microsecond
				p.MinAckDelay = &d
			}
			return true, ""
		}},
		{name: "InitialSourceConnectionID", n: len(cidLens), set: func(p *TransportParameters, i int) (bool, string) {
			p.InitialSourceConnectionID = c08ConnID(cidLens[i], 0x52)
			return true, ""
		}},
		{name: "OriginalDestinationConnectionID", serverOnly: true, n: len(cidLens), set: func(p *TransportParameters, i int) (bool, string) {
			p.OriginalDestinationConnectionID = c08ConnID(cidLens[i], 0xd2)
			return true, ""
		}},
		{name: "RetrySourceConnectionID", serverOnly: true, n: len(cidLens) + 1, set: func(p *TransportParameters, i int) (bool, string) {
			if i == 0 {
				p.RetrySourceConnectionID = nil
			} else {
				id := c08ConnID(cidLens[i-1], 0x62)
				p.RetrySourceConnectionID = &id
			}
			return true, ""
		}},
		{name: "StatelessResetToken", serverOnly: true, n: 2, set: func(p *TransportParameters, i int) (bool, string) {
			if i == 1 {
				var t protocol.StatelessResetToken
				copy(t[:], c08Data(16, 0x31))
				p.StatelessResetToken = &t
			} else {
				p.StatelessResetToken = nil
			}
			return true, ""
		}},
		{name: "PreferredAddress", serverOnly: true, n: 6, set: func(p *TransportParameters, i int) (bool, string) {
			if i == 0 {
				p.PreferredAddress = nil
				return true, ""
			}
			pa := &PreferredAddress{ConnectionID: c08ConnID([]int{0, 1, 8, 20, 20, 4}[i], 0x72)}
			copy(pa.StatelessResetToken[:], c08Data(16, 0x41))
			if i != 4 {
				pa.IPv4 = netip.AddrPortFrom(netip.AddrFrom4([4]byte{127, 0, 0, 1}), 42)
			}
			if i != 5 {
				pa.IPv6 = netip.AddrPortFrom(netip.AddrFrom16([16]byte{1, 2, 3, 4, 5, 6, 7, 8, 9, 10, 11, 12, 13, 14, 15, 16}), 13)
			}
			p.PreferredAddress = pa
			return true, ""
		}},
	}
}

// c08TPConsistent: cross-field condition of the round-trip domain.
func c08TPConsistent(p *TransportParameters) bool {
	return p.MinAckDelay == nil || *p.MinAckDelay <= p.MaxAckDelay
}

type c08TPValue struct {
	p      *TransportParameters
	pers   protocol.Perspective
	valid  bool
	reject string
	single bool // only one field deviates from the base value
}

// c08TPValueChunks: every single field alternative, and every pair of alternatives of two
// different fields, for both perspectives.
func c08TPValueChunks() []func(emit func(v c08TPValue)) {
	var chunks []func(emit func(v c08TPValue))
	fields := c08TPFields()
	for _, pers := range c08Perspectives {
		pers := pers
		usable := func(f c08TPField) bool { return !f.serverOnly || pers == protocol.PerspectiveServer }
		chunks = append(chunks, func(emit func(v c08TPValue)) {
			for _, f := range fields {
				if !usable(f) {
					continue
				}
				for i := 0; i < f.n; i++ {
					p := c08TPBase(pers)
					valid, rej := f.set(p, i)
					emit(c08TPValue{p: p, pers: pers, valid: valid && c08TPConsistent(p), reject: rej, single: true})
				}
			}
		})
		for a := range fields {
			a := a
			if !usable(fields[a]) {
				continue
			}
			chunks = append(chunks, func(emit func(v c08TPValue)) {
				for b := a + 1; b < len(fields); b++ {
					if !usable(fields[b]) {
						continue
					}
					for i := 0; i < fields[a].n; i++ {
						for j := 0; j < fields[b].n; j++ {
							p := c08TPBase(pers)
							v1, r1 := fields[a].set(p, i)
							v2, r2 := fields[b].set(p, j)
							rej := r1
							if rej == "" {
								rej = r2
							}
							emit(c08TPValue{p: p, pers: pers, valid: v1 && v2 && c08TPConsistent(p), reject: rej})
						}
					}
				}
			})
		}
	}
	return chunks
}

// ---- raw parameter table: all sequences of <= 3 entries -------------------------------------

type c08TPEntry struct {
	name   string
	id     uint64
	body   []byte
	client bool   // RFC 9000 18.2: a client MUST NOT send it
	reject string // the entry alone violates a listed range
}

func (e c08TPEntry) bytes() []byte {
	b := c08RefAppendVarint(nil, e.id)
	b = c08RefAppendVarint(b, uint64(len(e.body)))
	return append(b, e.body...)
}

func c08TPTable() []c08TPEntry {
	var t []c08TPEntry
	num := func(name string, id uint64, vals ...uint64) {
		for _, v := range vals {
			t = append(t, c08TPEntry{name: fmt.Sprintf("%s=%d", name, v), id: id, body: c08RefAppendVarint(nil, v)})
		}
	}
	num("max_idle_timeout", 0x1, 0, 5000, 1<<62-1)
	num("max_udp_payload_size", 0x3, 1199, 1200, 1<<62-1)
	num("initial_max_data", 0x4, 0, 1<<62-1)
	num("initial_max_stream_data_bidi_local", 0x5, 1, 16384)
	num("initial_max_stream_data_bidi_remote", 0x6, 63, 1<<30)
	num("initial_max_stream_data_uni", 0x7, 64, 16383)
	for _, id := range []uint64{0x8, 0x9} {
		for _, v := range []uint64{0, 1 << 60, 1<<60 + 1, 1<<62 - 1} {
			e := c08TPEntry{name: fmt.Sprintf("initial_max_streams(%#x)=%d", id, v), id: id, body: c08RefAppendVarint(nil, v)}
			if v > 1<<60 {
				e.reject = "stream count > 2^60"
			}
			t = append(t, e)
		}
	}
	for _, v := range []uint64{0, 20, 21, 64, 1<<62 - 1} {
		e := c08TPEntry{name: fmt.Sprintf("ack_delay_exponent=%d", v), id: 0xa, body: c08RefAppendVarint(nil, v)}
		if v > 20 {
			e.reject = "ack_delay_exponent > 20"
		}
		t = append(t, e)
	}
	num("max_ack_delay", 0xb, 0, 16383, 16384)
	num("active_connection_id_limit", 0xe, 1, 2, 1<<62-1)
	num("max_datagram_frame_size", 0x20, 0, 65535)
	// 18446744073709552 = ceil(2^64/1000): the smallest value whose conversion to nanoseconds
	// wraps around to a small positive Duration
	num("min_ack_delay", 0xff04de1b, 0, 25000, 25001, 18446744073709552, 1<<62-1)
	t = append(t,
		c08TPEntry{name: "initial_max_data(len 2, 1-byte varint)", id: 0x4, body: []byte{0x01, 0x00}},
		c08TPEntry{name: "initial_max_data(empty)", id: 0x4},
		c08TPEntry{name: "initial_max_data(non-minimal 8 bytes)", id: 0x4, body: c08RefAppendVarintN(nil, 5, 8)},
		c08TPEntry{name: "disable_active_migration", id: 0xc},
		c08TPEntry{name: "disable_active_migration(len 1)", id: 0xc, body: []byte{0}},
		c08TPEntry{name: "reset_stream_at", id: 0x17f7586d2cb571},
		c08TPEntry{name: "reset_stream_at(len 1)", id: 0x17f7586d2cb571, body: []byte{1}},
		c08TPEntry{name: "stateless_reset_token", id: 0x2, body: c08Data(16, 0x31), client: true},
		c08TPEntry{name: "stateless_reset_token(len 15)", id: 0x2, body: c08Data(15, 0x31), client: true},
		c08TPEntry{name: "unknown(0x21)", id: 0x21},
		c08TPEntry{name: "unknown(0x21,len 3)", id: 0x21, body: []byte{1, 2, 3}},
		c08TPEntry{name: "grease(27)", id: 27, body: []byte{0xaa}},
	)
	for _, cl := range []int{0, 8, 20, 21} {
		rej := ""
		if cl > 20 {
			rej = "connection ID length > 20"
		}
		t = append(t, c08TPEntry{name: fmt.Sprintf("original_destination_connection_id(len %d)", cl), id: 0x0, body: c08Data(cl, 0xd3), client: true, reject: rej})
		t = append(t, c08TPEntry{name: fmt.Sprintf("initial_source_connection_id(len %d)", cl), id: 0xf, body: c08Data(cl, 0x53), reject: rej})
		t = append(t, c08TPEntry{name: fmt.Sprintf("retry_source_connection_id(len %d)", cl), id: 0x10, body: c08Data(cl, 0x63), client: true, reject: rej})
	}
	pa := func(cidLen int, total int) []byte {
		b := []byte{127, 0, 0, 1, 0, 42}
		b = append(b, c08Data(16, 0x80)...)
		b = append(b, 0, 13, byte(cidLen))
		b = append(b, c08Data(cidLen, 0x73)...)
		b = append(b, c08Data(16, 0x43)...)
		if total >= 0 && total < len(b) {
			b = b[:total]
		}
		return b
	}
	t = append(t,
		c08TPEntry{name: "preferred_address(cid 1)", id: 0xd, body: pa(1, -1), client: true},
		c08TPEntry{name: "preferred_address(cid 20)", id: 0xd, body: pa(20, -1), client: true},
		c08TPEntry{name: "preferred_address(cid 21)", id: 0xd, body: pa(21, -1), client: true, reject: "connection ID length > 20"},
		c08TPEntry{name: "preferred_address(cid 0)", id: 0xd, body: pa(0, -1), client: true},
		c08TPEntry{name: "preferred_address(truncated)", id: 0xd, body: pa(8, 30), client: true},
	)
	return t
}

// c08TPSeqFacts is the reference model for a sequence of table entries.
func c08TPSeqFacts(entries []c08TPEntry, sentBy protocol.Perspective) c08TPFacts {
	seen := map[uint64]bool{}
	for _, e := range entries {
		if seen[e.id] {
			return c08TPFacts{reject: "duplicate parameter"}
		}
		seen[e.id] = true
	}
	for _, e := range entries {
		if e.client && sentBy == protocol.PerspectiveClient {
			return c08TPFacts{reject: "parameter forbidden for a client"}
		}
	}
	for _, e := range entries {
		if e.reject != "" {
			return c08TPFacts{reject: e.reject}
		}
	}
	return c08TPFacts{}
}

// ---- session ticket form -------------------------------------------------------------------

// c08TicketTPDiff compares the value a session ticket stores: the nine parameters
// MarshalForSessionTicket writes. (UnmarshalFromSessionTicket shares the lenient parser of
// the handshake parameters and also fills fields the ticket format does not have; those are
// not part of a ticket's value.)
func c08TicketTPDiff(a, b *TransportParameters) string {
	switch {
	case a.InitialMaxStreamDataBidiLocal != b.InitialMaxStreamDataBidiLocal:
		return "InitialMaxStreamDataBidiLocal"
	case a.InitialMaxStreamDataBidiRemote != b.InitialMaxStreamDataBidiRemote:
		return "InitialMaxStreamDataBidiRemote"
	case a.InitialMaxStreamDataUni != b.InitialMaxStreamDataUni:
		return "InitialMaxStreamDataUni"
	case a.InitialMaxData != b.InitialMaxData:
		return "InitialMaxData"
	case a.MaxUniStreamNum != b.MaxUniStreamNum:
		return "MaxUniStreamNum"
	case a.MaxBidiStreamNum != b.MaxBidiStreamNum:
		return "MaxBidiStreamNum"
	case a.ActiveConnectionIDLimit != b.ActiveConnectionIDLimit:
		return "ActiveConnectionIDLimit"
	case a.MaxDatagramFrameSize != b.MaxDatagramFrameSize:
		return "MaxDatagramFrameSize"
	case a.EnableResetStreamAt != b.EnableResetStreamAt:
		return "EnableResetStreamAt"
	}
	return ""
}

// checkTicketTPBytes: UnmarshalFromSessionTicket, then MarshalForSessionTicket and back.
func (c *c08Ctx) checkTicketTPBytes(b []byte) string {
	c.execs++
	out := "PANIC"
	c.guard("TransportParameters.UnmarshalFromSessionTicket", b, func() {
		p := &TransportParameters{}
		c.trans++
		if err := p.UnmarshalFromSessionTicket(b); err != nil {
			out = "err:" + c08ErrClass(err)
			return
		}
		out = "parsed"
		var enc []byte
		if !c.guardReencode("ticket-transport-parameters", b, func() {
			c.trans++
			enc = p.MarshalForSessionTicket(nil)
		}) {
			return
		}
		p2 := &TransportParameters{}
		c.trans++
		if err := p2.UnmarshalFromSessionTicket(enc); err != nil {
			c.fail("reparse-reject:ticket-transport-parameters", "ticket parameters parsed from %s = %s; re-encoding %x does not parse: %v", c08Hex(b), c08TPString(p), enc, err)
		} else if d := c08TicketTPDiff(p, p2); d != "" {
			c.fail("reparse-differs:ticket-transport-parameters."+d, "ticket parameters parsed from %s = %s; re-encoding parses to %s", c08Hex(b), c08TPString(p), c08TPString(p2))
		}
	})
	c.outcome("tp-ticket|" + out)
	return out
}

// c08TicketBase is the image of UnmarshalFromSessionTicket for an empty parameter list.
func c08TicketBase() *TransportParameters {
	return &TransportParameters{
		AckDelayExponent:        protocol.DefaultAckDelayExponent,
		MaxAckDelay:             protocol.DefaultMaxAckDelay,
		MaxDatagramFrameSize:    protocol.InvalidByteCount,
		ActiveConnectionIDLimit: protocol.DefaultActiveConnectionIDLimit,
	}
}

func (c *c08Ctx) checkTicketTPValue(x *TransportParameters, valid bool, reject string) []byte {
	c.execs++
	var enc []byte
	c.guard("MarshalForSessionTicket/UnmarshalFromSessionTicket", nil, func() {
		c.trans += 2
		enc = x.MarshalForSessionTicket(nil)
		p := &TransportParameters{}
		err := p.UnmarshalFromSessionTicket(enc)
		switch {
		case reject != "":
			if err == nil {
				c.fail("accepts-invalid:ticket-transport-parameters:"+reject, "UnmarshalFromSessionTicket accepted %s with %s", c08TPString(x), reject)
			}
			c.outcome("tp-ticket|value-rejected-listed:" + reject)
		case err != nil:
			if valid {
				c.fail("roundtrip-reject:ticket-transport-parameters", "%s marshalled for a session ticket as %x does not parse: %v", c08TPString(x), enc, err)
			}
			c.outcome("tp-ticket|value-not-parsed:" + c08ErrClass(err))
		default:
			if d := c08TicketTPDiff(x, p); d != "" {
				c.fail("roundtrip-differs:ticket-transport-parameters."+d, "%s marshalled for a session ticket parses to %s (field %s)", c08TPString(x), c08TPString(p), d)
			}
			c.outcome("tp-ticket|roundtrip")
		}
	})
	return enc
}
