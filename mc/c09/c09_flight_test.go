package quic

// C09 part 2: the flight builders (u_flight_frames.go) observed the way
// uPacketPacker.planInitialFlight uses them: BuildFlight on the complete CRYPTO stream,
// then validateInitialFlight; only a plan that passes both is put on the wire.

import (
	"encoding/json"
	"fmt"
	"math"
	"strings"

	"github.com/refraction-networking/uquic/internal/verifmc/explore"
)

// ---- reference model of a crypto range (from the QUICCryptoRange documentation) -----------

// c09Resolve: Offset < 0 counts back from the end; Length 0 = to the end, Length < 0 = ends
// that many bytes before the end. ok == false: the range does not lie inside the stream.
func c09Resolve(off, length, n int) (start, end int, ok bool) {
	o, l, s := int64(off), int64(length), int64(n)
	st := o
	if o < 0 {
		st = s + o
	}
	if st < 0 || st > s {
		return 0, 0, false
	}
	var en int64
	if l > 0 {
		if l > s {
			return 0, 0, false
		}
		en = st + l
	} else {
		en = s + l
	}
	if en < st || en > s {
		return 0, 0, false
	}
	return int(st), int(en), true
}

// c09Ranges is the alphabet of crypto ranges for an n byte stream: every pair of cut
// points in every spelling (positive / from-the-end offset, positive / zero / negative
// length), plus ranges that leave the stream.
func c09Ranges(n int, full bool) []QUICCryptoRange {
	cuts := []int{0, n / 2, n}
	if full {
		cuts = []int{0, 1, n / 2, n - 1, n}
	}
	cuts = c09UniqSorted(cuts, 0, n)
	seen := map[QUICCryptoRange]bool{}
	var out []QUICCryptoRange
	add := func(r QUICCryptoRange) {
		if !seen[r] {
			seen[r] = true
			out = append(out, r)
		}
	}
	for _, a := range cuts {
		for _, b := range cuts {
			if b < a {
				continue
			}
			offs := []int{a}
			if a < n {
				offs = append(offs, a-n)
			}
			var lens []int
			if b > a {
				lens = append(lens, b-a)
			}
			if b == n {
				lens = append(lens, 0)
			} else {
				lens = append(lens, b-n)
			}
			for _, o := range offs {
				for _, l := range lens {
					add(QUICCryptoRange{o, l})
				}
			}
		}
	}
	// out of bounds
	add(QUICCryptoRange{n + 1, 0})
	add(QUICCryptoRange{-(n + 1), 0})
	add(QUICCryptoRange{0, n + 1})
	add(QUICCryptoRange{n / 2, n - n/2 + 1})
	add(QUICCryptoRange{n / 2, -(n - n/2 + 1)})
	if full {
		add(QUICCryptoRange{0, -(n + 1)})
		add(QUICCryptoRange{n, 1})
		add(QUICCryptoRange{-1, 2})
	}
	return out
}

// ---- resolve --------------------------------------------------------------------------------

func c09ResolvePart() explore.Part {
	const rule = "QUICCryptoRange.resolve for stream lengths {0,1,2,3,5,63,64,65,1162,2300} x Offset and Length from {0, +-1, +-L/2, +-(L-1), +-L, +-(L+1), +-(L+2), MaxInt, MinInt}: no panic; a range returned without error lies inside the stream (0 <= start <= end <= L); a range that lies inside the stream by the documented semantics is not rejected"
	vals := func(n int) []int {
		v := []int{0, 1, -1, n / 2, -(n / 2), n - 1, -(n - 1), n, -n, n + 1, -(n + 1), n + 2, -(n + 2), math.MaxInt, math.MinInt, math.MaxInt - n, math.MinInt + n}
		return c09UniqSorted(v, math.MinInt, math.MaxInt)
	}
	one := func(n, off, ln int, acc *c09Acc) *explore.Fail {
		return c09Safe("resolve", func() *explore.Fail {
			s, e, err := QUICCryptoRange{Offset: off, Length: ln}.resolve(n)
			ms, me, ok := c09Resolve(off, ln, n)
			if err != nil {
				if ok {
					return explore.Failf("resolve:in-range-rejected", "QUICCryptoRange{%d,%d} is [%d,%d) of a %d byte stream by its documentation, resolve returned %v", off, ln, ms, me, n, err)
				}
				acc.out.Add("resolve rejected: " + c09ErrClass(err))
				return nil
			}
			if s < 0 || e < s || e > n {
				return explore.Failf("resolve:out-of-stream", "QUICCryptoRange{%d,%d}.resolve(%d) = [%d,%d) without error: not inside the stream", off, ln, n, s, e)
			}
			cls := "resolve ok"
			if off < 0 {
				cls += " from-end"
			}
			switch {
			case ln < 0:
				cls += " neg-length"
			case ln == 0:
				cls += " to-end"
			}
			if s == e {
				cls += " empty"
			}
			if ok && (s != ms || e != me) {
				cls += " (differs from documented bounds)"
			}
			acc.out.Add(cls)
			return nil
		})
	}
	type rc struct{ n, off, ln int }
	var cases []rc
	for _, n := range c09Lens {
		for _, o := range vals(n) {
			for _, l := range vals(n) {
				cases = append(cases, rc{n, o, l})
			}
		}
	}
	return explore.Part{
		Name: "resolve",
		Run: func(e explore.Env) *explore.Report {
			acc := c09NewAcc()
			rep := explore.RunCases(e, len(cases), 1, true, func(i int) explore.CaseResult {
				c := cases[i]
				cr := explore.CaseResult{Execs: 1, Trans: 1}
				acc.plain++
				if f := one(c.n, c.off, c.ln, acc); f != nil {
					cr.Fail, cr.Replay = f, i
				}
				return cr
			})
			acc.samples = []any{"QUICCryptoRange{-365,0}.resolve(2300)", "QUICCryptoRange{1201,-365}.resolve(2300)", "QUICCryptoRange{MinInt,MaxInt}.resolve(0)"}
			return acc.finish(rep, rule, fmt.Sprintf("all %d (length, Offset, Length) triples", len(cases)))
		},
		Replay: func(e explore.Env, raw json.RawMessage) *explore.Violation {
			c := cases[explore.ReplayIndex(raw)]
			if f := one(c.n, c.off, c.ln, c09NewAcc()); f != nil {
				return &explore.Violation{Key: f.Key, What: f.What}
			}
			return nil
		},
	}
}

func c09ErrClass(err error) string {
	s := err.Error()
	out := make([]byte, 0, len(s))
	for i := 0; i < len(s); i++ {
		ch := s[i]
		if ch >= '0' && ch <= '9' {
			if len(out) == 0 || out[len(out)-1] != '#' {
				out = append(out, '#')
			}
			continue
		}
		out = append(out, ch)
	}
	if len(out) > 110 {
		out = out[:110]
	}
	return string(out)
}

// ---- splitRange -------------------------------------------------------------------------------

func c09SplitPart() explore.Part {
	const rule = "splitRange(start, end, minN, maxN) for 9 non-empty ranges x minN, maxN in {0..4}, every draw an explorer choice; the pieces are serialised with the real buildAbsolute and read back: they must carry exactly [start,end) at true offsets"
	type sc struct {
		s, e       int
		minN, maxN uint64
	}
	var cases []sc
	for _, r := range [][2]int{{0, 1}, {0, 2}, {0, 3}, {5, 10}, {0, 64}, {63, 65}, {60, 70}, {16380, 16390}, {0, 2300}} {
		for a := uint64(0); a <= 4; a++ {
			for b := uint64(0); b <= 4; b++ {
				cases = append(cases, sc{r[0], r[1], a, b})
			}
		}
	}
	one := func(c sc, acc *c09Acc) *explore.Fail {
		return c09Safe("splitRange", func() *explore.Fail {
			fr, err := splitRange(c.s, c.e, c.minN, c.maxN)
			if err != nil {
				return explore.Failf("splitRange:error", "splitRange(%d,%d,%d,%d) returned %v", c.s, c.e, c.minN, c.maxN, err)
			}
			p, err := fr.buildAbsolute(c09Slice(0, c.e+3))
			if err != nil {
				return explore.Failf("splitRange:unbuildable", "splitRange(%d,%d,%d,%d) = %v cannot be serialised: %v", c.s, c.e, c.minN, c.maxN, fr, err)
			}
			kind, msg, class := c09CheckFlight([][]byte{p}, c.s, c.e-c.s)
			if kind != "" {
				return explore.Failf("splitRange:"+kind, "splitRange(%d,%d,%d,%d) = %v: %s", c.s, c.e, c.minN, c.maxN, fr, msg)
			}
			acc.out.Add(fmt.Sprintf("splitRange ok pieces=%d %s", len(fr), class))
			return nil
		})
	}
	return explore.Part{
		Name: "splitrange",
		Run: func(e explore.Env) *explore.Report {
			acc := c09NewAcc()
			rep := explore.RunCases(e, len(cases), 1, true, func(i int) explore.CaseResult {
				en := c09EnumFor(e, true, cases[i].s)
				return c09DrawCase("splitrange", en, acc, i, func() *explore.Fail { return one(cases[i], acc) })
			})
			acc.samples = []any{fmt.Sprintf("%+v", cases[len(cases)-1])}
			return acc.finish(rep, rule, fmt.Sprintf("%d (range, minN, maxN) cases", len(cases)))
		},
		Replay: func(e explore.Env, raw json.RawMessage) *explore.Violation {
			var r c09DrawReplay
			explore.Must(json.Unmarshal(raw, &r) == nil, "bad replay")
			if f := c09ReplayDraws(r.Draws, func() *explore.Fail { return one(cases[r.Case], c09NewAcc()) }); f != nil {
				return &explore.Violation{Key: f.Key, What: f.What}
			}
			return nil
		},
	}
}

// ---- flights ------------------------------------------------------------------------------------

// c09Plan is a flight plan in model form: which ranges go into which datagram.
type c09Plan struct {
	L     int
	Dgs   [][]QUICCryptoRange
	Deco  int // QUICFlightFrames: 0 = CRYPTO frames only, 1 = PING / PADDING around them
	Frame string
}

// covers: every range lies inside the stream by its documentation and together they
// cover it (the plan is "in range" and must be accepted). Plans with an empty range or a
// datagram without bytes are degenerate: the documentation does not say whether they are
// valid, so no acceptance is demanded for them.
func (p c09Plan) covers() (inRange, covers, emptyDg, emptyRange bool) {
	sent := make([]bool, p.L)
	inRange = true
	for _, dg := range p.Dgs {
		bytes := 0
		for _, r := range dg {
			s, e, ok := c09Resolve(r.Offset, r.Length, p.L)
			if !ok {
				inRange = false
				continue
			}
			bytes += e - s
			if e == s {
				emptyRange = true
			}
			for i := s; i < e; i++ {
				sent[i] = true
			}
		}
		if bytes == 0 {
			emptyDg = true
		}
	}
	covers = true
	for _, ok := range sent {
		covers = covers && ok
	}
	return
}

// c09Compositions splits a sequence of k items into consecutive non-empty groups.
func c09Compositions(k int) [][]int {
	switch k {
	case 1:
		return [][]int{{1}}
	case 2:
		return [][]int{{2}, {1, 1}}
	case 3:
		return [][]int{{3}, {1, 2}, {2, 1}, {1, 1, 1}}
	}
	return nil
}

// c09SeqPlans enumerates the plans with at most maxK ranges from alphabet R.
func c09SeqPlans(L int, R []QUICCryptoRange, maxK int, visit func(dgs [][]QUICCryptoRange) bool) {
	seq := make([]QUICCryptoRange, 0, 3)
	var rec func(k int) bool
	rec = func(k int) bool {
		if len(seq) > 0 {
			for _, comp := range c09Compositions(len(seq)) {
				var dgs [][]QUICCryptoRange
				at := 0
				for _, n := range comp {
					dgs = append(dgs, append([]QUICCryptoRange{}, seq[at:at+n]...))
					at += n
				}
				if !visit(dgs) {
					return false
				}
			}
		}
		if k == 0 {
			return true
		}
		for _, r := range R {
			seq = append(seq, r)
			ok := rec(k - 1)
			seq = seq[:len(seq)-1]
			if !ok {
				return false
			}
		}
		return true
	}
	rec(maxK)
}

// c09FlightVerdict is the shared observation point: what planInitialFlight would do with
// the result of BuildFlight. mustAccept: the model says the plan is in range, covers the
// stream and fits (ample budget).
func c09FlightVerdict(who string, describe func() string, payloads [][]byte, berr error, L int, mustAccept, allBudgets bool, acc *c09Acc) *explore.Fail {
	if berr != nil {
		if mustAccept {
			return explore.Failf(who+":in-range-rejected", "%s: the plan lies inside the stream and covers it, BuildFlight returned %v", describe(), berr)
		}
		acc.out.Add(who + " rejected by BuildFlight: " + c09ErrClass(berr))
		return nil
	}
	if L == 0 {
		// planInitialFlight never plans an empty stream; only the frames themselves are judged
		kind, msg, _ := c09CheckFlight(payloads, 0, 0)
		if kind != "" {
			return explore.Failf(who+":"+kind, "%s: %s", describe(), msg)
		}
		acc.out.Add(who + " empty stream built")
		return nil
	}
	lens := 0
	for _, p := range payloads {
		lens = max(lens, len(p))
	}
	type bv struct {
		name string
		b    []InitialDatagramBudget
		fits bool
	}
	exact := make([]InitialDatagramBudget, len(payloads))
	for i, p := range payloads {
		exact[i].MaxFrameBytes = len(p)
	}
	variants := []bv{
		{"ample", []InitialDatagramBudget{{MaxFrameBytes: 65535}}, true},
		{"tiny", []InitialDatagramBudget{{MaxFrameBytes: max(lens-1, 1)}}, lens == 0},
	}
	if len(payloads) > 0 {
		variants = append(variants, bv{"exact", exact, true}, bv{"unchecked", []InitialDatagramBudget{{}, {}}, true})
	}
	if !allBudgets {
		variants = variants[:1]
	}
	for _, v := range variants {
		verr := validateInitialFlight(payloads, v.b, L)
		if verr != nil {
			if mustAccept && v.fits {
				return explore.Failf(who+":in-range-rejected", "%s: the plan lies inside the stream, covers it and fits the %s budget, validateInitialFlight returned %v", describe(), v.name, verr)
			}
			acc.out.Add(who + " budget=" + v.name + " rejected by validateInitialFlight: " + c09ErrClass(verr))
			continue
		}
		// accepted: this is what goes on the wire
		kind, msg, class := c09CheckFlight(payloads, 0, L)
		if kind != "" {
			return explore.Failf(who+":"+kind, "%s accepted by validateInitialFlight (budget %s), but: %s", describe(), v.name, msg)
		}
		acc.out.Add(fmt.Sprintf("%s sent budget=%s dgs=%d %s", who, v.name, len(payloads), class))
	}
	return nil
}

// c09FallbackBuild judges FrameBuilder.Build of a flight builder (the documented fallback
// for Initial packets outside the planned flight): it emits one datagram of the flight, so
// only the frames themselves are judged (types, offsets, bytes), not coverage.
func c09FallbackBuild(who string, describe func() string, p []byte, err error, L int, acc *c09Acc) *explore.Fail {
	if err != nil {
		acc.out.Add(who + ".Build rejected: " + c09ErrClass(err))
		return nil
	}
	cov := c09NewCover(0, L)
	if kind, msg := cov.add(p); kind != "" {
		return explore.Failf(who+".Build:"+kind, "%s: Build: %s", describe(), msg)
	}
	cl := "partial"
	if cov.missing() < 0 {
		cl = "complete"
	}
	acc.out.Add(who + ".Build ok " + cl)
	return nil
}

func c09QFlightPart() explore.Part {
	const rule = "QUICFlightFrames.BuildFlight + validateInitialFlight (as planInitialFlight chains them) and the Build fallback: flights of <= 3 crypto ranges in every grouping into 1..3 datagrams, ranges = every pair of cut points {0,1,L/2,L-1,L} in every spelling (negative offsets and lengths) plus ranges leaving the stream, two decorations (PING/PADDING), budgets {ample, exact, tiny, unchecked}; stream lengths {0,1,2,3,5,63,64,65,1162,2300}. Accepted plan => the independent reader finds exactly the ClientHello; a plan that is inside the stream, covers it and fits must be accepted"
	type fc struct {
		L, Deco int
		First   int // index of the first range of the sequence (work unit)
	}
	mk := func(thorough bool) []fc {
		var cs []fc
		for _, L := range c09Lens {
			n := len(c09Ranges(L, thorough))
			for d := 0; d < 2; d++ {
				for f := 0; f < n; f++ {
					cs = append(cs, fc{L, d, f})
				}
			}
		}
		cs = append(cs, fc{L: 5, Deco: 0, First: -1}) // empty Datagrams
		return cs
	}
	one := func(L, deco int, dgs [][]QUICCryptoRange, acc *c09Acc) *explore.Fail {
		f := &QUICFlightFrames{}
		for _, dg := range dgs {
			var fr QUICFrames
			if deco == 1 {
				fr = append(fr, QUICFramePing{})
			}
			for _, r := range dg {
				fr = append(fr, QUICFrameCrypto{Offset: r.Offset, Length: r.Length})
				if deco == 1 {
					fr = append(fr, QUICFramePadding{Length: 3})
				}
			}
			f.Datagrams = append(f.Datagrams, fr)
		}
		plan := c09Plan{L: L, Dgs: dgs}
		inRange, covers, _, emptyRange := plan.covers()
		describe := func() string { return fmt.Sprintf("QUICFlightFrames%v on a %d byte stream", dgs, L) }
		return c09Safe("QUICFlightFrames", func() *explore.Fail {
			payloads, err := f.BuildFlight(c09Slice(0, L), []InitialDatagramBudget{{MaxFrameBytes: 1200}})
			if fl := c09FlightVerdict("QUICFlightFrames", describe, payloads, err, L, inRange && covers && !emptyRange && len(dgs) > 0 && L > 0, true, acc); fl != nil {
				return fl
			}
			p, err := f.Build(c09Slice(0, L))
			return c09FallbackBuild("QUICFlightFrames", describe, p, err, L, acc)
		})
	}
	runCase := func(e explore.Env, c fc, acc *c09Acc) (cr explore.CaseResult) {
		if c.First < 0 {
			cr.Execs++
			if f := one(c.L, 0, nil, acc); f != nil {
				cr.Fail = f
			}
			return cr
		}
		R := c09Ranges(c.L, e.Thorough())
		// sequences starting with R[c.First]
		first := R[c.First]
		visit := func(dgs [][]QUICCryptoRange) bool {
			cr.Execs++
			cr.Trans++
			acc.plain++
			if f := one(c.L, c.Deco, dgs, acc); f != nil {
				cr.Fail = f
				cr.Human = []string{fmt.Sprintf("QUICFlightFrames ranges %v on a %d byte stream, decoration %d", dgs, c.L, c.Deco)}
				return false
			}
			return true
		}
		// k = 1
		if !visit([][]QUICCryptoRange{{first}}) {
			return cr
		}
		for _, r2 := range R {
			for _, comp := range c09Compositions(2) {
				if !visit(c09Group([]QUICCryptoRange{first, r2}, comp)) {
					return cr
				}
			}
			for _, r3 := range R {
				for _, comp := range c09Compositions(3) {
					if !visit(c09Group([]QUICCryptoRange{first, r2, r3}, comp)) {
						return cr
					}
				}
			}
		}
		return cr
	}
	return explore.Part{
		Name: "qflight",
		Run: func(e explore.Env) *explore.Report {
			cases := mk(e.Thorough())
			acc := c09NewAcc()
			rep := explore.RunCases(e, len(cases), 1, true, func(i int) explore.CaseResult {
				cr := runCase(e, cases[i], acc)
				if cr.Fail != nil {
					cr.Replay = i
				}
				return cr
			})
			acc.samples = []any{"QUICFlightFrames{{Crypto{-365,0}, Crypto{0,62}}, {Crypto{62,1139}}, {Crypto{1201,-365}}} (the documented Chrome flight) is in the alphabet shape: ranges {-1150,0},{0,1150} etc."}
			return acc.finish(rep, rule, fmt.Sprintf("every sequence of <= 3 ranges of the alphabet (%d ranges for L=2300) in every grouping, %d work units", len(c09Ranges(2300, e.Thorough())), len(cases)))
		},
		Replay: func(e explore.Env, raw json.RawMessage) *explore.Violation {
			cases := mk(e.Thorough())
			cr := runCase(e, cases[explore.ReplayIndex(raw)], c09NewAcc())
			if cr.Fail != nil {
				return &explore.Violation{Key: cr.Fail.Key, What: cr.Fail.What, Human: cr.Human}
			}
			return nil
		},
	}
}

func c09Group(seq []QUICCryptoRange, comp []int) [][]QUICCryptoRange {
	var dgs [][]QUICCryptoRange
	at := 0
	for _, n := range comp {
		dgs = append(dgs, append([]QUICCryptoRange{}, seq[at:at+n]...))
		at += n
	}
	return dgs
}

// ---- QUICRandomFlightFrames ----------------------------------------------------------------------

type c09RFPreset struct {
	Name string
	F    QUICRandomFrames
	Doc  bool // satisfies the documentation of QUICRandomFlightDatagram.Frames
}

var c09RFPresets = []c09RFPreset{
	{"zero", QUICRandomFrames{}, true},
	{"split", QUICRandomFrames{MinCRYPTO: 1, MaxCRYPTO: 3}, true},
	{"split+ping", QUICRandomFrames{MinCRYPTO: 2, MaxCRYPTO: 3, MinPING: 0, MaxPING: 2}, true},
	{"padded", QUICRandomFrames{MinCRYPTO: 1, MaxCRYPTO: 2, MinPADDING: 1, MaxPADDING: 3, Length: 40}, true},
	{"3cuts", QUICRandomFrames{MinCRYPTO: 3, MaxCRYPTO: 4, MinPING: 1, MaxPING: 2}, true},
	{"min>max", QUICRandomFrames{MinCRYPTO: 3, MaxCRYPTO: 1}, false},
	{"pad0", QUICRandomFrames{MinCRYPTO: 1, MaxCRYPTO: 2, Length: 40}, false},
	{"ping>max", QUICRandomFrames{MinCRYPTO: 1, MaxCRYPTO: 2, MinPING: 3, MaxPING: 2}, false},
}

func c09RFRanges(n int) []QUICCryptoRange {
	h := n / 2
	c := []QUICCryptoRange{{0, 0}, {0, h}, {h, 0}, {h - n, 0}, {0, h - n}, {h, n - h}, {0, n}, {h, h - n}, {n + 1, 0}, {0, n + 1}, {-(n + 1), 0}}
	seen := map[QUICCryptoRange]bool{}
	var out []QUICCryptoRange
	for _, r := range c {
		if !seen[r] {
			seen[r] = true
			out = append(out, r)
		}
	}
	return out
}

type c09RFCase struct {
	L      int
	Preset int
	Dgs    [][]QUICCryptoRange
}

func c09RFCases(thorough bool) []c09RFCase {
	var cs []c09RFCase
	for _, L := range c09Lens {
		R := c09RFRanges(L)
		for pi := range c09RFPresets {
			maxK := 2
			if thorough && pi < 3 {
				maxK = 3 // every three-range plan for the presets zero / split / split+ping
			}
			c09SeqPlans(L, R, maxK, func(dgs [][]QUICCryptoRange) bool {
				cs = append(cs, c09RFCase{L, pi, dgs})
				return true
			})
			if !thorough {
				// quick: the three-range plans that cover the stream (the documented use)
				c09SeqPlans(L, R[:min(6, len(R))], 3, func(dgs [][]QUICCryptoRange) bool {
					n := 0
					for _, d := range dgs {
						n += len(d)
					}
					if _, cov, _, _ := (c09Plan{L: L, Dgs: dgs}).covers(); n == 3 && cov && pi < 2 {
						cs = append(cs, c09RFCase{L, pi, dgs})
					}
					return true
				})
			}
			cs = append(cs, c09RFCase{L, pi, nil}, c09RFCase{L, pi, [][]QUICCryptoRange{{}}}, c09RFCase{L, pi, [][]QUICCryptoRange{{{0, 0}}, {}}})
		}
	}
	return cs
}

func c09RFEnum(e explore.Env) *c09Enum {
	if e.Thorough() {
		return &c09Enum{Cap: 4000, RedCap: 1500, MaxDev: 3, Interest: c09Interest(0)}
	}
	return &c09Enum{Cap: 400, RedCap: 200, MaxDev: 3, Interest: c09Interest(0)}
}

func c09QRFlightPart() explore.Part {
	const rule = "QUICRandomFlightFrames.BuildFlight + validateInitialFlight and the Build fallback: PerDatagram plans of <= 3 ranges (11 spellings incl. negative offsets/lengths, empty and out-of-stream ranges) in every grouping into 1..3 datagrams, empty PerDatagram / empty CryptoRanges, 8 Frames presets (3 invalid); every draw (frame counts, cut lengths, PADDING lengths, Shuffle swaps) an explorer choice; stream lengths {0,1,2,3,5,63,64,65,1162,2300}; budgets {ample, exact, tiny, unchecked}"
	one := func(c c09RFCase, acc *c09Acc, nth *int) *explore.Fail {
		*nth++
		pre := c09RFPresets[c.Preset]
		f := &QUICRandomFlightFrames{}
		for _, dg := range c.Dgs {
			f.PerDatagram = append(f.PerDatagram, QUICRandomFlightDatagram{CryptoRanges: dg, Frames: pre.F})
		}
		inRange, covers, emptyDg, _ := c09Plan{L: c.L, Dgs: c.Dgs}.covers()
		must := pre.Doc && inRange && covers && !emptyDg && len(c.Dgs) > 0 && c.L > 0
		describe := func() string {
			return fmt.Sprintf("QUICRandomFlightFrames ranges %v, Frames %s %+v, %d byte stream", c.Dgs, pre.Name, pre.F, c.L)
		}
		who := "QUICRandomFlightFrames"
		return c09Safe(who, func() *explore.Fail {
			payloads, err := f.BuildFlight(c09Slice(0, c.L), []InitialDatagramBudget{{MaxFrameBytes: 1200}})
			if fl := c09FlightVerdict(who, describe, payloads, err, c.L, must, *nth == 1, acc); fl != nil {
				return fl
			}
			return nil
		})
	}
	fallback := func(c c09RFCase, acc *c09Acc) *explore.Fail {
		pre := c09RFPresets[c.Preset]
		f := &QUICRandomFlightFrames{}
		for _, dg := range c.Dgs {
			f.PerDatagram = append(f.PerDatagram, QUICRandomFlightDatagram{CryptoRanges: dg, Frames: pre.F})
		}
		describe := func() string {
			return fmt.Sprintf("QUICRandomFlightFrames ranges %v, Frames %s, %d byte stream", c.Dgs, pre.Name, c.L)
		}
		return c09Safe("QUICRandomFlightFrames.Build", func() *explore.Fail {
			p, err := f.Build(c09Slice(0, c.L))
			return c09FallbackBuild("QUICRandomFlightFrames", describe, p, err, c.L, acc)
		})
	}
	return explore.Part{
		Name: "qrflight",
		Run: func(e explore.Env) *explore.Report {
			cases := c09RFCases(e.Thorough())
			acc := c09NewAcc()
			rep := explore.RunCases(e, len(cases), 1, true, func(i int) explore.CaseResult {
				c := cases[i]
				nth := 0
				cr := c09DrawCase("qrflight", c09RFEnum(e), acc, i, func() *explore.Fail { return one(c, acc, &nth) })
				if cr.Fail != nil {
					return cr
				}
				if len(c.Dgs) <= 1 { // the fallback only looks at datagram 0
					cr2 := c09DrawCase("qrflight", c09RFEnum(e), acc, i, func() *explore.Fail { return fallback(c, acc) })
					cr2.Execs += cr.Execs
					cr2.Trans += cr.Trans
					if cr2.Fail != nil {
						cr2.Replay.(map[string]any)["fallback"] = true
					}
					return cr2
				}
				return cr
			})
			acc.samples = []any{fmt.Sprintf("%+v", cases[len(cases)/3]), fmt.Sprintf("%+v", cases[len(cases)-5])}
			return acc.finish(rep, rule, fmt.Sprintf("%d (stream length, preset, plan) configurations", len(cases)))
		},
		Replay: func(e explore.Env, raw json.RawMessage) *explore.Violation {
			var r struct {
				c09DrawReplay
				Fallback bool
			}
			explore.Must(json.Unmarshal(raw, &r) == nil, "bad replay")
			cases := c09RFCases(e.Thorough())
			c := cases[r.Case]
			f := c09ReplayDraws(r.Draws, func() *explore.Fail {
				if r.Fallback {
					return fallback(c, c09NewAcc())
				}
				nth := 0
				return one(c, c09NewAcc(), &nth)
			})
			if f != nil {
				return &explore.Violation{Key: f.Key, What: f.What}
			}
			return nil
		},
	}
}

// ---- validateInitialFlight on hand-made plans -------------------------------------------------------

func c09ValidatePart() explore.Part {
	const rule = "validateInitialFlight on hand-made flights: <= 3 well-formed frames (CRYPTO for every pair of cut points {0,1,L/2,L-1,L,L+1} with the true stream bytes, PING, PADDING, one unknown frame type) split over 1..2 datagrams, budgets {ample, exact, tiny}, stream lengths {1,2,3,5,64,65}: accepted => the independent reader finds exactly the ClientHello; a flight the reader finds complete and within budget must be accepted"
	type fr struct {
		b    []byte
		name string
	}
	alphabet := func(L int) []fr {
		var a []fr
		cuts := c09UniqSorted([]int{0, 1, L / 2, L - 1, L, L + 1}, 0, L+1)
		for _, s := range cuts {
			for _, e := range cuts {
				if e < s {
					continue
				}
				b := []byte{0x06}
				b = c09AppendVarint(b, uint64(s))
				b = c09AppendVarint(b, uint64(e-s))
				for i := s; i < e; i++ {
					b = append(b, c09F(i))
				}
				a = append(a, fr{b, fmt.Sprintf("CRYPTO[%d,%d)", s, e)})
			}
		}
		a = append(a, fr{[]byte{1}, "PING"}, fr{[]byte{0, 0}, "PADDING2"}, fr{[]byte{0x02, 0x00, 0x00, 0x00, 0x00}, "ACK(unknown to an Initial CRYPTO flight)"})
		return a
	}
	type vc struct{ L, First int }
	var cases []vc
	for _, L := range []int{1, 2, 3, 5, 64, 65} {
		for i := range alphabet(L) {
			cases = append(cases, vc{L, i})
		}
	}
	one := func(L int, payloads [][]byte, names []string, acc *c09Acc) *explore.Fail {
		return c09Safe("validateInitialFlight", func() *explore.Fail {
			kind, msg, class := c09CheckFlight(payloads, 0, L)
			// an empty CRYPTO frame is degenerate: no acceptance is demanded for such a flight
			degenerate := kind == "" && !strings.Contains(class, "empty=0")
			maxLen := 0
			for _, p := range payloads {
				maxLen = max(maxLen, len(p))
			}
			for _, bud := range []struct {
				name string
				v    int
			}{{"ample", 4000}, {"exact", maxLen}, {"tiny", maxLen - 1}} {
				if bud.v <= 0 {
					continue
				}
				err := validateInitialFlight(payloads, []InitialDatagramBudget{{MaxFrameBytes: bud.v}}, L)
				switch {
				case err == nil && kind != "":
					return explore.Failf("validateInitialFlight:accepts-"+kind, "flight %v of a %d byte stream accepted, but: %s", names, L, msg)
				case err != nil && kind == "" && degenerate:
					acc.out.Add("validate rejected a complete flight with an empty CRYPTO frame: " + c09ErrClass(err))
				case err != nil && kind == "" && bud.name != "tiny":
					return explore.Failf("validateInitialFlight:rejects-complete", "flight %v of a %d byte stream is complete and fits (%s budget), rejected: %v", names, L, bud.name, err)
				case err == nil:
					acc.out.Add("validate accepted budget=" + bud.name)
				default:
					acc.out.Add("validate rejected: " + c09ErrClass(err))
				}
			}
			return nil
		})
	}
	runCase := func(c vc, acc *c09Acc) (cr explore.CaseResult) {
		A := alphabet(c.L)
		var seqs [][]int
		seqs = append(seqs, []int{c.First})
		for j := range A {
			seqs = append(seqs, []int{c.First, j})
			for k := range A {
				seqs = append(seqs, []int{c.First, j, k})
			}
		}
		for _, s := range seqs {
			for cut := 0; cut < len(s); cut++ { // cut = 0: one datagram; else two datagrams split at cut
				var payloads [][]byte
				var cur []byte
				var names []string
				for i, x := range s {
					if cut > 0 && i == cut {
						payloads = append(payloads, cur)
						cur = nil
						names = append(names, "|")
					}
					cur = append(cur, A[x].b...)
					names = append(names, A[x].name)
				}
				payloads = append(payloads, cur)
				cr.Execs++
				cr.Trans++
				acc.plain++
				if f := one(c.L, payloads, names, acc); f != nil {
					cr.Fail = f
					return cr
				}
			}
		}
		return cr
	}
	return explore.Part{
		Name: "validate",
		Run: func(e explore.Env) *explore.Report {
			acc := c09NewAcc()
			rep := explore.RunCases(e, len(cases), 1, true, func(i int) explore.CaseResult {
				cr := runCase(cases[i], acc)
				if cr.Fail != nil {
					cr.Replay = i
				}
				return cr
			})
			acc.samples = []any{"[CRYPTO[0,32) | CRYPTO[32,64) PING] L=64", "[CRYPTO[1,5) PADDING2] L=5 (byte 0 missing)"}
			return acc.finish(rep, rule, fmt.Sprintf("every flight of <= 3 frames, %d work units", len(cases)))
		},
		Replay: func(e explore.Env, raw json.RawMessage) *explore.Violation {
			cr := runCase(cases[explore.ReplayIndex(raw)], c09NewAcc())
			if cr.Fail != nil {
				return &explore.Violation{Key: cr.Fail.Key, What: cr.Fail.What}
			}
			return nil
		},
	}
}

func c09AppendVarint(b []byte, v uint64) []byte {
	switch {
	case v < 64:
		return append(b, byte(v))
	case v < 16384:
		return append(b, byte(v>>8)|0x40, byte(v))
	case v < 1<<30:
		return append(b, byte(v>>24)|0x80, byte(v>>16), byte(v>>8), byte(v))
	}
	return append(b, byte(v>>56)|0xc0, byte(v>>48), byte(v>>40), byte(v>>32), byte(v>>24), byte(v>>16), byte(v>>8), byte(v))
}
