package quic

// C09 part 1: the per-datagram frame builders QUICFrames, QUICRandomFrames and
// QUICMultiDatagramFrames (u_quic_frames.go), called exactly as uPacketPacker calls them
// (Build / BuildForDatagram with the slice popped for the datagram and its base offset).

import (
	"encoding/json"
	"fmt"
	"sort"

	"github.com/refraction-networking/uquic/internal/verifmc/explore"
)

var (
	c09Lens  = []int{0, 1, 2, 3, 5, 63, 64, 65, 1162, 2300}
	c09Bases = []int{0, 63, 64, 16383, 16384}
)

// ---- QUICFrames -------------------------------------------------------------------------

// c09CutPoints returns the candidate cut points 0 < p < L of a slice at `base`: all of
// them for short slices, otherwise the edges, the middle and the points where the wire
// offset base+p or the length changes its varint width.
func c09CutPoints(L, base int) []int {
	var c []int
	if L <= 6 {
		for p := 1; p < L; p++ {
			c = append(c, p)
		}
		return c
	}
	c = []int{1, 2, 62, 63, 64, 65, L / 2, L - 64, L - 63, L - 2, L - 1}
	for _, b := range []int{64, 16384} {
		for d := -1; d <= 1; d++ {
			c = append(c, b-base+d)
		}
	}
	return c09UniqSorted(c, 1, L-1)
}

func c09Perms(n, limit int) [][]int {
	var out [][]int
	idx := make([]int, n)
	for i := range idx {
		idx[i] = i
	}
	var rec func(k int)
	rec = func(k int) {
		if len(out) >= limit {
			return
		}
		if k == n {
			out = append(out, append([]int{}, idx...))
			return
		}
		for i := k; i < n; i++ {
			idx[k], idx[i] = idx[i], idx[k]
			rec(k + 1)
			idx[k], idx[i] = idx[i], idx[k]
		}
	}
	rec(0)
	return out
}

type c09QFCase struct{ L, Base, Deco int }

func c09QFCases() []c09QFCase {
	var cs []c09QFCase
	for _, L := range c09Lens {
		for _, b := range c09Bases {
			for d := 0; d < 3; d++ {
				cs = append(cs, c09QFCase{L, b, d})
			}
		}
	}
	return cs
}

func c09Decorate(fr QUICFrames, deco int) QUICFrames {
	switch deco {
	case 1:
		out := QUICFrames{QUICFramePing{}}
		for _, f := range fr {
			out = append(out, f, QUICFramePadding{Length: 2})
		}
		return append(out, QUICFramePing{})
	case 2:
		out := QUICFrames{QUICFramePadding{Length: 0}, QUICFramePadding{Length: 1}}
		for i, f := range fr {
			if i == 1 {
				out = append(out, QUICFramePing{}, QUICFramePing{})
			}
			out = append(out, f)
		}
		return append(out, QUICFramePadding{Length: 70})
	}
	return fr
}

// c09QFOne builds one layout both ways the packer can and applies the oracle.
func c09QFOne(fr QUICFrames, L, base int, acc *c09Acc) (*explore.Fail, int64) {
	var n int64
	try := func(api string, call func(data []byte) ([]byte, error)) *explore.Fail {
		n++
		return c09Safe("QUICFrames."+api, func() *explore.Fail {
			p, err := call(c09Slice(base, L))
			if err != nil {
				return explore.Failf("QUICFrames."+api+":tiling-rejected", "layout %v tiles its %d byte slice but %s returned %v", fr, L, api, err)
			}
			kind, msg, class := c09CheckFlight([][]byte{p}, base, L)
			if kind != "" {
				return explore.Failf("QUICFrames."+api+":"+kind, "layout %v, %d byte slice at base offset %d: %s", fr, L, base, msg)
			}
			acc.out.Add("QUICFrames ok L=" + c09LenClass(L) + " " + class)
			return nil
		})
	}
	if f := try("BuildForDatagram", func(d []byte) ([]byte, error) { return fr.BuildForDatagram(3, d, uint64(base)) }); f != nil {
		return f, n
	}
	if base == 0 {
		if f := try("Build", func(d []byte) ([]byte, error) { return fr.Build(d) }); f != nil {
			return f, n
		}
	}
	// the same fixed layout handed the slice of another datagram of the flight
	for _, m := range c09QFReuseLens(fr, L) {
		tiles := c09QFTiles(fr, m)
		if f := c09QFReusedOne("BuildForDatagram", fr, m, base, tiles, acc, func(d []byte) ([]byte, error) { return fr.BuildForDatagram(1, d, uint64(base)) }); f != nil {
			return f, n + 1
		}
		n++
		if base == 0 {
			if f := c09QFReusedOne("Build", fr, m, base, tiles, acc, func(d []byte) ([]byte, error) { return fr.Build(d) }); f != nil {
				return f, n + 1
			}
			n++
		}
	}
	return nil, n
}

// ---- a fixed layout reused for the other datagrams of a flight ------------------------------
//
// uPacketPacker hands the SAME QUICFrames value the slice of every Initial datagram of the
// flight (and of every retransmission), so a layout that tiles the slice it was written for
// also meets slices of other lengths: the short tail of the flight, a longer datagram behind a
// CryptoLength plan. Where the layout still tiles the slice it is handed (a last frame with
// Length 0 stretches), the full oracle applies. Where it does not, the layout is outside the
// property's quantifier as far as completeness goes and an error is the expected answer; what
// the statement demands of every call whatever the configuration is judged: no panic, only
// PADDING/PING/CRYPTO frames, and no CRYPTO frame that reaches outside the data it was handed
// or carries anything but the stream's bytes at its absolute offset (shifted, zero-extended).

// c09QFCells returns the CRYPTO cells of a layout resolved against an n byte slice
// (Length 0 = "the rest"); ok is false when a cell does not lie inside the slice.
func c09QFCells(fr QUICFrames, n int) (cells [][2]int, ok bool) {
	ok = true
	for _, f := range fr {
		c, isCrypto := f.(QUICFrameCrypto)
		if !isCrypto {
			continue
		}
		off, ln := c.Offset, c.Length
		if ln == 0 {
			ln = n - off
		}
		if off < 0 || ln < 0 || off+ln > n {
			ok = false
		}
		cells = append(cells, [2]int{off, ln})
	}
	return cells, ok
}

// c09QFTiles: the layout's CRYPTO cells lie inside an n byte slice and cover it exactly once.
func c09QFTiles(fr QUICFrames, n int) bool {
	if len(fr) == 0 {
		return true // documented: one CRYPTO frame with everything
	}
	cells, ok := c09QFCells(fr, n)
	if !ok || len(cells) == 0 {
		return false
	}
	sort.Slice(cells, func(i, j int) bool {
		if cells[i][0] != cells[j][0] {
			return cells[i][0] < cells[j][0]
		}
		return cells[i][1] < cells[j][1]
	})
	pos := 0
	for _, c := range cells {
		if c[0] != pos {
			return false
		}
		pos += c[1]
	}
	return pos == n
}

// c09QFReuseLens: the other slice lengths a layout written for an L byte slice is tried on:
// 0, 1, and one below / at / one above every cell boundary of the layout (so every cell is met
// by a slice that ends just before it, inside it at either edge, and just behind it), L itself
// excluded.
func c09QFReuseLens(fr QUICFrames, L int) []int {
	c := []int{0, 1, L - 1, L + 1}
	for _, f := range fr {
		if q, ok := f.(QUICFrameCrypto); ok {
			for _, b := range []int{q.Offset, q.Offset + q.Length} {
				c = append(c, b-1, b, b+1)
			}
		}
	}
	out := c09UniqSorted(c, 0, L+1)
	for i, x := range out {
		if x == L {
			return append(out[:i:i], out[i+1:]...)
		}
	}
	return out
}

func c09QFReusedOne(api string, fr QUICFrames, n, base int, tiles bool, acc *c09Acc, call func(data []byte) ([]byte, error)) *explore.Fail {
	who := "QUICFrames." + api + ":reused"
	return c09Safe(who, func() *explore.Fail {
		p, err := call(c09Slice(base, n))
		if err != nil {
			if tiles {
				return explore.Failf(who+":tiling-rejected", "layout %v tiles the %d byte slice it is handed but %s returned %v", fr, n, api, err)
			}
			acc.out.Add("QUICFrames reused on a slice it does not tile: rejected")
			return nil
		}
		cov := c09NewCover(base, n)
		if kind, msg := cov.add(p); kind != "" {
			return explore.Failf(who+":"+kind, "layout %v handed a %d byte slice at base offset %d (tiles it: %v): %s", fr, n, base, tiles, msg)
		}
		miss := cov.missing()
		if !tiles {
			// not rejected although it does not tile: outside the quantifier, recorded only
			cls := "complete"
			if miss >= 0 {
				cls = "truncated"
			}
			acc.out.Add("QUICFrames reused on a slice it does not tile: built, every frame true, " + cls + " (completeness outside the quantifier, no verdict)")
			return nil
		}
		if miss >= 0 {
			return explore.Failf(who+":truncated", "layout %v tiles the %d byte slice at base offset %d it is handed but no CRYPTO frame carries stream offset %d", fr, n, base, miss)
		}
		acc.out.Add("QUICFrames reused on another slice it tiles n=" + c09LenClass(n) + " " + cov.class())
		return nil
	})
}

// c09QFLayouts calls visit for every tiling layout of the case (visit returns false to stop).
func c09QFLayouts(c c09QFCase, thorough bool, visit func(fr QUICFrames) bool) {
	pts := c09CutPoints(c.L, c.Base)
	if len(pts) > 12 && !thorough {
		// quick tier: keep the structurally different points
		pts = c09UniqSorted([]int{1, 63, 64, 65, c.L / 2, c.L - 1, 64 - c.Base, 16384 - c.Base, 16383 - c.Base}, 1, c.L-1)
	}
	var cuts []int
	emit := func() bool {
		bounds := append(append([]int{0}, cuts...), c.L)
		var cells QUICFrames
		for i := 0; i+1 < len(bounds); i++ {
			cells = append(cells, QUICFrameCrypto{Offset: bounds[i], Length: bounds[i+1] - bounds[i]})
		}
		last := len(cells) - 1
		var variants []QUICFrames
		// the last cell with Length 0 ("the remaining")
		v0 := append(QUICFrames{}, cells...)
		v0[last] = QUICFrameCrypto{Offset: bounds[last], Length: 0}
		variants = append(variants, v0)
		if c.L > 0 {
			variants = append(variants, cells) // every length explicit
			// explicit lengths plus an empty "remaining" frame at the very end
			variants = append(variants, append(append(QUICFrames{}, cells...), QUICFrameCrypto{Offset: c.L, Length: 0}))
		}
		for _, v := range variants {
			limit := 120
			if c.Deco != 0 || (len(v) > 4 && !thorough) {
				limit = 1
			}
			perms := c09Perms(len(v), limit)
			if c.Deco != 0 && len(v) > 1 { // decorated: identity and reverse order
				rev := make([]int, len(v))
				for i := range rev {
					rev[i] = len(v) - 1 - i
				}
				perms = append(perms, rev)
			}
			for _, pm := range perms {
				fr := make(QUICFrames, len(v))
				for i, j := range pm {
					fr[i] = v[j]
				}
				if !visit(c09Decorate(fr, c.Deco)) {
					return false
				}
			}
		}
		return true
	}
	var rec func(from, left int) bool
	rec = func(from, left int) bool {
		if !emit() {
			return false
		}
		if left == 0 {
			return true
		}
		for i := from; i < len(pts); i++ {
			cuts = append(cuts, pts[i])
			ok := rec(i+1, left-1)
			cuts = cuts[:len(cuts)-1]
			if !ok {
				return false
			}
		}
		return true
	}
	rec(0, 3) // at most 4 cells
	if c.Deco == 0 && c.L == 0 {
		visit(QUICFrames{})
		visit(QUICFrames(nil))
	}
}

// c09QFNonTilings are layouts that do NOT tile their slice. The property's quantifier
// covers only tiling layouts, so these are executed for the record (outcome classes) and
// never produce a verdict.
func c09QFNonTilings(L int) map[string]QUICFrames {
	h := L / 2
	return map[string]QUICFrames{
		"gap":              {QUICFrameCrypto{0, h}, QUICFrameCrypto{h + 1, 0}},
		"short":            {QUICFrameCrypto{0, h}},
		"overlap":          {QUICFrameCrypto{0, 0}, QUICFrameCrypto{h, 0}},
		"too-long":         {QUICFrameCrypto{0, L + 3}},
		"offset-past-end":  {QUICFrameCrypto{0, L}, QUICFrameCrypto{L + 2, 0}},
		"negative-length":  {QUICFrameCrypto{0, -1}},
		"lowest-not-zero":  {QUICFrameCrypto{7, 0}},
		"negative-padding": {QUICFrameCrypto{0, 0}, QUICFramePadding{Length: -1}},
	}
}

func c09QFramesPart() explore.Part {
	const rule = "QUICFrames.Build / BuildForDatagram on every layout that tiles its slice: <= 4 cells cut at the boundary points of the slice (all points for L <= 6; else 1,2,62..65,L/2,L-64,L-63,L-2,L-1 and the points where base+p crosses 64 / 16384), last cell explicit or Length 0, optional empty trailing frame, every frame order, three PING/PADDING decorations; slice lengths {0,1,2,3,5,63,64,65,1162,2300} x base offsets {0,63,64,16383,16384}; independent frame reader + coverage bitmap. Every one of these layouts is also handed, as the packer does with a fixed layout over the datagrams of a flight, slices of other lengths (0, 1, L-1, L+1 and one below / at / one above each of its cell boundaries): where it still tiles the slice the full oracle applies; where it does not, an error is accepted and a built payload must consist of PADDING/PING/CRYPTO frames whose CRYPTO ranges lie inside the slice and carry its bytes at their absolute offsets (no panic, no shift, no zero-extension; completeness not judged). Hand-picked non-tiling layouts (gap, overlap, lowest offset != 0, ...) are executed for the record only (outside the property's quantifier)"
	cases := c09QFCases()
	run := func(e explore.Env, i int, acc *c09Acc, only QUICFrames) explore.CaseResult {
		c := cases[i]
		var cr explore.CaseResult
		c09QFLayouts(c, e.Thorough(), func(fr QUICFrames) bool {
			f, n := c09QFOne(fr, c.L, c.Base, acc)
			acc.plain++
			cr.Execs += n
			cr.Trans += n
			if f != nil {
				cr.Fail = f
				cr.Replay = map[string]any{"case": i}
				cr.Human = []string{fmt.Sprintf("%#v", fr)}
				return false
			}
			return true
		})
		if c.Deco == 0 {
			names := explore.SortedKeys(c09QFNonTilings(c.L))
			for _, name := range names {
				fr := c09QFNonTilings(c.L)[name]
				cls := func() (cls string) {
					defer func() {
						if x := recover(); x != nil {
							cls = "panic"
						}
					}()
					p, err := fr.BuildForDatagram(0, c09Slice(c.Base, c.L), uint64(c.Base))
					if err != nil {
						return "error"
					}
					k, _, _ := c09CheckFlight([][]byte{p}, c.Base, c.L)
					if k == "" {
						k = "complete"
					}
					return k
				}()
				cr.Execs++
				acc.out.Add("QUICFrames non-tiling (outside quantifier, no verdict) " + name + ": " + cls)
			}
		}
		return cr
	}
	return explore.Part{
		Name: "qframes",
		Run: func(e explore.Env) *explore.Report {
			acc := c09NewAcc()
			rep := explore.RunCases(e, len(cases), 1, true, func(i int) explore.CaseResult { return run(e, i, acc, nil) })
			acc.samples = []any{"QUICFrames{Crypto{64,0}, Crypto{0,63}, Crypto{63,1}} on a 2300 byte slice at base 16383", "QUICFrames{} on an empty slice"}
			return acc.finish(rep, rule, fmt.Sprintf("all tiling layouts of %d (slice length, base offset, decoration) cases, each also handed <= 13 slices of other lengths", len(cases)))
		},
		Replay: func(e explore.Env, raw json.RawMessage) *explore.Violation {
			var r struct{ Case int }
			explore.Must(json.Unmarshal(raw, &r) == nil, "bad replay")
			cr := run(e, r.Case, c09NewAcc(), nil)
			if cr.Fail == nil {
				return nil
			}
			return &explore.Violation{Key: cr.Fail.Key, What: cr.Fail.What, Human: cr.Human}
		},
	}
}

// ---- QUICRandomFrames -------------------------------------------------------------------

type c09Pair struct{ Min, Max uint8 }

func c09AllPairs() []c09Pair {
	var p []c09Pair
	for a := uint8(0); a <= 3; a++ {
		for b := uint8(0); b <= 3; b++ {
			p = append(p, c09Pair{a, b})
		}
	}
	return p
}

type c09QRCase struct {
	L, Base        int
	Ping, Cry, Pad c09Pair
	Length         uint16
	LenClass       string
	Deep           bool // enumerate the draws with the large cap
}

func c09VarintLen(v int) int {
	switch {
	case v < 64:
		return 1
	case v < 16384:
		return 2
	case v < 1<<30:
		return 4
	}
	return 8
}

func (c c09QRCase) rf() *QUICRandomFrames {
	return &QUICRandomFrames{MinPING: c.Ping.Min, MaxPING: c.Ping.Max, MinCRYPTO: c.Cry.Min, MaxCRYPTO: c.Cry.Max, MinPADDING: c.Pad.Min, MaxPADDING: c.Pad.Max, Length: c.Length}
}

// documented marks configurations that satisfy every constraint the field documentation
// states (Max >= Min+1, MinCRYPTO >= 1, padding bounds when Length != 0) on a non-empty
// slice: they must be built, not rejected.
func c09RFDocumented(rf *QUICRandomFrames, L int) bool {
	if L < 1 || rf.MaxPING < rf.MinPING+1 || rf.MinCRYPTO < 1 || rf.MaxCRYPTO < rf.MinCRYPTO+1 {
		return false
	}
	if rf.Length != 0 && (rf.MinPADDING < 1 || rf.MaxPADDING < rf.MinPADDING+1) {
		return false
	}
	return true
}

// rejectable: the code / docs name the configuration as invalid (Min > Max, MinCRYPTO < 1,
// MinPADDING < 1 with a Length); only then is an error an acceptable answer.
func c09RFRejectable(rf *QUICRandomFrames) bool {
	return !c09RFDocumented(rf, 1)
}

func c09QRCases(thorough bool) []c09QRCase {
	all := c09AllPairs()
	repPing := []c09Pair{{0, 0}, {1, 3}}
	repCry := []c09Pair{{1, 3}, {2, 3}}
	repPad := []c09Pair{{1, 3}, {2, 2}}
	type trip struct{ ping, cry, pad c09Pair }
	seen := map[trip]bool{}
	var trips []trip
	add := func(pi, cr, pa []c09Pair) {
		for _, a := range pi {
			for _, b := range cr {
				for _, c := range pa {
					t := trip{a, b, c}
					if !seen[t] {
						seen[t] = true
						trips = append(trips, t)
					}
				}
			}
		}
	}
	if thorough {
		add(all, all, all)
	} else {
		add(repPing, all, repPad)
		add(all, repCry, repPad)
		add(repPing, repCry, all)
	}
	var cs []c09QRCase
	for _, L := range c09Lens {
		for _, base := range c09Bases {
			nat := 1 + 1 + c09VarintLen(L) + L // one CRYPTO frame as the dry run sizes it
			lens := []struct {
				v   int
				cls string
			}{{0, "0"}, {nat - 1, "below"}, {nat, "equal"}, {nat + 1, "above1"}, {nat + 4, "above4"}, {65535, "65535"}}
			for _, ln := range lens {
				if ln.v > 65535 {
					continue
				}
				for _, t := range trips {
					c := c09QRCase{L: L, Base: base, Ping: t.ping, Cry: t.cry, Pad: t.pad, Length: uint16(ln.v), LenClass: ln.cls}
					if ln.v == 0 && ln.cls != "0" {
						continue
					}
					if ln.v == 0 && !(t.pad == c09Pair{0, 0} || t.pad == c09Pair{1, 3} || t.pad == c09Pair{3, 1}) && thorough {
						continue // Length 0: the padding bounds are unused; three representatives
					}
					// deep cases: every draw literally, up to 10^6 executions
					c.Deep = L <= 5 && (base == 0 || base == 63 || base == 16383) && t.ping == c09Pair{0, 3} && t.cry == c09Pair{1, 3} && t.pad == c09Pair{1, 3} && (ln.cls == "0" || ln.cls == "above4")
					cs = append(cs, c)
				}
			}
		}
	}
	return cs
}

func c09QROne(rf *QUICRandomFrames, L, base int, acc *c09Acc) *explore.Fail {
	return c09Safe("QUICRandomFrames", func() *explore.Fail {
		var p []byte
		var err error
		if base == 0 && L%2 == 1 {
			p, err = rf.Build(c09Slice(base, L))
		} else {
			p, err = rf.BuildForDatagram(1, c09Slice(base, L), uint64(base))
		}
		if err != nil {
			if !c09RFRejectable(rf) && L >= 1 {
				return explore.Failf("QUICRandomFrames:in-range-rejected", "%+v satisfies every documented bound but the builder returned %v (slice %d bytes at %d)", *rf, err, L, base)
			}
			acc.out.Add("QUICRandomFrames rejected: " + err.Error())
			return nil
		}
		kind, msg, class := c09CheckFlight([][]byte{p}, base, L)
		if kind != "" {
			return explore.Failf("QUICRandomFrames:"+kind, "%+v, %d byte slice at base offset %d: %s", *rf, L, base, msg)
		}
		lc := "len=other"
		switch {
		case rf.Length == 0:
			lc = "len=unpadded"
		case len(p) == int(rf.Length):
			lc = "len=exact"
		case len(p) > int(rf.Length):
			lc = "len=over"
		}
		acc.out.Add("QUICRandomFrames ok L=" + c09LenClass(L) + " " + lc + " " + class)
		return nil
	})
}

func c09Interest(base int) []uint64 {
	// a CRYPTO length draw v gives the next frame the offset base+1+v (+ earlier lengths)
	var out []uint64
	for _, b := range []int{64, 16384} {
		if x := b - base - 1; x >= 0 {
			out = append(out, uint64(x))
		}
	}
	return out
}

func c09EnumFor(e explore.Env, deep bool, base int) *c09Enum {
	en := &c09Enum{Cap: 1500, RedCap: 500, MaxDev: 3, Interest: c09Interest(base)}
	if e.Thorough() {
		en = &c09Enum{Cap: 5000, RedCap: 2000, MaxDev: 3, Interest: c09Interest(base)}
	}
	if deep {
		en.Cap = 1_000_000
		if !e.Thorough() {
			en.Cap = 60_000
		}
	}
	return en
}

func c09DrawCase(name string, en *c09Enum, acc *c09Acc, i int, one func() *explore.Fail) explore.CaseResult {
	res := en.run(one)
	if acc != nil {
		acc.note(res)
	}
	cr := explore.CaseResult{Execs: res.Execs, Trans: res.Execs}
	if res.Fail != nil {
		cr.Fail = res.Fail
		cr.Fail.What = fmt.Sprintf("%s [case %d, draws %v, mode %s]", res.Fail.What, i, res.FailDraws, res.Mode)
		cr.Replay = map[string]any{"case": i, "draws": res.FailDraws}
		cr.Human = []string{fmt.Sprintf("%s case %d", name, i), fmt.Sprintf("random draws (in call order): %v", res.FailDraws)}
	}
	return cr
}

type c09DrawReplay struct {
	Case  int
	Draws []uint64
}

func c09QRandomPart() explore.Part {
	const rule = "QUICRandomFrames.Build / BuildForDatagram with Min/Max counts from {0,1,2,3}^2 for PING, CRYPTO and PADDING (Min>Max, Min==Max, MinCRYPTO 0 included), Length in {0, below, equal, above+1, above+4 the natural size, 65535}, slice lengths {0,1,2,3,5,63,64,65,1162,2300} x base offsets {0,63,64,16383,16384}; every cryptoSafeRandUint64 draw and every Shuffle swap index is an explorer choice with its exact domain; a configuration that meets every documented bound must be built, a rejected one must be one the code/docs name invalid"
	return explore.Part{
		Name: "qrandom",
		Run: func(e explore.Env) *explore.Report {
			cases := c09QRCases(e.Thorough())
			acc := c09NewAcc()
			rep := explore.RunCases(e, len(cases), 1, true, func(i int) explore.CaseResult {
				c := cases[i]
				rf := c.rf()
				return c09DrawCase("qrandom", c09EnumFor(e, c.Deep, c.Base), acc, i, func() *explore.Fail { return c09QROne(rf, c.L, c.Base, acc) })
			})
			acc.samples = []any{fmt.Sprintf("%+v", cases[len(cases)/2]), fmt.Sprintf("%+v", cases[len(cases)-1])}
			cross := "quick: each Min/Max pair ranges over all 16 values while the two others take two representative values"
			if e.Thorough() {
				cross = "thorough: full cross product of the three Min/Max pairs"
			}
			return acc.finish(rep, rule, fmt.Sprintf("%d configurations (%s); draws exhaustive when the estimated product of the draw domains is <= %d (10^6 / 6*10^4 for the 'deep' configurations), else <= %d non-minimal draws over representative values", len(cases), cross, c09EnumFor(e, false, 0).Cap, c09EnumFor(e, false, 0).MaxDev))
		},
		Replay: func(e explore.Env, raw json.RawMessage) *explore.Violation {
			var r c09DrawReplay
			explore.Must(json.Unmarshal(raw, &r) == nil, "bad replay")
			cases := c09QRCases(e.Thorough())
			explore.Must(r.Case < len(cases), "bad case")
			c := cases[r.Case]
			rf := c.rf()
			f := c09ReplayDraws(r.Draws, func() *explore.Fail { return c09QROne(rf, c.L, c.Base, c09NewAcc()) })
			if f == nil {
				return nil
			}
			return &explore.Violation{Key: f.Key, What: f.What}
		},
	}
}

// ---- QUICMultiDatagramFrames ------------------------------------------------------------

var c09MDPresets = map[string]QUICRandomFrames{
	"one":     {MinCRYPTO: 1, MaxCRYPTO: 2},
	"split":   {MinCRYPTO: 1, MaxCRYPTO: 3, MinPING: 0, MaxPING: 2},
	"padded":  {MinCRYPTO: 2, MaxCRYPTO: 3, MinPADDING: 1, MaxPADDING: 3, Length: 48},
	"big":     {MinCRYPTO: 3, MaxCRYPTO: 4, MinPING: 1, MaxPING: 2, MinPADDING: 2, MaxPADDING: 3, Length: 1250},
	"nocry":   {MinCRYPTO: 0, MaxCRYPTO: 2},
	"badping": {MinCRYPTO: 1, MaxCRYPTO: 2, MinPING: 2, MaxPING: 1},
}

var c09MDLists = [][]string{
	{}, {"one"}, {"split"}, {"padded"}, {"big"}, {"nocry"}, {"badping"},
	{"one", "split"}, {"split", "padded"}, {"big", "one"}, {"one", "nocry"}, {"nocry", "one"},
	{"one", "split", "padded"}, {"padded", "padded", "badping"}, {"split", "big", "one"},
}

type c09MDCase struct {
	L      int
	Budget string
	List   int
}

// c09Slices cuts an L byte ClientHello into per-datagram slices the way a datagram budget
// does: "ample"/"exact" = one datagram, "half" = two, "third" = three, "tiny" = four or L.
func c09Slices(L int, budget string) [][2]int {
	per := L
	switch budget {
	case "half":
		per = (L + 1) / 2
	case "third":
		per = (L + 2) / 3
	case "tiny":
		per = (L + 3) / 4
	}
	if per < 1 {
		per = 1
	}
	var out [][2]int
	for off := 0; off < L; off += per {
		n := per
		if off+n > L {
			n = L - off
		}
		out = append(out, [2]int{off, n})
	}
	if L == 0 {
		out = [][2]int{{0, 0}}
	}
	return out
}

func c09MDCases() []c09MDCase {
	var cs []c09MDCase
	for _, L := range c09Lens {
		for _, b := range []string{"ample", "half", "third", "tiny"} {
			if len(c09Slices(L, b)) == 1 && b != "ample" {
				continue
			}
			for li := range c09MDLists {
				cs = append(cs, c09MDCase{L, b, li})
			}
		}
	}
	return cs
}

func c09QMultiPart() explore.Part {
	const rule = "QUICMultiDatagramFrames.Build / BuildForDatagram over flights: a ClientHello of {0,1,2,3,5,63,64,65,1162,2300} bytes cut into 1..4 per-datagram slices (datagram budgets ample/half/third/tiny), PerDatagram lists of 0..3 entries from six QUICRandomFrames presets (two of them invalid), datagram index beyond the list included; the draws of every datagram are enumerated separately (the calls are independent: the builder keeps no state), the coverage bitmap spans the whole flight"
	cases := c09MDCases()
	build := func(c c09MDCase) *QUICMultiDatagramFrames {
		m := &QUICMultiDatagramFrames{}
		for _, n := range c09MDLists[c.List] {
			m.PerDatagram = append(m.PerDatagram, c09MDPresets[n])
		}
		return m
	}
	// one datagram of the flight under the current draws
	oneDatagram := func(c c09MDCase, m *QUICMultiDatagramFrames, idx int, acc *c09Acc) *explore.Fail {
		sl := c09Slices(c.L, c.Budget)[idx]
		return c09Safe("QUICMultiDatagramFrames", func() *explore.Fail {
			var p []byte
			var err error
			if idx == 0 && c.L%2 == 0 {
				p, err = m.Build(c09Slice(0, sl[1]))
			} else {
				p, err = m.BuildForDatagram(idx, c09Slice(sl[0], sl[1]), uint64(sl[0]))
			}
			if err != nil {
				sel := "empty"
				if n := len(m.PerDatagram); n > 0 {
					spec := m.PerDatagram[min(idx, n-1)]
					if !c09RFRejectable(&spec) && sl[1] >= 1 {
						return explore.Failf("QUICMultiDatagramFrames:in-range-rejected", "datagram %d uses %+v which satisfies every documented bound, but the builder returned %v", idx, spec, err)
					}
					sel = "invalid entry"
				}
				acc.out.Add(fmt.Sprintf("QUICMultiDatagramFrames datagram %d rejected (%s): %v", c09Cap(idx, 2), sel, err))
				return nil
			}
			if len(m.PerDatagram) == 0 {
				return explore.Failf("QUICMultiDatagramFrames:empty-list-built", "PerDatagram is empty (documented: must have at least one entry) but a payload was built")
			}
			kind, msg, class := c09CheckFlight([][]byte{p}, sl[0], sl[1])
			if kind != "" {
				return explore.Failf("QUICMultiDatagramFrames:"+kind, "PerDatagram %v, datagram %d carrying stream [%d,%d) of a %d byte ClientHello: %s", c09MDLists[c.List], idx, sl[0], sl[0]+sl[1], c.L, msg)
			}
			acc.out.Add(fmt.Sprintf("QUICMultiDatagramFrames ok dg=%d/%d %s", c09Cap(idx, 3), len(c09Slices(c.L, c.Budget)), class))
			return nil
		})
	}
	// the flight as a whole under the current draws (first datagram that errors ends it)
	flight := func(c c09MDCase, m *QUICMultiDatagramFrames, acc *c09Acc) *explore.Fail {
		return c09Safe("QUICMultiDatagramFrames", func() *explore.Fail {
			var payloads [][]byte
			for idx, sl := range c09Slices(c.L, c.Budget) {
				p, err := m.BuildForDatagram(idx, c09Slice(sl[0], sl[1]), uint64(sl[0]))
				if err != nil {
					acc.out.Add(fmt.Sprintf("QUICMultiDatagramFrames flight: error at datagram %d after %d payloads (verdict is taken at the packer, part packer)", c09Cap(idx, 2), c09Cap(len(payloads), 2)))
					return nil
				}
				payloads = append(payloads, p)
			}
			kind, msg, class := c09CheckFlight(payloads, 0, c.L)
			if kind != "" {
				return explore.Failf("QUICMultiDatagramFrames:flight-"+kind, "PerDatagram %v, %d byte ClientHello in %d datagrams: %s", c09MDLists[c.List], c.L, len(payloads), msg)
			}
			acc.out.Add(fmt.Sprintf("QUICMultiDatagramFrames flight ok n=%d %s", len(payloads), class))
			return nil
		})
	}
	nSub := func(c c09MDCase) int { return len(c09Slices(c.L, c.Budget)) + 1 }
	return explore.Part{
		Name: "qmulti",
		Run: func(e explore.Env) *explore.Report {
			acc := c09NewAcc()
			rep := explore.RunCases(e, len(cases), 1, true, func(i int) explore.CaseResult {
				c := cases[i]
				m := build(c)
				var tot explore.CaseResult
				for sub := 0; sub < nSub(c); sub++ {
					en := c09EnumFor(e, false, 0)
					if sub > 0 {
						en.Interest = c09Interest(c09Slices(c.L, c.Budget)[sub-1][0])
					}
					cr := c09DrawCase("qmulti", en, acc, i, func() *explore.Fail {
						if sub == 0 {
							return flight(c, m, acc)
						}
						return oneDatagram(c, m, sub-1, acc)
					})
					tot.Execs += cr.Execs
					tot.Trans += cr.Trans
					if cr.Fail != nil {
						cr.Execs, cr.Trans = tot.Execs, tot.Trans
						r := cr.Replay.(map[string]any)
						r["sub"] = sub
						return cr
					}
				}
				return tot
			})
			acc.samples = []any{fmt.Sprintf("%+v %v", cases[len(cases)-1], c09MDLists[cases[len(cases)-1].List])}
			return acc.finish(rep, rule, fmt.Sprintf("%d (ClientHello length, budget, PerDatagram list) cases, each datagram and the whole flight enumerated", len(cases)))
		},
		Replay: func(e explore.Env, raw json.RawMessage) *explore.Violation {
			var r struct {
				c09DrawReplay
				Sub int
			}
			explore.Must(json.Unmarshal(raw, &r) == nil, "bad replay")
			c := cases[r.Case]
			m := build(c)
			f := c09ReplayDraws(r.Draws, func() *explore.Fail {
				if r.Sub == 0 {
					return flight(c, m, c09NewAcc())
				}
				return oneDatagram(c, m, r.Sub-1, c09NewAcc())
			})
			if f == nil {
				return nil
			}
			return &explore.Violation{Key: f.Key, What: f.What}
		},
	}
}
