package quic

// C09 — Initial CRYPTO framing always carries the complete ClientHello at true offsets.
// See PLAN.md; parts: frame builders (qframes, qrandom, qmulti), flight builders (resolve,
// splitrange, qflight, qrflight, validate), the anti-DPI scrambler (scrambler) and the
// real uPacketPacker with a pass-through sealer (packer).

import (
	"testing"

	"github.com/refraction-networking/uquic/internal/verifmc/explore"
)

func TestVerifC09(t *testing.T) {
	parts := []explore.Part{
		c09QFramesPart(),
		c09ResolvePart(),
		c09ValidatePart(),
		c09SplitPart(),
		c09QFlightPart(),
		c09QMultiPart(),
		c09QRFlightPart(),
		c09QRandomPart(),
		c09PackerPart(),
		c09ScramblePart(),
	}
	if explore.GetEnv().Thorough() {
		// the largest part last, so that an expired deadline can only cut its tail
		parts = []explore.Part{
			c09QFramesPart(),
			c09ResolvePart(),
			c09ValidatePart(),
			c09SplitPart(),
			c09PackerPart(),
			c09QMultiPart(),
			c09ScramblePart(),
			c09QFlightPart(),
			c09QRFlightPart(),
			c09QRandomPart(),
		}
	}
	explore.Main("C09", parts, func(msg string) { t.Fatal(msg) })
}
