package quic

// C09 oracle and shared plumbing.
//
// The oracle is an independent reader of Initial-level frame payloads (own varint reader,
// own PADDING / PING / CRYPTO parser; nothing of the repository's or clienthellod's frame
// code is used) plus a coverage bitmap over the ClientHello:
//
//   - a payload must parse completely as a sequence of frames of type 0x00, 0x01, 0x06;
//   - every CRYPTO frame [off, off+len) must lie inside the stream range the builder was
//     given and carry byte c09F(off+i) at position i (no shift, no zero-extension);
//   - over all payloads of the flight every byte of the range must be carried at least once
//     (no truncation). Duplicates are allowed.
//
// Randomness is owned through the vrand seam: every cryptoSafeRandUint64 draw and every
// Shuffle swap index is answered by the harness (c09Enum).

import (
	"encoding/binary"
	"fmt"
	"sort"
	"strings"
	"sync"

	"github.com/refraction-networking/uquic/internal/verifmc/explore"
	"github.com/refraction-networking/uquic/internal/verifmc/vrand"
)

// c09F is the byte at absolute CRYPTO stream offset i. It is never 0 (so zero-extension
// is visible) and f(i) != f(i+k) for 0 < |k| < 255 (so shifts are visible).
func c09F(i int) byte {
	if i >= 0 && i < len(c09FT) {
		return c09FT[i]
	}
	return c09FSlow(i)
}

func c09FSlow(i int) byte { return byte(1 + (i*7+(i/251)*13)%255) }

var c09FT = func() (t [20480]byte) {
	for i := range t {
		t[i] = c09FSlow(i)
	}
	return
}()

const c09Poison = 0xEE // never equal to c09F at the position where it could be read

// c09Slice returns stream bytes [base, base+n) with 8 spare bytes of capacity that hold
// poison (a builder that reslices past len emits them and is caught by the byte check).
func c09Slice(base, n int) []byte {
	k := [2]int{base, n}
	if b, ok := c09SliceCache[k]; ok {
		// the builders must not write into the stream they are handed; re-checked here
		for i := 0; i < n; i += 97 {
			if b[i] != c09F(base+i) {
				panic("C09 harness: the code under test modified the CRYPTO data it was given")
			}
		}
		return b[:n]
	}
	b := c09MakeSlice(base, n)
	if len(c09SliceCache) < 4096 {
		c09SliceCache[k] = b[:n+8]
	}
	return b
}

// one enumeration runs at a time per process (the draw hook is global), so is this cache
var c09SliceCache = map[[2]int][]byte{}

func c09MakeSlice(base, n int) []byte {
	b := make([]byte, n+8)
	for i := 0; i < n; i++ {
		b[i] = c09F(base + i)
	}
	for i := n; i < n+8; i++ {
		b[i] = c09Poison
		if c09F(base+i) == c09Poison {
			b[i] = c09Poison ^ 0x55
		}
	}
	return b[:n]
}

// ---- independent frame reader ---------------------------------------------------------

func c09Varint(b []byte) (v uint64, n int, ok bool) {
	if len(b) == 0 {
		return 0, 0, false
	}
	n = 1 << (b[0] >> 6)
	if len(b) < n {
		return 0, 0, false
	}
	v = uint64(b[0] & 0x3f)
	for i := 1; i < n; i++ {
		v = v<<8 | uint64(b[i])
	}
	return v, n, true
}

type c09Frame struct {
	Typ  byte
	Off  uint64 // CRYPTO offset
	Len  uint64 // CRYPTO data length, PADDING run length
	Data []byte
	OffW int // width of the offset varint
}

// c09Parse reads a frame payload. Consecutive PADDING bytes are reported as one frame.
func c09Parse(b []byte) (frames []c09Frame, bad string) {
	for i := 0; i < len(b); {
		switch b[i] {
		case 0x00:
			j := i
			for j+8 <= len(b) && binary.LittleEndian.Uint64(b[j:]) == 0 {
				j += 8
			}
			for j < len(b) && b[j] == 0 {
				j++
			}
			frames = append(frames, c09Frame{Typ: 0, Len: uint64(j - i)})
			i = j
		case 0x01:
			frames = append(frames, c09Frame{Typ: 1})
			i++
		case 0x06:
			off, n1, ok := c09Varint(b[i+1:])
			if !ok {
				return frames, fmt.Sprintf("CRYPTO frame at byte %d: offset varint cut short", i)
			}
			ln, n2, ok := c09Varint(b[i+1+n1:])
			if !ok {
				return frames, fmt.Sprintf("CRYPTO frame at byte %d: length varint cut short", i)
			}
			start := i + 1 + n1 + n2
			if ln > uint64(len(b)-start) {
				return frames, fmt.Sprintf("CRYPTO frame at byte %d claims %d data bytes, only %d follow", i, ln, len(b)-start)
			}
			frames = append(frames, c09Frame{Typ: 6, Off: off, Len: ln, Data: b[start : start+int(ln)], OffW: n1})
			i = start + int(ln)
		default:
			return frames, fmt.Sprintf("frame type 0x%02x at byte %d is not PADDING/PING/CRYPTO", b[i], i)
		}
	}
	return frames, ""
}

// c09Cover accumulates what a flight put on the wire for stream range [base, base+n).
type c09Cover struct {
	ref      []byte // the stream content when it is not c09F (ref[i] = byte at offset base+i)
	base, n  int
	cnt      []uint8
	nCrypto  int
	nEmpty   int
	nPing    int
	nPadRuns int
	padBytes int
	widths   int // bit set of offset varint widths seen
	dup      bool
	order    bool // CRYPTO frames seen in ascending offset order so far
	lastOff  uint64
}

func c09NewCover(base, n int) *c09Cover {
	return &c09Cover{base: base, n: n, cnt: make([]uint8, n), order: true}
}

func (c *c09Cover) at(abs int) byte {
	if c.ref != nil {
		return c.ref[abs-c.base]
	}
	return c09F(abs)
}

// add checks one payload; kind == "" means it is fine.
func (c *c09Cover) add(p []byte) (kind, msg string) {
	frames, bad := c09Parse(p)
	if bad != "" {
		if strings.Contains(bad, "is not PADDING") {
			return "bad-frame-type", bad
		}
		return "unparsable", bad
	}
	for _, f := range frames {
		switch f.Typ {
		case 0:
			c.nPadRuns++
			c.padBytes += int(f.Len)
		case 1:
			c.nPing++
		case 6:
			c.nCrypto++
			if f.Len == 0 {
				c.nEmpty++
			}
			c.widths |= f.OffW
			if f.Off < c.lastOff {
				c.order = false
			}
			c.lastOff = f.Off
			lo, hi := uint64(c.base), uint64(c.base+c.n)
			if f.Off < lo || f.Off > hi {
				return "shifted", fmt.Sprintf("CRYPTO frame [%d,%d) starts outside the stream range [%d,%d) it was built from", f.Off, f.Off+f.Len, lo, hi)
			}
			if f.Off+f.Len > hi {
				zero := true
				for _, x := range f.Data[hi-f.Off:] {
					if x != 0 {
						zero = false
					}
				}
				k := "beyond-end"
				if zero {
					k = "zero-extended"
				}
				return k, fmt.Sprintf("CRYPTO frame [%d,%d) reaches past the end %d of the stream range (%s)", f.Off, f.Off+f.Len, hi, k)
			}
			for i, x := range f.Data {
				abs := int(f.Off) + i
				if x != c.at(abs) {
					k := "wrong-byte"
					for d := -70; d <= 70; d++ {
						if d != 0 && abs+d >= c.base && abs+d+1 < c.base+c.n && x == c.at(abs+d) && (i+1 >= len(f.Data) || f.Data[i+1] == c.at(abs+d+1)) {
							k = "shifted"
							msg = fmt.Sprintf(" (it is the stream byte of offset %d: shifted by %d)", abs+d, d)
							break
						}
					}
					if x == 0 && c.ref == nil {
						k = "zero-extended"
					}
					return k, fmt.Sprintf("CRYPTO frame [%d,%d): byte at stream offset %d is 0x%02x, the ClientHello has 0x%02x there%s", f.Off, f.Off+f.Len, abs, x, c.at(abs), msg)
				}
				j := abs - c.base
				if c.cnt[j] > 0 {
					c.dup = true
				}
				if c.cnt[j] < 255 {
					c.cnt[j]++
				}
			}
		}
	}
	return "", ""
}

// missing returns the first stream offset no CRYPTO frame carried, or -1.
func (c *c09Cover) missing() int {
	for i, k := range c.cnt {
		if k == 0 {
			return c.base + i
		}
	}
	return -1
}

func c09WidthClass(w int) string {
	s := ""
	for _, k := range []int{1, 2, 4, 8} {
		if w&k != 0 {
			s += fmt.Sprint(k)
		}
	}
	if s == "" {
		return "-"
	}
	return s
}

func c09Cap(n, m int) int {
	if n > m {
		return m
	}
	return n
}

// class summarises what was observed (an outcome class, never a verdict).
func (c *c09Cover) class() string {
	b := func(v bool) uint32 {
		if v {
			return 1
		}
		return 0
	}
	k := uint32(c09Cap(c.nCrypto, 6)) | uint32(c09Cap(c.nEmpty, 2))<<3 | uint32(c09Cap(c.nPing, 3))<<5 | uint32(c09Cap(c.nPadRuns, 4))<<7 | uint32(c.widths)<<10 | b(c.dup)<<14 | b(c.order)<<15
	c09ClassMu.Lock()
	defer c09ClassMu.Unlock()
	if s, ok := c09ClassCache[k]; ok {
		return s
	}
	s := fmt.Sprintf("crypto=%d empty=%d ping=%d padruns=%d offw=%s dup=%v asc=%v", c09Cap(c.nCrypto, 6), c09Cap(c.nEmpty, 2), c09Cap(c.nPing, 3), c09Cap(c.nPadRuns, 4), c09WidthClass(c.widths), c.dup, c.order)
	c09ClassCache[k] = s
	return s
}

var (
	c09ClassMu    sync.Mutex
	c09ClassCache = map[uint32]string{}
)

// c09CheckFlight applies the whole oracle to the payloads of one flight.
func c09CheckFlight(payloads [][]byte, base, n int) (kind, msg, class string) {
	cov := c09NewCover(base, n)
	for i, p := range payloads {
		if k, m := cov.add(p); k != "" {
			return k, fmt.Sprintf("datagram %d: %s", i, m), ""
		}
	}
	if miss := cov.missing(); miss >= 0 {
		return "truncated", fmt.Sprintf("no CRYPTO frame of the flight carries stream offset %d (range [%d,%d), %d datagrams)", miss, base, base+n, len(payloads)), ""
	}
	return "", "", cov.class()
}

// ---- length / offset classes ----------------------------------------------------------

func c09LenClass(n int) string {
	switch {
	case n <= 5:
		return fmt.Sprint(n)
	case n < 64:
		return "<64"
	case n == 64:
		return "64"
	case n < 1200:
		return "<1200"
	default:
		return ">=1200"
	}
}

func c09UniqSorted(v []int, lo, hi int) []int { // keeps lo <= x <= hi
	m := map[int]bool{}
	var out []int
	for _, x := range v {
		if x >= lo && x <= hi && !m[x] {
			m[x] = true
			out = append(out, x)
		}
	}
	sort.Ints(out)
	return out
}

// ---- owned randomness -----------------------------------------------------------------

// c09Enum enumerates the random draws of one configuration.
type c09Enum struct {
	Cap      int64    // exhaustive when the estimated product of the draw domains is <= Cap
	RedCap   int64    // execution cap of the reduced mode
	MaxDev   int      // deviation bound of the reduced mode
	Interest []uint64 // draw values of special interest for big domains (reduced mode)
}

type c09EnumResult struct {
	Execs      int64
	Mode       string // "none" (no draw was made), "exhaustive", "reduced"
	Capped     bool
	Fail       *explore.Fail
	FailDraws  []uint64 // the draw values of the failing execution
	MaxDraws   int
	Dev        int // deviation bound used by the reduced mode
	DomProduct float64
}

const c09BigDomain = 24

// reps lists the representative values of a big domain [0,n): the edges, the middle and
// the values of interest (draws that move an offset across a varint width boundary).
func (en *c09Enum) reps(n uint64) []uint64 {
	c := []uint64{0, 1, 2, n / 2, n - 3, n - 2, n - 1}
	for _, x := range en.Interest {
		for d := uint64(0); d < 3; d++ {
			if x+d >= 1 {
				c = append(c, x+d-1)
			}
		}
	}
	m := map[uint64]bool{}
	var out []uint64
	for _, x := range c {
		if x < n && !m[x] {
			m[x] = true
			out = append(out, x)
		}
	}
	sort.Slice(out, func(i, j int) bool { return out[i] < out[j] })
	return out
}

// run executes `one` (one call of the builder under test plus the oracle) under every
// draw sequence: exhaustively when the configuration is small enough, otherwise
// deviation-bounded over representative values. The draw hook is process-global.
func (en *c09Enum) run(one func() *explore.Fail) (res c09EnumResult) {
	defer vrand.SetHook(nil)
	var draws []uint64
	exec := func(h vrand.Hook) *explore.Fail {
		draws = draws[:0]
		vrand.SetHook(func(s vrand.Site, n uint64) uint64 {
			v := h(s, n)
			draws = append(draws, v)
			return v
		})
		f := one()
		vrand.SetHook(nil)
		res.Execs++
		if len(draws) > res.MaxDraws {
			res.MaxDraws = len(draws)
		}
		if f != nil && res.Fail == nil {
			res.Fail = f
			res.FailDraws = append([]uint64{}, draws...)
		}
		return f
	}
	// probes: the first k draws maximal, the rest minimal; they estimate the size of the draw tree
	est := 1.0
	var doms []uint64 // the domains along the probe with the largest product
	for k := 0; k <= 4; k++ {
		i, prod := 0, 1.0
		var cur []uint64
		exec(func(_ vrand.Site, n uint64) uint64 {
			prod *= float64(n)
			cur = append(cur, n)
			i++
			if i <= k {
				return n - 1
			}
			return 0
		})
		if res.Fail != nil {
			res.Mode = "probe"
			return res
		}
		if prod > est || doms == nil {
			est = max(est, prod)
			doms = cur
		}
		if i == 0 {
			res.Mode = "none"
			return res
		}
		if i < k {
			break
		}
	}
	res.DomProduct = est
	stop := func() bool { return res.Fail != nil }
	if est <= float64(en.Cap) {
		res.Mode = "exhaustive"
		r := explore.EnumerateChoices(-1, 4*en.Cap, stop, func(c *explore.Chooser) {
			exec(func(_ vrand.Site, n uint64) uint64 { return uint64(c.ChooseCost(int(n), 0)) })
		})
		if !r.Capped || res.Fail != nil {
			return res
		}
		// the estimate was too low: fall through to the bounded mode and say so
	}
	// bounded mode: the largest deviation bound <= MaxDev whose (estimated) number of draw
	// sequences fits RedCap; at least 1
	dev := 1
	for d := en.MaxDev; d > 1; d-- {
		sym := make([]float64, d+1) // elementary symmetric sums of (domain-1)
		sym[0] = 1
		for _, n := range doms {
			a := float64(n - 1)
			if n > c09BigDomain {
				a = float64(len(en.reps(n)) - 1)
			}
			for k := d; k >= 1; k-- {
				sym[k] += sym[k-1] * a
			}
		}
		tot := 0.0
		for _, x := range sym {
			tot += x
		}
		if tot <= float64(en.RedCap) {
			dev = d
			break
		}
	}
	res.Mode = "reduced"
	res.Dev = dev
	r := explore.EnumerateChoices(dev, 8*en.RedCap, stop, func(c *explore.Chooser) {
		exec(func(_ vrand.Site, n uint64) uint64 {
			if n <= c09BigDomain {
				return uint64(c.Choose(int(n)))
			}
			rp := en.reps(n)
			return rp[c.Choose(len(rp))]
		})
	})
	res.Capped = r.Capped && res.Fail == nil
	return res
}

// c09Replay re-executes `one` under a recorded draw sequence.
func c09ReplayDraws(draws []uint64, one func() *explore.Fail) *explore.Fail {
	defer vrand.SetHook(nil)
	i := 0
	vrand.SetHook(func(_ vrand.Site, n uint64) uint64 {
		v := uint64(0)
		if i < len(draws) && draws[i] < n {
			v = draws[i]
		}
		i++
		return v
	})
	return one()
}

// c09Safe runs fn and turns a panic of the code under test into a Fail (the property
// says "never panics"); harness errors keep propagating.
func c09Safe(keyPrefix string, fn func() *explore.Fail) (f *explore.Fail) {
	defer func() {
		if x := recover(); x != nil {
			s := fmt.Sprint(x)
			if strings.HasPrefix(s, "vrand:") || strings.Contains(fmt.Sprintf("%T", x), "harnessErr") {
				panic(x)
			}
			f = explore.Failf(keyPrefix+":panic", "panic: %v", x)
		}
	}()
	return fn()
}

// ---- report accumulation --------------------------------------------------------------

type c09Acc struct {
	out                    *explore.OutcomeSet
	exh, red, none, capped int64
	devs                   [4]int64
	plain                  int64 // configurations of parts without draws
	maxDraws               int
	samples                []any
}

func c09NewAcc() *c09Acc { return &c09Acc{out: explore.NewOutcomeSet()} }

func (a *c09Acc) note(r c09EnumResult) {
	switch r.Mode {
	case "exhaustive":
		a.exh++
	case "reduced":
		a.red++
		a.devs[min(r.Dev, 3)]++
	default:
		a.none++
	}
	if r.Capped {
		a.capped++
	}
	if r.MaxDraws > a.maxDraws {
		a.maxDraws = r.MaxDraws
	}
}

func (a *c09Acc) finish(rep *explore.Report, rule, bound string) *explore.Report {
	if a.exh > 0 {
		a.out.Add("draws: every draw sequence enumerated (exhaustive)")
	}
	for d := 1; d <= 3; d++ {
		if a.devs[d] > 0 {
			a.out.Add(fmt.Sprintf("draws: bounded, <= %d non-minimal draws over representative values", d))
		}
	}
	rep.Outcomes = a.out.List()
	rep.OutcomesN = int64(len(rep.Outcomes))
	// states = configurations handled by this shard, transitions = executions of the real code
	rep.States = a.exh + a.red + a.none + a.plain
	rep.Rule = rule
	rep.Bound = bound
	if a.capped > 0 {
		rep.Caps = append(rep.Caps, "draw-cap")
		rep.Exhaustive = false
	}
	rep.Samples = a.samples
	if a.exh+a.red > 0 {
		rep.Samples = append([]any{fmt.Sprintf("draw statistics of one shard: %d configurations enumerated exhaustively, %d deviation-bounded over representative values (<=3/2/1 non-minimal draws: %d/%d/%d configurations; %d hit the execution cap), %d without any draw; longest draw sequence %d", a.exh, a.red, a.devs[3], a.devs[2], a.devs[1], a.capped, a.none, a.maxDraws)}, rep.Samples...)
	}
	return rep
}
