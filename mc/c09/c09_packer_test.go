package quic

// C09 part 4: the real packers on the wire. A uPacketPacker is assembled the way
// u_connection.go does it (real initial / handshake crypto streams, real framer, real
// retransmission queue, real sent / received packet handlers) around a fake
// sealingManager whose Initial sealer is pass-through; the ClientHello is written to the
// Initial stream and PackCoalescedPacket is called until it has nothing more to send. The
// emitted datagrams are read with an independent long-header reader and the frame oracle.
// The plain quic-go packetPacker (no QUICSpec, anti-DPI scrambler on) is driven the same way.
//
// Loss recovery: when a datagram was declared lost (OnLost of every frame the packer registered
// for it) and PackCoalescedPacket / PackPTOProbePacket has nothing more to send, the datagrams
// that were NOT lost plus everything sent afterwards must carry the whole stream (the peer can
// still assemble the complete ClientHello); the stream ranges a datagram carried are read off
// the wire by the independent reader, not taken from what the packer registered.
//
// HelloRetryRequest scenarios (Second > 0): once the first ClientHello is out, a second
// message is written to the same Initial stream (the second ClientHello) and sent; a datagram
// of the first flight is declared lost before or after that, and whatever the packer then
// puts on the wire (PackCoalescedPacket retransmissions or PTO probes) is judged against
// the whole stream: frames that were handed to the sent packet history must still carry
// the first ClientHello's bytes at their offsets after the stream was written again.

import (
	"encoding/json"
	"fmt"
	"math/rand/v2"
	"strings"

	"github.com/refraction-networking/uquic/internal/ackhandler"
	"github.com/refraction-networking/uquic/internal/handshake"
	"github.com/refraction-networking/uquic/internal/monotime"
	"github.com/refraction-networking/uquic/internal/protocol"
	"github.com/refraction-networking/uquic/internal/utils"
	"github.com/refraction-networking/uquic/internal/verifmc/explore"
)

type c09PassSealer struct{}

func (c09PassSealer) Seal(dst, src []byte, _ protocol.PacketNumber, _ []byte) []byte {
	dst = append(dst, src...)
	for i := 0; i < 16; i++ {
		dst = append(dst, 0xA5)
	}
	return dst
}
func (c09PassSealer) EncryptHeader([]byte, *byte, []byte) {}
func (c09PassSealer) Overhead() int                       { return 16 }

type c09Sealing struct{}

func (c09Sealing) GetInitialSealer() (handshake.LongHeaderSealer, error) { return c09PassSealer{}, nil }
func (c09Sealing) GetHandshakeSealer() (handshake.LongHeaderSealer, error) {
	return nil, handshake.ErrKeysNotYetAvailable
}
func (c09Sealing) Get0RTTSealer() (handshake.LongHeaderSealer, error) {
	return nil, handshake.ErrKeysNotYetAvailable
}
func (c09Sealing) Get1RTTSealer() (handshake.ShortHeaderSealer, error) {
	return nil, handshake.ErrKeysNotYetAvailable
}

// c09ReadDatagram is the independent long-header reader: it returns the frame payloads of
// the Initial packets in one UDP datagram (pass-through sealer: the 16 byte tag is 0xA5).
func c09ReadDatagram(b []byte) (payloads [][]byte, bad string) {
	for i := 0; i < len(b); {
		if b[i] == 0 { // uQUIC pads the datagram with zeros behind the last packet
			for _, x := range b[i:] {
				if x != 0 {
					return nil, "non-zero byte inside the datagram padding"
				}
			}
			return payloads, ""
		}
		fb := b[i]
		if fb&0xc0 != 0xc0 {
			return nil, fmt.Sprintf("byte %d: 0x%02x is not a long header first byte", i, fb)
		}
		if fb&0x30 != 0 {
			return nil, fmt.Sprintf("byte %d: long header packet type %d is not Initial", i, fb&0x30>>4)
		}
		pnLen := int(fb&3) + 1
		p := i + 5
		if p >= len(b) {
			return nil, "header cut short"
		}
		p += 1 + int(b[p]) // dcid
		if p >= len(b) {
			return nil, "header cut short"
		}
		p += 1 + int(b[p]) // scid
		tl, n, ok := c09Varint(b[min(p, len(b)):])
		if !ok {
			return nil, "token length cut short"
		}
		p += n + int(tl)
		ln, n, ok := c09Varint(b[min(p, len(b)):])
		if !ok {
			return nil, "length cut short"
		}
		p += n
		end := p + int(ln)
		if end > len(b) || int(ln) < pnLen+16 {
			return nil, fmt.Sprintf("packet Length %d does not fit the datagram (%d bytes left)", ln, len(b)-p)
		}
		for _, x := range b[end-16 : end] {
			if x != 0xA5 {
				return nil, "AEAD tag not where the header says the packet ends"
			}
		}
		payloads = append(payloads, b[p+pnLen:end-16])
		i = end
	}
	return payloads, ""
}

// c09CryptoRanges lists the stream ranges [lo,hi) of the CRYPTO frames in the payloads of one
// datagram (independent reader; the payloads were judged before).
func c09CryptoRanges(payloads [][]byte) (rs [][2]int) {
	for _, p := range payloads {
		frames, _ := c09Parse(p)
		for _, f := range frames {
			if f.Typ == 6 && f.Len > 0 {
				rs = append(rs, [2]int{int(f.Off), int(f.Off + f.Len)})
			}
		}
	}
	return rs
}

// c09CarriedBy names the lost datagrams that carried stream offset x.
func c09CarriedBy(carried [][][2]int, lost map[int]bool, x int) (dgs []int) {
	for i, rs := range carried {
		for _, r := range rs {
			if lost[i] && r[0] <= x && x < r[1] {
				dgs = append(dgs, i)
				break
			}
		}
	}
	return dgs
}

// ---- scenarios --------------------------------------------------------------------------------

type c09PkCase struct {
	Name    string
	L       int
	Builder string
	Plans   string
	Shape   int  // upstream scenarios: index into the ClientHello shapes
	Up      bool // plain quic-go packer, scrambler on
	Lose    int  // loss phase: datagram index declared lost (-1: none, 100: the last one, c09LoseAll: every datagram)
	// HelloRetryRequest scenarios
	Second    int    // length of the message written after the first flight is out (0: none)
	LoseFirst bool   // the datagram is declared lost before the second message is written (else after it was sent)
	Via       string // how the lost frames are sent again: "pto" (PackPTOProbePacket) or "pack" (PackCoalescedPacket)
}

func c09PkBuilder(name string, L int) QUICFrameBuilder {
	h := max(L/3, 1)
	switch name {
	case "nil":
		return nil
	case "QUICFrames{}":
		return QUICFrames{}
	case "QUICFrames one":
		return QUICFrames{QUICFramePing{}, QUICFrameCrypto{0, 0}, QUICFramePadding{Length: 20}}
	case "QUICFrames three":
		return QUICFrames{QUICFrameCrypto{2, 0}, QUICFramePing{}, QUICFrameCrypto{0, 1}, QUICFrameCrypto{1, 1}}
	case "QUICFrames fixed rest-first":
		return QUICFrames{QUICFramePing{}, QUICFrameCrypto{h, 0}, QUICFramePadding{Length: 9}, QUICFrameCrypto{0, h}}
	case "QUICFrames fixed explicit":
		return QUICFrames{QUICFrameCrypto{0, h}, QUICFramePing{}, QUICFrameCrypto{h, 2 * h}}
	case "QUICFrames fixed explicit-long":
		return QUICFrames{QUICFrameCrypto{0, h}, QUICFrameCrypto{h, L}, QUICFramePadding{Length: 20}}
	case "QRF split":
		return &QUICRandomFrames{MinCRYPTO: 2, MaxCRYPTO: 4, MinPING: 0, MaxPING: 2}
	case "QRF padded":
		return &QUICRandomFrames{MinCRYPTO: 1, MaxCRYPTO: 3, MinPADDING: 1, MaxPADDING: 3, Length: 1150}
	case "QRF padded-small":
		return &QUICRandomFrames{MinCRYPTO: 1, MaxCRYPTO: 2, MinPADDING: 2, MaxPADDING: 3, Length: 30}
	case "QRF invalid":
		return &QUICRandomFrames{MinCRYPTO: 0, MaxCRYPTO: 2}
	case "QMD one,split":
		return &QUICMultiDatagramFrames{PerDatagram: []QUICRandomFrames{c09MDPresets["one"], c09MDPresets["split"]}}
	case "QMD one,nocry":
		return &QUICMultiDatagramFrames{PerDatagram: []QUICRandomFrames{c09MDPresets["one"], c09MDPresets["nocry"]}}
	case "QMD nocry,one":
		return &QUICMultiDatagramFrames{PerDatagram: []QUICRandomFrames{c09MDPresets["nocry"], c09MDPresets["one"]}}
	case "QMD empty":
		return &QUICMultiDatagramFrames{}
	case "QFF tail-first":
		return &QUICFlightFrames{Datagrams: []QUICFrames{
			{QUICFrameCrypto{Offset: -h}, QUICFramePing{}, QUICFrameCrypto{Offset: 0, Length: h}},
			{QUICFrameCrypto{Offset: h, Length: -h}, QUICFramePadding{Length: 9}},
		}}
	case "QFF gap":
		return &QUICFlightFrames{Datagrams: []QUICFrames{{QUICFrameCrypto{Offset: -h}}, {QUICFrameCrypto{Offset: 0, Length: h}}}}
	case "QFF one-datagram":
		return &QUICFlightFrames{Datagrams: []QUICFrames{{QUICFrameCrypto{0, 0}}}}
	case "QFF out-of-stream":
		return &QUICFlightFrames{Datagrams: []QUICFrames{{QUICFrameCrypto{0, 0}}, {QUICFrameCrypto{0, L + 1}}}}
	case "QRFF tail-first":
		return &QUICRandomFlightFrames{PerDatagram: []QUICRandomFlightDatagram{
			{CryptoRanges: []QUICCryptoRange{{Offset: -h}, {Offset: 0, Length: h}}, Frames: QUICRandomFrames{MinCRYPTO: 2, MaxCRYPTO: 4, MinPING: 0, MaxPING: 2}},
			{CryptoRanges: []QUICCryptoRange{{Offset: h, Length: -h}}},
		}}
	case "QRFF padded":
		return &QUICRandomFlightFrames{PerDatagram: []QUICRandomFlightDatagram{
			{CryptoRanges: []QUICCryptoRange{{Offset: 0, Length: h}}, Frames: QUICRandomFrames{MinCRYPTO: 1, MaxCRYPTO: 2, MinPADDING: 1, MaxPADDING: 3, Length: uint16(h + 30)}},
			{CryptoRanges: []QUICCryptoRange{{Offset: h}}, Frames: QUICRandomFrames{MinCRYPTO: 1, MaxCRYPTO: 3}},
		}}
	case "QFF padding-between", "QFF padding-first", "QFF padding-ping-first":
		// two datagrams, PADDING (and PING) before / between the CRYPTO frames of a datagram:
		// dg0 carries the tail [L-q,L) and the head [0,q), dg1 the middle [q,L-q) in two frames
		q := max(L/4, 1)
		m := max((L-2*q)/2, 1)
		switch name {
		case "QFF padding-between":
			return &QUICFlightFrames{Datagrams: []QUICFrames{
				{QUICFrameCrypto{Offset: -q}, QUICFramePadding{Length: 40}, QUICFramePing{}, QUICFrameCrypto{Offset: 0, Length: q}},
				{QUICFrameCrypto{Offset: q, Length: m}, QUICFramePadding{Length: 1}, QUICFrameCrypto{Offset: q + m, Length: -q}},
			}}
		case "QFF padding-first":
			return &QUICFlightFrames{Datagrams: []QUICFrames{
				{QUICFramePadding{Length: 1}, QUICFrameCrypto{Offset: 0, Length: q}, QUICFrameCrypto{Offset: -q}},
				{QUICFramePadding{Length: 3}, QUICFrameCrypto{Offset: q, Length: m}, QUICFrameCrypto{Offset: q + m, Length: -q}, QUICFramePadding{Length: 7}},
			}}
		}
		return &QUICFlightFrames{Datagrams: []QUICFrames{
			{QUICFramePing{}, QUICFramePadding{Length: 2}, QUICFramePing{}, QUICFrameCrypto{Offset: -q}, QUICFrameCrypto{Offset: 0, Length: q}},
			{QUICFrameCrypto{Offset: q, Length: m}, QUICFramePing{}, QUICFramePadding{Length: 5}, QUICFramePing{}, QUICFrameCrypto{Offset: q + m, Length: -q}},
		}}
	case "QRFF padded-multi":
		// PADDING and PING shuffled among several CRYPTO frames in both datagrams (Length > natural size)
		q := max(L/4, 1)
		return &QUICRandomFlightFrames{PerDatagram: []QUICRandomFlightDatagram{
			{CryptoRanges: []QUICCryptoRange{{Offset: -q}, {Offset: 0, Length: q}}, Frames: QUICRandomFrames{MinCRYPTO: 2, MaxCRYPTO: 3, MinPING: 1, MaxPING: 1, MinPADDING: 1, MaxPADDING: 2, Length: uint16(2*q + 40)}},
			{CryptoRanges: []QUICCryptoRange{{Offset: q, Length: -q}}, Frames: QUICRandomFrames{MinCRYPTO: 1, MaxCRYPTO: 2, MinPADDING: 1, MaxPADDING: 1, Length: uint16(L - 2*q + 30)}},
		}}
	case "QRFF bad second":
		return &QUICRandomFlightFrames{PerDatagram: []QUICRandomFlightDatagram{
			{CryptoRanges: []QUICCryptoRange{{Offset: 0, Length: h}}},
			{CryptoRanges: []QUICCryptoRange{{Offset: h}}, Frames: QUICRandomFrames{MinCRYPTO: 3, MaxCRYPTO: 1}},
		}}
	}
	explore.Must(false, "unknown builder %s", name)
	return nil
}

// c09PkFixed are fixed QUICFrames layouts written for ONE slice length (h = max(L/3,1)):
// "rest-first" tiles every slice of >= h bytes, "explicit" only a slice of exactly 3h bytes,
// "explicit-long" only one of h+L bytes (its second frame starts inside an L byte ClientHello
// and ends behind it). The packer applies them to every datagram of the flight and to every
// retransmission, whatever the length of the slice.
var c09PkFixed = []string{"QUICFrames fixed rest-first", "QUICFrames fixed explicit", "QUICFrames fixed explicit-long"}

// c09RecQF is a pure pass-through to the real QUICFrames methods that notes the length of
// every slice the packer hands the layout, so that the harness knows whether the layout tiled
// all of them (then the flight is judged in full) or met a slice it was not written for (then
// an error, also a late one, and an incomplete flight are outside the property's quantifier
// and only the frames that were emitted are judged).
type c09RecQF struct {
	fr    QUICFrames
	seen  []int
	mixed bool // some slice was not tiled by the layout
}

func (r *c09RecQF) note(n int) {
	r.seen = append(r.seen, n)
	if !c09QFTiles(r.fr, n) {
		r.mixed = true
	}
}

func (r *c09RecQF) Build(cryptoData []byte) ([]byte, error) {
	r.note(len(cryptoData))
	return r.fr.Build(cryptoData)
}

func (r *c09RecQF) BuildForDatagram(idx int, cryptoData []byte, baseOffset uint64) ([]byte, error) {
	r.note(len(cryptoData))
	return r.fr.BuildForDatagram(idx, cryptoData, baseOffset)
}

func c09PkPlans(name string) []InitialPacketPlan {
	switch name {
	case "none":
		return nil
	case "crypto40":
		return []InitialPacketPlan{{CryptoLength: 40}}
	case "crypto999+size1250":
		return []InitialPacketPlan{{CryptoLength: 999, PacketSize: 1250}, {PacketSize: 1250}}
	case "size1250":
		return []InitialPacketPlan{{PacketSize: 1250}}
	case "size600,crypto7":
		return []InitialPacketPlan{{PacketSize: 600}, {CryptoLength: 7}}
	case "size1250,size1250":
		return []InitialPacketPlan{{PacketSize: 1250}, {PacketSize: 1250}}
	}
	explore.Must(false, "unknown plans %s", name)
	return nil
}

func c09PkCases(thorough bool) []c09PkCase {
	var cs []c09PkCase
	builders := []string{"nil", "QUICFrames{}", "QUICFrames one", "QUICFrames three", "QRF split", "QRF padded", "QRF padded-small", "QRF invalid",
		"QMD one,split", "QMD one,nocry", "QMD nocry,one", "QMD empty", "QFF tail-first", "QFF gap", "QFF one-datagram", "QFF out-of-stream",
		"QRFF tail-first", "QRFF padded", "QRFF bad second"}
	for _, L := range []int{1, 3, 63, 300, 1162, 2300} {
		for _, b := range builders {
			for _, pl := range []string{"none", "crypto40", "crypto999+size1250", "size1250", "size600,crypto7"} {
				if (pl == "crypto40" && L > 300) || (pl == "size600,crypto7" && L > 63) || (b == "QRF padded-small" && L > 63) {
					continue // would be dozens of datagrams; the split logic is the same
				}
				if b == "QUICFrames three" && (L < 3 || pl == "crypto40" || pl == "size600,crypto7" || L > 1000) {
					continue // the layout only tiles slices of >= 3 bytes (outside the quantifier otherwise)
				}
				for _, lose := range []int{-1, 0, 100} {
					if lose >= 0 && !thorough && pl != "none" && pl != "crypto40" {
						continue
					}
					cs = append(cs, c09PkCase{Name: fmt.Sprintf("L=%d %s plans=%s lose=%d", L, b, pl, lose), L: L, Builder: b, Plans: pl, Lose: lose})
				}
			}
		}
	}
	shapes := c09CHShapes(false)
	for si := range shapes {
		if si%5 == 0 || si >= len(shapes)-6 || thorough {
			cs = append(cs, c09PkCase{Name: "upstream packer, scrambler on: " + shapes[si].Name, Up: true, Shape: si, Lose: -1})
		}
	}
	// HelloRetryRequest scenarios (appended, so that the indices of the cases above stay)
	type hrr struct {
		lose      int
		loseFirst bool
		via       string
	}
	orders := []hrr{{0, false, "pack"}, {0, false, "pto"}, {0, true, "pack"}, {100, false, "pack"}}
	for _, L := range []int{3, 63, 300, 1162} {
		seconds := []int{L}
		if L == 300 || thorough {
			seconds = []int{1, L}
		}
		for _, b := range builders {
			for _, pl := range []string{"none", "crypto40"} {
				if (pl == "crypto40" && L > 300) || (b == "QRF padded-small" && L > 63) || (b == "QUICFrames three" && (pl == "crypto40" || L > 1000)) {
					continue
				}
				for _, sec := range seconds {
					if b == "QUICFrames three" && sec < 3 {
						continue // the layout only tiles slices of >= 3 bytes
					}
					for _, o := range orders {
						if !thorough && pl == "crypto40" && (o.via == "pto" || o.lose == 100) {
							continue
						}
						cs = append(cs, c09PkCase{Name: fmt.Sprintf("L=%d %s plans=%s then a second message of %d bytes; datagram %d lost (before the second write: %v), resent via %s", L, b, pl, sec, o.lose, o.loseFirst, o.via),
							L: L, Builder: b, Plans: pl, Lose: o.lose, Second: sec, LoseFirst: o.loseFirst, Via: o.via})
					}
				}
			}
		}
	}
	for si := range shapes {
		if si%5 == 0 || si >= len(shapes)-6 {
			n := len(c09BuildCH(shapes[si].Exts, shapes[si].SID, 3))
			for _, o := range orders[:3] {
				cs = append(cs, c09PkCase{Name: fmt.Sprintf("upstream packer, scrambler on: %s, then a second message of %d bytes; datagram %d lost (before the second write: %v), resent via %s", shapes[si].Name, n, o.lose, o.loseFirst, o.via),
					Up: true, Shape: si, Lose: o.lose, Second: n, LoseFirst: o.loseFirst, Via: o.via})
			}
		}
	}
	// fixed QUICFrames layouts over flights whose slices they were not written for (appended,
	// so that the indices of the cases above stay)
	for _, L := range []int{1, 3, 63, 300, 1162, 2300} {
		for _, b := range c09PkFixed {
			for _, pl := range []string{"none", "crypto40", "crypto999+size1250", "size1250", "size600,crypto7"} {
				if (pl == "crypto40" && L > 300) || (pl == "size600,crypto7" && L > 63) {
					continue
				}
				for _, lose := range []int{-1, 0, 100} {
					if lose >= 0 && !thorough && pl != "none" && pl != "crypto40" {
						continue
					}
					via := ""
					if lose == 100 {
						via = "pack"
					}
					cs = append(cs, c09PkCase{Name: fmt.Sprintf("L=%d %s plans=%s lose=%d", L, b, pl, lose), L: L, Builder: b, Plans: pl, Lose: lose, Via: via})
				}
			}
		}
	}
	// loss recovery of planned flights (appended, so that the indices of the cases above stay):
	// flight layouts with PADDING / PING before and between the CRYPTO frames of a datagram;
	// the first, the last or every datagram (a Retry re-queues them all) is declared lost and
	// everything queued is sent again through PackCoalescedPacket or PackPTOProbePacket
	for _, L := range []int{63, 300, 2300} {
		for _, b := range c09PkLossBuilders {
			for _, pl := range []string{"none", "size1250,size1250"} {
				for _, lose := range []int{0, 100, c09LoseAll} {
					for _, via := range []string{"pack", "pto"} {
						if !thorough && pl != "none" && (via == "pto" || lose == 100) {
							continue
						}
						cs = append(cs, c09PkCase{Name: fmt.Sprintf("L=%d %s plans=%s lose=%d, resent via %s", L, b, pl, lose, via), L: L, Builder: b, Plans: pl, Lose: lose, Via: via})
					}
				}
			}
		}
	}
	return cs
}

// c09LoseAll as c09PkCase.Lose: every datagram sent so far is declared lost (what a Retry does)
const c09LoseAll = 200

var c09PkLossBuilders = []string{"QFF padding-between", "QFF padding-first", "QFF padding-ping-first", "QRFF padded-multi", "QFF tail-first", "QRFF padded"}

type c09PkRun struct {
	acc *c09Acc
}

func c09NewPackers(spec *QUICSpec, scramble bool) (*packetPacker, *uPacketPacker, *initialCryptoStream) {
	ini := newInitialCryptoStream(true)
	if !scramble {
		ini.DisableScrambling()
	}
	hs := newCryptoStream()
	rph := ackhandler.NewReceivedPacketHandler(utils.DefaultLogger)
	var stats utils.ConnectionStats
	var pn protocol.PacketNumber
	if spec != nil {
		pn = spec.InitialPacketSpec.initialPN()
	}
	sph := ackhandler.NewUAckHandler(pn, 1252, utils.NewRTTStats(), &stats, false, false, rph.IgnorePacketsBelow, protocol.PerspectiveClient, nil, utils.DefaultLogger)
	dcid := protocol.ParseConnectionID([]byte{1, 2, 3, 4, 5, 6, 7, 8})
	scid := protocol.ParseConnectionID([]byte{9, 9, 9, 9})
	pp := newPacketPacker(scid, func() protocol.ConnectionID { return dcid }, ini, hs, sph, newRetransmissionQueue(), c09Sealing{}, newFramer(nil), rph, nil, protocol.PerspectiveClient)
	pp.rand = *rand.New(rand.NewPCG(1, 2)) // frame order inside upstream packets: pinned
	if spec == nil {
		return pp, nil, ini
	}
	return pp, newUPacketPacker(pp, spec), ini
}

// c09PkOne runs one scenario under the current draws.
func c09PkOne(c c09PkCase, acc *c09Acc) *explore.Fail {
	const maxSize = 1252
	now := monotime.Time(3_600_000_000_000)
	v := protocol.Version1
	who := "packer:" + c.Builder
	var ch, second, ref []byte
	var spec *QUICSpec
	var rec *c09RecQF // set for the fixed layouts: which slices the packer handed them
	if c.Up {
		sh := c09CHShapes(false)[c.Shape]
		ch = c09BuildCH(sh.Exts, sh.SID, 3)
		who = "upstream-packer:" + sh.Class()
		second = c09LaterMsg(0, c.Second)
		ref = append(append([]byte{}, ch...), second...)
	} else {
		ch = c09Slice(0, c.L)
		if c.Second > 0 {
			second = c09Slice(c.L, c.Second) // the stream is c09F throughout (ref == nil)
		}
		fb := c09PkBuilder(c.Builder, c.L)
		if strings.HasPrefix(c.Builder, "QUICFrames fixed") {
			rec = &c09RecQF{fr: fb.(QUICFrames)}
			fb = rec
		}
		spec = &QUICSpec{InitialPacketSpec: InitialPacketSpec{FrameBuilder: fb, InitialPackets: c09PkPlans(c.Plans)}}
	}
	total := len(ch) + len(second)
	newCover := func(n int) *c09Cover {
		cov := c09NewCover(0, n)
		if ref != nil {
			cov.ref = ref[:n]
		}
		return cov
	}
	return c09Safe(who, func() *explore.Fail {
		pp, up, ini := c09NewPackers(spec, c.Up)
		if _, err := ini.Write(ch); err != nil {
			acc.out.Add(who + " Write error: " + err.Error())
			return nil
		}
		pack := func() (*coalescedPacket, error) {
			if up != nil {
				return up.PackCoalescedPacket(false, maxSize, now, v)
			}
			return pp.PackCoalescedPacket(false, maxSize, now, v)
		}
		var sent []*coalescedPacket
		var sizes []int
		var carried [][][2]int // per datagram put on the wire (PTO probes included): the stream ranges of its CRYPTO frames
		lost := map[int]bool{} // indices into carried: datagrams declared lost
		written := len(ch)     // length of the Initial stream so far
		// drain calls PackCoalescedPacket until it has nothing more to send and judges every
		// datagram; a packer error is handed to the caller
		drain := func(cov *c09Cover, what, keyPrefix string) (*explore.Fail, error) {
			for {
				explore.Must(len(sent) < 240, "scenario %s does not finish", c.Name)
				pkt, err := pack()
				if err != nil {
					return nil, err
				}
				if pkt == nil {
					return nil, nil
				}
				payloads, bad := c09ReadDatagram(pkt.buffer.Data)
				if bad != "" {
					return explore.Failf(who+":"+keyPrefix+"datagram-unreadable", "%s: %sdatagram %d: %s", c.Name, what, len(sent), bad), nil
				}
				for _, p := range payloads {
					if kind, msg := cov.add(p); kind != "" {
						return explore.Failf(who+":"+keyPrefix+kind, "%s: %sdatagram %d: %s", c.Name, what, len(sent), msg), nil
					}
				}
				sent = append(sent, pkt)
				sizes = append(sizes, len(pkt.buffer.Data))
				carried = append(carried, c09CryptoRanges(payloads))
			}
		}
		// lose declares every frame of datagram k lost, the way the sent packet handler does
		lose := func(k int) (nLost int) {
			lost[k] = true
			for _, lp := range sent[k].longHdrPackets {
				for _, f := range lp.frames {
					f.Handler.OnLost(f.Frame)
					nLost++
				}
			}
			return nLost
		}
		// loseSel declares the selected datagram(s) lost: index k, or all of them (c09LoseAll)
		loseSel := func(k int) (nLost int) {
			if c.Lose != c09LoseAll {
				return lose(k)
			}
			for i := range sent {
				nLost += lose(i)
			}
			return nLost
		}
		// unrecovered: the first stream range below n that no datagram the peer can have
		// received carries - every datagram put on the wire but the ones declared lost
		unrecovered := func(n int) (lo, hi int) {
			have := make([]bool, n)
			for i, rs := range carried {
				if lost[i] {
					continue
				}
				for _, r := range rs {
					for j := r[0]; j < r[1] && j < n; j++ {
						have[j] = true
					}
				}
			}
			for i := range have {
				if !have[i] {
					j := i
					for j < n && !have[j] {
						j++
					}
					return i, j
				}
			}
			return -1, -1
		}
		// notRecovered is the loss-recovery verdict, asked when the packer has nothing more to
		// send: the datagrams that were not lost plus everything sent afterwards must carry the
		// whole stream. No verdict when the flight itself was outside the quantifier (a fixed
		// layout that met a slice it does not tile).
		notRecovered := func(how string) *explore.Fail {
			if rec != nil && rec.mixed {
				acc.out.Add(who + " loss recovery: layout met a slice it does not tile (no verdict)")
				return nil
			}
			lo, hi := unrecovered(written)
			if lo < 0 {
				return nil
			}
			var ls []int
			for i := range carried {
				if lost[i] {
					ls = append(ls, i)
				}
			}
			return explore.Failf(who+":lost-not-resent", "%s: datagram(s) %v of the %d put on the wire were declared lost (OnLost of every frame the packer registered for them) and %s was drained until the packer had nothing more to send, no error: stream bytes [%d,%d) of the %d byte Initial stream were carried by the lost datagram(s) %v only and were never put on the wire again - the peer can never assemble the complete ClientHello (silently truncated)", c.Name, ls, len(carried), how, lo, hi, written, c09CarriedBy(carried, lost, lo))
		}
		szClass := func() string {
			szc := "sizes="
			for i, s := range sizes {
				if i < 3 {
					szc += fmt.Sprint(s) + ","
				}
			}
			return szc
		}

		cov := newCover(len(ch))
		fail, err := drain(cov, "", "")
		if fail != nil {
			return fail
		}
		if rec != nil && rec.mixed && (err != nil || cov.missing() >= 0) {
			// the layout met a slice it does not tile: the frames it emitted were judged above;
			// whether and when such a flight is rejected is outside the property's quantifier
			what := "no error, flight incomplete"
			if err != nil {
				what = "rejected: " + c09ErrClass(err)
			}
			acc.out.Add(fmt.Sprintf("%s met a slice it does not tile (slices %v) after %d datagram(s) (no verdict): %s", who, rec.seen[:min(len(rec.seen), 3)], c09Cap(len(sent), 3), what))
			if err != nil || len(sent) == 0 {
				return nil
			}
		} else if err != nil {
			if len(sent) > 0 {
				return explore.Failf(who+":error-after-send", "%s: PackCoalescedPacket failed with %q after %d Initial datagram(s) carrying part of the %d byte ClientHello were already emitted: the configuration was not rejected before anything was sent", c.Name, err, len(sent), len(ch))
			}
			acc.out.Add(who + " rejected before anything was sent: " + c09ErrClass(err))
			return nil
		} else if miss := cov.missing(); miss >= 0 {
			return explore.Failf(who+":truncated", "%s: the packer has nothing more to send after %d datagram(s), no error, but no CRYPTO frame carried stream offset %d of the %d byte ClientHello", c.Name, len(sent), miss, len(ch))
		}
		acc.out.Add(fmt.Sprintf("%s sent dgs=%d %s %s", who, c09Cap(len(sent), 9), szClass(), cov.class()))
		if len(sent) == 0 {
			return nil
		}
		k, nLost := min(max(c.Lose, 0), len(sent)-1), 0

		// HelloRetryRequest: the TLS stack writes a second message to the same Initial stream
		if c.Second > 0 {
			first := len(sent)
			if c.LoseFirst {
				nLost = lose(k)
			}
			if _, err := ini.Write(second); err != nil {
				acc.out.Add(who + " second Write error: " + err.Error())
				return nil
			}
			written = total
			cov2 := newCover(total)
			copy(cov2.cnt, cov.cnt)
			fail, err := drain(cov2, "after the second message was written: ", "second-")
			if fail != nil {
				return fail
			}
			if err != nil {
				if c.LoseFirst {
					acc.out.Add(who + " HRR: error while retransmissions were pending (no verdict: the first flight was complete): " + c09ErrClass(err))
					return nil
				}
				return explore.Failf(who+":second-error-after-send", "%s: PackCoalescedPacket failed with %q after the second message (%d bytes at stream offset %d) was written; %d Initial datagram(s) were emitted before: the configuration was not rejected before anything was sent", c.Name, err, len(second), len(ch), len(sent))
			}
			if miss := cov2.missing(); miss >= 0 {
				return explore.Failf(who+":second-truncated", "%s: the packer has nothing more to send after %d datagram(s), no error, but no CRYPTO frame carried stream offset %d of the %d byte Initial stream (%d byte ClientHello + %d byte second message)", c.Name, len(sent), miss, total, len(ch), len(second))
			}
			acc.out.Add(fmt.Sprintf("%s HRR second message sent (loss before: %v) dgs=%d %s", who, c.LoseFirst, c09Cap(len(sent)-first, 9), cov2.class()))
			if c.LoseFirst {
				// the lost datagram's frames were queued before the second message was sent
				return notRecovered("PackCoalescedPacket (the second message written in between)")
			}
			k = min(c.Lose, len(sent)-1)
		}

		// loss phase: declare one datagram lost and let the packer send it again
		if c.Lose >= 0 {
			nLost = loseSel(k)
			probeCov := newCover(total)
			if c.Via == "pack" {
				n0 := len(sent)
				fail, err := drain(probeCov, fmt.Sprintf("retransmission after losing datagram %d: ", k), "resend-")
				if fail != nil {
					return fail
				}
				if err != nil {
					acc.out.Add(who + " retransmission error (no verdict: the flight itself was complete): " + c09ErrClass(err))
					return nil
				}
				acc.out.Add(fmt.Sprintf("%s resent lost-frames=%d dgs=%d %s", who, c09Cap(nLost, 4), c09Cap(len(sent)-n0, 4), probeCov.class()))
				return notRecovered("PackCoalescedPacket")
			}
			probes := 0
			for ; probes < 60; probes++ {
				var pkt *coalescedPacket
				var err error
				if up != nil {
					pkt, err = up.PackPTOProbePacket(protocol.EncryptionInitial, maxSize, false, now, v)
				} else {
					pkt, err = pp.PackPTOProbePacket(protocol.EncryptionInitial, maxSize, false, now, v)
				}
				if err != nil {
					acc.out.Add(who + " PTO probe error (no verdict: the flight itself was complete): " + c09ErrClass(err))
					return nil
				}
				if pkt == nil {
					break
				}
				payloads, bad := c09ReadDatagram(pkt.buffer.Data)
				if bad != "" {
					return explore.Failf(who+":probe-unreadable", "%s: PTO probe %d: %s", c.Name, probes, bad)
				}
				for _, p := range payloads {
					if kind, msg := probeCov.add(p); kind != "" {
						return explore.Failf(who+":probe-"+kind, "%s: PTO probe %d after losing datagram %d: %s", c.Name, probes, k, msg)
					}
				}
				carried = append(carried, c09CryptoRanges(payloads))
			}
			acc.out.Add(fmt.Sprintf("%s PTO lost-frames=%d probes=%d %s", who, c09Cap(nLost, 4), c09Cap(probes, 4), probeCov.class()))
			if probes < 60 { // PackPTOProbePacket returned nil: nothing left to retransmit
				return notRecovered("PackPTOProbePacket")
			}
		}
		return nil
	})
}

func c09PackerPart() explore.Part {
	const rule = "real uPacketPacker (real crypto streams, framer, retransmission queue, sent/received packet handlers; pass-through Initial sealer) driven like the send loop: Write(ClientHello), PackCoalescedPacket until nil; 26 FrameBuilders (nil, QUICFrames, QUICRandomFrames, QUICMultiDatagramFrames, QUICFlightFrames, QUICRandomFlightFrames; valid, invalid and late-invalid; three of them fixed QUICFrames layouts written for one slice length - last frame 'the rest', all lengths explicit, second frame ending behind the ClientHello - which the packer applies to every datagram and retransmission of the flight whatever the slice: a recording pass-through notes the slice lengths; when the layout tiled them all the flight is judged in full, otherwise every emitted frame is judged and an error, also a late one, or an incomplete flight is recorded without verdict) x InitialPackets plans {none, CryptoLength 40, 999+PacketSize 1250, PacketSize 1250, PacketSize 600 + CryptoLength 7} x ClientHello lengths {1,3,63,300,1162,2300}; every builder draw an explorer choice; then one datagram is declared lost (OnLost of every frame the packer registered for it) and PackPTOProbePacket or PackCoalescedPacket drained until nothing is left: frames judged, and loss recovery: the datagrams that were not lost plus everything sent afterwards must carry the whole stream (key lost-not-resent). Loss-recovery scenarios of planned flights: 6 flight layouts (QUICFlightFrames with QUICFramePadding / QUICFramePing before and between the CRYPTO frames of both datagrams, QUICRandomFlightFrames with Frames.Length > 0 shuffling PADDING and PING among several CRYPTO frames) x ClientHello lengths {63,300,2300} x plans {none, PacketSize 1250 x 2} x {first, last, every datagram lost (Retry)} x {PackCoalescedPacket, PackPTOProbePacket}. HelloRetryRequest scenarios (ClientHello lengths {3,63,300,1162}, plans {none, CryptoLength 40}): after the first flight a second message (1 byte or as long as the first) is written to the same Initial stream and sent (whole stream covered, or no error-free end), the first or last datagram is declared lost before or after that and sent again through PackCoalescedPacket or PackPTOProbePacket; every CRYPTO frame of every datagram, retransmissions included, is judged against the whole stream. Plus the plain quic-go packetPacker with the scrambler on over hand-built ClientHellos. Datagrams are read with an independent long-header + frame reader: every CRYPTO byte at its true offset, whole ClientHello covered when the packer has nothing more to send, or an error before the first datagram"
	return explore.Part{
		Name: "packer",
		Run: func(e explore.Env) *explore.Report {
			cases := c09PkCases(e.Thorough())
			acc := c09NewAcc()
			rep := explore.RunCases(e, len(cases), 1, true, func(i int) explore.CaseResult {
				c := cases[i]
				en := c09RFEnum(e)
				return c09DrawCase("packer", en, acc, i, func() *explore.Fail { return c09PkOne(c, acc) })
			})
			acc.samples = []any{cases[len(cases)/2].Name, cases[len(cases)-1].Name}
			return acc.finish(rep, rule, fmt.Sprintf("%d scenarios", len(cases)))
		},
		Replay: func(e explore.Env, raw json.RawMessage) *explore.Violation {
			var r c09DrawReplay
			explore.Must(json.Unmarshal(raw, &r) == nil, "bad replay")
			cases := c09PkCases(e.Thorough())
			if f := c09ReplayDraws(r.Draws, func() *explore.Fail { return c09PkOne(cases[r.Case], c09NewAcc()) }); f != nil {
				return &explore.Violation{Key: f.Key, What: f.What}
			}
			return nil
		},
	}
}
