package quic

// C09 part 3: the send side of the real initialCryptoStream with the anti-DPI ClientHello
// scrambler on (and, as a baseline, the default splitter: scrambling disabled / the plain
// cryptoStream). ClientHellos are synthesised by hand with the SNI / ECH extensions at
// every position class the sni.go parser distinguishes; they are written in 1 or 2 Write
// calls and popped with every sequence of maxLen values from {nothing fits, tiny, one
// cell, large}. Explicit-state BFS to closure per (ClientHello, write split, mode).
//
// The Initial CRYPTO stream does not end with the first ClientHello: after a
// HelloRetryRequest the TLS stack writes a second ClientHello to the same stream. A
// subset of the cases therefore writes 1 or 2 further messages behind the ClientHello
// (any interleaving with the pops), and every frame PopCryptoFrame handed out is kept the
// way the sent packet history keeps it (same backing array, no copy) and re-read after
// every later operation: it is what a retransmission / PTO probe puts on the wire then.

import (
	"bytes"
	"encoding/json"
	"fmt"
	"strings"

	"github.com/refraction-networking/uquic/internal/protocol"
	"github.com/refraction-networking/uquic/internal/verifmc/canon"
	"github.com/refraction-networking/uquic/internal/verifmc/explore"
)

// ---- ClientHello synthesis ---------------------------------------------------------------

type c09Ext struct {
	Kind string // "sni", "sni-other" (name type 1 only), "sni-two" (other + host_name), "ech", "fill"
	N    int    // host name length / body length
}

func c09BuildCH(exts []c09Ext, sessionID, suites int) []byte {
	var ex []byte
	put16 := func(b []byte, v int) []byte { return append(b, byte(v>>8), byte(v)) }
	fill := func(b []byte, n int) []byte {
		for i := 0; i < n; i++ {
			b = append(b, byte('a'+(len(b)*7)%26))
		}
		return b
	}
	for _, e := range exts {
		switch e.Kind {
		case "sni":
			ex = put16(ex, 0)
			ex = put16(ex, 2+3+e.N)
			ex = put16(ex, 3+e.N)
			ex = append(ex, 0)
			ex = put16(ex, e.N)
			ex = fill(ex, e.N)
		case "sni-other":
			ex = put16(ex, 0)
			ex = put16(ex, 2+3+e.N)
			ex = put16(ex, 3+e.N)
			ex = append(ex, 1)
			ex = put16(ex, e.N)
			ex = fill(ex, e.N)
		case "sni-two":
			ex = put16(ex, 0)
			ex = put16(ex, 2+3+4+3+e.N)
			ex = put16(ex, 3+4+3+e.N)
			ex = append(ex, 1)
			ex = put16(ex, 4)
			ex = fill(ex, 4)
			ex = append(ex, 0)
			ex = put16(ex, e.N)
			ex = fill(ex, e.N)
		case "ech":
			ex = put16(ex, 0xfe0d)
			ex = put16(ex, e.N)
			ex = fill(ex, e.N)
		default:
			ex = put16(ex, 0x002b)
			ex = put16(ex, e.N)
			ex = fill(ex, e.N)
		}
	}
	body := []byte{3, 3}
	body = fill(body, 32)
	body = append(body, byte(sessionID))
	body = fill(body, sessionID)
	body = put16(body, 2*suites)
	body = fill(body, 2*suites)
	body = append(body, 1, 0)
	if exts != nil {
		body = put16(body, len(ex))
		body = append(body, ex...)
	}
	ch := []byte{1, byte(len(body) >> 16), byte(len(body) >> 8), byte(len(body))}
	return append(ch, body...)
}

type c09CHShape struct {
	Name string
	Exts []c09Ext
	SID  int
}

// Class names the position class of the SNI / ECH extensions (part of violation keys).
func (sh c09CHShape) Class() string {
	sni, ech := "absent", "absent"
	for i, e := range sh.Exts {
		switch e.Kind {
		case "sni", "sni-other", "sni-two":
			k := map[string]string{"sni": "host_name", "sni-other": "other-name-type-only", "sni-two": "other+host_name"}[e.Kind]
			if e.Kind == "sni" && e.N == 0 {
				k = "empty-host_name"
			}
			if sni != "absent" {
				k = "duplicate"
			}
			sni = k
			if ech != "absent" {
				sni += "-after-ech"
			}
		case "ech":
			if ech != "absent" {
				ech = "duplicate"
			} else {
				ech = "present"
				_ = i
			}
		}
	}
	return "sni=" + sni + ",ech=" + ech
}

func c09CHShapes(thorough bool) []c09CHShape {
	var out []c09CHShape
	names := []int{1, 2, 9, 100}
	echs := []int{0, 5, 20, 200}
	fills := []int{0, 30}
	if thorough {
		// (an empty host_name is not in the alphabet: RFC 6066 defines HostName<1..2^16-1> and
		// crypto/tls, the only producer of ClientHellos the scrambler sees, omits the extension
		// when there is no name. The scrambler computes an empty cut for it and stalls: recorded in
		// DESIGN.md 5.3 as a false alarm of the first thorough run, not a finding.)
		names = []int{1, 2, 3, 9, 16, 100, 255}
		echs = []int{0, 5, 11, 12, 13, 20, 200}
		fills = []int{0, 1, 30, 700}
	}
	add := func(name string, exts ...c09Ext) {
		out = append(out, c09CHShape{Name: name, Exts: exts, SID: len(out) % 2 * 32})
	}
	// (A ClientHello without an extensions field is not in the alphabet: QUIC requires the
	// quic_transport_parameters extension, so such a message cannot be a QUIC ClientHello.
	// findSNIAndECH waits for more data forever on it.)
	add("empty-extensions")
	out[0].Exts = []c09Ext{}
	for _, f := range fills {
		F := c09Ext{"fill", f}
		add(fmt.Sprintf("fill%d only", f), F)
		for _, n := range names {
			S := c09Ext{"sni", n}
			add(fmt.Sprintf("sni%d first", n), S, F)
			add(fmt.Sprintf("sni%d last f%d", n, f), F, S)
			add(fmt.Sprintf("sni%d middle f%d", n, f), F, S, F)
			for _, el := range echs {
				E := c09Ext{"ech", el}
				add(fmt.Sprintf("sni%d ech%d adjacent f%d", n, el, f), F, S, E, F)
				add(fmt.Sprintf("ech%d sni%d adjacent f%d", el, n, f), F, E, S, F)
				if f == fills[0] {
					add(fmt.Sprintf("sni%d ech%d only", n, el), S, E)
					add(fmt.Sprintf("ech%d sni%d only", el, n), E, S)
				} else {
					add(fmt.Sprintf("sni%d fill ech%d", n, el), S, F, E)
					add(fmt.Sprintf("ech%d fill sni%d", el, n), E, F, S)
				}
			}
		}
		for _, el := range echs {
			E := c09Ext{"ech", el}
			add(fmt.Sprintf("ech%d only-ext f%d", el, f), F, E)
			add(fmt.Sprintf("ech%d first f%d", el, f), E, F)
			add(fmt.Sprintf("ech%d alone", el), E)
			add(fmt.Sprintf("sni-other7 ech%d f%d", el, f), c09Ext{"sni-other", 7}, F, E)
			add(fmt.Sprintf("ech%d sni-other40 f%d", el, f), E, F, c09Ext{"sni-other", 40})
			add(fmt.Sprintf("sni-two9 ech%d f%d", el, f), F, c09Ext{"sni-two", 9}, E)
		}
	}
	add("sni-other only", c09Ext{"sni-other", 12})
	add("sni-two only", c09Ext{"sni-two", 12})
	add("two sni extensions", c09Ext{"sni", 5}, c09Ext{"sni", 6})
	add("two ech extensions", c09Ext{"ech", 5}, c09Ext{"fill", 3}, c09Ext{"ech", 6})
	add("multi-datagram sni middle", c09Ext{"fill", 1100}, c09Ext{"sni", 20}, c09Ext{"fill", 1100})
	add("multi-datagram ech last", c09Ext{"sni", 20}, c09Ext{"fill", 2200}, c09Ext{"ech", 300})
	return out
}

// ---- instance ----------------------------------------------------------------------------------

type c09ScrStream interface {
	Write([]byte) (int, error)
	HasData() bool
}

type c09ScrInst struct {
	mode     string // "scramble", "disabled", "plain"
	ini      *initialCryptoStream
	plain    *cryptoStream
	ch       []byte
	chunks   [][]byte
	helloLen int
	nCH      int // the first nCH chunks are the ClientHello, the others are later messages
	held     []c09HeldFrame
	written  int
	wlen     int
	cnt      []uint8
	lin      int // bytes handed out by the linear (non-scrambling) path, for PopAllCryptoData
	sizes    [4]protocol.ByteCount
	dead     bool
	outcome  string
}

// c09HeldFrame is a popped CRYPTO frame as the sent packet history / the retransmission
// queue keep it: the Data slice itself, not a copy.
type c09HeldFrame struct {
	off  int
	data []byte
}

// c09LaterMsg is the k-th message written behind the ClientHello (the second ClientHello
// after a HelloRetryRequest, ...). Its bytes come from a value range of its own, so they
// differ from every byte of the hand-built ClientHello (< 0x80) and of the other messages.
func c09LaterMsg(k, n int) []byte {
	b := make([]byte, n)
	for i := range b {
		b[i] = byte(0x80 + 0x20*(k%4) + (i*7+i/32)%0x20)
	}
	return b
}

func c09NewScrInst(mode string, hello []byte, split int, extra []int) *c09ScrInst {
	ch := append([]byte{}, hello...) // the whole stream: ClientHello + later messages
	var later [][]byte
	for k, n := range extra {
		m := c09LaterMsg(k, n)
		later = append(later, m)
		ch = append(ch, m...)
	}
	in := &c09ScrInst{mode: mode, ch: ch, helloLen: len(hello), cnt: make([]uint8, len(ch))}
	switch mode {
	case "scramble":
		in.ini = newInitialCryptoStream(true)
		explore.Must(in.ini.scramble, "scrambling is disabled through the environment (%s)", disableClientHelloScramblingEnv)
	case "disabled":
		in.ini = newInitialCryptoStream(true)
		in.ini.DisableScrambling()
	default:
		in.plain = newCryptoStream()
	}
	if split > 0 && split < len(hello) {
		in.chunks = [][]byte{hello[:split], hello[split:]}
	} else {
		in.chunks = [][]byte{hello}
	}
	in.nCH = len(in.chunks)
	in.chunks = append(in.chunks, later...)
	tiny, cell := protocol.ByteCount(7), protocol.ByteCount(40)
	if len(hello) > 400 {
		tiny, cell = 70, 300
	}
	in.sizes = [4]protocol.ByteCount{2, tiny, cell, 1400}
	return in
}

func (in *c09ScrInst) Ops() []explore.Op {
	if in.dead {
		return nil
	}
	var ops []explore.Op
	for a := 0; a < 4; a++ {
		ops = append(ops, explore.Op{N: "pop", A: a})
	}
	if in.mode == "disabled" {
		ops = append(ops, explore.Op{N: "popall"})
	}
	if in.written < len(in.chunks) {
		ops = append(ops, explore.Op{N: "write"})
	}
	return ops
}

func (in *c09ScrInst) unsent() int {
	for i := 0; i < in.wlen; i++ {
		if in.cnt[i] == 0 {
			return i
		}
	}
	return -1
}

func (in *c09ScrInst) mark(off int, data []byte, what string) *explore.Fail {
	if off < 0 || off+len(data) > in.wlen {
		return explore.Failf("cryptostream-"+in.mode+":beyond-written", "%s returned stream range [%d,%d), only %d bytes were written", what, off, off+len(data), in.wlen)
	}
	for i, x := range data {
		if x != in.ch[off+i] {
			return explore.Failf("cryptostream-"+in.mode+":wrong-byte", "%s: CRYPTO frame [%d,%d) carries 0x%02x at stream offset %d, the ClientHello has 0x%02x there", what, off, off+len(data), x, off+i, in.ch[off+i])
		}
		if in.cnt[off+i] < 2 {
			in.cnt[off+i]++
		}
	}
	return nil
}

// checkHeld re-reads every frame that was popped so far: until it is acknowledged the
// packer may put it on the wire again at any time (loss, PTO probe), and then it has to
// carry the stream's bytes at its offset like any other frame.
func (in *c09ScrInst) checkHeld(after explore.Op) *explore.Fail {
	for _, h := range in.held {
		if bytes.Equal(h.data, in.ch[h.off:h.off+len(h.data)]) {
			continue
		}
		for i, x := range h.data {
			if x != in.ch[h.off+i] {
				return explore.Failf("cryptostream-"+in.mode+":retained-frame-changed", "the CRYPTO frame [%d,%d) that PopCryptoFrame handed out earlier (kept for retransmission, not yet acknowledged) carries 0x%02x at stream offset %d after %s, the stream has 0x%02x there: a retransmission would put the wrong bytes on the wire", h.off, h.off+len(h.data), x, h.off+i, after.N, in.ch[h.off+i])
			}
		}
	}
	return nil
}

func (in *c09ScrInst) Apply(op explore.Op) *explore.Fail {
	if f := in.apply(op); f != nil {
		return f
	}
	return in.checkHeld(op)
}

func (in *c09ScrInst) apply(op explore.Op) *explore.Fail {
	hasData := func() bool {
		if in.ini != nil {
			return in.ini.HasData()
		}
		return in.plain.HasData()
	}
	// the ClientHello is complete (later messages may still follow: the stream cannot know)
	complete := in.written >= in.nCH
	switch op.N {
	case "write":
		var err error
		c := in.chunks[in.written]
		drained := !hasData() && in.unsent() < 0
		if in.ini != nil {
			_, err = in.ini.Write(c)
		} else {
			_, err = in.plain.Write(c)
		}
		in.written++
		in.wlen += len(c)
		in.outcome = "write"
		if in.written > in.nCH {
			in.outcome = "write (later message)"
			if drained {
				in.outcome += ", stream was drained"
			}
		}
		if err != nil {
			// the handshake fails here (connection.go closes on a Write error): nothing more is sent
			in.dead = true
			in.outcome = "write error: " + err.Error()
		}
	case "pop":
		maxLen := in.sizes[op.A]
		if !hasData() {
			// the packer asks HasData before popping (maybeGetCryptoPacket)
			if i := in.unsent(); complete && i >= 0 {
				return explore.Failf("cryptostream-"+in.mode+":hasdata-false-with-unsent-bytes", "the whole ClientHello is written (%d stream bytes so far), stream offset %d was never popped, HasData() is false", in.wlen, i)
			}
			in.outcome = "no data"
			if !complete {
				in.outcome = "no data (ClientHello incomplete)"
			}
			return nil
		}
		var off protocol.ByteCount
		var data []byte
		var isNil bool
		if in.ini != nil {
			f := in.ini.PopCryptoFrame(maxLen)
			if isNil = f == nil; !isNil {
				off, data = f.Offset, f.Data
			}
		} else {
			f := in.plain.PopCryptoFrame(maxLen)
			if isNil = f == nil; !isNil {
				off, data = f.Offset, f.Data
			}
		}
		if isNil {
			if i := in.unsent(); complete && i >= 0 && op.A == 3 {
				return explore.Failf("cryptostream-"+in.mode+":stuck-with-unsent-bytes", "the whole ClientHello is written (%d stream bytes so far), stream offset %d was never popped, PopCryptoFrame(%d) returns nil", in.wlen, i, maxLen)
			}
			in.outcome = fmt.Sprintf("pop(%d) nil", op.A)
			return nil
		}
		if len(data) == 0 {
			return explore.Failf("cryptostream-"+in.mode+":empty-frame", "PopCryptoFrame(%d) returned an empty CRYPTO frame at %d", maxLen, off)
		}
		dupBefore := int(off) >= 0 && int(off) < len(in.cnt) && in.cnt[off] > 0
		if f := in.mark(int(off), data, fmt.Sprintf("PopCryptoFrame(%d)", maxLen)); f != nil {
			return f
		}
		in.lin += len(data)
		in.held = append(in.held, c09HeldFrame{int(off), data})
		in.outcome = fmt.Sprintf("pop(%d) data", op.A)
		if int(off) >= in.helloLen {
			in.outcome += " (later message)"
		}
		if dupBefore {
			in.outcome += " (bytes sent before)"
		}
		if in.ini != nil && in.mode == "scramble" {
			switch {
			case !in.ini.scramble:
				in.outcome += " scrambling finished"
			case in.ini.writeOffset == in.ini.end:
				in.outcome += " deferred part next"
			}
		}
	case "popall":
		data := in.ini.PopAllCryptoData()
		if f := in.mark(in.lin, data, "PopAllCryptoData"); f != nil {
			return f
		}
		in.lin += len(data)
		in.outcome = "popall " + c09LenClass(len(data))
	default:
		explore.Must(false, "unknown op %v", op)
	}
	return nil
}

func (in *c09ScrInst) Outcome() string { return in.mode + ": " + in.outcome }

func (in *c09ScrInst) Key() string {
	var sb strings.Builder
	if in.ini != nil {
		sb.WriteString(canon.Dump(in.ini, canon.Options{}))
	} else {
		sb.WriteString(canon.Dump(in.plain, canon.Options{}))
	}
	fmt.Fprintf(&sb, "|w=%d lin=%d dead=%v cnt=", in.written, in.lin, in.dead)
	for _, c := range in.cnt {
		sb.WriteByte('0' + c)
	}
	return sb.String()
}

// ---- part ----------------------------------------------------------------------------------------

type c09ScrCase struct {
	Shape int
	Mode  string
	Split int   // 0 = one Write, else the first Write has Split bytes (negative: from the end)
	Extra []int `json:",omitempty"` // lengths of the messages written behind the ClientHello (second ClientHello after a HelloRetryRequest, ...)
}

func c09ScrCases(thorough bool) ([]c09ScrCase, []c09CHShape) {
	shapes := c09CHShapes(thorough)
	var cs []c09ScrCase
	for si, sh := range shapes {
		n := len(c09BuildCH(sh.Exts, sh.SID, 3))
		splits := []int{0, 3, n / 2, n - 1}
		if thorough {
			splits = []int{0, 1, 3, 4, 5, 44, n / 2, n - 17, n - 1}
		}
		for _, sp := range c09UniqSorted(splits, 0, n-1) {
			cs = append(cs, c09ScrCase{si, "scramble", sp, nil})
		}
		if si%7 == 0 || n > 1000 {
			cs = append(cs, c09ScrCase{si, "disabled", 0, nil}, c09ScrCase{si, "disabled", n / 2, nil}, c09ScrCase{si, "plain", n / 2, nil})
		}
	}
	// later messages on the same stream (appended, so that the indices of the cases above stay)
	for si, sh := range shapes {
		n := len(c09BuildCH(sh.Exts, sh.SID, 3))
		if !(si%7 == 0 || n > 1000 || (thorough && si%2 == 0)) {
			continue
		}
		cs = append(cs,
			c09ScrCase{si, "disabled", 0, []int{1}}, c09ScrCase{si, "disabled", 0, []int{n}}, c09ScrCase{si, "disabled", n / 2, []int{40, 1}},
			c09ScrCase{si, "plain", 0, []int{n}}, c09ScrCase{si, "plain", n / 2, []int{1}},
			c09ScrCase{si, "scramble", 0, []int{min(n, 60), 1}}, c09ScrCase{si, "scramble", 3, []int{1}})
		if thorough {
			cs = append(cs, c09ScrCase{si, "disabled", 3, []int{n + 9, n}}, c09ScrCase{si, "plain", 0, []int{1, 1}}, c09ScrCase{si, "scramble", n / 2, []int{n, 40}})
		}
	}
	return cs, shapes
}

func c09ScramblePart() explore.Part {
	const rule = "explicit-state BFS to closure over the send side of the real initialCryptoStream (scrambler on; baseline: scrambling disabled incl. PopAllCryptoData, and the plain cryptoStream): hand-built ClientHellos with SNI (host_name lengths 1,2,9,100; other name types; two names), ECH (body 0,5,20,200) and filler extensions in every relative position (first/middle/last/adjacent/alone/absent, duplicate extensions, no extensions field), written in 1 or 2 Write calls (split at 3, middle, last byte), for a subset of the ClientHellos followed by 1 or 2 later messages on the same stream (the second ClientHello after a HelloRetryRequest: 1 byte, 40/60 bytes, as long as the first), ops = Write next chunk | HasData-gated PopCryptoFrame(maxLen) with maxLen in {2 (nothing fits), tiny, cell, 1400} | PopAllCryptoData; every popped frame must carry the written bytes at its offset, once the ClientHello is written the stream must keep yielding frames until every written byte was popped, and every frame popped along the path is kept uncopied (as the sent packet history keeps it for retransmission) and must still carry the stream's bytes at its offset after every later operation"
	spec := func(c c09ScrCase, shapes []c09CHShape) explore.BFSSpec {
		sh := shapes[c.Shape]
		ch := c09BuildCH(sh.Exts, sh.SID, 3)
		return explore.BFSSpec{
			New:              func() explore.Instance { return c09NewScrInst(c.Mode, ch, c.Split, c.Extra) },
			PanicIsViolation: true,
			MaxStates:        400000,
		}
	}
	return explore.Part{
		Name: "scrambler",
		Run: func(e explore.Env) *explore.Report {
			cases, shapes := c09ScrCases(e.Thorough())
			acc := c09NewAcc()
			var states, closed, ncases int64
			e1 := e
			e1.Workers = 1
			rep := explore.RunCases(e, len(cases), 1, true, func(i int) explore.CaseResult {
				c := cases[i]
				ncases++
				r := explore.BFS(e1, spec(c, shapes))
				if r.HarnessError != "" {
					explore.Must(false, "scrambler case %d (%s): %s", i, shapes[c.Shape].Name, r.HarnessError)
				}
				for _, o := range r.Outcomes {
					acc.out.Add(o)
				}
				states += r.States
				if r.Exhaustive && len(r.Caps) == 0 {
					closed++
				}
				cr := explore.CaseResult{Execs: r.Transitions, Trans: r.Transitions}
				if len(r.Violations) > 0 {
					v := r.Violations[0]
					cr.Fail = &explore.Fail{Key: v.Key + ":" + shapes[c.Shape].Class(), What: fmt.Sprintf("%s [ClientHello %q (%d bytes), mode %s, first Write %d bytes, later messages %v; ops %v]", v.What, shapes[c.Shape].Name, len(c09BuildCH(shapes[c.Shape].Exts, shapes[c.Shape].SID, 3)), c.Mode, c.Split, c.Extra, v.Human)}
					cr.Replay = map[string]any{"case": i, "path": v.Replay}
					cr.Human = v.Human
				}
				return cr
			})
			acc.samples = []any{"ClientHello 'sni9 ech20 adjacent f30': write(3 bytes) pop(large)=nil write(rest) pop(tiny) ... until drained"}
			rep = acc.finish(rep, rule, fmt.Sprintf("reachable state set closed for every one of the %d (ClientHello, mode, write split, later messages) cases", len(cases)))
			rep.States = states
			if closed < ncases && rep.Exhaustive {
				rep.Exhaustive = false
				rep.Caps = append(rep.Caps, "bfs-cap")
				rep.Bound = fmt.Sprintf("closure for only %d of %d cases of a shard", closed, ncases)
			}
			return rep
		},
		Replay: func(e explore.Env, raw json.RawMessage) *explore.Violation {
			var r struct {
				Case int
				Path json.RawMessage
			}
			explore.Must(json.Unmarshal(raw, &r) == nil, "bad replay")
			cases, shapes := c09ScrCases(e.Thorough())
			v := explore.ReplayBFS(spec(cases[r.Case], shapes), r.Path)
			if v != nil {
				v.Key += ":" + shapes[cases[r.Case].Shape].Class()
			}
			return v
		},
	}
}
