# ./check configuration for C09 (merged by mc/props.py)
_VR = "github.com/refraction-networking/uquic/internal/verifmc/vrand"
PROP = dict(
    pkg=".", test="TestVerifC09", files=["mc/c09/*.go"], libs=["explore", "canon", "vrand", "vrand/m"],
    rewrite={
        "u_quic_frames.go": [('"crypto/rand"', 'rand "%s"' % _VR), ('mrand "math/rand"', 'mrand "%s/m"' % _VR)],
        "u_flight_frames.go": [('mrand "math/rand"', 'mrand "%s/m"' % _VR)],
    },
    level="model_checking", shards="ncpu", gomaxprocs=1,
    deadline=dict(quick=90, thorough=1000),
    level_text="TODO",
    level_note="TODO",
    technique="TODO",
    rule="TODO",
    assumptions=[],
)
