package quic_test

// C10 knob family flight-*: the Initial flight is laid out by a QUICFlightFrameBuilder (one
// call, every datagram of the flight, any CRYPTO range in any datagram) instead of a
// per-datagram builder. The packer then takes another path (planInitialFlight,
// validateInitialFlight, packPlannedInitial): the builder - not InitialPackets and not the
// ClientHello size - decides HOW MANY Initial datagrams there are, and the per-datagram plan
// (InitialPackets[i], last entry repeats; exact packet size) as well as the bound on what a
// datagram may carry have to be applied to every one of them, also to those past the end of
// the InitialPackets list / past the number of datagrams the ClientHello would need.
//
// Alphabet (one knob each, on every base spec):
//
//	builder kind   fixed  = *QUICFlightFrames: one CRYPTO frame per datagram, stream order
//	               random = *QUICRandomFlightFrames: datagram j carries the (N-1-j)-th piece of the
//	                        stream (the TAIL in the FIRST datagram, the way Chrome does), 1..3
//	                        CRYPTO frames per range and 0..2 PING frames, shuffled per dial
//	N, Big         flight of N datagrams, the Big-th one is the big one: (3,0) (3,1) (3,2) (4,3)
//	InitialPackets ip0 none | ip1 [{PacketSize 1200}] (the entry repeats) | ip2 [{1250},{1200}]
//	               | ipN one {PacketSize 1200} entry per datagram
//	size           CRYPTO bytes in the big datagram, walked across every bound visible in the
//	               code: 1000 (fits a 1200-byte packet) | 1180 (does not fit 1200, fits 1250 and
//	               the 1280-byte maximum packet size of a fresh connection) | 1300 (fits none of
//	               them, fits the 1452-byte packet buffer) | 1440 (does not fit the buffer) |
//	               fill (exactly budgets[Big].MaxFrameBytes bytes of frames, the documented
//	               maximum the packer hands to BuildFlight; last budget repeats) | fill+1
//
// The other N-1 datagrams share the rest of the ClientHello evenly. The layout depends on the
// ClientHello length (and, for fill, on the budgets), which are only known inside BuildFlight,
// so the spec's FrameBuilder is the harness type c10AdaptiveFlight - a custom
// QUICFlightFrameBuilder - that lays the flight out, builds the repository's own
// *QUICFlightFrames / *QUICRandomFlightFrames value for it, delegates to ITS BuildFlight and
// records the layout for the oracle. In addition the repository's two builders are put into the
// spec directly (flight-direct-*: [0,100) | [100,-X) | the last X bytes, X in {100 (ClientHello
// not padded), 1000, 1180, 1300}, ip0 / ip1), addressed from both ends of the stream.
//
// The ClientHello is padded by 1300 bytes (1.6 kB .. 3.1 kB over the base specs) so that the big
// datagram can be big on every base and the others stay below 1100 bytes.
//
// Oracle: c10Check unchanged (every emitted packet: exact PacketSize of InitialPackets[min(i,
// n-1)], UDP minimum, <= maximum size, decryptable, complete ClientHello in the first flight; a
// flight that cannot be sent as specified has to be refused before anything is sent), plus
// "flight-layout" (the statement's CRYPTO split offsets / frame counts within the builder's
// bounds): datagram i of the first flight carries exactly the CRYPTO ranges the builder
// assigned to datagram i - fixed: the same CRYPTO frames in the same order and the same number
// of PING frames; random: the same bytes, the number of CRYPTO frames and of PING frames within
// the bounds - and the flight has as many datagrams as the builder returned; and, key
// "flight-total-length" (the statement's "datagram sizes (..., total frame length, ...)"), for a
// datagram whose packet size InitialPackets does not pin: PADDING on the wire => the frames total
// exactly Frames.Length, no PADDING => at least Length, no Length => no PADDING, at most
// max(MaxPADDING-1, MinPADDING) runs of PADDING; a fixed frame list shows exactly its own PADDING
// bytes. The knobs that set Frames.Length / PADDING are in c10_flightlen_test.go.

import (
	"bytes"
	"errors"
	"fmt"
	"sort"
	"strings"

	quic "github.com/refraction-networking/uquic"
	"github.com/refraction-networking/uquic/internal/verifmc/explore"
	"github.com/refraction-networking/uquic/internal/verifmc/sim"
)

const (
	c10Fill      = -1 // big datagram: exactly budgets[Big].MaxFrameBytes bytes of frames
	c10FillPlus1 = -2 // one byte more
)

// c10FlightLayout is one flight as a builder specified it.
type c10FlightLayout struct {
	L       int        // length of the CRYPTO stream it was made for
	Random  bool       // framing inside a datagram is randomised within Bounds
	Ranges  [][][2]int // [datagram][k] = [start, end) of the CRYPTO stream, in frame order
	Pings   []int      // fixed: PING frames per datagram
	Pads    []int      // fixed: PADDING bytes per datagram (nil = none)
	Bounds  []quic.QUICRandomFrames // random: framing bounds per datagram, Length = total frame length (0 = not pinned, no PADDING)
	Comment string
}

// c10AdaptiveFlight is a custom QUICFlightFrameBuilder: it decides the layout when it sees the
// CRYPTO stream and the budgets, and has the repository's own flight builders serialise it.
type c10AdaptiveFlight struct {
	Random bool
	N, Big int
	Size   int // CRYPTO bytes of the big datagram, or c10Fill / c10FillPlus1
	Built  []c10FlightLayout
}

func c10VarintLen(v int) int {
	switch {
	case v < 1<<6:
		return 1
	case v < 1<<14:
		return 2
	case v < 1<<30:
		return 4
	}
	return 8
}

// layout computes the flight for an l-byte stream. Piece k of the stream (stream order) goes
// into datagram k (fixed) or N-1-k (random: tail first).
func (f *c10AdaptiveFlight) layout(l int, budgets []quic.InitialDatagramBudget) (c10FlightLayout, error) {
	lay := c10FlightLayout{L: l, Random: f.Random, Ranges: make([][][2]int, f.N), Pings: make([]int, f.N), Bounds: make([]quic.QUICRandomFrames, f.N)}
	piece := f.Big // position of the big piece in stream order
	if f.Random {
		piece = f.N - 1 - f.Big
	}
	cut := func(big int) ([][2]int, error) {
		if big < 1 || l-big < f.N-1 {
			return nil, fmt.Errorf("c10AdaptiveFlight: a %d-byte CRYPTO stream is too short for %d datagrams with %d bytes in one of them", l, f.N, big)
		}
		other := (l - big) / (f.N - 1)
		out := make([][2]int, f.N)
		off, lastOther := 0, f.N-1
		if piece == f.N-1 {
			lastOther = f.N - 2
		}
		for k := 0; k < f.N; k++ {
			n := other
			if k == piece {
				n = big
			} else if k == lastOther {
				n = l - big - other*(f.N-2)
			}
			out[k] = [2]int{off, off + n}
			off += n
		}
		return out, nil
	}
	big, pings := f.Size, 0
	if f.Size < 0 {
		if len(budgets) == 0 {
			return lay, errors.New("c10AdaptiveFlight: no budgets")
		}
		target := budgets[min(f.Big, len(budgets)-1)].MaxFrameBytes
		if f.Size == c10FillPlus1 {
			target++
		}
		// one CRYPTO frame (type, offset, length, data) plus PING frames = target bytes
		big = target - 5
		exact := false
		for iter := 0; iter < 4 && !exact; iter++ {
			pieces, err := cut(big)
			if err != nil {
				return lay, err
			}
			frame := 1 + c10VarintLen(pieces[piece][0]) + c10VarintLen(big) + big
			if frame <= target && target-frame <= 2 {
				pings, exact = target-frame, true
			} else {
				big += target - frame
			}
		}
		if !exact {
			return lay, fmt.Errorf("c10AdaptiveFlight: no layout with exactly %d bytes of frames", target)
		}
		lay.Comment = fmt.Sprintf("fill: %d bytes of frames for a budget of %d", target, budgets[min(f.Big, len(budgets)-1)].MaxFrameBytes)
	}
	pieces, err := cut(big)
	if err != nil {
		return lay, err
	}
	for k, r := range pieces {
		d := k
		if f.Random {
			d = f.N - 1 - k
		}
		lay.Ranges[d] = [][2]int{r}
		switch {
		case d == f.Big && f.Size < 0:
			lay.Pings[d] = pings
			lay.Bounds[d] = quic.QUICRandomFrames{MinPING: uint8(pings), MaxPING: uint8(pings)} // one CRYPTO frame: the size is the point
		case f.Random:
			lay.Bounds[d] = quic.QUICRandomFrames{MinCRYPTO: 1, MaxCRYPTO: 4, MinPING: 0, MaxPING: 3}
		}
	}
	return lay, nil
}

// inner is the repository's builder for a layout.
func (lay *c10FlightLayout) inner() quic.QUICFlightFrameBuilder {
	if lay.Random {
		rf := &quic.QUICRandomFlightFrames{}
		for d, rs := range lay.Ranges {
			dg := quic.QUICRandomFlightDatagram{Frames: lay.Bounds[d]}
			for _, r := range rs {
				dg.CryptoRanges = append(dg.CryptoRanges, quic.QUICCryptoRange{Offset: r[0], Length: r[1] - r[0]})
			}
			rf.PerDatagram = append(rf.PerDatagram, dg)
		}
		return rf
	}
	ff := &quic.QUICFlightFrames{}
	for d, rs := range lay.Ranges {
		var fr quic.QUICFrames
		for _, r := range rs {
			fr = append(fr, quic.QUICFrameCrypto{Offset: r[0], Length: r[1] - r[0]})
		}
		for i := 0; i < lay.Pings[d]; i++ {
			fr = append(fr, quic.QUICFramePing{})
		}
		ff.Datagrams = append(ff.Datagrams, fr)
	}
	return ff
}

func (f *c10AdaptiveFlight) Build(cryptoData []byte) ([]byte, error) {
	// an Initial outside the planned flight: one CRYPTO frame with everything handed over
	return quic.QUICFrames{quic.QUICFrameCrypto{}}.Build(cryptoData)
}

func (f *c10AdaptiveFlight) BuildFlight(cryptoData []byte, budgets []quic.InitialDatagramBudget) ([][]byte, error) {
	lay, err := f.layout(len(cryptoData), budgets)
	if err != nil {
		return nil, err
	}
	f.Built = append(f.Built, lay)
	return lay.inner().BuildFlight(cryptoData, budgets)
}

// c10ResolveRange is the documented reading of an end-relative CRYPTO range (QUICCryptoRange):
// a negative offset counts from the end, length 0 = to the end, negative length = that far
// short of the end.
func c10ResolveRange(off, length, l int) ([2]int, bool) {
	if off < 0 {
		off += l
	}
	end := l + length
	if length > 0 {
		end = off + length
	}
	return [2]int{off, end}, off >= 0 && off <= l && end >= off && end <= l
}

// c10FlightExpect: the layouts the spec's builder specifies for an l-byte ClientHello; ok is
// false when the builder is not a flight builder the oracle knows.
func c10FlightExpect(fb quic.QUICFrameBuilder, l int) (cands []c10FlightLayout, ok bool) {
	switch b := fb.(type) {
	case *c10AdaptiveFlight:
		for _, lay := range b.Built {
			if lay.L == l {
				cands = append(cands, lay)
			}
		}
		return cands, true
	case *c10LenFlight:
		for _, lay := range b.Built {
			if lay.L == l {
				cands = append(cands, lay)
			}
		}
		return cands, true
	case *quic.QUICFlightFrames:
		lay := c10FlightLayout{L: l}
		for _, fr := range b.Datagrams {
			var rs [][2]int
			pings, pads := 0, 0
			for _, f := range fr {
				if off, length, isCrypto := f.CryptoFrameInfo(); isCrypto {
					r, valid := c10ResolveRange(off, length, l)
					if !valid {
						return nil, true // cannot be laid out: nothing may be sent
					}
					rs = append(rs, r)
				} else if raw, _ := f.Read(); len(raw) == 1 && raw[0] == 1 {
					pings++
				} else if len(raw) > 0 && len(bytes.Trim(raw, "\x00")) == 0 {
					pads += len(raw)
				}
			}
			lay.Ranges, lay.Pings, lay.Pads = append(lay.Ranges, rs), append(lay.Pings, pings), append(lay.Pads, pads)
		}
		return []c10FlightLayout{lay}, true
	case *quic.QUICRandomFlightFrames:
		lay := c10FlightLayout{L: l, Random: true}
		for _, dg := range b.PerDatagram {
			var rs [][2]int
			for _, cr := range dg.CryptoRanges {
				r, valid := c10ResolveRange(cr.Offset, cr.Length, l)
				if !valid {
					return nil, true
				}
				if r[1] > r[0] {
					rs = append(rs, r)
				}
			}
			lay.Ranges, lay.Bounds = append(lay.Ranges, rs), append(lay.Bounds, dg.Frames)
		}
		return []c10FlightLayout{lay}, true
	}
	return nil, false
}

func c10MergeRanges(rs [][2]int) [][2]int {
	rs = append([][2]int{}, rs...)
	sort.Slice(rs, func(i, j int) bool { return rs[i][0] < rs[j][0] })
	var out [][2]int
	for _, r := range rs {
		if r[1] <= r[0] {
			continue
		}
		if n := len(out); n > 0 && r[0] <= out[n-1][1] {
			out[n-1][1] = max(out[n-1][1], r[1])
		} else {
			out = append(out, r)
		}
	}
	return out
}

// c10FlightMatch compares the first flight with one layout; why == "" = as specified. pinned(i):
// InitialPackets pins an exact packet size for datagram i (the packer then tops the builder's
// payload up with PADDING, so the builder's own total frame length / PADDING is not observable).
func c10FlightMatch(lay c10FlightLayout, first []sim.ObservedInitial, pinned func(int) bool) (key, why string) {
	const layout, total = "flight-layout", "flight-total-length"
	if len(first) != len(lay.Ranges) {
		return layout, fmt.Sprintf("the first flight has %d Initial datagrams, the builder laid out %d", len(first), len(lay.Ranges))
	}
	for i, o := range first {
		var got [][2]int
		pings, padBytes, padRuns := 0, 0, 0
		for _, f := range o.Frames {
			switch f.Type {
			case 6:
				got = append(got, [2]int{int(f.Offset), int(f.Offset) + len(f.Data)})
			case 1:
				pings++
			case 0:
				padBytes += f.Len
				padRuns++
			}
		}
		payload := len(o.Pkt.Payload)
		want := lay.Ranges[i]
		if !lay.Random {
			if fmt.Sprint(got) != fmt.Sprint(want) {
				return layout, fmt.Sprintf("datagram %d carries the CRYPTO frames %v, the builder specified %v", i, got, want)
			}
			if pings != lay.Pings[i] {
				return layout, fmt.Sprintf("datagram %d carries %d PING frames, the builder specified %d", i, pings, lay.Pings[i])
			}
			// total frame length of a fixed frame list: the same CRYPTO and PING frames, so the
			// PADDING bytes decide it
			wantPad := 0
			if i < len(lay.Pads) {
				wantPad = lay.Pads[i]
			}
			if !pinned(i) && padBytes != wantPad {
				return total, fmt.Sprintf("datagram %d: %d bytes of frames with %d bytes of PADDING, the builder's frame list has %d bytes of PADDING", i, payload, padBytes, wantPad)
			}
			continue
		}
		if fmt.Sprint(c10MergeRanges(got)) != fmt.Sprint(c10MergeRanges(want)) {
			return layout, fmt.Sprintf("datagram %d carries the CRYPTO ranges %v, the builder assigned %v", i, c10MergeRanges(got), c10MergeRanges(want))
		}
		rf := lay.Bounds[i]
		lo, hi := 0, 0
		for _, r := range want {
			n := r[1] - r[0]
			lo += min(max(int(rf.MinCRYPTO), 1), n)
			hi += min(max(int(rf.MaxCRYPTO)-1, int(rf.MinCRYPTO), 1), n)
		}
		if len(got) < lo || len(got) > hi {
			return layout, fmt.Sprintf("datagram %d: %d CRYPTO frames for %d ranges, builder bounds [%d,%d) per range", i, len(got), len(want), rf.MinCRYPTO, rf.MaxCRYPTO)
		}
		if hiP := max(int(rf.MaxPING)-1, int(rf.MinPING)); pings < int(rf.MinPING) || pings > hiP {
			return layout, fmt.Sprintf("datagram %d: %d PING frames, builder bounds [%d,%d)", i, pings, rf.MinPING, rf.MaxPING)
		}
		// total frame length (Frames.Length): PADDING tops CRYPTO + PING up to exactly Length;
		// frames that reach Length by themselves are sent as they are, without PADDING; no
		// Length = no PADDING. The same reading as for a per-datagram QUICRandomFrames in
		// c10Check ("frames-total-length").
		if pinned(i) {
			continue
		}
		switch {
		case rf.Length == 0 && padBytes > 0:
			return total, fmt.Sprintf("datagram %d: %d bytes of PADDING among %d bytes of frames, the builder pins no total frame length", i, padBytes, payload)
		case rf.Length > 0 && padBytes > 0 && payload != int(rf.Length):
			return total, fmt.Sprintf("datagram %d: frames (%d CRYPTO frames, %d PING frames, %d bytes of PADDING) total %d bytes, the builder pins Frames.Length = %d", i, len(got), pings, padBytes, payload, rf.Length)
		case rf.Length > 0 && padBytes == 0 && payload < int(rf.Length):
			return total, fmt.Sprintf("datagram %d: frames total %d bytes without PADDING, the builder pins Frames.Length = %d", i, payload, rf.Length)
		}
		if hiZ := max(int(rf.MaxPADDING)-1, int(rf.MinPADDING), 1); padRuns > hiZ {
			return layout, fmt.Sprintf("datagram %d: %d separate runs of PADDING, builder bounds [%d,%d) PADDING frames", i, padRuns, rf.MinPADDING, rf.MaxPADDING)
		}
	}
	return "", ""
}

// c10FlightCheck is the flight-layout oracle (see the head of the file).
func c10FlightCheck(ips *quic.InitialPacketSpec, dial int, chLen int, first []sim.ObservedInitial) *explore.Fail {
	pinned := func(i int) bool {
		n := len(ips.InitialPackets)
		return n > 0 && ips.InitialPackets[min(i, n-1)].PacketSize > 0
	}
	cands, ok := c10FlightExpect(ips.FrameBuilder, chLen)
	if !ok {
		return nil
	}
	if len(cands) == 0 {
		return explore.Failf("flight-layout", "dial %d: a first flight with a %d-byte ClientHello is on the wire, the flight builder laid out none for that length (a layout that cannot be resolved has to be refused)", dial, chLen)
	}
	key, why := "", ""
	for _, lay := range cands {
		k, w := c10FlightMatch(lay, first, pinned)
		if w == "" {
			return nil
		}
		if why == "" {
			key, why = k, w
			if lay.Comment != "" {
				why += " (" + lay.Comment + ")"
			}
		}
	}
	return explore.Failf(key, "dial %d: %s", dial, why)
}

// c10FlightSiblings: the knobs of the flight-* lattice that precede knob k in c10Knobs and take
// the same size step (last component of the name); used to give one defect one key.
func c10FlightSiblings(k int) []int {
	name := c10Knobs[k].Name
	if !strings.HasPrefix(name, "flight-") {
		return nil
	}
	size := name[strings.LastIndex(name, "-"):]
	if strings.HasSuffix(name, "-fill+1") {
		size = "-fill+1"
	}
	var out []int
	for j := 0; j < k; j++ {
		if n := c10Knobs[j].Name; strings.HasPrefix(n, "flight-") && strings.HasSuffix(n, size) && strings.HasSuffix(n, "-fill+1") == (size == "-fill+1") {
			out = append(out, j)
		}
	}
	return out
}

func c10FlightKnobs() []c10Knob {
	var k []c10Knob
	plans := func(ip string, n int) []quic.InitialPacketPlan {
		switch ip {
		case "ip1":
			return []quic.InitialPacketPlan{{PacketSize: 1200}}
		case "ip2":
			return []quic.InitialPacketPlan{{PacketSize: 1250}, {PacketSize: 1200}}
		case "ipN":
			p := make([]quic.InitialPacketPlan, n)
			for i := range p {
				p[i].PacketSize = 1200
			}
			return p
		}
		return nil
	}
	sizeName := func(s int) string {
		switch s {
		case c10Fill:
			return "fill"
		case c10FillPlus1:
			return "fill+1"
		}
		return fmt.Sprint(s)
	}
	for _, random := range []bool{false, true} {
		kind := "fixed"
		if random {
			kind = "random"
		}
		for _, nb := range [][2]int{{3, 0}, {3, 1}, {3, 2}, {4, 3}} {
			for _, ip := range []string{"ip0", "ip1", "ip2", "ipN"} {
				for _, size := range []int{1000, 1180, 1300, 1440, c10Fill, c10FillPlus1} {
					random, nb, ip, size := random, nb, ip, size
					k = append(k, c10Knob{fmt.Sprintf("flight-%s-n%db%d-%s-%s", kind, nb[0], nb[1], ip, sizeName(size)), func(s *quic.QUICSpec) {
						c10Pad(s, 1300)
						s.InitialPacketSpec.FrameBuilder = &c10AdaptiveFlight{Random: random, N: nb[0], Big: nb[1], Size: size}
						s.InitialPacketSpec.InitialPackets = plans(ip, nb[0])
					}})
				}
			}
		}
		for _, ip := range []string{"ip0", "ip1"} {
			for _, tail := range []int{100, 1000, 1180, 1300} {
				random, ip, tail := random, ip, tail
				k = append(k, c10Knob{fmt.Sprintf("flight-direct-%s-%s-tail%d", kind, ip, tail), func(s *quic.QUICSpec) {
					if tail > 100 { // tail100: the unpadded ClientHello (0.3 .. 1.7 kB), a small middle datagram
						c10Pad(s, 1300)
					}
					if random {
						fr := quic.QUICRandomFrames{MinCRYPTO: 1, MaxCRYPTO: 3, MinPING: 0, MaxPING: 2}
						s.InitialPacketSpec.FrameBuilder = &quic.QUICRandomFlightFrames{PerDatagram: []quic.QUICRandomFlightDatagram{
							{CryptoRanges: []quic.QUICCryptoRange{{Offset: 0, Length: 100}}, Frames: fr},
							{CryptoRanges: []quic.QUICCryptoRange{{Offset: 100, Length: -tail}}, Frames: fr},
							{CryptoRanges: []quic.QUICCryptoRange{{Offset: -tail}}}}}
					} else {
						s.InitialPacketSpec.FrameBuilder = &quic.QUICFlightFrames{Datagrams: []quic.QUICFrames{
							{quic.QUICFrameCrypto{Offset: 0, Length: 100}, quic.QUICFramePing{}},
							{quic.QUICFrameCrypto{Offset: 100, Length: -tail}},
							{quic.QUICFrameCrypto{Offset: -tail}}}}
					}
					s.InitialPacketSpec.InitialPackets = plans(ip, 3)
				}})
			}
		}
	}
	return k
}
