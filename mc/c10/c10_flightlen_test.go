package quic_test

// C10 knob family flight-len-*: a flight builder that pins the TOTAL FRAME LENGTH of its
// datagrams (QUICRandomFlightDatagram.Frames.Length, topped up with PADDING frames) and asks for
// PING frames next to the CRYPTO frames. The flight-* lattice of c10_flight_test.go walks the
// size of a datagram's CRYPTO range across the packet-size bounds but never sets Frames.Length
// or a PADDING bound, and its oracle compared CRYPTO ranges and frame counts only - so nothing
// looked at the statement's "datagram sizes (..., total frame length, ...)" for a flight builder
// (added for seeded change C10-13: PING frames appended after the PADDING was sized).
//
// Alphabet (one knob each, on every base spec); the spec's builder is the harness type
// c10LenFlight, a custom QUICFlightFrameBuilder that cuts the ClientHello into N even pieces when
// it sees it, builds the repository's own *QUICRandomFlightFrames for that, delegates to ITS
// BuildFlight and records the layout:
//
//	N        n1 = one datagram with the whole (unpadded, 0.3 .. 1.7 kB) ClientHello | n3 = three
//	         datagrams, tail first, of a ClientHello padded by 1300 bytes
//	framing  x = exactly one CRYPTO frame per range and one PADDING frame | r = 1..3 CRYPTO frames
//	         and 1..3 PADDING frames, drawn per dial
//	PING     p0 none | p2 exactly two | p0to2 | p1to3 (drawn per dial)
//	plan     ip0 no InitialPackets | ip1 [{PacketSize 1200}] (the packer pads the packet: only the
//	         packet size and the CRYPTO / PING layout remain observable)
//	Length   the datagram's range as ONE CRYPTO frame (type, offset, length, data = cf bytes) plus
//	         dm20 (the CRYPTO frames alone exceed Length: no PADDING) | d0 | dp1 | dp2 | dp3 (the
//	         boundaries between "CRYPTO fits, CRYPTO + PING does not" and "one byte of PADDING")
//	         | dp40 (room for several PADDING frames)
//
// plus the repository's builder in the spec directly with an absolute Length (flight-len-direct-*:
// the whole ClientHello in one datagram, Length 400 / 1100, with and without PING frames) and a
// fixed *QUICFlightFrames list with explicit PADDING frames (flight-len-fixedpad-*).
//
// Oracle: the part of flight-layout that reads the total frame length (c10FlightMatch, key
// flight-total-length), for datagrams whose packet size InitialPackets does not pin: PADDING on
// the wire => the frames total exactly Frames.Length; no PADDING => they total at least Length;
// no Length => no PADDING; at most max(MaxPADDING-1, MinPADDING) runs of PADDING; a fixed frame
// list shows exactly its own PADDING bytes. A flight refused before anything is sent is accepted.

import (
	"fmt"

	quic "github.com/refraction-networking/uquic"
)

type c10LenFlight struct {
	N      int
	Frames quic.QUICRandomFrames // Length is filled in per datagram
	Delta  int                   // Length = one-frame size of the datagram's range + Delta
	Built  []c10FlightLayout
}

func (f *c10LenFlight) layout(l int) (c10FlightLayout, error) {
	lay := c10FlightLayout{L: l, Random: true, Ranges: make([][][2]int, f.N), Bounds: make([]quic.QUICRandomFrames, f.N)}
	if l < f.N {
		return lay, fmt.Errorf("c10LenFlight: a %d-byte CRYPTO stream is too short for %d datagrams", l, f.N)
	}
	for k := 0; k < f.N; k++ { // piece k of the stream goes into datagram N-1-k (tail first)
		s, e := l*k/f.N, l*(k+1)/f.N
		d := f.N - 1 - k
		lay.Ranges[d] = [][2]int{{s, e}}
		rf := f.Frames
		cf := 1 + c10VarintLen(s) + c10VarintLen(e-s) + (e - s)
		rf.Length = uint16(max(cf+f.Delta, 1))
		lay.Bounds[d] = rf
	}
	lay.Comment = fmt.Sprintf("Length = one CRYPTO frame for the range %+d", f.Delta)
	return lay, nil
}

func (f *c10LenFlight) Build(cryptoData []byte) ([]byte, error) {
	return quic.QUICFrames{quic.QUICFrameCrypto{}}.Build(cryptoData)
}

func (f *c10LenFlight) BuildFlight(cryptoData []byte, budgets []quic.InitialDatagramBudget) ([][]byte, error) {
	lay, err := f.layout(len(cryptoData))
	if err != nil {
		return nil, err
	}
	f.Built = append(f.Built, lay)
	return lay.inner().BuildFlight(cryptoData, budgets)
}

func c10FlightLenKnobs() []c10Knob {
	var k []c10Knob
	ip1 := func(ip string) []quic.InitialPacketPlan {
		if ip == "ip1" {
			return []quic.InitialPacketPlan{{PacketSize: 1200}}
		}
		return nil
	}
	type pingB struct {
		name     string
		min, max uint8
	}
	pingBs := []pingB{{"p0", 0, 0}, {"p2", 2, 2}, {"p0to2", 0, 3}, {"p1to3", 1, 4}}
	deltas := []struct {
		name string
		d    int
	}{{"dm20", -20}, {"d0", 0}, {"dp1", 1}, {"dp2", 2}, {"dp3", 3}, {"dp40", 40}}
	for _, n := range []int{1, 3} {
		for _, framing := range []string{"x", "r"} {
			for _, pb := range pingBs {
				for _, ip := range []string{"ip0", "ip1"} {
					for _, dl := range deltas {
						n, framing, pb, ip, dl := n, framing, pb, ip, dl
						k = append(k, c10Knob{fmt.Sprintf("flight-len-n%d-%s-%s-%s-%s", n, framing, pb.name, ip, dl.name), func(s *quic.QUICSpec) {
							if n > 1 {
								c10Pad(s, 1300)
							}
							rf := quic.QUICRandomFrames{MinCRYPTO: 1, MaxCRYPTO: 1, MinPING: pb.min, MaxPING: pb.max, MinPADDING: 1, MaxPADDING: 1}
							if framing == "r" {
								rf.MaxCRYPTO, rf.MaxPADDING = 4, 4
							}
							s.InitialPacketSpec.FrameBuilder = &c10LenFlight{N: n, Frames: rf, Delta: dl.d}
							s.InitialPacketSpec.InitialPackets = ip1(ip)
						}})
					}
				}
			}
		}
	}
	// the repository's builder directly, absolute Length
	for _, pb := range []pingB{{"p0", 0, 0}, {"p2to3", 2, 4}} {
		for _, length := range []uint16{400, 1100} {
			pb, length := pb, length
			k = append(k, c10Knob{fmt.Sprintf("flight-len-direct-%s-len%d", pb.name, length), func(s *quic.QUICSpec) {
				s.InitialPacketSpec.FrameBuilder = &quic.QUICRandomFlightFrames{PerDatagram: []quic.QUICRandomFlightDatagram{{
					CryptoRanges: []quic.QUICCryptoRange{{Offset: 0}},
					Frames:       quic.QUICRandomFrames{MinCRYPTO: 2, MaxCRYPTO: 4, MinPING: pb.min, MaxPING: pb.max, MinPADDING: 1, MaxPADDING: 3, Length: length},
				}}}
				s.InitialPacketSpec.InitialPackets = nil
			}})
		}
	}
	// a fixed frame list with PADDING frames of its own
	for _, ip := range []string{"ip0", "ip1"} {
		ip := ip
		k = append(k, c10Knob{"flight-len-fixedpad-" + ip, func(s *quic.QUICSpec) {
			// the unpadded ClientHello: tail | head | middle (0.1 .. 1.5 kB)
			s.InitialPacketSpec.FrameBuilder = &quic.QUICFlightFrames{Datagrams: []quic.QUICFrames{
				{quic.QUICFramePadding{Length: 3}, quic.QUICFrameCrypto{Offset: -100}, quic.QUICFramePing{}, quic.QUICFramePadding{Length: 4}},
				{quic.QUICFrameCrypto{Offset: 0, Length: 100}, quic.QUICFramePadding{Length: 50}},
				{quic.QUICFrameCrypto{Offset: 100, Length: -100}}}}
			s.InitialPacketSpec.InitialPackets = ip1(ip)
		}})
	}
	return k
}
