package quic_test

// C10 part token-overlap: "token ... synthesised with the given prefix and length and fresh
// per dial" for dials that OVERLAP in time on one spec value. Two connections are dialled
// 100 ms apart towards a silent peer (each through its own UTransport, both using the same
// QUICSpec value), so the first one is still retransmitting its Initials when the second one
// draws its token. Per connection every Initial packet must carry one and the same token,
// with the spec'd prefix and length; the two connections' tokens must differ; and the
// caller's prefix slice must not be written to beyond its length (a token built in the spare
// capacity of that slice is shared by every dial).

import (
	"bytes"
	"context"
	"encoding/json"
	"fmt"
	"sync"
	"testing"
	"time"

	quic "github.com/refraction-networking/uquic"
	"github.com/refraction-networking/uquic/internal/verifmc/explore"
	"github.com/refraction-networking/uquic/internal/verifmc/sim"
)

type c10OverlapCfg struct {
	Base  int    `json:"base"`
	Spare bool   `json:"spare"` // the prefix slice has spare capacity (e.g. captured[:1] of a recorded token)
	Len   int    `json:"len"`
	Seed  uint64 `json:"seed"`
}

func (c c10OverlapCfg) id() string {
	return fmt.Sprintf("%s token-overlap spare-capacity=%v len=%d", c10Bases[c.Base].Name, c.Spare, c.Len)
}

func c10OverlapRun(t *testing.T, cfg c10OverlapCfg) (fail *explore.Fail, class string) {
	var spec *quic.QUICSpec
	backing := make([]byte, 128)
	backing[0] = 0x5a
	prefix := backing[:1]
	if !cfg.Spare {
		prefix = []byte{0x5a}
	}
	sim.WithSeed(t, cfg.Seed+77, func() {
		spec = c10Config{Base: cfg.Base}.spec()
		spec.InitialPacketSpec.ClientTokenLength = cfg.Len
		spec.InitialPacketSpec.ClientTokenPrefix = prefix
	})
	var events []sim.Event
	ok := sim.Run(t, "run", cfg.Seed, func(t *testing.T) {
		w := sim.NewWorld(nil)
		var wg sync.WaitGroup
		var ds []sim.Dialer
		for i := 0; i < 2; i++ {
			d, _, _ := w.NewDialer(sim.ClientKind{Name: "spec", U: true, Spec: func() *quic.QUICSpec { return spec }})
			ds = append(ds, d)
			wg.Add(1)
			go func() {
				defer wg.Done()
				ctx, cancel := context.WithTimeout(context.Background(), 1500*time.Millisecond)
				defer cancel()
				if conn, err := d.Dial(ctx, w.ServerAddr, w.ClientTLS(), &quic.Config{}); err == nil {
					conn.CloseWithError(0, "")
				}
			}()
			time.Sleep(100 * time.Millisecond)
		}
		wg.Wait()
		for _, d := range ds {
			d.Close()
		}
		w.CloseEndpoints()
		events = w.Router.FullLog()
	})
	if !ok {
		return explore.Failf("bubble-failed", "%s: bubble did not terminate", cfg.id()), ""
	}
	// group the client datagrams by sending socket = by connection
	groups := map[string][]sim.Event{}
	var order []string
	for _, e := range events {
		if e.Dir != sim.C2S || e.Injected {
			continue
		}
		k := e.From.String()
		if _, ok := groups[k]; !ok {
			order = append(order, k)
		}
		groups[k] = append(groups[k], e)
	}
	if len(order) != 2 {
		return explore.Failf("token-overlap:setup", "%s: %d sending sockets seen, want 2", cfg.id(), len(order)), ""
	}
	var tokens [][]byte
	npk := 0
	for gi, k := range order {
		obs, err := sim.ObserveInitials(groups[k])
		if err != nil || len(obs) == 0 {
			return explore.Failf("token-overlap:flight-unreadable", "%s: connection %d: %v", cfg.id(), gi+1, err), ""
		}
		tok := obs[0].Pkt.Token
		for _, o := range obs {
			npk++
			if !bytes.Equal(o.Pkt.Token, tok) {
				return explore.Failf("token-changes-within-connection", "%s: connection %d sent Initial packets with different tokens (%x..., then %x... in packet number %d) while another dial was in progress", cfg.id(), gi+1, tok[:min(8, len(tok))], o.Pkt.Token[:min(8, len(o.Pkt.Token))], o.Pkt.PN), ""
			}
		}
		if len(tok) != cfg.Len || !bytes.HasPrefix(tok, []byte{0x5a}) {
			return explore.Failf("token-synth", "%s: connection %d: token of %d bytes (first byte %x), the spec says %d bytes with prefix 5a", cfg.id(), gi+1, len(tok), tok[:min(1, len(tok))], cfg.Len), ""
		}
		tokens = append(tokens, tok)
	}
	if bytes.Equal(tokens[0], tokens[1]) {
		return explore.Failf("token-not-fresh", "%s: both overlapping dials carry the same synthesised token", cfg.id()), ""
	}
	for i, b := range backing[1:] {
		if b != 0 {
			return explore.Failf("token-prefix-buffer-written", "%s: byte %d beyond the length of the caller's ClientTokenPrefix slice was overwritten", cfg.id(), i+1), ""
		}
	}
	return nil, fmt.Sprintf("2 overlapping dials, %d Initial packets, spare=%v", npk/4*4, cfg.Spare)
}

func c10OverlapPart(t *testing.T) explore.Part {
	mk := func(e explore.Env) []c10OverlapCfg {
		var cfgs []c10OverlapCfg
		for b := range c10Bases {
			for _, spare := range []bool{true, false} {
				for _, l := range []int{70, 16} {
					cfgs = append(cfgs, c10OverlapCfg{Base: b, Spare: spare, Len: l, Seed: uint64(e.Seed) + 5})
				}
			}
		}
		return cfgs
	}
	return explore.Part{
		Name: "token-overlap",
		Run: func(e explore.Env) *explore.Report {
			cfgs := mk(e)
			rep := explore.RunCases(e, len(cfgs), 1, false, func(i int) explore.CaseResult {
				explore.MarkCurrent(e, "token-overlap", cfgs[i])
				f, class := c10OverlapRun(t, cfgs[i])
				cr := explore.CaseResult{Outcome: class, Execs: 1, Trans: 2, Replay: cfgs[i]}
				if f != nil {
					cr.Outcome, cr.Fail, cr.Human = "violation", f, []string{cfgs[i].id()}
				}
				return cr
			})
			rep.Level = "fault_enumeration"
			rep.Rule = fmt.Sprintf("%d fingerprints x {prefix slice with spare capacity, literal prefix} x token length {70, 16}: two dials 100 ms apart on one spec value towards a silent peer, first flights and PTO retransmissions of both within 1.5 s", len(c10Bases))
			rep.Bound = rep.Rule
			rep.Samples = []any{cfgs[0].id(), cfgs[len(cfgs)-1].id()}
			return rep
		},
		Replay: func(e explore.Env, raw json.RawMessage) *explore.Violation {
			var cfg c10OverlapCfg
			if err := json.Unmarshal(raw, &cfg); err != nil {
				t.Fatal(err)
			}
			f, _ := c10OverlapRun(t, cfg)
			if f == nil {
				return nil
			}
			return &explore.Violation{Key: f.Key, What: f.What, Human: []string{cfg.id()}}
		},
	}
}
