package quic_test

// C10 part peer-responses: the same spec configurations as part flight-vs-spec, but towards a
// peer that ANSWERS. The alphabet of answers: an ordinary handshake, a Retry (the in-tree
// server with address validation forced on), a Version Negotiation packet in either direction
// (the client prefers the version the server does not speak, so UTransport re-dials), and a
// Version Negotiation followed by a Retry. A Retry re-creates the client's Initial packet
// number space and a Version Negotiation re-creates the whole connection, while the packet
// numbers continue: everything the spec assigns per Initial packet (numbering, per-packet
// packet-number encoding length) has to survive that.
//
// The observer walks every client datagram of the dial in send order. Initial keys come from
// the first Initial's destination connection ID; a packet that does not open with the current
// keys and the current largest packet number is tried the way a server WITHOUT state does
// (keys from the packet's own version and destination connection ID, nothing received yet:
// that is what the server is after a Retry or a Version Negotiation). Demands:
//   - every client datagram <= maximum packet size; every Initial in it decrypts (as above) and
//     carries only frames allowed in an Initial;
//   - Initial packet numbers increase by exactly one over a connection attempt, across a Retry
//     (never reset); a re-dial after Version Negotiation does not start below InitPacketNumber;
//   - the packet with number InitPacketNumber+i is encoded in InitPacketNumberLengths[i] bytes
//     (last entry repeats), unless that length cannot carry the number to a receiver that has
//     seen nothing (then longer is accepted), exactly as in part flight-vs-spec;
//   - the source connection ID keeps the spec'd length in every Initial;
//   - the first flight of the dial, and the first flight of a re-dial after Version
//     Negotiation (a fresh connection on the same spec), satisfy the complete c10Check
//     (CID lengths, token, frame counts, CRYPTO split, sizes), with the packet-number
//     schedule continued instead of restarted.
// Not judged (the property is silent): the token and destination connection ID after a Retry
// (they are the server's), datagram layout of a flight re-sent after a Retry, whether the
// handshake completes (C02).

import (
	"context"
	"encoding/json"
	"fmt"
	"net"
	"strings"
	"testing"
	"time"

	quic "github.com/refraction-networking/uquic"
	"github.com/refraction-networking/uquic/internal/verifmc/explore"
	"github.com/refraction-networking/uquic/internal/verifmc/sim"
	"github.com/refraction-networking/uquic/internal/verifmc/wireobs"
)

var c10Peers = []struct {
	Name    string
	Retry   bool
	ClientV []quic.Version // nil: library default (v1 preferred)
	ServerV []quic.Version // nil: library default (both)
}{
	{"handshake", false, nil, nil},
	{"retry", true, nil, nil},
	{"vn-v2-to-v1", false, []quic.Version{quic.Version2, quic.Version1}, []quic.Version{quic.Version1}},
	{"vn-v1-to-v2", false, []quic.Version{quic.Version1, quic.Version2}, []quic.Version{quic.Version2}},
	{"vn-v2-to-v1+retry", true, []quic.Version{quic.Version2, quic.Version1}, []quic.Version{quic.Version1}},
}

type c10PeerCfg struct {
	Base  int    `json:"base"`
	Knobs []int  `json:"knobs"`
	Peer  int    `json:"peer"`
	Seed  uint64 `json:"seed"`
}

func (c c10PeerCfg) spec() c10Config { return c10Config{Base: c.Base, Knobs: c.Knobs, Seed: c.Seed} }
func (c c10PeerCfg) id() string      { return c.spec().id() + " peer=" + c10Peers[c.Peer].Name }

// c10PeerPkt is one client Initial packet of the dial as the observer read it.
type c10PeerPkt struct {
	Epoch    int // 0: first attempt; +1 for every re-keying (Retry, Version Negotiation)
	Datagram int // index into the client datagrams
	Pkt      *wireobs.LongPacket
}

type c10PeerEpoch struct {
	Kind    string // "first", "vn" (version changed), "retry" (same version, new keys)
	Attempt int    // connection attempt: +1 for every "vn" epoch (UTransport re-dials: a new connection)
	T0      time.Duration
	Flight  []sim.Event
}

// c10PeerObserve reads the client datagrams of one dial. Packets that open with the keys of an
// EARLIER epoch are stragglers of an abandoned attempt (the in-tree client answers the Version
// Negotiation packets it keeps receiving with the CONNECTION_CLOSE of the connection it gave
// up): they are checked for size and well-formedness only and returned separately.
func c10PeerObserve(c2s []sim.Event) (pkts []c10PeerPkt, epochs []c10PeerEpoch, stragglers int, fail *explore.Fail) {
	type keyState struct {
		keys    wireobs.Keys
		version uint32
		largest int64
	}
	var ks []*keyState // one per epoch
	seen := map[string]bool{}
	for di, e := range c2s {
		// A datagram that repeats an earlier one byte for byte is that packet sent again, not
		// a new packet (a closed connection answers every datagram it still receives with the
		// stored CONNECTION_CLOSE packet): it uses no new packet number and is judged once.
		if seen[string(e.Data)] {
			continue
		}
		seen[string(e.Data)] = true
		if len(e.Data) > c10MaxDatagram {
			return nil, nil, 0, explore.Failf("datagram-too-large", "client datagram %d is %d bytes, more than the %d-byte maximum packet size", di, len(e.Data), c10MaxDatagram)
		}
		if len(e.Data) == 0 || e.Data[0]&0x80 == 0 {
			continue // 1-RTT
		}
		lps, _, err := wireobs.SplitDatagram(e.Data)
		if err != nil {
			return nil, nil, 0, explore.Failf("malformed-datagram", "client datagram %d (%d bytes) does not parse as long-header packets: %v", di, len(e.Data), err)
		}
		firstOfDatagram := true
		for _, p := range lps {
			if p.Type != 0 {
				continue
			}
			opened := -1
			for k := len(ks) - 1; k >= 0 && opened < 0; k-- {
				if p.Version == ks[k].version && p.Unprotect(ks[k].keys, ks[k].largest) == nil {
					opened = k
				}
			}
			if opened < 0 {
				where := "first-flight"
				if len(ks) > 0 {
					where = "after-reset"
				}
				ck, _, err := wireobs.InitialKeys(p.Version, p.DCID)
				if err != nil {
					return nil, nil, 0, explore.Failf("undecryptable:"+where, "client datagram %d: %v", di, err)
				}
				if err := p.Unprotect(ck, -1); err != nil {
					return nil, nil, 0, explore.Failf("undecryptable:"+where, "client datagram %d: Initial packet (version %#x, %d-byte token) opens neither with Initial keys already in use nor the way a server without state opens it (keys from its own destination connection ID, RFC 9000 A.3 with nothing received): %v", di, p.Version, len(p.Token), err)
				}
				kind := "first"
				if len(ks) > 0 {
					kind = "retry"
					if p.Version != ks[len(ks)-1].version {
						kind = "vn"
					}
				}
				ks = append(ks, &keyState{keys: ck, version: p.Version, largest: -1})
				attempt := 0
				if len(epochs) > 0 {
					attempt = epochs[len(epochs)-1].Attempt
				}
				if kind == "vn" {
					attempt++
				}
				epochs = append(epochs, c10PeerEpoch{Kind: kind, Attempt: attempt, T0: e.T})
				opened = len(ks) - 1
			}
			if int64(p.PN) > ks[opened].largest {
				ks[opened].largest = int64(p.PN)
			}
			if _, err := wireobs.Frames(p.Payload); err != nil {
				return nil, nil, 0, explore.Failf("initial-payload", "client datagram %d, Initial packet number %d: %v", di, p.PN, err)
			}
			if opened != len(ks)-1 {
				stragglers++
				continue
			}
			ep := &epochs[opened]
			if firstOfDatagram && e.T == ep.T0 {
				ep.Flight = append(ep.Flight, e)
			}
			firstOfDatagram = false
			pkts = append(pkts, c10PeerPkt{Epoch: opened, Datagram: di, Pkt: p})
		}
	}
	return pkts, epochs, stragglers, nil
}

// c10PeerCheck judges the client side of one dial.
func c10PeerCheck(s *quic.QUICSpec, c2s []sim.Event, dialErr error) (fail *explore.Fail, class string) {
	ips := &s.InitialPacketSpec
	if len(c2s) == 0 {
		if dialErr != nil && !strings.Contains(dialErr.Error(), "deadline") {
			return nil, "refused:" + sim.ErrClass(dialErr)
		}
		return explore.Failf("nothing-sent", "the dial sent no datagram and did not refuse the configuration (Dial error: %v)", dialErr), ""
	}
	pkts, epochs, stragglers, f := c10PeerObserve(c2s)
	if f != nil {
		return f, ""
	}
	if len(pkts) == 0 {
		return explore.Failf("no-initial", "the dial sent %d datagrams, none with an Initial packet", len(c2s)), ""
	}
	const maxPN = uint64(1)<<62 - 1
	// the complete check of every flight that opens a connection on the spec
	var tokens [][]byte
	for ei, ep := range epochs {
		if ep.Kind == "retry" {
			continue
		}
		// A re-dial continues the packet numbers of the attempt it replaces; where exactly is
		// not the property's subject (the abandoned connection may still have used a number
		// for its CONNECTION_CLOSE), so the schedule index is read off the flight itself.
		var startIdx uint64
		if ep.Kind == "vn" && ips.InitPacketNumber <= maxPN {
			for _, p := range pkts {
				if p.Epoch == ei {
					if p.Pkt.PN < ips.InitPacketNumber {
						return explore.Failf("after-version-negotiation:first-pn", "the re-dial after Version Negotiation starts at Initial packet number %d, below InitPacketNumber %d", p.Pkt.PN, ips.InitPacketNumber), ""
					}
					startIdx = p.Pkt.PN - ips.InitPacketNumber
					break
				}
			}
		}
		f, tok, _ := c10Check(s, sim.Flight{First: ep.Flight}, ei+1, tokens, startIdx)
		if f != nil {
			if ep.Kind == "vn" {
				f.Key = "after-version-negotiation:" + f.Key
				f.What = "flight of the re-dial after Version Negotiation: " + f.What
			}
			return f, ""
		}
		tokens = append(tokens, tok)
	}
	// numbering and encoding length over the whole dial
	for i, p := range pkts {
		after := ""
		if p.Epoch > 0 {
			after = "after-" + epochs[p.Epoch].Kind + ":"
		}
		if i > 0 && epochs[pkts[i-1].Epoch].Attempt == epochs[p.Epoch].Attempt && p.Pkt.PN != pkts[i-1].Pkt.PN+1 {
			return explore.Failf(after+"pn-increment", "Initial packet numbers %d then %d (client datagrams %d, %d): the increment must be 1 over the whole connection attempt, a Retry included", pkts[i-1].Pkt.PN, p.Pkt.PN, pkts[i-1].Datagram, p.Datagram), ""
		}
		if len(p.Pkt.SCID) != ips.SrcConnIDLength {
			return explore.Failf(after+"scid-length", "Initial packet number %d: source connection ID has %d bytes, spec says %d", p.Pkt.PN, len(p.Pkt.SCID), ips.SrcConnIDLength), ""
		}
		if n := len(ips.InitPacketNumberLengths); n > 0 && ips.InitPacketNumber <= maxPN && p.Pkt.PN >= ips.InitPacketNumber {
			idx := min(p.Pkt.PN-ips.InitPacketNumber, uint64(n-1))
			want := int(ips.InitPacketNumberLengths[idx])
			if c10Insufficient(p.Pkt.PN, want) && p.Pkt.PNLen > want {
				continue
			}
			if p.Pkt.PNLen != want {
				return explore.Failf(after+"pn-length", "Initial packet number %d (InitPacketNumber %d, %d-byte token, client datagram %d) is encoded in %d bytes, InitPacketNumberLengths[%d] says %d", p.Pkt.PN, ips.InitPacketNumber, len(p.Pkt.Token), p.Datagram, p.Pkt.PNLen, idx, want), ""
			}
		}
	}
	var kinds []string
	for _, ep := range epochs {
		kinds = append(kinds, ep.Kind)
	}
	return nil, fmt.Sprintf("%s initials=%d stragglers=%v pnlen0=%d dial-ok=%v", strings.Join(kinds, ">"), min(len(pkts), 12), stragglers > 0, pkts[0].Pkt.PNLen, dialErr == nil)
}

type c10PeerOutcome struct {
	fail  *explore.Fail
	class string
	human []string
}

func c10PeerRun(t *testing.T, cfg c10PeerCfg) c10PeerOutcome {
	var out c10PeerOutcome
	peer := c10Peers[cfg.Peer]
	var spec *quic.QUICSpec
	sim.WithSeed(t, cfg.Seed*16+2000, func() { spec = cfg.spec().spec() })
	var events []sim.Event
	var dialErr error
	ok := sim.Run(t, "run", cfg.Seed*16+7, func(t *testing.T) {
		w := sim.NewWorld(nil)
		ctx, cancel := context.WithTimeout(context.Background(), 30*time.Second)
		defer cancel()
		ln, err := w.ListenWith(w.ServerTLS(false), &quic.Config{Versions: peer.ServerV}, func(tr *quic.Transport) {
			if peer.Retry {
				tr.VerifySourceAddress = func(net.Addr) bool { return true }
			}
		})
		if err != nil {
			t.Fatal(err)
		}
		serverConns, srvDone := sim.EchoServer(ctx, ln, -1, func(string) {})
		d, _, _ := w.NewDialer(sim.ClientKind{Name: "spec", U: true, Spec: func() *quic.QUICSpec { return spec }})
		dctx, dcancel := context.WithTimeout(ctx, 1500*time.Millisecond)
		conn, err := d.Dial(dctx, w.ServerAddr, w.ClientTLS(), &quic.Config{Versions: peer.ClientV})
		dcancel()
		dialErr = err
		if conn != nil {
			time.Sleep(100 * time.Millisecond) // acknowledgements of the server's last handshake packets
			conn.CloseWithError(0, "")
		}
		time.Sleep(50 * time.Millisecond)
		for _, c := range serverConns() {
			c.CloseWithError(0, "")
		}
		cancel()
		d.Close()
		ln.Close()
		w.ServerTr.Close()
		w.CloseEndpoints()
		<-srvDone
		events = w.Router.FullLog()
	})
	if !ok {
		out.fail = explore.Failf(cfg.id()+":bubble-failed", "bubble did not terminate cleanly")
		return out
	}
	var c2s []sim.Event
	nRetry, nVN := 0, 0
	for _, e := range events {
		if e.Injected {
			continue
		}
		if e.Dir == sim.C2S {
			c2s = append(c2s, e)
			continue
		}
		if len(e.Data) >= 5 && e.Data[0]&0x80 != 0 {
			if e.Data[1]|e.Data[2]|e.Data[3]|e.Data[4] == 0 {
				nVN++
			} else if lps, _, err := wireobs.SplitDatagram(e.Data); err == nil && len(lps) > 0 && lps[0].Type == 3 {
				nRetry++
			}
		}
	}
	f, class := c10PeerCheck(spec, c2s, dialErr)
	if f != nil {
		f.Key = cfg.id() + ":" + f.Key
		f.What = cfg.id() + ": " + f.What
		out.fail = f
		for _, e := range events {
			out.human = append(out.human, fmt.Sprintf("t=%v %v len=%d %x...", e.T, e.Dir, len(e.Data), e.Data[:min(24, len(e.Data))]))
			if len(out.human) >= 24 {
				break
			}
		}
		return out
	}
	out.class = fmt.Sprintf("%s | peer sent retry=%d vn=%d", class, min(nRetry, 2), min(nVN, 2))
	return out
}

// c10PeerAttribute re-keys a failure to the unmodified base spec (same peer) when that fails
// the same way; else, when the same spec fails the same way towards a silent peer, to the key
// part flight-vs-spec gives it (c10Attribute); else, for a flight-* knob, to the first knob of
// that lattice with the same size step that fails the same way with this peer: one defect, one key.
func c10PeerAttribute(t *testing.T, cache, silent map[string]string, cfg c10PeerCfg, o *c10PeerOutcome) {
	if o.fail == nil || len(cfg.Knobs) == 0 {
		return
	}
	suffix := strings.TrimPrefix(o.fail.Key, cfg.id())
	same := func(bc c10PeerCfg) bool {
		ck := fmt.Sprint(bc.Base, bc.Peer, bc.Knobs)
		bs, ok := cache[ck]
		if !ok {
			if r := c10PeerRun(t, bc); r.fail != nil {
				bs = strings.TrimPrefix(r.fail.Key, bc.id())
			}
			cache[ck] = bs
		}
		return bs != "" && bs == suffix
	}
	if bc := (c10PeerCfg{Base: cfg.Base, Peer: cfg.Peer, Seed: cfg.Seed}); same(bc) {
		o.fail.Key = bc.id() + suffix
		return
	}
	sc := cfg.spec()
	sk, ok := silent[sc.id()]
	if !ok {
		if so := c10Run(t, sc); so.fail != nil && strings.TrimPrefix(so.fail.Key, sc.id()) == suffix {
			c10Attribute(t, silent, sc, &so)
			sk = so.fail.Key
		}
		silent[sc.id()] = sk
	}
	if sk != "" && strings.HasSuffix(sk, suffix) {
		o.fail.Key = sk
		return
	}
	for i := range cfg.Knobs {
		for _, k := range c10FlightSiblings(cfg.Knobs[i]) {
			ks := append([]int{}, cfg.Knobs...)
			ks[i] = k
			if bc := (c10PeerCfg{Base: cfg.Base, Knobs: ks, Peer: cfg.Peer, Seed: cfg.Seed}); same(bc) {
				o.fail.Key = bc.id() + suffix
				return
			}
		}
	}
}

func c10PeerPart(t *testing.T) explore.Part {
	cache, silent := map[string]string{}, map[string]string{}
	isNum := func(n string) bool { return strings.HasPrefix(n, "pn") } // pn<value>, pnlens[...], pnlen-unset
	mk := func(e explore.Env) ([]c10PeerCfg, string) {
		var sets [][]int
		steps := func(n string) bool { return strings.HasPrefix(n, "plan-steps-") } // see c10_planrf_test.go
		for k := range c10Knobs {
			if !steps(c10Knobs[k].Name) {
				sets = append(sets, []int{k})
			}
		}
		for k1 := 1; k1 < len(c10Knobs); k1++ {
			for k2 := k1 + 1; k2 < len(c10Knobs); k2++ {
				n1, n2 := c10Knobs[k1].Name, c10Knobs[k2].Name
				if c10Contradict(n1, n2) || !(isNum(n1) || isNum(n2)) || steps(n1) || steps(n2) {
					continue
				}
				// quick: first packet number x length list; thorough: a numbering knob x anything
				if !e.Thorough() && !(isNum(n1) && isNum(n2) && strings.HasPrefix(n1, "pnlens") != strings.HasPrefix(n2, "pnlens") && n1 != "pnlen-unset" && n2 != "pnlen-unset") {
					continue
				}
				sets = append(sets, []int{k1, k2})
			}
		}
		var cfgs []c10PeerCfg
		seed := uint64(e.Seed) + 11
		for b := range c10Bases {
			for _, ks := range sets {
				for p := range c10Peers {
					cfgs = append(cfgs, c10PeerCfg{Base: b, Knobs: ks, Peer: p, Seed: seed})
				}
			}
		}
		var pn []string
		for _, p := range c10Peers {
			pn = append(pn, p.Name)
		}
		return cfgs, fmt.Sprintf("7 built-in fingerprints + zero spec x {every one-knob deviation (%d knobs, without the %d plan-steps-* knobs); every first packet number x every PN length list; in thorough every non-contradictory pair with a numbering knob} = %d knob sets x answering peer {%s} (in-tree server; Retry = address validation forced; Version Negotiation = the client's preferred version is not served); one dial each, all client datagrams until 100 ms after the handshake or 1.5 s", len(c10Knobs), 8, len(sets), strings.Join(pn, ", "))
	}
	return explore.Part{
		Name: "peer-responses",
		Run: func(e explore.Env) *explore.Report {
			cfgs, rule := mk(e)
			rep := explore.RunCases(e, len(cfgs), 1, false, func(i int) explore.CaseResult {
				explore.MarkCurrent(e, "peer-responses", cfgs[i])
				o := c10PeerRun(t, cfgs[i])
				c10PeerAttribute(t, cache, silent, cfgs[i], &o)
				cr := explore.CaseResult{Outcome: o.class, Execs: 1, Trans: 1, Replay: cfgs[i]}
				if o.fail != nil {
					cr.Outcome, cr.Fail = "violation", o.fail
					cr.Human = append([]string{cfgs[i].id()}, o.human...)
				}
				return cr
			})
			rep.Level = "fault_enumeration"
			rep.Rule, rep.Bound = rule, rule
			rep.Samples = []any{cfgs[0].id(), cfgs[len(cfgs)/2].id(), cfgs[len(cfgs)-1].id()}
			return rep
		},
		Replay: func(e explore.Env, raw json.RawMessage) *explore.Violation {
			var cfg c10PeerCfg
			if err := json.Unmarshal(raw, &cfg); err != nil {
				t.Fatal(err)
			}
			o := c10PeerRun(t, cfg)
			if o.fail == nil {
				return nil
			}
			c10PeerAttribute(t, cache, silent, cfg, &o)
			return &explore.Violation{Key: o.fail.Key, What: o.fail.What, Human: append([]string{cfg.id()}, o.human...)}
		},
	}
}
