package quic_test

// C10 knob family plan-rf-*: a per-datagram plan (InitialPackets: CRYPTO split offset, exact
// packet size) TOGETHER WITH a randomising frame builder that has its own total frame Length.
// The two features meet in uPacketPacker.PackCoalescedPacket (how many CRYPTO bytes are popped
// for a datagram) and in appendInitialPacketPayload (exact-size PADDING after the builder's
// own PADDING). The single-feature knobs (plan-*, fb-random-*) never exercise that meeting
// point with a Length in force, so the lattice below walks the builder's Length across the
// size of the planned CRYPTO frame of datagram 0 (CryptoLength = cl):
//
//	Length = cl - 99   the CRYPTO bytes alone exceed Length (the builder adds no PADDING)
//	Length = cl + 12   one CRYPTO frame (cl+4 bytes) fits with a few bytes of PADDING
//	Length = cl + 20   the boundary of the packer's 16-byte PADDING reserve
//	Length = cl + 50   ample room
//
// x builder kind {*QUICRandomFrames (one Length for every datagram; cl in {850, 999}),
// *QUICMultiDatagramFrames (that builder for datagram 0, Length 1100 afterwards; cl in {300,
// 999})} x PacketSize {0, 1250} x CRYPTO frames per datagram {exactly 1, 2..3}. The plan is
// [{cl, size}, {1000, size}]: every later datagram carries 1000 CRYPTO bytes (or what is left).
//
// Every combination is satisfiable as far as the statement's pinned observables go: the
// plan's split offsets and exact packet size can always be honoured (1250 leaves room for
// 1000 CRYPTO bytes in three frames behind the longest header of the alphabet: 20+20-byte
// connection IDs, 70-byte token, 4-byte packet number), and the oracle demands the builder's
// Length only when PADDING shows that it had room (see c10Check "frames-total-length").
// No Length is so small that the flight (ClientHello up to ~5.2 kB with the ch-* knobs) needs
// more than 7 datagrams: the capture takes the datagrams of the first instant as the first
// flight, and the pacer lets at most 10 full-size packets leave at once.
//
// The ClientHello is padded by 900 bytes so that it is longer than every cl here.

// C10 knob family plan-steps-*: a plan whose entries DIFFER from datagram to datagram
// ([{500}, {300}, {1000}] CRYPTO bytes, optionally with exact packet sizes 1200 / 1250 / 1300)
// under every kind of frame builder: none (nil), the empty QUICFrames (both documented as
// "keep the packer's layout"), *QUICRandomFrames and *QUICMultiDatagramFrames without a Length.
// "Entry [i] controls the i-th Initial datagram" has to hold whichever builder frames the
// datagram; the other plan knobs repeat one CryptoLength / PacketSize, so they cannot tell
// entry [i] from entry [0]. The ClientHello is padded by 2500 bytes (4 to 6 datagrams; no more
// than 9 even if every datagram carried only the smallest step, so the whole flight leaves in
// the first instant, which is what the capture calls the first flight), which is why these knobs are not combined with the ch-* knobs in the quick tier; they are left out
// of part peer-responses, which judges the first flight exactly as flight-vs-spec does.

import (
	"fmt"

	quic "github.com/refraction-networking/uquic"
)

func c10PlanBuilderKnobs() []c10Knob {
	var k []c10Knob
	for _, multi := range []bool{false, true} {
		cls := []int{850, 999}
		kind := "random"
		if multi {
			cls, kind = []int{300, 999}, "multi"
		}
		for _, cl := range cls {
			for _, ps := range []int{0, 1250} {
				for _, dl := range []int{-99, 12, 20, 50} {
					for _, nc := range []int{1, 2} {
						cl, ps, dl, nc, multi := cl, ps, dl, nc, multi
						name := fmt.Sprintf("plan-rf-%s-crypto%d-size%d-len%+d-c%d", kind, cl, ps, dl, nc)
						k = append(k, c10Knob{name, func(s *quic.QUICSpec) {
							c10Pad(s, 900)
							rf := quic.QUICRandomFrames{MinPING: 0, MaxPING: 2, MinCRYPTO: uint8(nc), MaxCRYPTO: uint8(2 * nc), MinPADDING: 1, MaxPADDING: 3, Length: uint16(cl + dl)}
							if multi {
								s.InitialPacketSpec.FrameBuilder = &quic.QUICMultiDatagramFrames{PerDatagram: []quic.QUICRandomFrames{
									rf, {MinCRYPTO: 1, MaxCRYPTO: 3, MinPING: 0, MaxPING: 2, MinPADDING: 1, MaxPADDING: 2, Length: 1100}}}
							} else {
								s.InitialPacketSpec.FrameBuilder = &rf
							}
							s.InitialPacketSpec.InitialPackets = []quic.InitialPacketPlan{{CryptoLength: cl, PacketSize: ps}, {CryptoLength: 1000, PacketSize: ps}}
						}})
					}
				}
			}
		}
	}
	for _, kind := range []string{"nil", "empty", "random", "multi"} {
		for _, sized := range []bool{false, true} {
			kind, sized := kind, sized
			name := "plan-steps-" + kind
			if sized {
				name += "-sized"
			}
			k = append(k, c10Knob{name, func(s *quic.QUICSpec) {
				c10Pad(s, 2500)
				rf := quic.QUICRandomFrames{MinPING: 0, MaxPING: 2, MinCRYPTO: 1, MaxCRYPTO: 3}
				switch kind {
				case "nil":
					s.InitialPacketSpec.FrameBuilder = nil
				case "empty":
					s.InitialPacketSpec.FrameBuilder = quic.QUICFrames{}
				case "random":
					s.InitialPacketSpec.FrameBuilder = &rf
				case "multi":
					s.InitialPacketSpec.FrameBuilder = &quic.QUICMultiDatagramFrames{PerDatagram: []quic.QUICRandomFrames{rf, {MinPING: 1, MaxPING: 2, MinCRYPTO: 2, MaxCRYPTO: 3}}}
				}
				plan := []quic.InitialPacketPlan{{CryptoLength: 500}, {CryptoLength: 300}, {CryptoLength: 1000}}
				if sized {
					plan[0].PacketSize, plan[1].PacketSize, plan[2].PacketSize = 1200, 1250, 1300
				}
				s.InitialPacketSpec.InitialPackets = plan
			}})
		}
	}
	return k
}
