package quic_test

// C10: the Initial flight's headers, numbering, token and sizes are as the spec says.
// E2 capture: UTransport.Dial towards a silent peer inside a synctest bubble; an
// independent observer (mc/lib/wireobs: own HKDF / AES-GCM / header protection / varint /
// frame reader) removes Initial protection and compares every observable with the
// InitialPacketSpec. Configurations = built-in fingerprints and the zero spec with
// one-knob (quick) / two-knob (thorough) deviations; three dials per configuration.
// Knob families: this file (headers, numbering, tokens, per-datagram builders and plans),
// c10_planrf_test.go (plan x per-datagram builder), c10_flight_test.go (flight builders),
// c10_flightlen_test.go (flight builders that pin a total frame length / PADDING).

import (
	"bytes"
	"encoding/json"
	"fmt"
	"strings"
	"testing"
	"time"

	quic "github.com/refraction-networking/uquic"
	"github.com/refraction-networking/uquic/internal/verifmc/explore"
	"github.com/refraction-networking/uquic/internal/verifmc/sim"
	"github.com/refraction-networking/uquic/internal/verifmc/wireobs"
	tls "github.com/refraction-networking/utls"
)

var c10Bases = []struct {
	Name string
	ID   quic.QUICID
	Zero bool // zero InitialPacketSpec on top of the fingerprint's ClientHelloSpec
}{
	{"chrome115", quic.QUICChrome_115_IPv4, false},
	{"chrome115v6", quic.QUICChrome_115_IPv6, false},
	{"chrome146", quic.QUICChrome_146_IPv4, false},
	{"chrome146v6", quic.QUICChrome_146_IPv6, false},
	{"firefox116a", quic.QUICFirefox_116A, false},
	{"firefox116b", quic.QUICFirefox_116B, false},
	{"firefox116c", quic.QUICFirefox_116C, false},
	{"zerospec", quic.QUICChrome_115_IPv4, true},
}

type c10FixedTokenStore struct{ tok []byte }

func (s *c10FixedTokenStore) Pop(string) *quic.ClientToken { return quic.NewClientToken(s.tok) }
func (s *c10FixedTokenStore) Put(string, *quic.ClientToken) {}

var c10ExplicitToken = []byte("explicit-token-0123456789")

type c10Knob struct {
	Name  string
	Apply func(s *quic.QUICSpec)
}

func c10Pad(s *quic.QUICSpec, n int) {
	s.ClientHelloSpec.Extensions = append(s.ClientHelloSpec.Extensions, &tls.GenericExtension{Id: 0xff0d, Data: make([]byte, n)})
}

// c10Contradict: the two knobs cannot both be honoured. A plan that pins an exact packet size
// together with the number of CRYPTO bytes in it leaves no room for a 300-byte token (999 +
// 300 + header > 1200); two knobs of the same
// family (frame builders, per-datagram plans, ClientHello paddings) overwrite each other.
func c10Contradict(a, b string) bool {
	fam := func(n string) string {
		for _, f := range []string{"fb-", "plan-", "ch-", "flight-"} {
			if strings.HasPrefix(n, f) {
				return f
			}
		}
		return ""
	}
	if fam(a) != "" && fam(a) == fam(b) {
		return true // the second of two builders / plans / ClientHello paddings overwrites or duplicates the first
	}
	// a plan-rf- / plan-steps- knob carries its own frame builder (c10_planrf_test.go)
	own := func(n string) bool { return strings.HasPrefix(n, "plan-rf-") || strings.HasPrefix(n, "plan-steps-") }
	if own(a) && strings.HasPrefix(b, "fb-") || own(b) && strings.HasPrefix(a, "fb-") {
		return true
	}
	// a flight-* knob sets the frame builder AND the per-datagram plan (c10_flight_test.go)
	layout := func(n string) bool { return strings.HasPrefix(n, "fb-") || strings.HasPrefix(n, "plan-") }
	if fam(a) == "flight-" && layout(b) || fam(b) == "flight-" && layout(a) {
		return true
	}
	big := func(n string) bool { return n == "toklen300" }
	return big(a) && strings.HasPrefix(b, "plan-") || big(b) && strings.HasPrefix(a, "plan-")
}

var c10Knobs = func() []c10Knob {
	k := []c10Knob{{"base", func(s *quic.QUICSpec) {}}}
	for _, n := range []int{0, 1, 7, 8, 20} {
		n := n
		k = append(k, c10Knob{fmt.Sprintf("scid%d", n), func(s *quic.QUICSpec) { s.InitialPacketSpec.SrcConnIDLength = n }})
		k = append(k, c10Knob{fmt.Sprintf("dcid%d", n), func(s *quic.QUICSpec) { s.InitialPacketSpec.DestConnIDLength = n }})
	}
	for _, pn := range []uint64{0, 1, 255, 256, 1 << 14, 1<<62 - 1, 1 << 62, 1<<64 - 1} {
		pn := pn
		k = append(k, c10Knob{fmt.Sprintf("pn%d", pn), func(s *quic.QUICSpec) { s.InitialPacketSpec.InitPacketNumber = pn }})
	}
	for _, l := range [][]quic.PacketNumberLen{{1}, {2}, {4}, {1, 2}, {2, 4}, {4, 1}, {3, 3}} {
		l := l
		k = append(k, c10Knob{fmt.Sprintf("pnlens%v", l), func(s *quic.QUICSpec) { s.InitialPacketSpec.InitPacketNumberLengths = l }})
	}
	k = append(k, c10Knob{"pnlen-unset", func(s *quic.QUICSpec) {
		s.InitialPacketSpec.InitPacketNumberLengths = nil
		s.InitialPacketSpec.InitPacketNumberLength = 0
	}})
	for _, n := range []int{1, 70, 300} {
		n := n
		k = append(k, c10Knob{fmt.Sprintf("toklen%d", n), func(s *quic.QUICSpec) { s.InitialPacketSpec.ClientTokenLength = n }})
	}
	k = append(k,
		c10Knob{"tok-prefix0-len70", func(s *quic.QUICSpec) {
			s.InitialPacketSpec.ClientTokenLength = 70
			s.InitialPacketSpec.ClientTokenPrefix = []byte{0}
		}},
		c10Knob{"tok-prefix-only", func(s *quic.QUICSpec) { s.InitialPacketSpec.ClientTokenPrefix = []byte{9, 8, 7, 6, 5} }},
		c10Knob{"tok-explicit", func(s *quic.QUICSpec) { s.InitialPacketSpec.TokenStore = &c10FixedTokenStore{c10ExplicitToken} }},
		c10Knob{"fb-nil", func(s *quic.QUICSpec) { s.InitialPacketSpec.FrameBuilder = nil }},
		c10Knob{"fb-empty", func(s *quic.QUICSpec) { s.InitialPacketSpec.FrameBuilder = quic.QUICFrames{} }},
		c10Knob{"fb-tiled", func(s *quic.QUICSpec) {
			s.InitialPacketSpec.FrameBuilder = quic.QUICFrames{
				quic.QUICFramePing{}, quic.QUICFrameCrypto{Offset: 100, Length: 0}, quic.QUICFramePadding{Length: 3},
				quic.QUICFrameCrypto{Offset: 0, Length: 40}, quic.QUICFramePing{}, quic.QUICFrameCrypto{Offset: 40, Length: 60}}
		}},
		c10Knob{"fb-random-exact", func(s *quic.QUICSpec) {
			s.InitialPacketSpec.FrameBuilder = &quic.QUICRandomFrames{MinPING: 2, MaxPING: 2, MinCRYPTO: 5, MaxCRYPTO: 5, MinPADDING: 1, MaxPADDING: 1, Length: 1180}
		}},
		c10Knob{"fb-random-range", func(s *quic.QUICSpec) {
			s.InitialPacketSpec.FrameBuilder = &quic.QUICRandomFrames{MinPING: 1, MaxPING: 4, MinCRYPTO: 2, MaxCRYPTO: 6, MinPADDING: 2, MaxPADDING: 5, Length: 1100}
		}},
		c10Knob{"fb-random-nolen", func(s *quic.QUICSpec) {
			s.InitialPacketSpec.FrameBuilder = &quic.QUICRandomFrames{MinPING: 0, MaxPING: 3, MinCRYPTO: 1, MaxCRYPTO: 3}
		}},
		c10Knob{"fb-multidatagram", func(s *quic.QUICSpec) {
			c10Pad(s, 1300)
			s.InitialPacketSpec.FrameBuilder = &quic.QUICMultiDatagramFrames{PerDatagram: []quic.QUICRandomFrames{
				{MinCRYPTO: 2, MaxCRYPTO: 4, MinPING: 1, MaxPING: 3, MinPADDING: 1, MaxPADDING: 3, Length: 1150},
				{MinCRYPTO: 3, MaxCRYPTO: 3, MinPING: 0, MaxPING: 0, MinPADDING: 1, MaxPADDING: 2, Length: 900}}}
		}},
		c10Knob{"plan-999-1200", func(s *quic.QUICSpec) {
			c10Pad(s, 900)
			s.InitialPacketSpec.FrameBuilder = nil // a builder with its own total Length would contradict the exact packet size
			// every datagram after the first is pinned too: "all remaining CRYPTO" (CryptoLength 0) in an
			// exact 1200-byte packet would contradict itself once the ClientHello needs a third datagram
			s.InitialPacketSpec.InitialPackets = []quic.InitialPacketPlan{{CryptoLength: 999, PacketSize: 1200}, {CryptoLength: 999, PacketSize: 1200}}
		}},
		c10Knob{"plan-1250", func(s *quic.QUICSpec) {
			s.InitialPacketSpec.FrameBuilder = nil
			s.InitialPacketSpec.InitialPackets = []quic.InitialPacketPlan{{CryptoLength: 1100, PacketSize: 1250}}
		}},
		c10Knob{"plan-1250-random", func(s *quic.QUICSpec) {
			s.InitialPacketSpec.FrameBuilder = &quic.QUICRandomFrames{MinPING: 1, MaxPING: 3, MinCRYPTO: 2, MaxCRYPTO: 4}
			s.InitialPacketSpec.InitialPackets = []quic.InitialPacketPlan{{CryptoLength: 1000, PacketSize: 1250}}
		}},
		c10Knob{"plan-crypto300", func(s *quic.QUICSpec) {
			s.InitialPacketSpec.InitialPackets = []quic.InitialPacketPlan{{CryptoLength: 300}, {CryptoLength: 0}}
		}},
		c10Knob{"udpmin0", func(s *quic.QUICSpec) { s.UDPDatagramMinSize = 0 }},
		c10Knob{"udpmin1200", func(s *quic.QUICSpec) { s.UDPDatagramMinSize = 1200 }},
		c10Knob{"udpmin1357", func(s *quic.QUICSpec) { s.UDPDatagramMinSize = 1357 }},
		c10Knob{"udpmin1452", func(s *quic.QUICSpec) { s.UDPDatagramMinSize = 1452 }},
		c10Knob{"ch-2datagrams", func(s *quic.QUICSpec) { c10Pad(s, 1300) }},
		c10Knob{"ch-3datagrams", func(s *quic.QUICSpec) { c10Pad(s, 2500) }},
	)
	// appended last so that the indices of the knobs above (used in replay files) stay put
	k = append(k, c10PlanBuilderKnobs()...)
	k = append(k, c10FlightKnobs()...)
	k = append(k, c10FlightLenKnobs()...)
	return k
}()

type c10Config struct {
	Base  int    `json:"base"`
	Knobs []int  `json:"knobs"`
	Seed  uint64 `json:"seed"`
}

func (c c10Config) id() string {
	var n []string
	for _, k := range c.Knobs {
		n = append(n, c10Knobs[k].Name)
	}
	if len(n) == 0 {
		n = []string{"base"}
	}
	return fmt.Sprintf("%s[%s]", c10Bases[c.Base].Name, strings.Join(n, "+"))
}

func (c c10Config) spec() *quic.QUICSpec {
	b := c10Bases[c.Base]
	s, err := quic.QUICID2Spec(b.ID)
	if err != nil {
		panic(err)
	}
	if b.Zero {
		s.InitialPacketSpec = quic.InitialPacketSpec{}
		s.UDPDatagramMinSize = 0
	}
	for _, k := range c.Knobs {
		c10Knobs[k].Apply(&s)
	}
	return &s
}

// c10Insufficient: an n-byte encoding cannot carry pn to a peer that has acknowledged
// nothing (RFC 9000 A.3 with expected packet number 0 recovers pn mod 2^(8n)).
func c10Insufficient(pn uint64, n int) bool { return n >= 1 && n < 8 && pn >= uint64(1)<<(8*uint(n)) }

const c10MaxDatagram = 1452 // protocol.MaxPacketBufferSize: the bound the packer enforces

// c10Check compares one captured flight with the spec. Returned keys are relative to the
// configuration id. startIdx is the number of Initial packet numbers the dial has used before
// this flight: 0 for the first flight of a dial; for the flight a client re-dials with after a
// Version Negotiation packet, the packets of the abandoned attempt (packet numbers are not
// reset, and InitPacketNumberLengths entry [i] belongs to packet number InitPacketNumber+i).
func c10Check(s *quic.QUICSpec, fl sim.Flight, dial int, prevTokens [][]byte, startIdx uint64) (fail *explore.Fail, token []byte, class string) {
	ips := &s.InitialPacketSpec
	all := append(append([]sim.Event{}, fl.First...), fl.Retrans...)
	if len(fl.First) == 0 {
		// nothing was emitted: acceptable only as an up-front refusal
		if fl.DialErr != nil && !strings.Contains(fl.DialErr.Error(), "deadline") {
			return nil, nil, "refused:" + sim.ErrClass(fl.DialErr)
		}
		return explore.Failf("nothing-sent", "dial %d sent no datagram and did not refuse the configuration (Dial error: %v)", dial, fl.DialErr), nil, ""
	}
	for i, e := range all {
		if len(e.Data) > c10MaxDatagram {
			return explore.Failf("datagram-too-large", "dial %d datagram %d is %d bytes, more than the %d-byte maximum packet size", dial, i, len(e.Data), c10MaxDatagram), nil, ""
		}
	}
	obs, err := sim.ObserveInitials(all)
	if err != nil {
		oe := err.(*sim.ObserveError)
		where := "first-flight"
		if oe.Datagram >= len(fl.First) {
			where = "retransmission"
		}
		return explore.Failf("undecryptable:"+where, "dial %d datagram %d (%s): %s", dial, oe.Datagram, where, oe.Msg), nil, ""
	}
	nFirst := 0
	for _, o := range obs {
		if o.Datagram < len(fl.First) {
			nFirst++
		}
	}
	if nFirst == 0 {
		return explore.Failf("no-initial", "dial %d: first flight has no Initial packet", dial), nil, ""
	}
	first := obs[:nFirst]
	// ---- connection ids
	dl, sl := len(first[0].Pkt.DCID), len(first[0].Pkt.SCID)
	if ips.DestConnIDLength > 0 && dl != ips.DestConnIDLength {
		return explore.Failf("dcid-length", "dial %d: destination connection ID has %d bytes, spec says %d", dial, dl, ips.DestConnIDLength), nil, ""
	}
	if ips.DestConnIDLength == 0 && (dl < 8 || dl > 20) {
		return explore.Failf("dcid-length", "dial %d: library-chosen destination connection ID has %d bytes (RFC 9000 requires >= 8)", dial, dl), nil, ""
	}
	if sl != ips.SrcConnIDLength {
		return explore.Failf("scid-length", "dial %d: source connection ID has %d bytes, spec says %d", dial, sl, ips.SrcConnIDLength), nil, ""
	}
	for _, o := range obs {
		if !bytes.Equal(o.Pkt.DCID, first[0].Pkt.DCID) || !bytes.Equal(o.Pkt.SCID, first[0].Pkt.SCID) {
			return explore.Failf("cid-changes-within-flight", "dial %d: connection IDs differ between Initial packets of one flight", dial), nil, ""
		}
	}
	// ---- packet numbers
	const maxPN = uint64(1)<<62 - 1
	if ips.InitPacketNumber <= maxPN && first[0].Pkt.PN != ips.InitPacketNumber+startIdx {
		return explore.Failf("first-pn", "dial %d: first Initial packet number is %d, spec says %d (+%d used before this flight)", dial, first[0].Pkt.PN, ips.InitPacketNumber, startIdx), nil, ""
	}
	for i := 1; i < len(obs); i++ {
		if obs[i].Pkt.PN != obs[i-1].Pkt.PN+1 {
			return explore.Failf("pn-increment", "dial %d: Initial packet numbers %d then %d (increment must be 1)", dial, obs[i-1].Pkt.PN, obs[i].Pkt.PN), nil, ""
		}
	}
	if n := len(ips.InitPacketNumberLengths); n > 0 && ips.InitPacketNumber <= maxPN {
		for i, o := range obs {
			want := int(ips.InitPacketNumberLengths[min(uint64(i)+startIdx, uint64(n-1))])
			if c10Insufficient(o.Pkt.PN, want) && o.Pkt.PNLen > want {
				continue // the spec'd length cannot carry this packet number: a longer one is the only decodable choice
			}
			if o.Pkt.PNLen != want {
				return explore.Failf("pn-length", "dial %d: Initial packet #%d encodes its packet number in %d bytes, spec list says %d", dial, i, o.Pkt.PNLen, want), nil, ""
			}
		}
	} else if ips.InitPacketNumberLength != 0 && ips.InitPacketNumber <= maxPN && startIdx == 0 {
		if first[0].Pkt.PNLen != int(ips.InitPacketNumberLength) && !(c10Insufficient(first[0].Pkt.PN, int(ips.InitPacketNumberLength)) && first[0].Pkt.PNLen > int(ips.InitPacketNumberLength)) {
			return explore.Failf("pn-length", "dial %d: first Initial packet encodes its packet number in %d bytes, spec says %d", dial, first[0].Pkt.PNLen, ips.InitPacketNumberLength), nil, ""
		}
	}
	// ---- token
	token = first[0].Pkt.Token
	for _, o := range obs {
		if !bytes.Equal(o.Pkt.Token, token) {
			return explore.Failf("token-changes-within-flight", "dial %d: token differs between Initial packets of one dial", dial), nil, ""
		}
	}
	switch {
	case ips.TokenStore != nil:
		if !bytes.Equal(token, c10ExplicitToken) {
			return explore.Failf("token-explicit", "dial %d: token %x, the spec's TokenStore supplies %x", dial, token, c10ExplicitToken), nil, ""
		}
	case ips.ClientTokenLength > 0 || len(ips.ClientTokenPrefix) > 0:
		want := max(ips.ClientTokenLength, len(ips.ClientTokenPrefix))
		if len(token) != want || !bytes.HasPrefix(token, ips.ClientTokenPrefix) {
			return explore.Failf("token-synth", "dial %d: token has %d bytes (prefix %x), spec says %d bytes with prefix %x", dial, len(token), token[:min(len(token), len(ips.ClientTokenPrefix))], want, ips.ClientTokenPrefix), nil, ""
		}
		if want-len(ips.ClientTokenPrefix) >= 4 {
			for _, p := range prevTokens {
				if bytes.Equal(p, token) {
					return explore.Failf("token-not-fresh", "dial %d re-uses the synthesised token of an earlier dial", dial), nil, ""
				}
			}
		}
	default:
		if len(token) != 0 {
			return explore.Failf("token-unexpected", "dial %d: %d-byte token although the spec asks for none", dial, len(token)), nil, ""
		}
	}
	// ---- frames: first flight carries the complete ClientHello
	var allFrames []wireobs.Frame
	for _, o := range first {
		for _, f := range o.Frames {
			if f.Type != 0 && f.Type != 1 && f.Type != 6 {
				return explore.Failf("frame-type", "dial %d: frame type %#x in the first flight", dial, f.Type), nil, ""
			}
		}
		allFrames = append(allFrames, o.Frames...)
	}
	chBytes, err := wireobs.Reassemble(allFrames)
	if err != nil {
		return explore.Failf("crypto-reassembly", "dial %d: %v", dial, err), nil, ""
	}
	if _, err := wireobs.ParseClientHello(chBytes); err != nil {
		return explore.Failf("clienthello-incomplete", "dial %d: the CRYPTO stream of the first flight is not exactly one ClientHello: %v", dial, err), nil, ""
	}
	// ---- per datagram builder bounds and sizes
	count := func(fr []wireobs.Frame, t uint64) (n, bytes int) {
		for _, f := range fr {
			if f.Type == t {
				n++
				bytes += f.Len
			}
		}
		return
	}
	rfFor := func(i int) *quic.QUICRandomFrames {
		switch fb := ips.FrameBuilder.(type) {
		case *quic.QUICRandomFrames:
			return fb
		case *quic.QUICMultiDatagramFrames:
			if len(fb.PerDatagram) == 0 {
				return nil
			}
			return &fb.PerDatagram[min(i, len(fb.PerDatagram)-1)]
		}
		return nil
	}
	cryptoSoFar := 0
	for i, o := range first {
		fr := o.Frames
		nPing, _ := count(fr, 1)
		nCrypto, _ := count(fr, 6)
		_, padBytes := count(fr, 0)
		cryptoData := 0
		for _, f := range fr {
			if f.Type == 6 {
				cryptoData += len(f.Data)
			}
		}
		plan := quic.InitialPacketPlan{}
		if n := len(ips.InitialPackets); n > 0 {
			plan = ips.InitialPackets[min(i, n-1)]
		}
		if rf := rfFor(i); rf != nil {
			hiP := max(int(rf.MaxPING)-1, int(rf.MinPING))
			if nPing < int(rf.MinPING) || nPing > hiP {
				return explore.Failf("ping-count", "dial %d datagram %d: %d PING frames, builder bounds [%d,%d)", dial, i, nPing, rf.MinPING, rf.MaxPING), nil, ""
			}
			hiC := max(int(rf.MaxCRYPTO)-1, int(rf.MinCRYPTO))
			if nCrypto > hiC || nCrypto < min(int(rf.MinCRYPTO), cryptoData) {
				return explore.Failf("crypto-count", "dial %d datagram %d: %d CRYPTO frames for %d bytes, builder bounds [%d,%d)", dial, i, nCrypto, cryptoData, rf.MinCRYPTO, rf.MaxCRYPTO), nil, ""
			}
			if rf.Length > 0 && plan.PacketSize == 0 {
				total := len(o.Pkt.Payload)
				if padBytes > 0 && total != int(rf.Length) {
					return explore.Failf("frames-total-length", "dial %d datagram %d: frames (with %d bytes of PADDING) total %d bytes, builder Length is %d", dial, i, padBytes, total, rf.Length), nil, ""
				}
				if padBytes == 0 && total < int(rf.Length) {
					return explore.Failf("frames-total-length", "dial %d datagram %d: frames total %d bytes without PADDING, builder Length is %d", dial, i, total, rf.Length), nil, ""
				}
			}
		}
		if qf, ok := ips.FrameBuilder.(quic.QUICFrames); ok && len(qf) > 0 && len(first) == 1 {
			// deterministic layout: compare kinds and CRYPTO (offset, length) in order
			var want []string
			low := 1 << 30
			for _, f := range qf {
				if off, _, c := f.CryptoFrameInfo(); c && off < low {
					low = off
				}
			}
			for _, f := range qf {
				if off, l, c := f.CryptoFrameInfo(); c {
					if l == 0 {
						l = len(chBytes) - (off - low)
					}
					want = append(want, fmt.Sprintf("C%d+%d", off, l))
				} else if b, _ := f.Read(); len(b) == 1 && b[0] == 1 {
					want = append(want, "P")
				} else {
					if n := len(want); n > 0 && strings.HasPrefix(want[n-1], "Z") {
						var prev int
						fmt.Sscanf(want[n-1], "Z%d", &prev)
						want[n-1] = fmt.Sprintf("Z%d", prev+len(b))
					} else {
						want = append(want, fmt.Sprintf("Z%d", len(b)))
					}
				}
			}
			var got []string
			for _, f := range fr {
				switch f.Type {
				case 6:
					got = append(got, fmt.Sprintf("C%d+%d", f.Offset, len(f.Data)))
				case 1:
					got = append(got, "P")
				case 0:
					got = append(got, fmt.Sprintf("Z%d", f.Len))
				}
			}
			// trailing PADDING beyond the layout (exact-size padding) is not part of the layout
			okLayout := false
			isZ := func(x string) bool { return strings.HasPrefix(x, "Z") }
			zval := func(x string) (n int) { fmt.Sscanf(x, "Z%d", &n); return }
			switch {
			case len(got) == len(want):
				okLayout = true
				for j := range got {
					if got[j] != want[j] && !(j == len(got)-1 && isZ(got[j]) && isZ(want[j]) && zval(got[j]) >= zval(want[j])) {
						okLayout = false
					}
				}
			case len(got) == len(want)+1 && isZ(got[len(got)-1]):
				okLayout = strings.Join(got[:len(want)], " ") == strings.Join(want, " ")
			}
			if !okLayout {
				return explore.Failf("frames-layout", "dial %d: frame layout on the wire [%s] differs from the spec's QUICFrames [%s]", dial, strings.Join(got, " "), strings.Join(want, " ")), nil, ""
			}
		}
		if plan.CryptoLength > 0 {
			remaining := len(chBytes) - cryptoSoFar
			if want := min(plan.CryptoLength, remaining); cryptoData != want {
				return explore.Failf("crypto-split", "dial %d datagram %d carries %d CRYPTO bytes, the plan pins %d (split offset %d)", dial, i, cryptoData, want, cryptoSoFar+want), nil, ""
			}
		}
		cryptoSoFar += cryptoData
		if plan.PacketSize > 0 {
			if o.Pkt.TotalLen != plan.PacketSize || o.DatagramLen != plan.PacketSize {
				return explore.Failf("packet-size", "dial %d datagram %d: packet %d bytes in a %d-byte datagram, the plan pins %d", dial, i, o.Pkt.TotalLen, o.DatagramLen, plan.PacketSize), nil, ""
			}
		} else {
			minUDP := s.UDPDatagramMinSize
			if minUDP == 0 {
				minUDP = quic.DefaultUDPDatagramMinSize
			}
			if o.DatagramLen < minUDP {
				return explore.Failf("udp-min-size", "dial %d datagram %d is %d bytes, minimum UDP size is %d", dial, i, o.DatagramLen, minUDP), nil, ""
			}
		}
	}
	// ---- a flight builder's layout: which CRYPTO ranges in which datagram (c10_flight_test.go)
	if f := c10FlightCheck(ips, dial, len(chBytes), first); f != nil {
		return f, nil, ""
	}
	class = fmt.Sprintf("datagrams=%d retrans=%d pnlen=%d tok=%d dcid=%d scid=%d", len(fl.First), len(fl.Retrans), first[0].Pkt.PNLen, len(token), dl, sl)
	if _, isFlight := ips.FrameBuilder.(quic.QUICFlightFrameBuilder); isFlight {
		// does the planned flight show PADDING / PING frames at all (vacuity accounting of the
		// total-frame-length oracle; the counts are drawn per dial)
		anyZ, anyP := false, false
		for _, o := range first {
			_, z := count(o.Frames, 0)
			p, _ := count(o.Frames, 1)
			anyZ, anyP = anyZ || z > 0, anyP || p > 0
		}
		pads := map[bool]string{false: "-", true: "Z"}[anyZ] + map[bool]string{false: "", true: "p"}[anyP]
		class += " flight=" + pads
	}
	return nil, token, class
}

type c10Outcome struct {
	fail  *explore.Fail
	class string
	human []string
}

func c10Run(t *testing.T, cfg c10Config) c10Outcome {
	var out c10Outcome
	var tokens [][]byte
	for dial := 1; dial <= 3 && out.fail == nil; dial++ {
		var fl sim.Flight
		var spec *quic.QUICSpec // a fresh spec value per dial: reuse of one value is C02's subject
		sim.WithSeed(t, cfg.Seed*16+uint64(dial)+1000, func() { spec = cfg.spec() })
		ok := sim.Run(t, "run", cfg.Seed*16+uint64(dial), func(t *testing.T) {
			w := sim.NewWorld(nil)
			d, _, _ := w.NewDialer(sim.ClientKind{Name: "spec", U: true, Spec: func() *quic.QUICSpec { return spec }})
			fl = sim.CaptureFlight(w, d, &quic.Config{}, 1500*time.Millisecond)
			d.Close()
			w.CloseEndpoints()
		})
		if !ok {
			out.fail = explore.Failf(cfg.id()+":bubble-failed", "bubble did not terminate cleanly")
			break
		}
		f, tok, class := c10Check(spec, fl, dial, tokens, 0)
		if f != nil {
			f.Key = cfg.id() + ":" + f.Key
			out.fail = f
			for _, e := range append(fl.First, fl.Retrans...) {
				out.human = append(out.human, fmt.Sprintf("t=%v len=%d %x...", e.T, len(e.Data), e.Data[:min(24, len(e.Data))]))
			}
		}
		tokens = append(tokens, tok)
		if dial == 1 {
			out.class = class
		}
	}
	return out
}

// c10Attribute gives one defect one key: a failure is re-keyed to the smallest configuration
// that fails the same way (same key suffix) - the unmodified base spec; else, for a pair of
// knobs, one of the two alone; then, for a flight-* knob, the first knob of that lattice with the
// same size step (c10FlightSiblings); and then the same knobs on the zero spec (last entry of
// c10Bases) when the failure does not depend on the fingerprint, else on the first base spec of
// c10Bases that fails the same way.
func c10Attribute(t *testing.T, cache map[string]string, cfg c10Config, o *c10Outcome) {
	if o.fail == nil || len(cfg.Knobs) == 0 {
		return
	}
	suffix := strings.TrimPrefix(o.fail.Key, cfg.id())
	same := func(c c10Config) bool {
		c.Seed = cfg.Seed
		ck := fmt.Sprint(c.Base, c.Knobs)
		bs, ok := cache[ck]
		if !ok {
			if r := c10Run(t, c); r.fail != nil {
				bs = strings.TrimPrefix(r.fail.Key, c.id())
			}
			cache[ck] = bs
		}
		return bs != "" && bs == suffix
	}
	if same(c10Config{Base: cfg.Base}) {
		o.fail.Key = c10Config{Base: cfg.Base}.id() + suffix
		return
	}
	red := c10Config{Base: cfg.Base, Knobs: cfg.Knobs}
	if len(cfg.Knobs) > 1 {
		for _, k := range cfg.Knobs {
			if c := (c10Config{Base: cfg.Base, Knobs: []int{k}}); same(c) {
				red = c
				break
			}
		}
	}
	for i := range red.Knobs {
		for _, k := range c10FlightSiblings(red.Knobs[i]) {
			ks := append([]int{}, red.Knobs...)
			ks[i] = k
			if c := (c10Config{Base: red.Base, Knobs: ks}); same(c) {
				red = c
				break
			}
		}
	}
	if zero := len(c10Bases) - 1; red.Base != zero {
		if c := (c10Config{Base: zero, Knobs: red.Knobs}); same(c) {
			red = c
		} else {
			for b := 0; b < red.Base; b++ {
				if c := (c10Config{Base: b, Knobs: red.Knobs}); same(c) {
					red = c
					break
				}
			}
		}
	}
	o.fail.Key = red.id() + suffix
}

func TestVerifC10(t *testing.T) {
	sim.InitCerts(t)
	cache := map[string]string{}
	mk := func(e explore.Env) ([]c10Config, string) {
		var cfgs []c10Config
		seed := uint64(e.Seed) + 3
		for b := range c10Bases {
			for k := range c10Knobs {
				cfgs = append(cfgs, c10Config{Base: b, Knobs: []int{k}, Seed: seed})
			}
		}
		{
			for b := range c10Bases {
				for k1 := 1; k1 < len(c10Knobs); k1++ {
					for k2 := k1 + 1; k2 < len(c10Knobs); k2++ {
						if c10Contradict(c10Knobs[k1].Name, c10Knobs[k2].Name) {
							continue
						}
						// quick tier: only a layout (frame builder or packet plan) combined with a
						// ClientHello size that spreads it over 2-4 datagrams
						isCH := func(k int) bool { return strings.HasPrefix(c10Knobs[k].Name, "ch-") }
						isLayout := func(k int) bool {
							n := c10Knobs[k].Name // plan-steps-* bring their own ClientHello size
							return strings.HasPrefix(n, "fb-") || strings.HasPrefix(n, "plan-") && !strings.HasPrefix(n, "plan-steps-")
						}
						if !e.Thorough() && !(isCH(k2) && isLayout(k1) || isCH(k1) && isLayout(k2)) {
							continue
						}
						cfgs = append(cfgs, c10Config{Base: b, Knobs: []int{k1, k2}, Seed: seed})
					}
				}
			}
		}
		return cfgs, fmt.Sprintf("7 built-in fingerprints + zero spec x every one-knob deviation (%d knobs: CID lengths 0/1/7/8/20, initial packet numbers 0..2^64-1, PN length lists, tokens, frame builders, per-datagram plans, the plan x random-builder lattice of c10_planrf_test.go (CryptoLength x PacketSize x builder Length around the plan's CRYPTO frame x CRYPTO frame count x builder kind), the flight-builder lattice of c10_flight_test.go (QUICFlightFrames / QUICRandomFlightFrames / custom QUICFlightFrameBuilder x 3..4 datagrams x position of the big datagram x InitialPackets none / one repeating entry / two / one per datagram x size of the big datagram across the 1200 / 1280 / packet-buffer / BuildFlight-budget bounds), the flight total-frame-length lattice of c10_flightlen_test.go (QUICRandomFlightFrames with Frames.Length walked across the datagram's CRYPTO + PING bytes x PING bounds x exact / drawn framing x 1 / 3 datagrams x InitialPackets none / one repeating entry; fixed frame lists with PADDING), UDP minimum sizes, ClientHello sizes; every frame builder / packet plan x every ClientHello size; in thorough every pair except contradictory ones: two knobs of one layout family, a 300-byte token with an exact packet plan) x 3 dials with different seeds; silent peer, first flight + PTO retransmissions within 1.5 s", len(c10Knobs))
	}
	part := explore.Part{
		Name: "flight-vs-spec",
		Run: func(e explore.Env) *explore.Report {
			cfgs, rule := mk(e)
			rep := explore.RunCases(e, len(cfgs), 1, false, func(i int) explore.CaseResult {
				explore.MarkCurrent(e, "flight-vs-spec", cfgs[i])
				o := c10Run(t, cfgs[i])
				c10Attribute(t, cache, cfgs[i], &o)
				cr := explore.CaseResult{Outcome: o.class, Execs: 3, Trans: 3, Replay: cfgs[i]}
				if o.fail != nil {
					cr.Outcome = "violation"
					cr.Fail = o.fail
					cr.Human = append([]string{cfgs[i].id()}, o.human...)
				}
				return cr
			})
			rep.Level = "fault_enumeration"
			rep.Rule, rep.Bound = rule, rule
			rep.Samples = []any{cfgs[0].id(), cfgs[len(cfgs)/2].id(), cfgs[len(cfgs)-1].id()}
			return rep
		},
		Replay: func(e explore.Env, raw json.RawMessage) *explore.Violation {
			var cfg c10Config
			if err := json.Unmarshal(raw, &cfg); err != nil {
				t.Fatal(err)
			}
			o := c10Run(t, cfg)
			if o.fail == nil {
				return nil
			}
			c10Attribute(t, cache, cfg, &o)
			return &explore.Violation{Key: o.fail.Key, What: o.fail.What, Human: append([]string{cfg.id()}, o.human...)}
		},
	}
	explore.Main("C10", []explore.Part{part, c10OverlapPart(t), c10PeerPart(t)}, func(msg string) { t.Fatal(msg) })
}
