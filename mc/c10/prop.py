# ./check configuration for C10 (merged by mc/props.py)
PROP = dict(
    pkg=".", test="TestVerifC10", files=["mc/c10/*.go"], libs=["explore", "canon", "sim", "wireobs"],
    engine="E2 simx", level="fault_enumeration", shards="ncpu", gomaxprocs=1,
    env={"GODEBUG": "randseednop=0,asyncpreemptoff=1"},
    deterministic=False, crash_is_violation=True,
    deadline=dict(quick=100, thorough=1100),
    rule="whole client+server connections of the real implementation in a synctest bubble over a fault-injecting router; one execution per static fault map (slot -> fate)",
    assumptions=["goroutine interleavings inside the connection are chosen by the Go runtime (GOMAXPROCS=1), not enumerated; oracles are schedule-independent",
                 "crypto/rand pinned per run with cryptotest.SetGlobalRandom; math/rand seeded",
                 "each dial uses a fresh spec value (spec reuse is C02)"],
    level_text="Exhaustive configuration enumeration (8 base specs x one-knob deviations, pairs in thorough, 3 dials each) of the real UTransport dial path; every first flight and its PTO retransmissions are captured on the simulated wire and decrypted by an independent observer (own HKDF/AES-GCM/header-protection/varint/frame/ClientHello reader) and compared field by field with the InitialPacketSpec.",
    level_note="Trusted: the independent observer in mc/lib/wireobs; the knob alphabet; maximum packet size read as protocol.MaxPacketBufferSize (1452), the bound the packer enforces (the Firefox fingerprints deliberately pad their datagrams to 1357 bytes, above the 1280-byte initial packet size); acceptance by the in-tree server is checked by C02 for the same knob families.",
    technique="exhaustive spec-configuration enumeration with an independent on-wire observer",
)
