package quic_test

// C11, part "shuffle-distribution": "... or in a fresh uniformly distributed permutation per
// dial when randomisation is on" is a statement about a distribution. The harness owns the
// randomness (crypto/rand and math/rand are pinned per dial by sim.Run), so MANY dials of one
// spec value with different seeds are made and the wire orders are judged as a sample:
//
//   - every distinguishable order of a short list must reach the wire (the number of dials N is
//     chosen so that a uniform shuffle misses one of them with probability < 1e-9),
//   - how often each order occurs, how often each parameter lands on each wire position (this
//     contains the first-position and the fixed-point frequencies) and how often two
//     consecutive dials put the same order on the wire must lie inside the central
//     1 - 2e-13 interval of the binomial distribution a uniform, per-dial independent
//     permutation gives them (generous bounds: no test at a conventional significance level).
//
// Nothing here looks at how the code shuffles or where it takes its randomness from.

import (
	"bytes"
	"encoding/json"
	"fmt"
	"math"
	"sort"
	"strings"
	"testing"
	"time"

	quic "github.com/refraction-networking/uquic"
	"github.com/refraction-networking/uquic/internal/verifmc/explore"
	"github.com/refraction-networking/uquic/internal/verifmc/sim"
	"github.com/refraction-networking/uquic/internal/verifmc/wireobs"
	tls "github.com/refraction-networking/utls"
)

const (
	c11MissTail = 1e-9  // a uniform shuffle leaves one of the orders unseen with less than this probability
	c11FreqTail = 1e-13 // probability mass left outside each side of a frequency interval
)

type c11DistConfig struct {
	Base     int      `json:"base"`
	List     []int    `json:"list"` // nil: the fingerprint's own list
	Suppress []uint64 `json:"suppress"`
	// KeepOnly > 0 (own lists): suppress every id of the fingerprint's list except those of KeepOnly
	// entries starting at entry KeepFrom (the suppression set is derived from the spec value itself,
	// GREASE as QTPGrease), so that a long built-in list is cut down to a short one
	KeepOnly int    `json:"keep_only,omitempty"`
	KeepFrom int    `json:"keep_from,omitempty"`
	SCIDLen  int    `json:"scid"`
	Dials    int    `json:"dials"` // 0: as many as the reachability criterion needs
	Seed     uint64 `json:"seed"`
}

func (c c11DistConfig) id() string {
	var l []string
	for _, a := range c.List {
		l = append(l, c11Atoms[a].Name)
	}
	ls := "own"
	if c.List != nil {
		ls = "[" + strings.Join(l, ",") + "]"
	}
	keep := ""
	if c.KeepOnly > 0 {
		keep = fmt.Sprintf(" suppress-all-but-%d-entries-from-#%d", c.KeepOnly, c.KeepFrom)
	}
	return fmt.Sprintf("%s list=%s suppress=%v%s randomize=true scid=%d", c11Bases[c.Base].Name, ls, c.Suppress, keep, c.SCIDLen)
}

func c11SplitMix(x uint64) uint64 {
	x += 0x9e3779b97f4a7c15
	x = (x ^ (x >> 30)) * 0xbf58476d1ce4e5b9
	x = (x ^ (x >> 27)) * 0x94d049bb133111eb
	return x ^ (x >> 31)
}

// c11BinomBounds returns the interval [lo, hi] with P(X < lo) <= tail and P(X > hi) <= tail
// for X ~ Binomial(n, p).
func c11BinomBounds(n int, p, tail float64) (lo, hi int) {
	if p <= 0 {
		return 0, 0
	}
	if p >= 1 {
		return n, n
	}
	lg := func(x int) float64 { v, _ := math.Lgamma(float64(x) + 1); return v }
	pmf := func(k int) float64 {
		return math.Exp(lg(n) - lg(k) - lg(n-k) + float64(k)*math.Log(p) + float64(n-k)*math.Log1p(-p))
	}
	c := 0.0
	lo = n
	for k := 0; k <= n; k++ {
		c += pmf(k)
		if c > tail {
			lo = k
			break
		}
	}
	c = 0.0
	hi = 0
	for k := n; k >= 0; k-- {
		c += pmf(k)
		if c > tail {
			hi = k
			break
		}
	}
	return lo, hi
}

// c11DialsFor returns the number of dials after which a uniform choice among `a` orders has
// left one of them unseen with probability < c11MissTail (union bound), with a margin.
func c11DialsFor(a float64) int {
	if a < 2 {
		return 2
	}
	n := math.Log(a/c11MissTail) / -math.Log1p(-1/a)
	return int(math.Ceil(n*1.05)) + 4
}

func c11Factorial(n int) float64 {
	r := 1.0
	for i := 2; i <= n; i++ {
		r *= float64(i)
	}
	return r
}

// c11AllOrders lists every distinguishable arrangement of the class sequence.
func c11AllOrders(classes []int) []string {
	s := append([]int{}, classes...)
	sort.Ints(s)
	var out []string
	var rec func(rest []int, cur []string)
	rec = func(rest []int, cur []string) {
		if len(rest) == 0 {
			out = append(out, strings.Join(cur, ","))
			return
		}
		for i := range rest {
			if i > 0 && rest[i] == rest[i-1] {
				continue
			}
			nr := append(append([]int{}, rest[:i]...), rest[i+1:]...)
			rec(nr, append(cur, fmt.Sprint(rest[i])))
		}
	}
	rec(s, nil)
	return out
}

func c11Match(e c11TP, p wireobs.TransportParam, scid []byte) bool {
	if e.ID != p.ID {
		return false
	}
	if e.ISCID {
		return bytes.Equal(p.Value, scid)
	}
	if e.VersionInfo {
		return bytes.Equal(c11FoldGreaseVersions(e.Value), c11FoldGreaseVersions(p.Value))
	}
	return bytes.Equal(e.Value, p.Value)
}

// c11DialTPs makes one dial with the spec value towards a silent peer and returns the transport
// parameters of the ClientHello as the independent observer reads them off the wire.
func c11DialTPs(t *testing.T, spec *quic.QUICSpec, seed uint64) (tps []wireobs.TransportParam, scid []byte, key, what string) {
	var fl sim.Flight
	ok := sim.Run(t, "run", seed, func(t *testing.T) {
		w := sim.NewWorld(nil)
		d, _, _ := w.NewDialer(sim.ClientKind{Name: "spec", U: true, Spec: func() *quic.QUICSpec { return spec }})
		fl = sim.CaptureFlight(w, d, &quic.Config{}, 5*time.Millisecond)
		d.Close()
		w.CloseEndpoints()
	})
	if !ok {
		return nil, nil, "bubble-failed", "bubble did not terminate"
	}
	obs, err := sim.ObserveInitials(fl.First)
	if err != nil || len(obs) == 0 {
		return nil, nil, "flight-unreadable", fmt.Sprintf("first flight cannot be read by the observer: %v (dial error %v)", err, fl.DialErr)
	}
	var fr []wireobs.Frame
	for _, o := range obs {
		fr = append(fr, o.Frames...)
	}
	chb, err := wireobs.Reassemble(fr)
	if err != nil {
		return nil, nil, "clienthello-unreadable", err.Error()
	}
	ch, err := wireobs.ParseClientHello(chb)
	if err != nil {
		return nil, nil, "clienthello-unreadable", err.Error()
	}
	tps, err = ch.TransportParams()
	if err != nil {
		return nil, nil, "tp-unreadable", err.Error()
	}
	return tps, obs[0].Pkt.SCID, "", ""
}

func c11RunDist(t *testing.T, cfg c11DistConfig) c11Outcome {
	var out c11Outcome
	var spec *quic.QUICSpec
	var expect []c11TP
	specSeed := c11SplitMix(cfg.Seed)
	sim.WithSeed(t, specSeed, func() {
		wc := c11Config{Base: cfg.Base, List: cfg.List, Suppress: cfg.Suppress, Randomize: true, SCIDLen: cfg.SCIDLen}
		spec = wc.spec() // ONE spec value for all dials
		own := append(tls.TransportParameters{}, c11QTP(spec).TransportParameters...)
		if cfg.KeepOnly > 0 {
			keep := map[uint64]bool{}
			for i := cfg.KeepFrom; i < cfg.KeepFrom+cfg.KeepOnly && i < len(own); i++ {
				keep[c11CanonID(own[i].ID())] = true
			}
			var sup []uint64
			for _, p := range own {
				if id := c11CanonID(p.ID()); !keep[id] {
					sup = append(sup, id)
				}
			}
			spec.SuppressTransportParameters = append(append([]uint64{}, cfg.Suppress...), sup...)
		}
		// the expected wire set is read off the caller's own parameter objects (this pins the GREASE
		// identifiers and values, which are drawn on first use, as a caller's TransportParameterIDs()
		// call before the first dial does)
		expect = c11Expected(own, spec.SuppressTransportParameters)
	})
	n := len(expect)
	// classes: spec entries that are indistinguishable on the wire (same id, same value) share one
	class := make([]int, n)
	mult := map[int]int{}
	for i := range expect {
		class[i] = i
		for j := 0; j < i; j++ {
			if expect[j].ID == expect[i].ID && bytes.Equal(expect[j].Value, expect[i].Value) && expect[j].ISCID == expect[i].ISCID && expect[j].VersionInfo == expect[i].VersionInfo {
				class[i] = class[j]
				break
			}
		}
		mult[class[i]]++
	}
	arr := c11Factorial(n)
	for _, m := range mult {
		arr /= c11Factorial(m)
	}
	out.class = fmt.Sprintf("distribution n=%d orders=%.0f", n, math.Min(arr, 1e9))
	out.execs = 1
	if dn := cfg.Dials; dn > 0 {
		out.class += fmt.Sprintf(" dials=%d", dn)
	}
	if n < 2 || arr < 2 {
		return out // nothing to permute
	}
	dials := cfg.Dials
	if dials == 0 {
		dials = c11DialsFor(arr)
	}
	failf := func(key, format string, a ...any) {
		if out.fail == nil {
			out.fail = explore.Failf(fmt.Sprintf("%s:n=%d", key, n), "%s, %d dials on one spec value: %s", cfg.id(), dials, fmt.Sprintf(format, a...))
		}
	}
	orders := map[string]int{}
	pos := make([][]int, n) // pos[wire position][class]
	for i := range pos {
		pos[i] = make([]int, n)
	}
	repeats := 0
	prev := ""
	for dial := 1; dial <= dials; dial++ {
		out.execs = int64(dial)
		tps, scid, key, what := c11DialTPs(t, spec, c11SplitMix(cfg.Seed^uint64(dial)<<32))
		if key != "" {
			out.fail = explore.Failf(key, "%s dial %d: %s", cfg.id(), dial, what)
			return out
		}
		if len(tps) != n {
			out.fail = explore.Failf("tp-count", "%s dial %d: %d transport parameters on the wire, the spec (after suppression) lists %d", cfg.id(), dial, len(tps), n)
			return out
		}
		seen := map[int]int{}
		sig := make([]string, n)
		for j, p := range tps {
			c := -1
			for i := range expect {
				if c11Match(expect[i], p, scid) {
					c = class[i]
					break
				}
			}
			if c < 0 {
				out.fail = explore.Failf("tp-multiset", "%s dial %d: wire parameter #%d id %#x value %x is not one of the spec's parameters", cfg.id(), dial, j, p.ID, p.Value)
				return out
			}
			seen[c]++
			pos[j][c]++
			sig[j] = fmt.Sprint(c)
		}
		for c := 0; c < n; c++ {
			m := mult[c]
			if seen[c] != m {
				out.fail = explore.Failf("tp-multiset", "%s dial %d: spec parameter id %#x value %x is %d times on the wire, %d times in the spec", cfg.id(), dial, expect[c].ID, expect[c].Value, seen[c], m)
				return out
			}
		}
		o := strings.Join(sig, ",")
		orders[o]++
		if dial > 1 && o == prev {
			repeats++
		}
		prev = o
	}
	hist := func() string {
		var ks []string
		for k := range orders {
			ks = append(ks, k)
		}
		sort.Strings(ks)
		var s []string
		for _, k := range ks {
			s = append(s, fmt.Sprintf("[%s]x%d", k, orders[k]))
		}
		if len(s) > 30 {
			s = append(s[:30], "...")
		}
		return strings.Join(s, " ")
	}
	names := make([]string, n)
	for i, e := range expect {
		names[i] = fmt.Sprintf("#%d=id %#x", i, e.ID)
	}
	legend := "spec entries " + strings.Join(names, ", ")
	// ---- every order is reachable, and none is favoured
	if arr <= 720 && arr*math.Pow(1-1/arr, float64(dials)) < c11MissTail {
		all := c11AllOrders(class)
		explore.Must(float64(len(all)) == arr, "c11: %d arrangements listed, %.0f computed", len(all), arr)
		var missing []string
		for _, o := range all {
			if orders[o] == 0 {
				missing = append(missing, "["+o+"]")
			}
		}
		if len(missing) > 0 {
			failf("tp-shuffle-order-never-produced", "%d of the %.0f orders of the %d parameters never reached the wire: %s (a uniform permutation per dial misses one with probability < 1e-9); wire orders seen: %s; %s", len(missing), arr, n, strings.Join(missing, " "), hist(), legend)
		}
		lo, hi := c11BinomBounds(dials, 1/arr, c11FreqTail)
		for _, o := range all {
			if k := orders[o]; k < lo || k > hi {
				failf("tp-shuffle-order-frequency", "order [%s] reached the wire %d times, a uniform permutation per dial gives %d..%d (probability 1/%.0f each, outside with probability < 2e-13); wire orders seen: %s; %s", o, k, lo, hi, arr, hist(), legend)
			}
		}
	}
	// ---- every parameter lands on every wire position with probability multiplicity/n
	for j := 0; j < n && out.fail == nil; j++ {
		for c := 0; c < n; c++ {
			m := mult[c]
			if m == 0 {
				continue
			}
			lo, hi := c11BinomBounds(dials, float64(m)/float64(n), c11FreqTail)
			if k := pos[j][c]; k < lo || k > hi {
				kind := "position"
				if j == c {
					kind = "its own spec position"
				}
				failf("tp-shuffle-position-frequency", "spec parameter #%d (id %#x) was on wire %s %d %d times, a uniform permutation per dial gives %d..%d (probability %d/%d, outside with probability < 2e-13); %s", c, expect[c].ID, kind, j, k, lo, hi, m, n, legend)
				break
			}
		}
	}
	// ---- fresh per dial: two consecutive dials agree with probability 1/orders
	if out.fail == nil {
		lo, hi := c11BinomBounds(dials-1, 1/arr, c11FreqTail)
		if repeats < lo || repeats > hi {
			failf("tp-shuffle-repeat-frequency", "%d of the %d consecutive pairs of dials put the same order on the wire, a fresh uniform permutation per dial gives %d..%d (probability 1/%.0f, outside with probability < 2e-13); wire orders seen: %s", repeats, dials-1, lo, hi, arr, hist())
		}
	}
	return out
}

func c11CanonID(id uint64) uint64 {
	if wireobs.IsGreaseTP(id) {
		return quic.QTPGrease
	}
	return id
}

// c11Combos lists the k-subsets of [0,n) in lexicographic order.
func c11Combos(n, k int) [][]int {
	var out [][]int
	var rec func(start int, cur []int)
	rec = func(start int, cur []int) {
		if len(cur) == k {
			out = append(out, append([]int{}, cur...))
			return
		}
		for i := start; i < n; i++ {
			rec(i+1, append(cur, i))
		}
	}
	rec(0, nil)
	return out
}

func c11Reversed(l []int) []int {
	o := make([]int, len(l))
	for i, v := range l {
		o[len(l)-1-i] = v
	}
	return o
}

func c11DistConfigs(e explore.Env) ([]c11DistConfig, string) {
	var cfgs []c11DistConfig
	add := func(c c11DistConfig) { cfgs = append(cfgs, c) }
	na := len(c11Atoms)
	has := func(l []int, name string) bool {
		for _, a := range l {
			if c11Atoms[a].Name == name {
				return true
			}
		}
		return false
	}
	// (1) generated lists: every ordered pair of distinct atoms; every 3-subset of the atoms in
	// atom order and reversed; 4-subsets (a selection in quick, all in thorough); 5-subsets in
	// thorough; each with no suppression, and - where it applies - with the GREASE parameters or
	// the id-0x01 parameters suppressed (the shuffle then works on the shorter list)
	var lists [][]int
	for a := 0; a < na; a++ {
		for b := 0; b < na; b++ {
			if a != b {
				lists = append(lists, []int{a, b})
			}
		}
	}
	for _, c := range c11Combos(na, 3) {
		lists = append(lists, c, c11Reversed(c))
	}
	c4 := c11Combos(na, 4)
	for i, c := range c4 {
		if e.Thorough() || i%12 == 0 {
			lists = append(lists, c)
		}
		if e.Thorough() || i%12 == 6 {
			lists = append(lists, c11Reversed(c))
		}
	}
	if e.Thorough() {
		for i, c := range c11Combos(na, 5) {
			if i%14 == 0 {
				lists = append(lists, c)
			}
		}
	}
	for i, l := range lists {
		b := []int{0, 2}[i%2]
		add(c11DistConfig{Base: b, List: l, SCIDLen: 8})
		if len(l) >= 3 && (has(l, "grease") || has(l, "fake-grease-id")) {
			add(c11DistConfig{Base: b, List: l, Suppress: []uint64{quic.QTPGrease}, SCIDLen: 8})
		}
		if len(l) >= 3 && (has(l, "idle") || has(l, "idle-again")) {
			add(c11DistConfig{Base: 2 - b, List: l, Suppress: []uint64{0x01}, SCIDLen: 8})
		}
	}
	// (2) every built-in fingerprint's own list: whole (position and repeat frequencies; the
	// orders of 8+ parameters cannot all be seen), with GREASE suppressed, and cut down by
	// suppression to 2, 3 and 4 consecutive entries from the front, the middle and the back
	own := 400
	if e.Thorough() {
		own = 2000
	}
	for b := range c11Bases {
		sp, _ := quic.QUICID2Spec(c11Bases[b].ID)
		ln := len(c11QTP(&sp).TransportParameters)
		add(c11DistConfig{Base: b, SCIDLen: -1, Dials: own})
		add(c11DistConfig{Base: b, Suppress: []uint64{quic.QTPGrease}, SCIDLen: -1, Dials: own})
		add(c11DistConfig{Base: b, SCIDLen: 0, Dials: own / 2})
		for _, k := range []int{2, 3, 4} {
			for _, from := range []int{0, (ln - k) / 2, ln - k} {
				if from >= 0 {
					add(c11DistConfig{Base: b, KeepOnly: k, KeepFrom: from, SCIDLen: -1})
				}
			}
		}
	}
	// (3) one short list dialled far more often than reachability needs, so that the frequency
	// intervals become narrow enough (half-width 7-12 % of the expectation in quick) to tell a shuffle whose orders are
	// all reachable but not equally likely (e.g. 4/27 against 1/6) from a uniform one
	deep := 20000
	if e.Thorough() {
		deep = 60000
		add(c11DistConfig{Base: 2, List: []int{7, 4, 0, 3}, SCIDLen: 8, Dials: deep})
	}
	add(c11DistConfig{Base: 0, List: []int{0, 1, 7}, SCIDLen: 8, Dials: deep})
	for i := range cfgs {
		cfgs[i].Seed = uint64(e.Seed) + 1100 + uint64(i)*7
	}
	sel := "a twelfth of the 4-subsets (and another twelfth reversed)"
	if e.Thorough() {
		sel = "every 4-subset in atom order and reversed, every 14th 5-subset"
	}
	return cfgs, fmt.Sprintf("randomisation on, ONE spec value per configuration dialled N times towards a silent peer, each dial with its own pinned crypto/rand and math/rand seed; lists: every ordered pair of distinct atoms, every 3-subset of the %d atoms in atom order and reversed, %s, each plain and (where present) with the GREASE or the id-0x01 parameters suppressed; every built-in fingerprint's own list whole (%d dials), with GREASE suppressed, with SCID length 0, and cut down by suppression to 2/3/4 consecutive entries at the front / middle / back; N = smallest number of dials after which a uniform permutation has left one of the n!/prod(mult!) orders unseen with probability < 1e-9 (+5%%): 37 for 2, 135 for 3 parameters, 595 for 4, 3206 for 5; plus one 3-list%s dialled %d times (narrow frequency intervals)", na, sel, own, map[bool]string{false: "", true: " and one 4-list"}[e.Thorough()], deep)
}

func c11DistPart(t *testing.T) explore.Part {
	p := explore.Part{Name: "shuffle-distribution"}
	p.Run = func(e explore.Env) *explore.Report {
		cfgs, rule := c11DistConfigs(e)
		rep := explore.RunCases(e, len(cfgs), 1, false, func(i int) explore.CaseResult {
			explore.MarkCurrent(e, "shuffle-distribution", cfgs[i])
			o := c11RunDist(t, cfgs[i])
			cr := explore.CaseResult{Outcome: o.class, Execs: o.execs, Trans: o.execs, Replay: cfgs[i]}
			if o.fail != nil {
				cr.Fail, cr.Human = o.fail, []string{cfgs[i].id()}
			}
			return cr
		})
		rep.Level = "fault_enumeration"
		rep.Rule = rule + "; oracle: every dial carries exactly the spec's parameters after suppression; every distinguishable order of a list with <= 720 orders reaches the wire; the count of each order, of each parameter on each wire position (first position and own spec position included) and of equal consecutive dials lies in the central 1 - 2e-13 interval of the binomial distribution that a fresh uniform permutation per dial gives it"
		rep.Bound = rep.Rule
		rep.Samples = []any{cfgs[0].id(), cfgs[len(cfgs)/2].id(), cfgs[len(cfgs)-1].id()}
		return rep
	}
	p.Replay = func(e explore.Env, raw json.RawMessage) *explore.Violation {
		var cfg c11DistConfig
		if err := json.Unmarshal(raw, &cfg); err != nil {
			t.Fatal(err)
		}
		o := c11RunDist(t, cfg)
		if o.fail == nil {
			return nil
		}
		return &explore.Violation{Key: o.fail.Key, What: o.fail.What, Human: []string{cfg.id()}}
	}
	return p
}
