package quic_test

// C11: ClientHello and transport parameters on the wire are exactly what the spec says.
// E2 capture (first flight towards a silent peer, decrypted and parsed by the independent
// observer in mc/lib/wireobs) + the reference fingerprinter clienthellod.

import (
	"bytes"
	"encoding/json"
	"fmt"
	"net"
	"slices"
	"sort"
	"strings"
	"testing"
	"time"

	"github.com/refraction-networking/clienthellod"
	quic "github.com/refraction-networking/uquic"
	"github.com/refraction-networking/uquic/internal/verifmc/explore"
	"github.com/refraction-networking/uquic/internal/verifmc/sim"
	"github.com/refraction-networking/uquic/internal/verifmc/wireobs"
	tls "github.com/refraction-networking/utls"
)

// c11Arrangements returns the number of distinguishable orders of a comma-separated id list
// (n! divided by the factorials of the multiplicities), saturating at 1e9.
func c11Arrangements(order string) float64 {
	ids := strings.Split(order, ",")
	mult := map[string]int{}
	r := 1.0
	for i, id := range ids {
		mult[id]++
		r = r * float64(i+1) / float64(mult[id])
		if r > 1e9 {
			return 1e9
		}
	}
	return r
}

var c11Bases = []struct {
	Name     string
	ID       quic.QUICID
	Recorded bool // the QUICID's Fingerprint was recorded with clienthellod
}{
	{"chrome115", quic.QUICChrome_115_IPv4, true},
	{"chrome115v6", quic.QUICChrome_115_IPv6, true},
	{"firefox116a", quic.QUICFirefox_116A, true},
	{"firefox116b", quic.QUICFirefox_116B, true},
	{"firefox116c", quic.QUICFirefox_116C, true},
	{"chrome146", quic.QUICChrome_146_IPv4, false},
	{"chrome146v6", quic.QUICChrome_146_IPv6, false},
}

// ---- transport parameter atoms -------------------------------------------------------

type c11Atom struct {
	Name string
	Make func() tls.TransportParameter
}

var c11Atoms = []c11Atom{
	{"idle", func() tls.TransportParameter { return tls.MaxIdleTimeout(30000) }},
	{"maxdata", func() tls.TransportParameter { return tls.InitialMaxData(1 << 20) }},
	{"bidi", func() tls.TransportParameter { return tls.InitialMaxStreamsBidi(100) }},
	{"fake4752", func() tls.TransportParameter {
		return &tls.FakeQUICTransportParameter{Id: 0x4752, Val: []byte{0, 0, 0, 1}}
	}},
	{"grease", func() tls.TransportParameter { return quic.VariableLengthGREASEQTP(0x10) }},
	{"fake-grease-id", func() tls.TransportParameter { return &tls.FakeQUICTransportParameter{Id: 27 + 31*5, Val: []byte{7}} }},
	{"idle-again", func() tls.TransportParameter { return tls.MaxIdleTimeout(15000) }}, // duplicate id
	{"iscid", func() tls.TransportParameter { return tls.InitialSourceConnectionID([]byte{}) }},
}

type c11Config struct {
	Base      int      `json:"base"`
	List      []int    `json:"list"` // nil: keep the fingerprint's own list
	Suppress  []uint64 `json:"suppress"`
	Randomize bool     `json:"randomize"`
	SCIDLen   int      `json:"scid"`         // -1: keep
	VN        bool     `json:"vn,omitempty"` // the first Initial is answered with Version Negotiation: the ClientHello of the re-created connection is judged
	// FirstQuery places the caller's TransportParameterIDs() calls among the three dials on the
	// ONE spec value: the spec is queried in every gap from this one on (gap g = after g dials;
	// 0: before the first dial, as the documentation suggests, ... 3: only after the last dial,
	// i.e. every dial works on a spec value that was never queried).
	FirstQuery int    `json:"first_query,omitempty"`
	Seed       uint64 `json:"seed"`
}

func (c c11Config) id() string {
	var l []string
	for _, a := range c.List {
		l = append(l, c11Atoms[a].Name)
	}
	ls := "own"
	if c.List != nil {
		ls = "[" + strings.Join(l, ",") + "]"
	}
	vn := ""
	if c.VN {
		vn = " after-version-negotiation"
	}
	return fmt.Sprintf("%s list=%s suppress=%v randomize=%v scid=%d%s ids-queried-from-gap=%d", c11Bases[c.Base].Name, ls, c.Suppress, c.Randomize, c.SCIDLen, vn, c.FirstQuery)
}

func c11QTP(s *quic.QUICSpec) *tls.QUICTransportParametersExtension {
	for _, e := range s.ClientHelloSpec.Extensions {
		if q, ok := e.(*tls.QUICTransportParametersExtension); ok {
			return q
		}
	}
	return nil
}

func (c c11Config) spec() *quic.QUICSpec {
	s, err := quic.QUICID2Spec(c11Bases[c.Base].ID)
	if err != nil {
		panic(err)
	}
	if c.List != nil {
		var l tls.TransportParameters
		for _, a := range c.List {
			l = append(l, c11Atoms[a].Make())
		}
		c11QTP(&s).TransportParameters = l
	}
	s.SuppressTransportParameters = c.Suppress
	s.RandomizeTransportParameters = c.Randomize
	if c.SCIDLen >= 0 {
		s.InitialPacketSpec.SrcConnIDLength = c.SCIDLen
	}
	return &s
}

type c11TP struct {
	ID    uint64
	Value []byte
	ISCID bool // empty initial_source_connection_id placeholder: the value is the dial's SCID
	// VersionInfo: a version_information parameter; GREASE versions (0x?a?a?a?a) are drawn
	// per serialisation, so values are compared with every GREASE version folded.
	VersionInfo bool
}

func c11FoldGreaseVersions(b []byte) []byte {
	o := append([]byte(nil), b...)
	for i := 0; i+4 <= len(o); i += 4 {
		// uTLS draws a GREASE version as rand|0x0a0a0a0a (RFC 9368 reserves 0x?a?a?a?a)
		if o[i]&0x0a == 0x0a && o[i+1]&0x0a == 0x0a && o[i+2]&0x0a == 0x0a && o[i+3]&0x0a == 0x0a {
			copy(o[i:], []byte{0x0a, 0x0a, 0x0a, 0x0a})
		}
	}
	return o
}

// c11Expected computes the parameter list the spec puts on the wire, from the list as the
// caller wrote it: suppression (exact ids; QTPGrease = every GREASE id), order kept.
func c11Expected(list tls.TransportParameters, suppress []uint64) []c11TP {
	var out []c11TP
	for _, p := range list {
		id := p.ID()
		drop := false
		for _, s := range suppress {
			if s == id || (s == quic.QTPGrease && wireobs.IsGreaseTP(id)) {
				drop = true
			}
		}
		if drop {
			continue
		}
		e := c11TP{ID: id, Value: p.Value()}
		if vi, ok := p.(*tls.VersionInformation); ok {
			// a VERSION_GREASE entry is drawn afresh at every serialisation: compare modulo GREASE versions
			_ = vi
			e.VersionInfo = true
		}
		if v, ok := p.(tls.InitialSourceConnectionID); ok && len(v) == 0 {
			e.ISCID = true
		}
		out = append(out, e)
	}
	return out
}

func c11Canon(ids []uint64) []uint64 {
	out := make([]uint64, len(ids))
	for i, id := range ids {
		if wireobs.IsGreaseTP(id) {
			id = quic.QTPGrease
		}
		out[i] = id
	}
	slices.Sort(out)
	return out
}

type c11Outcome struct {
	fail  *explore.Fail
	class string
	execs int64 // dials made (part shuffle-distribution)
}

func c11FoldGrease16(v uint16) uint16 {
	if v&0x0f0f == 0x0a0a && v>>8 == v&0xff {
		return 0x0a0a
	}
	return v
}

// c11ServerName is the host the dial-th dial of a configuration names in its tls.Config.
func c11ServerName(dial int) string {
	if dial <= 1 {
		return "server.verif"
	}
	return fmt.Sprintf("host%d.verif", dial)
}

type c11DummyConn struct{ net.Conn }

// c11Standalone asks uTLS itself to serialise a ClientHello for the spec.
func c11Standalone(chs *tls.ClientHelloSpec) (*wireobs.ClientHello, error) {
	uc := tls.UClient(c11DummyConn{}, &tls.Config{ServerName: "server.verif", NextProtos: []string{sim.ALPN}, InsecureSkipVerify: true}, tls.HelloCustom)
	if err := uc.ApplyPreset(chs); err != nil {
		return nil, err
	}
	if err := uc.BuildHandshakeState(); err != nil {
		return nil, err
	}
	return wireobs.ParseClientHello(uc.HandshakeState.Hello.Raw)
}

func c11Run(t *testing.T, cfg c11Config) c11Outcome {
	var out c11Outcome
	var spec *quic.QUICSpec
	var own tls.TransportParameters // the list as the caller wrote it (own slice, same parameter objects)
	var expect []c11TP
	haveExpect := false
	specSeed := cfg.Seed*7919 + uint64(len(cfg.id()))
	sim.WithSeed(t, specSeed, func() {
		spec = cfg.spec() // ONE spec value, reused by the three dials and every query
		own = append(tls.TransportParameters{}, c11QTP(spec).TransportParameters...)
	})
	// the expected wire list is read off the caller's parameter objects the first time it is
	// needed: after the first TransportParameterIDs() call or after the first dial, whichever the
	// configuration places first (either one pins the GREASE identifiers and values, which are
	// drawn on first use)
	needExpect := func() {
		if haveExpect {
			return
		}
		sim.WithSeed(t, specSeed+1, func() { expect = c11Expected(own, cfg.Suppress) })
		haveExpect = true
	}
	type c11Report struct {
		gap int
		ids []uint64
	}
	var reports []c11Report  // what TransportParameterIDs() returned, in call order
	var wireCanon [][]uint64 // canonicalised wire ids of the dials so far
	// query calls TransportParameterIDs() in the gap after `gap` dials and judges the report
	// against what a fingerprinter canonicalising the wire saw on every dial so far
	query := func(gap int) {
		if out.fail != nil || gap < cfg.FirstQuery {
			return
		}
		var r []uint64
		sim.WithSeed(t, specSeed+2+uint64(gap), func() { r = spec.TransportParameterIDs() })
		needExpect()
		reports = append(reports, c11Report{gap, r})
		for d, wc := range wireCanon {
			if !slices.Equal(wc, r) {
				out.fail = explore.Failf("tp-ids-report", "%s: QUICSpec.TransportParameterIDs() called after %d dial(s) = %v, canonicalised wire ids of dial %d = %v", cfg.id(), gap, r, d+1, wc)
				return
			}
		}
	}
	query(0)
	var wireOrders []string
	var firstCH *wireobs.ClientHello
	for dial := 1; dial <= 3 && out.fail == nil; dial++ {
		var fl sim.Flight
		ok := sim.Run(t, "run", cfg.Seed*16+uint64(dial), func(t *testing.T) {
			w := sim.NewWorld(nil)
			d, _, _ := w.NewDialer(sim.ClientKind{Name: "spec", U: true, Spec: func() *quic.QUICSpec { return spec }})
			cconf := &quic.Config{}
			if cfg.VN {
				// an on-path box answers the first Initial with Version Negotiation (QUIC v2 only): the
				// connection is re-created inside the same Dial and sends a second ClientHello
				cconf.Versions = []quic.Version{quic.Version1, quic.Version2}
				sent := false
				w.Router.SetOnSend(func(ev sim.Event) {
					if sent || ev.Dir != sim.C2S {
						return
					}
					sent = true
					if pk, _, err := wireobs.SplitDatagram(ev.Data); err == nil && len(pk) > 0 {
						w.Router.Inject(ev.To, ev.From, wireobs.VersionNegotiation(pk[0].DCID, pk[0].SCID, []uint32{0x6b3343cf}), 0)
					}
				})
			}
			// every dial names its own host: what one dial writes into the shared spec value (uTLS
			// fills in an empty server_name extension) must not be what the next dial sends
			tlsConf := w.ClientTLS()
			tlsConf.ServerName = c11ServerName(dial)
			fl = sim.CaptureFlightTLS(w, d, tlsConf, cconf, 300*time.Millisecond)
			d.Close()
			w.CloseEndpoints()
		})
		fail := func(key, format string, a ...any) {
			if out.fail == nil {
				out.fail = explore.Failf(key, "%s dial %d: %s", cfg.id(), dial, fmt.Sprintf(format, a...))
			}
		}
		if ok && cfg.VN {
			// the flight to judge is the first one sent with QUIC v2
			var v2 []sim.Event
			for _, e := range fl.Retrans {
				if len(e.Data) > 5 && e.Data[0]&0x80 != 0 && e.Data[1] == 0x6b && e.Data[2] == 0x33 && (len(v2) == 0 || e.T == v2[0].T) {
					v2 = append(v2, e)
				}
			}
			if len(v2) == 0 {
				fail("no-redial-after-version-negotiation", "no QUIC v2 Initial followed the Version Negotiation packet (dial error %v)", fl.DialErr)
				break
			}
			fl.First = v2
		}
		if !ok {
			fail("bubble-failed", "bubble did not terminate")
			break
		}
		obs, err := sim.ObserveInitials(fl.First)
		if err != nil || len(obs) == 0 {
			fail("flight-unreadable", "first flight cannot be read by the observer: %v (dial error %v)", err, fl.DialErr)
			break
		}
		var fr []wireobs.Frame
		for _, o := range obs {
			fr = append(fr, o.Frames...)
		}
		chb, err := wireobs.Reassemble(fr)
		if err != nil {
			fail("clienthello-unreadable", "%v", err)
			break
		}
		ch, err := wireobs.ParseClientHello(chb)
		if err != nil {
			fail("clienthello-unreadable", "%v", err)
			break
		}
		tps, err := ch.TransportParams()
		if err != nil {
			fail("tp-unreadable", "%v", err)
			break
		}
		// server_name: uTLS puts the dial's tls.Config.ServerName into an SNI extension the spec left empty
		if sni, ok := ch.Extension(0x0000); ok && len(sni.Data) >= 5 {
			if name := string(sni.Data[5:]); name != c11ServerName(dial) {
				fail("sni-of-another-dial", "the ClientHello names %q, this dial's tls.Config.ServerName is %q (one spec value reused by all dials)", name, c11ServerName(dial))
				break
			}
		}
		scid := obs[0].Pkt.SCID
		needExpect()
		// ---- the wire list against the spec list
		var wireIDs []uint64
		var order []string
		for _, p := range tps {
			wireIDs = append(wireIDs, p.ID)
			order = append(order, fmt.Sprintf("%x", p.ID))
		}
		wireOrders = append(wireOrders, strings.Join(order, ","))
		match := func(e c11TP, p wireobs.TransportParam) bool {
			if e.ID != p.ID {
				return false
			}
			if e.ISCID {
				return bytes.Equal(p.Value, scid)
			}
			if e.VersionInfo {
				return bytes.Equal(c11FoldGreaseVersions(e.Value), c11FoldGreaseVersions(p.Value))
			}
			return bytes.Equal(e.Value, p.Value)
		}
		if len(tps) != len(expect) {
			fail("tp-count", "%d transport parameters on the wire %v, the spec (after suppression) lists %d", len(tps), order, len(expect))
			break
		}
		if !cfg.Randomize {
			for i := range expect {
				if !match(expect[i], tps[i]) {
					fail("tp-order-or-value", "transport parameter #%d on the wire is id %#x value %x, the spec says id %#x value %x (iscid placeholder=%v, scid %x)", i, tps[i].ID, tps[i].Value, expect[i].ID, expect[i].Value, expect[i].ISCID, scid)
					break
				}
			}
		} else {
			used := make([]bool, len(tps))
			for _, e := range expect {
				found := false
				for j, p := range tps {
					if !used[j] && match(e, p) {
						used[j], found = true, true
						break
					}
				}
				if !found {
					fail("tp-multiset", "spec parameter id %#x value %x is not on the wire (randomised order) %v", e.ID, e.Value, order)
					break
				}
			}
		}
		if out.fail != nil {
			break
		}
		// ---- the ID list the spec reports against what a fingerprinter canonicalises
		wc := c11Canon(wireIDs)
		for _, r := range reports {
			if !slices.Equal(wc, r.ids) {
				fail("tp-ids-report", "QUICSpec.TransportParameterIDs() called after %d dial(s) = %v, canonicalised wire ids = %v", r.gap, r.ids, wc)
				break
			}
		}
		if out.fail != nil {
			break
		}
		wireCanon = append(wireCanon, wc)
		if firstCH == nil {
			firstCH = ch
		}
		query(dial)
	}
	if out.fail == nil && firstCH != nil {
		// ---- ClientHello against what uTLS emits for the same ClientHelloSpec
		sa, err := c11Standalone(spec.ClientHelloSpec)
		if err != nil {
			out.fail = explore.Failf("utls-standalone", "%s: uTLS cannot serialise the spec standalone: %v", cfg.id(), err)
		} else {
			fold := func(l []uint16) []uint16 {
				var o []uint16
				for _, v := range l {
					if v == 0x15 { // padding: present or not depending on the total ClientHello length
						continue
					}
					o = append(o, c11FoldGrease16(v))
				}
				return o
			}
			if !slices.Equal(fold(firstCH.CipherSuites), fold(sa.CipherSuites)) {
				out.fail = explore.Failf("cipher-suites", "%s: cipher suites on the wire %x, uTLS standalone %x", cfg.id(), firstCH.CipherSuites, sa.CipherSuites)
			} else if !slices.Equal(fold(firstCH.ExtensionTypes()), fold(sa.ExtensionTypes())) {
				out.fail = explore.Failf("extension-order", "%s: extension order on the wire %x, uTLS standalone %x", cfg.id(), firstCH.ExtensionTypes(), sa.ExtensionTypes())
			} else {
				for _, e := range firstCH.Extensions {
					switch e.Type {
					case 0x0d, 0x10, 0x2d, 0x1b, 0x4469, 0x05, 0x12, 0x17, 0xff01, 0x1c, 0x22:
						s, _ := sa.Extension(e.Type)
						if !bytes.Equal(e.Data, s.Data) {
							out.fail = explore.Failf("extension-content", "%s: extension %#x on the wire %x, uTLS standalone %x", cfg.id(), e.Type, e.Data, s.Data)
						}
					}
				}
			}
		}
	}
	if out.fail == nil && cfg.Randomize && len(wireOrders) == 3 && c11Arrangements(wireOrders[0]) >= 40320 {
		// per-dial fresh permutation: with at least 8! distinguishable arrangements of the id
		// list, three identical orders by chance have a probability below 1e-9 per configuration
		// (lists with fewer arrangements - short or repetitive ones - are not judged: three
		// equal orders are then an ordinary coincidence)
		if wireOrders[0] == wireOrders[1] && wireOrders[1] == wireOrders[2] {
			out.fail = explore.Failf("tp-not-reshuffled", "%s: the three dials put the parameters in the same order %s although randomisation is on", cfg.id(), wireOrders[0])
		}
	}
	out.class = fmt.Sprintf("n=%d rand=%v sup=%d first-query-gap=%d", len(expect), cfg.Randomize, len(cfg.Suppress), cfg.FirstQuery)
	return out
}

// ---- fingerprint stability -------------------------------------------------------------

type c11FPConfig struct {
	Base  int    `json:"base"`
	Reuse bool   `json:"reuse"` // one spec value for all dials / a fresh QUICID2Spec per dial
	Seed  uint64 `json:"seed"`
}

func c11Fingerprint(events []sim.Event) (string, error) {
	gci := clienthellod.GatherClientInitialsWithDeadline(time.Now().Add(time.Hour))
	for _, e := range events {
		ci, err := clienthellod.UnmarshalQUICClientInitialPacket(e.Data)
		if err != nil {
			return "", fmt.Errorf("clienthellod cannot read datagram: %w", err)
		}
		if err := gci.AddPacket(ci); err != nil {
			return "", fmt.Errorf("clienthellod rejects packet: %w", err)
		}
	}
	if !gci.Completed() {
		return "", fmt.Errorf("clienthellod could not complete the ClientHello from %d datagrams", len(events))
	}
	fp, err := clienthellod.GenerateQUICFingerprint(gci)
	if err != nil {
		return "", err
	}
	return fp.HexID, nil
}

func c11RunFP(t *testing.T, cfg c11FPConfig) c11Outcome {
	var out c11Outcome
	b := c11Bases[cfg.Base]
	var shared *quic.QUICSpec
	var idsSeen []string
	for dial := 1; dial <= 3 && out.fail == nil; dial++ {
		for s := uint64(0); s < 3 && out.fail == nil; s++ {
			var fl sim.Flight
			var hex string
			var ferr error
			sim.Run(t, "run", cfg.Seed*64+uint64(dial)*8+s, func(t *testing.T) {
				w := sim.NewWorld(nil)
				d, _, _ := w.NewDialer(sim.ClientKind{Name: b.Name, U: true, Spec: func() *quic.QUICSpec {
					if cfg.Reuse && shared != nil {
						return shared
					}
					sp, err := quic.QUICID2Spec(b.ID)
					if err != nil {
						panic(err)
					}
					shared = &sp
					return shared
				}})
				fl = sim.CaptureFlight(w, d, &quic.Config{}, 300*time.Millisecond)
				d.Close()
				w.CloseEndpoints()
				hex, ferr = c11Fingerprint(fl.First) // inside the bubble: clienthellod uses deadlines
			})
			if ferr != nil {
				out.fail = explore.Failf(b.Name+":fingerprinter-error", "%s dial %d: %v", b.Name, dial, ferr)
				break
			}
			idsSeen = append(idsSeen, hex)
		}
	}
	if out.fail == nil {
		u := append([]string{}, idsSeen...)
		sort.Strings(u)
		u = slices.Compact(u)
		if len(u) != 1 {
			out.fail = explore.Failf(b.Name+":fingerprint-unstable", "%s (reuse=%v): the reference fingerprinter reports %d different identifiers over 9 dials: %v", b.Name, cfg.Reuse, len(u), u)
		} else if b.Recorded && u[0] != b.ID.Fingerprint {
			out.fail = explore.Failf(b.Name+":fingerprint-differs-from-recorded", "%s: the wire fingerprints as %s, the QUICID records %s", b.Name, u[0], b.ID.Fingerprint)
		}
		out.class = fmt.Sprintf("%s fp=%s", b.Name, u[0])
	}
	return out
}

// ---- enumeration ----------------------------------------------------------------------

func c11Lists(maxLen int) [][]int {
	out := [][]int{}
	var rec func(cur []int)
	rec = func(cur []int) {
		if len(cur) > 0 {
			out = append(out, append([]int{}, cur...))
		}
		if len(cur) == maxLen {
			return
		}
		for a := range c11Atoms {
			rec(append(cur, a))
		}
	}
	rec(nil)
	return out
}

func TestVerifC11(t *testing.T) {
	sim.InitCerts(t)
	wirePart := explore.Part{Name: "wire-vs-spec"}
	mk := func(e explore.Env) ([]c11Config, string) {
		seed := uint64(e.Seed) + 5
		var cfgs []c11Config
		// (a) every built-in fingerprint: own list x suppression sets x randomisation
		for b := range c11Bases {
			sp, _ := quic.QUICID2Spec(c11Bases[b].ID)
			var present []uint64
			for _, p := range c11QTP(&sp).TransportParameters {
				id := p.ID()
				if wireobs.IsGreaseTP(id) {
					id = quic.QTPGrease
				}
				if !slices.Contains(present, id) {
					present = append(present, id)
				}
			}
			sets := [][]uint64{nil}
			for i := range present { // every single id and every pair; every triple in thorough
				sets = append(sets, []uint64{present[i]})
				for j := i + 1; j < len(present); j++ {
					sets = append(sets, []uint64{present[i], present[j]})
					if e.Thorough() {
						for k := j + 1; k < len(present); k++ {
							sets = append(sets, []uint64{present[i], present[j], present[k]})
						}
					}
				}
			}
			sets = append(sets, []uint64{0xdead}, []uint64{quic.QTPGrease, quic.QTPGrease})
			for _, p := range c11QTP(&sp).TransportParameters { // the exact (pinned) id of a GREASE parameter
				if id := p.ID(); wireobs.IsGreaseTP(id) && id != quic.QTPGrease {
					sets = append(sets, []uint64{id}, []uint64{id + 31})
				}
			}
			for _, s := range sets {
				for _, r := range []bool{false, true} {
					cfgs = append(cfgs, c11Config{Base: b, Suppress: s, Randomize: r, SCIDLen: -1, Seed: seed})
				}
			}
			for _, sl := range []int{0, 8} {
				cfgs = append(cfgs, c11Config{Base: b, Randomize: true, SCIDLen: sl, Seed: seed})
				cfgs = append(cfgs, c11Config{Base: b, Randomize: sl%2 == 0, SCIDLen: sl, VN: true, Seed: seed})
			}
		}
		// (b) generated parameter lists on two bases
		maxLen, listBases := 3, []int{0, 2}
		if e.Thorough() {
			maxLen, listBases = 4, []int{0, 2, 4, 6}
		}
		for _, b := range listBases {
			for _, l := range c11Lists(maxLen) {
				// (27+31*5 is the exact id of the fake-grease-id atom: a GREASE-shaped id other than the
				// canonical 27 names exactly that one parameter, not every GREASE parameter)
				for _, sup := range [][]uint64{nil, {quic.QTPGrease}, {0x01}, {27 + 31*5}, {27 + 31*6}} {
					for _, r := range []bool{false, true} {
						cfgs = append(cfgs, c11Config{Base: b, List: l, Suppress: sup, Randomize: r, SCIDLen: 8, Seed: seed})
					}
				}
			}
		}
		// (c) the placements of the caller's TransportParameterIDs() calls among the three dials on
		// the one spec value (see c11Config.FirstQuery): all four on the built-in lists (a); on the
		// generated lists (b) the two extremes - queried before the first dial / never queried
		// before a dial - and, in thorough, all four on the lists of <= 3 entries
		base := cfgs
		cfgs = nil
		for _, c := range base {
			qs := []int{0, 1, 2, 3}
			if c.List != nil && !(e.Thorough() && len(c.List) <= 3) {
				qs = []int{0, 3}
			}
			for _, q := range qs {
				c.FirstQuery = q
				cfgs = append(cfgs, c)
			}
		}
		for i := range cfgs {
			cfgs[i].Seed = seed + uint64(i)*3
		}
		return cfgs, fmt.Sprintf("(a) 7 built-in fingerprints x {no suppression, every single present id and every pair (triples in thorough), absent id, GREASE twice} x randomisation on/off, plus SCID lengths 0/8 with randomisation; (b) every transport parameter list of <= %d entries over %d atoms (standard, fake raw, GREASE with random id and length, fake with a GREASE id, duplicate id, empty initial_source_connection_id) x 5 suppression sets (none, every GREASE, a standard id, the exact id of one GREASE-shaped parameter, an absent GREASE-shaped id) x randomisation on/off on %d bases; 3 dials on ONE reused spec value each x placements of the caller's TransportParameterIDs() queries (in every gap from gap g on, g dials done: g = 0..3 on (a) [and on the lists of <= 3 entries of (b) in thorough], g = 0 and 3 on (b): before the first dial ... only after the last one; every report judged against the canonicalised wire ids of every dial)", maxLen, len(c11Atoms), len(listBases))
	}
	wirePart.Run = func(e explore.Env) *explore.Report {
		cfgs, rule := mk(e)
		rep := explore.RunCases(e, len(cfgs), 1, false, func(i int) explore.CaseResult {
			explore.MarkCurrent(e, "wire-vs-spec", cfgs[i])
			o := c11Run(t, cfgs[i])
			cr := explore.CaseResult{Outcome: o.class, Execs: 3, Trans: 3, Replay: cfgs[i]}
			if o.fail != nil {
				cr.Fail, cr.Human = o.fail, []string{cfgs[i].id()}
			}
			return cr
		})
		rep.Level, rep.Rule, rep.Bound = "fault_enumeration", rule, rule
		rep.Samples = []any{cfgs[0].id(), cfgs[len(cfgs)/2].id(), cfgs[len(cfgs)-1].id()}
		return rep
	}
	wirePart.Replay = func(e explore.Env, raw json.RawMessage) *explore.Violation {
		var cfg c11Config
		if err := json.Unmarshal(raw, &cfg); err != nil {
			t.Fatal(err)
		}
		o := c11Run(t, cfg)
		if o.fail == nil {
			return nil
		}
		return &explore.Violation{Key: o.fail.Key, What: o.fail.What, Human: []string{cfg.id()}}
	}
	fpPart := explore.Part{Name: "fingerprint"}
	mkFP := func(e explore.Env) []c11FPConfig {
		var cfgs []c11FPConfig
		for b := range c11Bases {
			for _, r := range []bool{false, true} {
				cfgs = append(cfgs, c11FPConfig{Base: b, Reuse: r, Seed: uint64(e.Seed) + 9})
			}
		}
		return cfgs
	}
	fpPart.Run = func(e explore.Env) *explore.Report {
		cfgs := mkFP(e)
		rep := explore.RunCases(e, len(cfgs), 1, false, func(i int) explore.CaseResult {
			explore.MarkCurrent(e, "fingerprint", cfgs[i])
			o := c11RunFP(t, cfgs[i])
			cr := explore.CaseResult{Outcome: o.class, Execs: 9, Trans: 9, Replay: cfgs[i]}
			if o.fail != nil {
				cr.Fail = o.fail
			}
			return cr
		})
		rep.Level = "fault_enumeration"
		rep.Rule = "every built-in QUICID x {fresh QUICID2Spec per dial, one reused spec value} x 3 dials x 3 seeds: clienthellod.GatherClientInitials + GenerateQUICFingerprint over the captured first flight; identifier identical over all 9 dials and equal to QUICID.Fingerprint for the recorded fingerprints (Chrome_115 IPv4/IPv6, Firefox_116 A/B/C)"
		rep.Bound = rep.Rule
		rep.Samples = []any{fmt.Sprintf("%+v", cfgs[0]), fmt.Sprintf("%+v", cfgs[len(cfgs)-1])}
		return rep
	}
	fpPart.Replay = func(e explore.Env, raw json.RawMessage) *explore.Violation {
		var cfg c11FPConfig
		if err := json.Unmarshal(raw, &cfg); err != nil {
			t.Fatal(err)
		}
		o := c11RunFP(t, cfg)
		if o.fail == nil {
			return nil
		}
		return &explore.Violation{Key: o.fail.Key, What: o.fail.What}
	}
	explore.Main("C11", []explore.Part{wirePart, fpPart, c11DistPart(t)}, func(msg string) { t.Fatal(msg) })
}
