# ./check configuration for C11 (merged by mc/props.py)
PROP = dict(
    pkg=".", test="TestVerifC11", files=["mc/c11/*.go"], libs=["explore", "canon", "sim", "wireobs"],
    engine="E2 simx", level="fault_enumeration", shards="ncpu", gomaxprocs=1,
    env={"GODEBUG": "randseednop=0,asyncpreemptoff=1"},
    deterministic=False, crash_is_violation=True,
    deadline=dict(quick=100, thorough=1100),
    rule="whole client+server connections of the real implementation in a synctest bubble over a fault-injecting router; one execution per static fault map (slot -> fate)",
    assumptions=["goroutine interleavings inside the connection are chosen by the Go runtime (GOMAXPROCS=1), not enumerated; oracles are schedule-independent",
                 "crypto/rand pinned per run with cryptotest.SetGlobalRandom; math/rand seeded",
                 "the three dials of a configuration share ONE spec value and are made one after the other (no overlapping dials); the caller's only other operation on the spec value is TransportParameterIDs(), placed in every gap from gap g on (g dials done; g = 0..3 on built-in lists, g = 0 and 3 on generated lists in quick) - a spec that is mutated by the caller between dials is not enumerated",
                 "with g > 0 the GREASE identifiers and values are pinned by the first dial (first use); the expected list is read off the caller's own parameter objects after that dial"],
    level_text="Exhaustive enumeration of transport-parameter lists (all lists of <= 2/3 entries over 8 atoms), suppression sets and randomisation on every built-in fingerprint, three dials on one reused spec value each, crossed with the placements of the caller's TransportParameterIDs() calls among the dials (queried before the first dial and after every dial / only from after dial 1 / from after dial 2 / only after the last dial: all four on the built-in lists, the first and the last on the generated lists [thorough: all four on generated lists of <= 3 entries], so dials on a never-queried spec value and queries on an already-dialled one are both covered); every report must equal the canonicalised wire ids of every dial before and after it; the captured first flight is decrypted and parsed by an independent observer and compared entry by entry with the spec; cipher suites, extension order and stable extension contents are compared with what uTLS serialises for the same ClientHelloSpec; the reference fingerprinter (clienthellod) must report one identifier over 9 dials per QUICID, equal to the recorded one.",
    level_note="Trusted: mc/lib/wireobs (independent Initial decryptor and ClientHello / transport-parameter reader), clienthellod as the reference fingerprinter, uTLS as the reference ClientHello serialiser. The uniformity of the shuffle is decided by the enumerated-draws part (see technique), not by frequencies.",
    technique="exhaustive parameter-list / suppression-set enumeration with an independent on-wire observer and the reference fingerprinter",
)
