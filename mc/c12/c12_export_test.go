package quic

// Export shim for the C12 harness (package quic_test): the boundary behaviour of the real
// connIDManager for one advertised active_connection_id_limit, under every history a
// conformant peer that issues its connection IDs in order can produce.
//
// The E2 part of the scenario lets the in-tree server issue IDs up to the limit, but the
// in-tree server never sets Retire Prior To. This search closes that gap at the component
// that enforces the limit: a fresh connIDManager is configured the way u_connection.go
// configures it for a spec-driven client (SetConnectionIDLimit with the advertised value)
// and driven through every sequence of
//   - NEW_CONNECTION_ID(seq = next, retire_prior_to = r) for every r that keeps the number of
//     IDs the peer has issued and not asked to retire (seq >= highest Retire Prior To) within
//     the advertised limit,
//   - handshake completion,
//   - use (enough packets sent for a rotation to be due, then Get),
// up to sequence number limit+3. Every such frame must be accepted.

import (
	"context"
	"fmt"
	"strings"
	"sync/atomic"
	"time"

	"github.com/refraction-networking/uquic/internal/handshake"
	"github.com/refraction-networking/uquic/internal/protocol"
	"github.com/refraction-networking/uquic/internal/utils"
	"github.com/refraction-networking/uquic/internal/wire"
	"github.com/refraction-networking/uquic/qlogwriter"
	tls "github.com/refraction-networking/utls"
)

// VerifC12PeerAdvertises makes the in-tree server (the conformant peer of the C12 scenarios)
// build the transport parameters it ADVERTISES from an edited copy of its Config, while the
// server connection itself keeps running with the Config it was given. This is the only way
// to obtain a peer that advertises max_idle_timeout = 0 ("the peer does not limit the idle
// period", RFC 9000 18.2, equivalent to omitting the parameter): Config.MaxIdleTimeout = 0
// means "default" to the in-tree server, so no Config makes it send that value.
//
// newConnection is a package-level hook of the code under test; a worker process runs one
// execution at a time, the hook is installed before the server starts and removed by the
// returned function after both endpoints are closed. used reports how many server
// connections were created through the hook (harness sanity: exactly one per execution).
func VerifC12PeerAdvertises(edit func(advertised *Config)) (restore func(), used func() int) {
	orig := newConnection
	var calls atomic.Int32
	newConnection = func(
		ctx context.Context,
		ctxCancel context.CancelCauseFunc,
		conn sendConn,
		runner connRunner,
		origDestConnID protocol.ConnectionID,
		retrySrcConnID *protocol.ConnectionID,
		clientDestConnID protocol.ConnectionID,
		destConnID protocol.ConnectionID,
		srcConnID protocol.ConnectionID,
		connIDGenerator ConnectionIDGenerator,
		statelessResetter *statelessResetter,
		conf *Config,
		tlsConf *tls.Config,
		tokenGenerator *handshake.TokenGenerator,
		clientAddressValidated bool,
		rtt time.Duration,
		qlogTrace qlogwriter.Trace,
		logger utils.Logger,
		v protocol.Version,
	) *wrappedConn {
		calls.Add(1)
		advertised := conf.Clone()
		edit(advertised)
		wc := orig(ctx, ctxCancel, conn, runner, origDestConnID, retrySrcConnID, clientDestConnID, destConnID, srcConnID,
			connIDGenerator, statelessResetter, advertised, tlsConf, tokenGenerator, clientAddressValidated, rtt, qlogTrace, logger, v)
		wc.Conn.config = conf
		return wc
	}
	return func() { newConnection = orig }, func() int { return int(calls.Load()) }
}

type verifC12CIDOp struct {
	kind byte // 'f' frame, 'h' handshake complete, 'u' use
	rpt  uint64
}

// VerifC12CIDBoundary returns the number of distinct states and transitions explored and a
// description of the first conformant frame that was rejected ("" if none).
func VerifC12CIDBoundary(limit uint64, specDriven bool) (states, transitions int, failure string) {
	type node struct{ hist []verifC12CIDOp }
	build := func(hist []verifC12CIDOp) (m *connIDManager, n, maxRPT uint64, err error, trace string) {
		m = newConnIDManager(protocol.ParseConnectionID([]byte{0xc1, 0x2c, 0, 0}),
			func(protocol.StatelessResetToken) {}, func(protocol.StatelessResetToken) {}, func(wire.Frame) {})
		if specDriven {
			m.SetConnectionIDLimit(limit)
		}
		var sb strings.Builder
		for _, op := range hist {
			switch op.kind {
			case 'h':
				m.SetHandshakeComplete()
				sb.WriteString(" handshake-complete")
			case 'u':
				m.packetsSinceLastChange = max(m.packetsSinceLastChange, m.packetsPerConnectionID) // as many SentPacket calls
				m.Get()
				fmt.Fprintf(&sb, " use(active=%d)", m.activeSequenceNumber)
			case 'f':
				n++
				maxRPT = max(maxRPT, op.rpt)
				fmt.Fprintf(&sb, " ncid(%d,rpt=%d)", n, op.rpt)
				err = m.Add(&wire.NewConnectionIDFrame{
					SequenceNumber:      n,
					RetirePriorTo:       op.rpt,
					ConnectionID:        protocol.ParseConnectionID([]byte{0xc1, 0x2c, byte(n), 1}),
					StatelessResetToken: protocol.StatelessResetToken{0x12, byte(n)},
				})
				if err != nil {
					return m, n, maxRPT, err, sb.String()
				}
			}
		}
		return m, n, maxRPT, nil, sb.String()
	}
	key := func(m *connIDManager, n, maxRPT uint64) string {
		var sb strings.Builder
		fmt.Fprintf(&sb, "%d %d %d %d %v %v|", n, maxRPT, m.activeSequenceNumber, m.highestRetired, m.handshakeComplete, m.packetsSinceLastChange >= m.packetsPerConnectionID)
		for _, e := range m.queue {
			fmt.Fprintf(&sb, "%d,", e.SequenceNumber)
		}
		return sb.String()
	}
	seen := map[string]bool{}
	frontier := []node{{}}
	m0, _, _, _, _ := build(nil)
	seen[key(m0, 0, 0)] = true
	for len(frontier) > 0 {
		cur := frontier[0]
		frontier = frontier[1:]
		m, n, maxRPT, _, _ := build(cur.hist)
		var ops []verifC12CIDOp
		if !m.handshakeComplete {
			ops = append(ops, verifC12CIDOp{kind: 'h'})
		}
		ops = append(ops, verifC12CIDOp{kind: 'u'})
		if n < limit+3 {
			for r := uint64(0); r <= n+1; r++ {
				// IDs the peer considers active afterwards: max(r, maxRPT) .. n+1
				if n+1-max(r, maxRPT)+1 <= limit {
					ops = append(ops, verifC12CIDOp{kind: 'f', rpt: r})
				}
			}
		}
		for _, op := range ops {
			h := append(append([]verifC12CIDOp{}, cur.hist...), op)
			transitions++
			m2, n2, rpt2, err, trace := build(h)
			if err != nil {
				return len(seen), transitions, fmt.Sprintf("%v after%s: the peer has issued sequence numbers 0..%d and asked to retire everything below %d, i.e. holds %d <= %d connection IDs", err, trace, n2, rpt2, n2-rpt2+1, limit)
			}
			k := key(m2, n2, rpt2)
			if !seen[k] {
				seen[k] = true
				frontier = append(frontier, node{h})
			}
		}
	}
	return len(seen), transitions, ""
}
